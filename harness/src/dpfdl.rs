//! Engine `dpfdl`: the REAL `FdlActiveStation` driving the REAL `DpMaster`.
//!
//! The generator is a closed-loop simulation: one real station (alone in its ring or with one
//! token-passing peer master simulated at telegram level) is polled on a scripted PHY; its only
//! application is `LogApp`, a wrapper that forwards every `FdlApplication` callback to the real
//! `DpMaster` inside and logs it in the op format of the `dp` engine (`dp.tx`, `dp.reply`, `dp.timeout`).
//! After every poll in which a callback ran, the generator calls `take_last_events` (`dp.take`); user
//! calls (`dp.piq`, `dp.diagreq`) are injected between polls.  DP slaves live on the simulated wire
//! (`dp::Slave`), with fault plans: lost request / reply, corrupted bytes, a reply from ANOTHER station
//! inside the slot, a reply to another destination, late replies, garbage, power cycles, malformed
//! replies (`dp::weird_reply`).
//!
//! The op stream of the engine is that logged history — `dp.new …` (the parameters the station was
//! built with), `dp.env fdl`, `dp.operate`, then the callbacks as the real FDL layer made them — so the
//! executor is `dp::Exec` (replays the history on a fresh real `DpMaster`), the Lean side is the `dp`
//! model, and the oracles C03 / C04 / C08 / C14 run unchanged.  Because of the `dp.env fdl` marker they
//! treat a callback outside the FDL→application contract (reply from the wrong source, reply nobody
//! waits for, …) as a violation: in this engine the contract is the real station's job.
use crate::codec::{parse_header, show_telegram};
use crate::dp::{self as dpe, MCfg, Req, Slave};
use crate::util::*;
use profirust::dp;
use profirust::fdl::{self, FdlApplication};
use profirust::phy::ProfibusPhy;
use profirust::time::{Duration, Instant};

struct Phy {
    rx: Vec<u8>,
    transmitting: bool,
    tx: Option<Vec<u8>>,
}

impl ProfibusPhy for Phy {
    fn poll_transmission(&mut self, _now: Instant) -> bool {
        self.transmitting
    }
    fn transmit_data<F, R>(&mut self, _now: Instant, f: F) -> R
    where
        F: FnOnce(&mut [u8]) -> (usize, R),
    {
        let mut buf = [0xA5u8; 256]; // a dirty transmit buffer (real PHYs reuse theirs)
        let (n, r) = f(&mut buf);
        if n > 0 {
            self.tx = Some(buf[..n.min(256)].to_vec());
        }
        r
    }
    fn receive_data<F, R>(&mut self, _now: Instant, f: F) -> R
    where
        F: FnOnce(&[u8]) -> (usize, R),
    {
        let (drop, r) = f(&self.rx);
        let d = drop.min(self.rx.len());
        self.rx.drain(..d);
        r
    }
}

/// The application the station sees: the real DP master, every callback logged first.
struct LogApp {
    inner: dp::DpMaster<'static>,
    log: Vec<String>,
}

impl FdlApplication for LogApp {
    fn transmit_telegram(
        &mut self,
        now: Instant,
        fdl: &fdl::FdlActiveStation,
        tx: fdl::TelegramTx,
        high_prio_only: fdl::HighPrioOnly,
    ) -> Option<fdl::TelegramTxResponse> {
        self.log.push(format!("dp.tx {} {}", now.total_micros(), (high_prio_only == fdl::HighPrioOnly::Yes) as u8));
        self.inner.transmit_telegram(now, fdl, tx, high_prio_only)
    }
    fn receive_reply(&mut self, now: Instant, fdl: &fdl::FdlActiveStation, addr: u8, telegram: fdl::Telegram) {
        self.log.push(format!("dp.reply {} {} {}", now.total_micros(), addr, show_telegram(&telegram)));
        self.inner.receive_reply(now, fdl, addr, telegram)
    }
    fn handle_timeout(&mut self, now: Instant, fdl: &fdl::FdlActiveStation, addr: u8) {
        self.log.push(format!("dp.timeout {} {}", now.total_micros(), addr));
        self.inner.handle_timeout(now, fdl, addr)
    }
}

/// Fault plan (per mille unless stated).
#[derive(Clone, Copy)]
struct Plan {
    lose_req: u64,
    lose_rep: u64,
    corrupt: u64,
    /// a response from another station address arrives inside the slot instead of the real reply
    foreign_src: u64,
    /// the reply is addressed to another destination
    foreign_dst: u64,
    /// the reply arrives after the slot time
    late: u64,
    garbage: u64,
    weird: u64,
    power: u64,
    user: u64,
    /// events are not collected after a poll
    sloppy: u64,
}

const CLEAN: Plan =
    Plan { lose_req: 0, lose_rep: 0, corrupt: 0, foreign_src: 0, foreign_dst: 0, late: 0, garbage: 0, weird: 0, power: 0, user: 30, sloppy: 0 };

fn text_to_bytes(t: &str) -> Option<Vec<u8>> {
    let w: Vec<&str> = t.split(' ').collect();
    match w.as_slice() {
        ["sc"] => Some(vec![0xE5]),
        ["data", a, b, c, d, e, pdu] => {
            let h = parse_header(&[a, b, c, d, e])?;
            let pdu = unhex(pdu);
            guarded(|| crate::decoder::encode(&h, &pdu))
        }
        _ => None,
    }
}

fn token(da: u8, sa: u8) -> Vec<u8> {
    vec![0xDC, da, sa]
}

fn status_resp(da: u8, sa: u8, state: fdl::ResponseState) -> Vec<u8> {
    crate::decoder::encode(
        &fdl::DataTelegramHeader {
            da,
            sa,
            dsap: None,
            ssap: None,
            fc: fdl::FunctionCode::Response { state, status: fdl::ResponseStatus::Ok },
        },
        &[],
    )
}

struct Sim<'a> {
    ops: &'a mut Vec<String>,
    cfg: MCfg,
    fdl: fdl::FdlActiveStation,
    phy: Phy,
    app: LogApp,
    handles: Vec<dp::PeripheralHandle>,
    slaves: Vec<Slave>,
    peer: Option<u8>,
    now: i64,
    dead: bool,
    /// bytes that will arrive: (time, bytes)
    pending: Vec<(i64, Vec<u8>)>,
}

impl<'a> Sim<'a> {
    fn bits(&self, b: u64) -> i64 {
        (b * 1_000_000 / self.cfg.baud) as i64
    }

    /// One poll of the real station; the callbacks it made become op lines.  Returns what it transmitted.
    fn poll(&mut self, rng: &mut Rng, plan: &Plan) -> Option<Vec<u8>> {
        // deliver what has arrived by now
        let now = self.now;
        let mut i = 0;
        while i < self.pending.len() {
            if self.pending[i].0 <= now {
                let (_, b) = self.pending.remove(i);
                self.phy.rx.extend(b);
            } else {
                i += 1;
            }
        }
        self.phy.tx = None;
        self.app.log.clear();
        let t = Instant::from_micros(now);
        let fdl = &mut self.fdl;
        let phy = &mut self.phy;
        let app = &mut self.app;
        let ok = guarded(|| fdl.poll(t, phy, app));
        let lines: Vec<String> = self.app.log.drain(..).collect();
        let any = !lines.is_empty();
        for l in lines {
            self.ops.push(l);
        }
        if ok.is_none() {
            self.dead = true;
            return None;
        }
        if any && rng.below(1000) >= plan.sloppy {
            let app = &mut self.app;
            if guarded(|| app.inner.take_last_events()).is_none() {
                self.dead = true;
            }
            self.ops.push("dp.take".to_string());
        }
        self.phy.tx.clone()
    }

    fn user_call(&mut self, rng: &mut Rng) {
        let n = self.cfg.ps.len();
        if n == 0 {
            return;
        }
        let i = rng.below(n as u64) as usize;
        let h = self.handles[i];
        if rng.chance(1, 12) {
            // F14: reset_address() at an arbitrary moment — also while the request to the old address is in
            // flight (user calls happen between polls, i.e. also between a request and its reply)
            let old = self.cfg.ps[i].addr;
            let new = match rng.below(5) {
                0 => old,
                1 if n > 1 => rng.pick(&self.cfg.ps).addr,
                _ => 3 + rng.below(60) as u8,
            };
            if new == self.cfg.own || Some(new) == self.peer {
                return;
            }
            self.app.inner.get_mut(h).reset_address(new);
            self.handles = self.app.inner.iter().map(|(h, _)| h).collect();
            self.ops.push(format!("dp.resetaddr {i} {new}"));
            self.cfg.ps[i].addr = new;
            if rng.bool() {
                self.slaves[i].addr = new;
            }
            return;
        }
        if rng.chance(2, 5) {
            self.app.inner.get_mut(h).request_diagnostics();
            self.ops.push(format!("dp.diagreq {i}"));
        } else {
            let bs = rng.bytes(self.cfg.ps[i].qlen);
            self.app.inner.get_mut(h).pi_q_mut().copy_from_slice(&bs);
            self.ops.push(format!("dp.piq {i} {}", hex(&bs)));
        }
    }

    /// What the rest of the bus does with a telegram of the station that ends at `end`.
    fn react(&mut self, rng: &mut Rng, plan: &Plan, tx: &[u8], end: i64) {
        let ts = self.cfg.own;
        let Some(Ok((t, _))) = guarded(|| fdl::Telegram::deserialize(tx)).flatten() else {
            return;
        };
        let tsdr = self.bits(11 + rng.below(50));
        match t {
            fdl::Telegram::Token(tok) => {
                if Some(tok.da) == self.peer && tok.da != ts {
                    // the peer holds the token for a while (a token-hold interruption in the middle of
                    // a DP cycle), then hands it back
                    let hold = self.bits(40 + rng.below(600));
                    if !rng.chance(1, 25) {
                        self.pending.push((end + hold, token(ts, tok.da)));
                    }
                }
            }
            fdl::Telegram::Data(d) => {
                let fdl::FunctionCode::Request { req, .. } = d.h.fc else {
                    return;
                };
                if !req.expects_reply() {
                    return;
                }
                let da = d.h.da;
                if req == fdl::RequestType::FdlStatus {
                    // GAP poll
                    if Some(da) == self.peer {
                        if rng.chance(4, 5) {
                            let st = *rng.pick(&[fdl::ResponseState::MasterWithoutToken, fdl::ResponseState::MasterNotReady]);
                            self.pending.push((end + tsdr, status_resp(ts, da, st)));
                        }
                    } else if self.slaves.iter().any(|s| s.addr == da && s.present) && rng.chance(1, 2) {
                        self.pending.push((end + tsdr, status_resp(ts, da, fdl::ResponseState::Slave)));
                    }
                    return;
                }
                // a DP request
                let req = Req {
                    da,
                    dsap: d.h.dsap,
                    ssap: d.h.ssap,
                    high: req == fdl::RequestType::SrdHigh,
                    pdu: d.pdu.to_vec(),
                };
                let (ilen, ident) =
                    self.cfg.ps.iter().find(|p| p.addr == da).map(|p| (p.ilen, p.ident)).unwrap_or((1, 0));
                let mut reply: Option<String> = None;
                if rng.below(1000) >= plan.lose_req {
                    if let Some(s) = self.slaves.iter_mut().find(|s| s.addr == da) {
                        reply = s.respond(ts, &req, rng);
                    }
                }
                if rng.below(1000) < plan.weird {
                    reply = Some(dpe::weird_reply(rng, ts, da, ilen, ident));
                }
                if rng.below(1000) < plan.lose_rep {
                    reply = None;
                }
                // reply from ANOTHER station inside the slot: a perfect data-exchange / diagnostics shaped
                // response whose source is not the addressed peripheral (babbling or mis-addressed station)
                if rng.below(1000) < plan.foreign_src {
                    let other = {
                        let o: Vec<u8> = self.cfg.ps.iter().map(|p| p.addr).filter(|a| *a != da).collect();
                        if !o.is_empty() && rng.chance(2, 3) {
                            *rng.pick(&o)
                        } else {
                            (da.wrapping_add(1 + rng.below(5) as u8)) & 0x7f
                        }
                    };
                    if other != da {
                        let t = match rng.below(4) {
                            0 => format!("data {ts} {other} 62 60 r.0.8 {}", hex(&[0x00, 0x04, 0x00, ts, 0x12, 0x34])),
                            1 => "sc-foreign".to_string(),
                            _ => format!("data {ts} {other} - - r.0.8 {}", hex(&rng.bytes(ilen))),
                        };
                        if t != "sc-foreign" {
                            reply = Some(t);
                        }
                    }
                }
                // the addressed station answers with a REQUEST-coded telegram (a confused / second master at
                // that address): the FDL layer must not hand it to the application (seed C05-m2)
                if rng.below(1000) < plan.foreign_dst {
                    let fcb = *rng.pick(&["F", "H", "L", "I"]);
                    let rq = *rng.pick(&[12u8, 13, 3, 9]);
                    let n = if rng.bool() { ilen } else { 0 };
                    reply = Some(format!("data {ts} {da} - - q.{fcb}.{rq} {}", hex(&rng.bytes(n))));
                }
                if rng.below(1000) < plan.foreign_dst {
                    let wrong = *rng.pick(&[127u8, 126, ts.wrapping_add(1) & 0x7f, 0]);
                    if wrong != ts {
                        reply = Some(format!("data {wrong} {da} - - r.0.8 {}", hex(&rng.bytes(ilen))));
                    }
                }
                let mut bytes = reply.as_deref().and_then(text_to_bytes);
                if let Some(b) = bytes.as_mut() {
                    if rng.below(1000) < plan.corrupt && !b.is_empty() {
                        let k = rng.below(b.len() as u64) as usize;
                        b[k] ^= 1 << rng.below(8);
                    }
                }
                if rng.below(1000) < plan.garbage {
                    bytes = Some(rng.bytes_below(12));
                }
                if let Some(b) = bytes {
                    let delay = if rng.below(1000) < plan.late {
                        self.cfg.slot_us() + self.bits(20 + rng.below(200))
                    } else {
                        tsdr
                    };
                    self.pending.push((end + delay, b));
                }
            }
            fdl::Telegram::ShortConfirmation(_) => {}
        }
    }
}

fn build<'a>(ops: &'a mut Vec<String>, rng: &mut Rng, n: usize, big: bool) -> Option<Sim<'a>> {
    let mut cfg = dpe::random_mcfg(rng, n, big);
    // faster bus rates dominate: more traffic per simulated second
    if rng.chance(1, 2) {
        cfg.baud = *rng.pick(&[500000u64, 1500000, 12000000]);
        cfg.bits = None;
    }
    if cfg.own > 120 {
        cfg.own = 2;
        cfg.ps.retain(|p| p.addr != 2);
    }
    let own = cfg.own;
    let peer = if rng.chance(1, 2) {
        let p = own + 1 + rng.below(3) as u8;
        if cfg.ps.iter().any(|x| x.addr == p) {
            None
        } else {
            Some(p)
        }
    } else {
        None
    };
    let hsa = own + 6;
    let ttr = match rng.below(4) {
        // a tight target rotation time: the station asks for high-priority traffic only now and then
        0 => 300 + rng.below(3000) as u32,
        _ => 20000 + rng.below(40000) as u32,
    };
    let gap_wait = 1 + rng.below(6) as u8;
    let baud = dpe::baud_of(cfg.baud)?;
    let line = cfg.text();
    let c2 = cfg.clone();
    let built = guarded(move || {
        let mut b = fdl::ParametersBuilder::new(c2.own, baud);
        if let Some(x) = c2.bits {
            b.slot_bits(x as u16);
        }
        if let Some(x) = c2.retry {
            b.max_retry_limit(x as u8);
        }
        if let Some(x) = c2.wd {
            b.watchdog_timeout(Duration::from_millis(x));
        }
        if let Some(x) = c2.mt {
            b.min_tsdr(x as u8);
        }
        b.highest_station_address(hsa);
        b.token_rotation_bits(ttr);
        b.gap_wait_rotations(gap_wait);
        let fdl = fdl::FdlActiveStation::new(b.build());
        let slots: Vec<dp::PeripheralStorage<'static>> = (0..c2.k).map(|_| Default::default()).collect();
        let mut dpm = if c2.grow {
            dp::DpMaster::new(slots)
        } else {
            let s: &'static mut [dp::PeripheralStorage<'static>] = Box::leak(slots.into_boxed_slice());
            dp::DpMaster::new(s)
        };
        let mut handles = vec![];
        for p in &c2.ps {
            handles.push(dpm.add(dpe::parse_periph(&p.text()).unwrap()));
        }
        dpm.enter_operate();
        (fdl, dpm, handles)
    })?;
    let (mut fdl, dpm, handles) = built;
    fdl.set_online();
    ops.push(line);
    ops.push("dp.env fdl".to_string());
    ops.push("dp.operate".to_string());
    let mut slaves: Vec<Slave> = cfg.ps.iter().map(Slave::new).collect();
    for s in slaves.iter_mut() {
        match rng.below(16) {
            0 => s.ident = s.ident.wrapping_add(1),
            1 => s.cfg.push(0x11),
            2 => s.present = false,
            3 => s.ilen += 1,
            _ => {}
        }
    }
    Some(Sim {
        ops,
        cfg,
        fdl,
        phy: Phy { rx: vec![], transmitting: false, tx: None },
        app: LogApp { inner: dpm, log: vec![] },
        handles,
        slaves,
        peer,
        now: 1000,
        dead: false,
        pending: vec![],
    })
}

fn run_case(ops: &mut Vec<String>, rng: &mut Rng, n: usize, big: bool, plan: Plan, want_ops: usize) {
    let start = ops.len();
    let Some(mut sim) = build(ops, rng, n, big) else {
        return;
    };
    let step = sim.bits(25 + rng.below(40)).max(1);
    let mut polls = 0u64;
    while sim.ops.len() - start < want_ops && polls < 400_000 && !sim.dead {
        polls += 1;
        if rng.below(1000) < plan.user && rng.chance(1, 20) {
            sim.user_call(rng);
        }
        if rng.below(100_000) < plan.power && !sim.slaves.is_empty() {
            let i = rng.below(sim.slaves.len() as u64) as usize;
            match rng.below(4) {
                0 => sim.slaves[i].present = !sim.slaves[i].present,
                1 => {
                    sim.slaves[i].diag_pending = true;
                    sim.slaves[i].ext = if rng.bool() { vec![] } else { vec![0x44, 0x00, 0x01, 0x00] };
                }
                2 => sim.slaves[i].not_ready = 1 + rng.below(3) as u8,
                _ => sim.slaves[i].power_cycle(),
            }
        }
        if let Some(tx) = sim.poll(rng, &plan) {
            // the transmission occupies the bus; the station is polled meanwhile and must stay quiet
            let end = sim.now + sim.bits(11 * tx.len() as u64);
            sim.react(rng, &plan, &tx, end);
            sim.phy.transmitting = true;
            if rng.chance(1, 4) && end - sim.now > 2 {
                sim.now += (end - sim.now) / 2;
                sim.poll(rng, &plan);
            }
            sim.now = end + 1;
            sim.phy.transmitting = false;
        } else {
            // jump to the next arrival if that is sooner than the regular step
            let next = sim.pending.iter().map(|p| p.0).filter(|t| *t > sim.now).min();
            sim.now = match next {
                Some(t) if t < sim.now + step => t,
                _ => sim.now + step,
            };
        }
    }
}

pub fn gen(ops: &mut Vec<String>, seed: u64, thorough: bool) {
    let mut case = 0u64;
    let mut next = || {
        case += 1;
        Rng::new(seed, "dpfdl", case)
    };
    let plans = [
        CLEAN,
        Plan { lose_req: 60, lose_rep: 60, corrupt: 30, foreign_src: 0, foreign_dst: 0, late: 20, garbage: 10, weird: 0, power: 40, user: 60, sloppy: 0 },
        Plan { lose_req: 20, lose_rep: 120, corrupt: 10, foreign_src: 120, foreign_dst: 40, late: 30, garbage: 10, weird: 0, power: 20, user: 60, sloppy: 0 },
        Plan { lose_req: 20, lose_rep: 20, corrupt: 20, foreign_src: 30, foreign_dst: 20, late: 10, garbage: 20, weird: 250, power: 30, user: 100, sloppy: 0 },
        Plan { lose_req: 300, lose_rep: 200, corrupt: 50, foreign_src: 50, foreign_dst: 20, late: 60, garbage: 40, weird: 50, power: 60, user: 60, sloppy: 0 },
        Plan { lose_req: 30, lose_rep: 30, corrupt: 10, foreign_src: 40, foreign_dst: 10, late: 10, garbage: 10, weird: 80, power: 20, user: 80, sloppy: 200 },
    ];
    let reps = if thorough { 160 } else { 8 };
    for rep in 0..reps {
        for (pi, plan) in plans.iter().enumerate() {
            let mut rng = next();
            let n = match (rep + pi) % 7 {
                0 => 0,
                1 | 2 => 1,
                3 | 4 => 2,
                5 => 3,
                _ => 4,
            };
            let big = rng.chance(1, 8);
            let want = if (rep + pi) % 3 == 0 { 1500 } else { 600 };
            run_case(ops, &mut rng, n, big, *plan, want);
        }
    }
}
