//! Engine `appsfdl`: the REAL `FdlActiveStation` driving the REAL `LiveList` and `DpScanner`
//! (`poll_multi`, round robin), so that C18 is also checked on histories the real FDL layer produces.
//!
//! Closed-loop simulation like `dpfdl`: one real station on a scripted PHY, alone in its ring or with one
//! token-passing peer master simulated at telegram level; both applications are wrapped in `LogApp`,
//! which logs every `FdlApplication` callback in the op format of the `apps` engine (`ll.tx <hp>`,
//! `ll.reply <addr> <telegram>`, `ll.timeout <addr>`, same with `sc.`) before forwarding it.  After every
//! poll in which an application had a callback the generator collects its event (`X.take`), now and then
//! it reads the live list (`ll.stations`).  The wire carries a population of responders — DP slaves
//! (answer FDL status as passive stations and diagnostics requests well-formed), other masters (answer FDL
//! status, ignore or reject diagnostics), non-DP responders (RS / SAP-not-enabled, SC, short PDUs), silent
//! addresses — announced per application by `X.env` lines and changed between phases; faults: lost and
//! corrupted replies, a reply from a wrong source inside the slot, garbage, the peer taking the token;
//! tight and generous target rotation times, so that `HighPrioOnly::Yes` token holds occur naturally.
//!
//! Op stream = `ll.new <own>`, `sc.new <own>`, `apps.env fdl`, then the logged history; executor =
//! `apps::Exec`, Lean side = the `apps` model, oracle = C18 unchanged — except that after the
//! `apps.env fdl` marker a callback outside the FDL→application contract is reported as a failure.
use crate::codec::show_telegram;
use crate::util::*;
use profirust::dp::scan::DpScanner;
use profirust::fdl::live_list::LiveList;
use profirust::fdl::{self, FdlApplication};
use profirust::phy::ProfibusPhy;
use profirust::time::Instant;
use std::cell::RefCell;
use std::rc::Rc;

struct Phy {
    rx: Vec<u8>,
    transmitting: bool,
    tx: Option<Vec<u8>>,
}

impl ProfibusPhy for Phy {
    fn poll_transmission(&mut self, _now: Instant) -> bool {
        self.transmitting
    }
    fn transmit_data<F, R>(&mut self, _now: Instant, f: F) -> R
    where
        F: FnOnce(&mut [u8]) -> (usize, R),
    {
        let mut buf = [0xA5u8; 256]; // a dirty transmit buffer (real PHYs reuse theirs)
        let (n, r) = f(&mut buf);
        if n > 0 {
            self.tx = Some(buf[..n.min(256)].to_vec());
        }
        r
    }
    fn receive_data<F, R>(&mut self, _now: Instant, f: F) -> R
    where
        F: FnOnce(&[u8]) -> (usize, R),
    {
        let (drop, r) = f(&self.rx);
        let d = drop.min(self.rx.len());
        self.rx.drain(..d);
        r
    }
}

type Log = Rc<RefCell<Vec<String>>>;

struct LogApp<A: FdlApplication> {
    k: &'static str,
    inner: A,
    log: Log,
}

impl<A: FdlApplication> FdlApplication for LogApp<A> {
    fn transmit_telegram(
        &mut self,
        now: Instant,
        fdl: &fdl::FdlActiveStation,
        tx: fdl::TelegramTx,
        high_prio_only: fdl::HighPrioOnly,
    ) -> Option<fdl::TelegramTxResponse> {
        self.log.borrow_mut().push(format!("{}.tx {}", self.k, (high_prio_only == fdl::HighPrioOnly::Yes) as u8));
        self.inner.transmit_telegram(now, fdl, tx, high_prio_only)
    }
    fn receive_reply(&mut self, now: Instant, fdl: &fdl::FdlActiveStation, addr: u8, telegram: fdl::Telegram) {
        self.log.borrow_mut().push(format!("{}.reply {} {}", self.k, addr, show_telegram(&telegram)));
        self.inner.receive_reply(now, fdl, addr, telegram)
    }
    fn handle_timeout(&mut self, now: Instant, fdl: &fdl::FdlActiveStation, addr: u8) {
        self.log.borrow_mut().push(format!("{}.timeout {}", self.k, addr));
        self.inner.handle_timeout(now, fdl, addr)
    }
}

/// What answers an FDL status request at an address.
#[derive(Clone, PartialEq)]
enum StatusBeh {
    Silent,
    Resp(fdl::ResponseState),
    Sc,
}

/// What answers a diagnostics request (DSAP 60 / SSAP 62) at an address.
#[derive(Clone, PartialEq)]
enum DiagBeh {
    Silent,
    /// well-formed diagnostics response
    Good(Vec<u8>),
    /// a response that is no diagnostics response: no SAPs / RS status, SC, short PDU, wrong SAPs
    Rs(u8),
    Sc,
    Short(Vec<u8>),
    WrongSaps(Vec<u8>),
}

#[derive(Clone)]
struct Responder {
    status: StatusBeh,
    diag: DiagBeh,
}

const SILENT: Responder = Responder { status: StatusBeh::Silent, diag: DiagBeh::Silent };

fn diag_pdu(rng: &mut Rng) -> Vec<u8> {
    let mut p = vec![
        rng.u8() & 0x0f,
        0x04 | (rng.u8() & 0xf3),
        0,
        match rng.below(3) {
            0 => 255,
            _ => rng.below(126) as u8,
        },
        *rng.pick(&[0x00u8, 0x12, 0x80, 0xff]),
        *rng.pick(&[0x01u8, 0x34, 0x7f, 0xff]),
    ];
    if rng.chance(1, 4) {
        p.extend(rng.bytes_below(5));
    }
    p
}

fn random_responder(rng: &mut Rng, in_gap: bool) -> Responder {
    match rng.below(10) {
        // DP slave
        0..=4 => Responder { status: StatusBeh::Resp(fdl::ResponseState::Slave), diag: DiagBeh::Good(diag_pdu(rng)) },
        // another master (outside the GAP range only: inside it would be drawn into the ring)
        5 | 6 if !in_gap => Responder {
            status: StatusBeh::Resp(*rng.pick(&[
                fdl::ResponseState::MasterInRing,
                fdl::ResponseState::MasterWithoutToken,
                fdl::ResponseState::MasterNotReady,
            ])),
            diag: if rng.bool() { DiagBeh::Silent } else { DiagBeh::Rs(3) },
        },
        // non-DP responders
        7 => Responder { status: StatusBeh::Resp(fdl::ResponseState::Slave), diag: DiagBeh::Rs(*rng.pick(&[3u8, 2, 1, 9])) },
        8 => Responder {
            status: StatusBeh::Resp(fdl::ResponseState::Slave),
            diag: match rng.below(3) {
                0 => DiagBeh::Sc,
                1 => DiagBeh::Short(rng.bytes_below(6)),
                _ => DiagBeh::WrongSaps(diag_pdu(rng)),
            },
        },
        // answers diagnostics but not the FDL status request
        _ => Responder { status: StatusBeh::Silent, diag: DiagBeh::Good(diag_pdu(rng)) },
    }
}

fn enc(da: u8, sa: u8, dsap: Option<u8>, ssap: Option<u8>, state: fdl::ResponseState, status: fdl::ResponseStatus, pdu: &[u8]) -> Vec<u8> {
    crate::decoder::encode(
        &fdl::DataTelegramHeader { da, sa, dsap, ssap, fc: fdl::FunctionCode::Response { state, status } },
        pdu,
    )
}

fn status_of(b: u8) -> fdl::ResponseStatus {
    match b {
        1 => fdl::ResponseStatus::UserError,
        2 => fdl::ResponseStatus::NoResources,
        3 => fdl::ResponseStatus::SapNotEnabled,
        9 => fdl::ResponseStatus::NoDataReady,
        _ => fdl::ResponseStatus::Ok,
    }
}

#[derive(Clone, Copy)]
struct Plan {
    lose: u64,
    corrupt: u64,
    foreign_src: u64,
    garbage: u64,
    /// events are not collected after a poll
    sloppy: u64,
}

const CLEAN: Plan = Plan { lose: 0, corrupt: 0, foreign_src: 0, garbage: 0, sloppy: 0 };

struct Sim<'a> {
    ops: &'a mut Vec<String>,
    own: u8,
    baud: u64,
    slot_bits: u64,
    fdl: fdl::FdlActiveStation,
    phy: Phy,
    ll: LogApp<LiveList>,
    sc: LogApp<DpScanner>,
    log: Log,
    pop: Vec<Responder>,
    peer: Option<u8>,
    now: i64,
    dead: bool,
    pending: Vec<(i64, Vec<u8>)>,
    callbacks: u64,
}

impl<'a> Sim<'a> {
    fn bits(&self, b: u64) -> i64 {
        (b * 1_000_000 / self.baud) as i64
    }

    fn env(&mut self) {
        let ll: Vec<String> = (0..126usize)
            .filter_map(|a| match self.pop[a].status {
                StatusBeh::Silent => None,
                StatusBeh::Resp(_) => Some(format!("{a}:g")),
                StatusBeh::Sc => Some(format!("{a}:m")),
            })
            .collect();
        let sc: Vec<String> = (0..126usize)
            .filter_map(|a| match self.pop[a].diag {
                DiagBeh::Silent => None,
                DiagBeh::Good(_) => Some(format!("{a}:g")),
                _ => Some(format!("{a}:m")),
            })
            .collect();
        let j = |v: Vec<String>| if v.is_empty() { "-".to_string() } else { v.join(",") };
        self.ops.push(format!("ll.env {}", j(ll)));
        self.ops.push(format!("sc.env {}", j(sc)));
    }

    fn poll(&mut self, rng: &mut Rng, plan: &Plan) -> Option<Vec<u8>> {
        let now = self.now;
        let mut i = 0;
        while i < self.pending.len() {
            if self.pending[i].0 <= now {
                let (_, b) = self.pending.remove(i);
                self.phy.rx.extend(b);
            } else {
                i += 1;
            }
        }
        self.phy.tx = None;
        self.log.borrow_mut().clear();
        let t = Instant::from_micros(now);
        let (fdl, phy, ll, sc) = (&mut self.fdl, &mut self.phy, &mut self.ll, &mut self.sc);
        let ok = guarded(|| fdl.poll_multi(t, phy, &mut [ll as &mut dyn FdlApplication, sc as &mut dyn FdlApplication]));
        let lines: Vec<String> = self.log.borrow_mut().drain(..).collect();
        let (mut had_ll, mut had_sc) = (false, false);
        for l in lines {
            if !l.contains(".tx ") {
                self.callbacks += 1;
                if l.starts_with("ll.") {
                    had_ll = true
                } else {
                    had_sc = true
                }
            }
            self.ops.push(l);
        }
        if ok.is_none() {
            self.dead = true;
            return None;
        }
        if rng.below(1000) >= plan.sloppy {
            if had_ll {
                let _ = self.ll.inner.take_last_event();
                self.ops.push("ll.take".to_string());
            }
            if had_sc {
                let _ = self.sc.inner.take_last_event();
                self.ops.push("sc.take".to_string());
            }
        }
        if had_ll && self.callbacks % 97 == 0 {
            self.ops.push("ll.stations".to_string());
        }
        self.phy.tx.clone()
    }

    fn react(&mut self, rng: &mut Rng, plan: &Plan, tx: &[u8], end: i64) {
        let ts = self.own;
        let Some(Ok((t, _))) = guarded(|| fdl::Telegram::deserialize(tx)).flatten() else {
            return;
        };
        let tsdr = self.bits(11 + rng.below(50));
        match t {
            fdl::Telegram::Token(tok) => {
                if Some(tok.da) == self.peer && tok.da != ts {
                    let hold = self.bits(40 + rng.below(800));
                    if !rng.chance(1, 30) {
                        self.pending.push((end + hold, vec![0xDC, ts, tok.da]));
                    }
                }
            }
            fdl::Telegram::Data(d) => {
                let fdl::FunctionCode::Request { req, .. } = d.h.fc else {
                    return;
                };
                if !req.expects_reply() || d.h.da > 125 || d.h.da == ts {
                    return;
                }
                let da = d.h.da;
                let r = self.pop[da as usize].clone();
                let mut bytes: Option<Vec<u8>> = if req == fdl::RequestType::FdlStatus {
                    if Some(da) == self.peer {
                        Some(enc(ts, da, None, None, fdl::ResponseState::MasterWithoutToken, fdl::ResponseStatus::Ok, &[]))
                    } else {
                        match r.status {
                            StatusBeh::Silent => None,
                            StatusBeh::Resp(st) => Some(enc(ts, da, None, None, st, fdl::ResponseStatus::Ok, &[])),
                            StatusBeh::Sc => Some(vec![0xE5]),
                        }
                    }
                } else if d.h.dsap == Some(60) {
                    match r.diag {
                        DiagBeh::Silent => None,
                        DiagBeh::Good(p) => {
                            Some(enc(ts, da, Some(62), Some(60), fdl::ResponseState::Slave, fdl::ResponseStatus::DataLow, &p))
                        }
                        DiagBeh::Rs(s) => Some(enc(ts, da, None, None, fdl::ResponseState::Slave, status_of(s), &[])),
                        DiagBeh::Sc => Some(vec![0xE5]),
                        DiagBeh::Short(p) => {
                            Some(enc(ts, da, Some(62), Some(60), fdl::ResponseState::Slave, fdl::ResponseStatus::DataLow, &p))
                        }
                        DiagBeh::WrongSaps(p) => {
                            Some(enc(ts, da, Some(60), Some(62), fdl::ResponseState::Slave, fdl::ResponseStatus::DataLow, &p))
                        }
                    }
                } else {
                    None
                };
                if rng.below(1000) < plan.lose {
                    bytes = None;
                }
                // a response from a wrong source inside the slot (another station answers)
                if rng.below(1000) < plan.foreign_src {
                    let other = (da + 1 + rng.below(5) as u8) % 126;
                    if other != da && other != ts {
                        bytes = Some(if rng.bool() {
                            enc(ts, other, None, None, fdl::ResponseState::Slave, fdl::ResponseStatus::Ok, &[])
                        } else {
                            enc(ts, other, Some(62), Some(60), fdl::ResponseState::Slave, fdl::ResponseStatus::DataLow, &diag_pdu(rng))
                        });
                    }
                }
                if let Some(b) = bytes.as_mut() {
                    if rng.below(1000) < plan.corrupt && !b.is_empty() {
                        let k = rng.below(b.len() as u64) as usize;
                        b[k] ^= 1 << rng.below(8);
                    }
                }
                if rng.below(1000) < plan.garbage {
                    bytes = Some(rng.bytes_below(10));
                }
                if let Some(b) = bytes {
                    self.pending.push((end + tsdr, b));
                }
            }
            fdl::Telegram::ShortConfirmation(_) => {}
        }
    }

    /// Run until both applications together had `n` more callbacks.
    fn run(&mut self, rng: &mut Rng, plan: &Plan, n: u64) {
        let goal = self.callbacks + n;
        let step = self.bits(25 + rng.below(40)).max(1);
        let mut polls = 0u64;
        while self.callbacks < goal && polls < 3_000_000 && !self.dead {
            polls += 1;
            if let Some(tx) = self.poll(rng, plan) {
                let end = self.now + self.bits(11 * tx.len() as u64);
                self.react(rng, plan, &tx, end);
                self.now = end + 1;
            } else {
                let next = self.pending.iter().map(|p| p.0).filter(|t| *t > self.now).min();
                self.now = match next {
                    Some(t) if t < self.now + step => t,
                    _ => self.now + step,
                };
            }
        }
        let _ = self.slot_bits;
    }
}

fn random_pop(rng: &mut Rng, own: u8, hsa: u8, peer: Option<u8>) -> Vec<Responder> {
    let density = *rng.pick(&[0u64, 3, 10, 30, 70]);
    let mut pop: Vec<Responder> = (0..126u8)
        .map(|a| {
            if a == own || Some(a) == peer {
                SILENT
            } else if rng.below(100) < density {
                random_responder(rng, a > own && a < hsa)
            } else {
                SILENT
            }
        })
        .collect();
    for a in [0usize, 1, 124, 125] {
        if a as u8 != own && Some(a as u8) != peer && rng.bool() {
            pop[a] = random_responder(rng, (a as u8) > own && (a as u8) < hsa);
        }
    }
    pop
}

fn run_case(ops: &mut Vec<String>, rng: &mut Rng, plan: Plan, phases: usize) {
    let own = *rng.pick(&[0u8, 1, 2, 2, 7, 63, 119]);
    let baud = *rng.pick(&[187500u64, 500000, 1500000, 12000000]);
    let baud_e = crate::dp::baud_of(baud).unwrap();
    let hsa = own + 6;
    let peer = if rng.chance(1, 2) { Some(own + 1 + rng.below(3) as u8) } else { None };
    // tight target rotation times make the station ask for high-priority traffic only
    let ttr = match rng.below(3) {
        0 => 256 + rng.below(1500) as u32,
        _ => 20000 + rng.below(40000) as u32,
    };
    let gap_wait = 1 + rng.below(8) as u8;
    let Some(mut fdl) = guarded(|| {
        let mut b = fdl::ParametersBuilder::new(own, baud_e);
        b.highest_station_address(hsa);
        b.token_rotation_bits(ttr);
        b.gap_wait_rotations(gap_wait);
        fdl::FdlActiveStation::new(b.build())
    }) else {
        return;
    };
    fdl.set_online();
    let slot_bits = u64::from(fdl.parameters().slot_bits);
    ops.push(format!("ll.new {own}"));
    ops.push(format!("sc.new {own}"));
    ops.push("apps.env fdl".to_string());
    let log: Log = Rc::new(RefCell::new(vec![]));
    let pop = random_pop(rng, own, hsa, peer);
    let mut sim = Sim {
        ops,
        own,
        baud,
        slot_bits,
        fdl,
        phy: Phy { rx: vec![], transmitting: false, tx: None },
        ll: LogApp { k: "ll", inner: LiveList::new(), log: log.clone() },
        sc: LogApp { k: "sc", inner: DpScanner::new(), log: log.clone() },
        log,
        pop,
        peer,
        now: 1000,
        dead: false,
        pending: vec![],
        callbacks: 0,
    };
    // the peer answers status requests as a master and nothing else
    if let Some(p) = peer {
        sim.pop[p as usize] = Responder { status: StatusBeh::Resp(fdl::ResponseState::MasterWithoutToken), diag: DiagBeh::Silent };
    }
    sim.env();
    for ph in 0..phases {
        let n = match rng.below(3) {
            0 => 60 + rng.below(200),
            _ => 260 + rng.below(300),
        };
        sim.run(rng, &plan, n);
        if sim.dead {
            return;
        }
        // stations appear / disappear / change their kind
        let changes = 1 + rng.below(10);
        for _ in 0..changes {
            let a = rng.below(126) as u8;
            if a == own || Some(a) == peer {
                continue;
            }
            sim.pop[a as usize] = if sim.pop[a as usize].status == StatusBeh::Silent && sim.pop[a as usize].diag == DiagBeh::Silent {
                random_responder(rng, a > own && a < hsa)
            } else if rng.bool() {
                SILENT
            } else {
                random_responder(rng, a > own && a < hsa)
            };
        }
        sim.env();
        let _ = ph;
    }
    // a stable, fault-free end: more than two full sweeps of both applications (2 x 2 x 126 callbacks)
    let extra = rng.below(60);
    sim.run(rng, &CLEAN, 2 * 2 * 126 + 2 * 130 + extra);
    sim.ops.push("ll.stations".to_string());
}

pub fn gen(ops: &mut Vec<String>, seed: u64, thorough: bool) {
    let mut case = 0u64;
    let mut next = || {
        case += 1;
        Rng::new(seed, "appsfdl", case)
    };
    let plans = [
        CLEAN,
        Plan { lose: 30, corrupt: 15, foreign_src: 0, garbage: 5, sloppy: 0 },
        Plan { lose: 20, corrupt: 10, foreign_src: 40, garbage: 10, sloppy: 0 },
        Plan { lose: 150, corrupt: 40, foreign_src: 20, garbage: 20, sloppy: 0 },
        Plan { lose: 20, corrupt: 10, foreign_src: 10, garbage: 5, sloppy: 150 },
    ];
    let reps = if thorough { 40 } else { 2 };
    for rep in 0..reps {
        for plan in plans.iter() {
            let mut rng = next();
            run_case(ops, &mut rng, *plan, (rep % 3) + 1);
        }
    }
}
