//! Engine `dp` (stateful): `DpMaster` / `Peripheral` (src/dp/{master,peripheral,peripheral_set}.rs)
//! driven directly through the `FdlApplication` trait with a real `FdlActiveStation` as the `fdl`
//! argument (it only supplies `parameters()`).
//!
//! Ops:
//!   `dp.new <own> <baud> <slotbits|-> <retry|-> <wd_ms|-> <min_tsdr|-> <a<k>|v<k>> <periph>*`
//!        ParametersBuilder::new(own, baud) [.slot_bits] [.max_retry_limit] [.watchdog_timeout]
//!        [.min_tsdr] .build();  storage `a<k>` = borrowed slice of k empty slots, `v<k>` = Vec with k
//!        empty slots;  every <periph> is `add`ed in order.  The master stays in Stop.
//!        periph = `<addr>:<ident>:<sync><freeze>:<groups>:<prm>:<cfg>:<ilen>:<qlen>:<diagbuf>`
//!        prm/cfg: `n` = None, `-` = Some(&[]), hex otherwise; diagbuf 0 = no buffer attached.
//!        -> `ok ; <summary>` | `panic`
//!   `dp.add <periph>`               -> `ok <slot> ; <summary>` | `panic`
//!   `dp.operate`                    -> `ok ; <summary>`            enter_operate()
//!   `dp.tx <now_us> <hp 0|1>`       -> `tx exp=<a|-> <hex> ; <summary>` | `none ; <summary>` | `panic` | `hang`
//!   `dp.reply <now_us> <addr> <telegram>` -> `ok ; <summary>` | `panic`
//!        telegram = `sc` | `token da sa` | `data da sa dsap ssap fc pdu`
//!   `dp.timeout <now_us> <addr>`    -> `ok ; <summary>`
//!   `dp.take`                       -> `ev cc=<0|1> p=<-|slot:addr:Event> ; <summary>`   take_last_events()
//!   `dp.piq <slot> <hex>`           -> `ok ; <summary>` | `err ; <summary>`   pi_q_mut().copy_from_slice (err: no such slot / other length)
//!   `dp.diagreq <slot>`             -> `ok ; <summary>` | `err ; <summary>`   request_diagnostics()
//!   `dp.resetaddr <slot> <addr>`    -> `ok ; <summary>` | `err ; <summary>`   get_mut(h).reset_address(addr) (F14: also while a request is in flight)
//! summary = `st=<S|C|O>` then per occupied slot ` [<slot> <addr> <is_live><is_running> i=<pi_i> q=<pi_q> d=<last_diagnostics>]`
//!   last_diagnostics = `-` | `<flags hex4>/<ident>/<master|->/<ext raw hex|none|panic>`
//!   `dp.env <fdl|->`                -> `env`    marker: the history was produced by a real FdlActiveStation
//!                                              (engine `dpfdl`); the oracles then treat a callback outside the FDL
//!                                              contract as a failure instead of dropping the case
//! After `panic` / `hang` the object is gone: every further op answers `dead` until the next `dp.new`.
//!
//! The master lives in a worker thread; an op that does not answer within `HANG_MS` is reported as
//! `hang` (the spinning worker is abandoned, a fresh one serves the next case) — this is how the
//! endless loop of F4 becomes an observation instead of a harness that never returns.
use crate::codec::parse_header;
use crate::util::*;
use profirust::dp::{self, PeripheralEvent};
use profirust::fdl::{self, FdlApplication};
use profirust::time::{Duration, Instant};
use std::sync::mpsc;

const HANG_MS: u64 = 4000;

// ------------------------------------------------------------------------------------------------
// Executor
// ------------------------------------------------------------------------------------------------

struct Live {
    fdl: fdl::FdlActiveStation,
    dp: dp::DpMaster<'static>,
    handles: Vec<dp::PeripheralHandle>,
    /// handles slots had before a `reset_address` (slot, old handle)
    retired: Vec<(usize, dp::PeripheralHandle)>,
}

enum Tg {
    Data(fdl::DataTelegramHeader, Vec<u8>),
    Token(u8, u8),
    Sc,
}

fn parse_tg(w: &[&str]) -> Option<Tg> {
    match w {
        ["data", a, b, c, d, e, pdu] => Some(Tg::Data(parse_header(&[a, b, c, d, e])?, unhex(pdu))),
        ["token", da, sa] => Some(Tg::Token(da.parse().ok()?, sa.parse().ok()?)),
        ["sc"] => Some(Tg::Sc),
        _ => None,
    }
}

fn with_tg<R>(tg: &Tg, f: impl FnOnce(fdl::Telegram) -> R) -> R {
    match tg {
        Tg::Data(h, pdu) => f(fdl::Telegram::Data(fdl::DataTelegram { h: h.clone(), pdu })),
        Tg::Token(da, sa) => f(fdl::Telegram::Token(fdl::TokenTelegram::new(*da, *sa))),
        Tg::Sc => f(fdl::Telegram::ShortConfirmation(fdl::ShortConfirmation)),
    }
}

pub(crate) fn baud_of(rate: u64) -> Option<profirust::Baudrate> {
    use profirust::Baudrate::*;
    Some(match rate {
        9600 => B9600,
        19200 => B19200,
        31250 => B31250,
        45450 => B45450,
        93750 => B93750,
        187500 => B187500,
        500000 => B500000,
        1500000 => B1500000,
        3000000 => B3000000,
        6000000 => B6000000,
        12000000 => B12000000,
        _ => return None,
    })
}

fn opt_num(s: &str) -> Option<Option<u64>> {
    if s == "-" {
        Some(None)
    } else {
        s.parse::<u64>().ok().map(Some)
    }
}

fn opt_bytes(s: &str) -> Option<Option<&'static [u8]>> {
    if s == "n" {
        return Some(None);
    }
    if s != "-" && (s.len() % 2 != 0 || !s.bytes().all(|c| c.is_ascii_hexdigit())) {
        return None;
    }
    Some(Some(Box::leak(unhex(s).into_boxed_slice())))
}

pub(crate) fn parse_periph(s: &str) -> Option<dp::Peripheral<'static>> {
    let f: Vec<&str> = s.split(':').collect();
    let [addr, ident, sf, groups, prm, cfg, ilen, qlen, dbuf] = f.as_slice() else {
        return None;
    };
    let sf = sf.as_bytes();
    if sf.len() != 2 || !sf.iter().all(|c| *c == b'0' || *c == b'1') {
        return None;
    }
    let options = dp::PeripheralOptions {
        ident_number: ident.parse::<u16>().ok()?,
        sync_mode: sf[0] == b'1',
        freeze_mode: sf[1] == b'1',
        groups: groups.parse::<u8>().ok()?,
        user_parameters: opt_bytes(prm)?,
        config: opt_bytes(cfg)?,
        ..Default::default()
    };
    let ilen = ilen.parse::<usize>().ok()?;
    let qlen = qlen.parse::<usize>().ok()?;
    let dbuf = dbuf.parse::<usize>().ok()?;
    let p = dp::Peripheral::new(addr.parse::<u8>().ok()?, options, vec![0u8; ilen], vec![0u8; qlen]);
    Some(if dbuf > 0 { p.with_diag_buffer(vec![0u8; dbuf]) } else { p })
}

pub(crate) fn event_name(e: PeripheralEvent) -> &'static str {
    match e {
        PeripheralEvent::Online => "Online",
        PeripheralEvent::Configured => "Configured",
        PeripheralEvent::ConfigError => "ConfigError",
        PeripheralEvent::ParameterError => "ParameterError",
        PeripheralEvent::DataExchanged => "DataExchanged",
        PeripheralEvent::Diagnostics => "Diagnostics",
        PeripheralEvent::Offline => "Offline",
    }
}

impl Live {
    fn slot_of(&self, h: dp::PeripheralHandle) -> String {
        match self.handles.iter().position(|x| *x == h) {
            Some(i) => i.to_string(),
            // an event may still carry the handle a slot had before `reset_address`
            None => match self.retired.iter().rev().find(|(_, x)| *x == h) {
                Some((i, _)) => i.to_string(),
                None => "?".to_string(),
            },
        }
    }

    fn summary(&self) -> String {
        let st = match self.dp.operating_state() {
            dp::OperatingState::Stop => "S",
            dp::OperatingState::Clear => "C",
            dp::OperatingState::Operate => "O",
        };
        let mut s = format!("st={st}");
        for (h, p) in self.dp.iter() {
            let d = match p.last_diagnostics() {
                None => "-".to_string(),
                Some(d) => {
                    let ext = match guarded(|| d.extended_diagnostics.raw_diag_buffer().map(|b| b.to_vec())) {
                        None => "panic".to_string(),
                        Some(None) => "none".to_string(),
                        Some(Some(b)) => hex(&b),
                    };
                    format!("{:04x}/{}/{}/{}", d.flags.bits(), d.ident_number, opt_u8(d.master_address), ext)
                }
            };
            s.push_str(&format!(
                " [{} {} {}{} i={} q={} d={}]",
                self.slot_of(h),
                p.address(),
                p.is_live() as u8,
                p.is_running() as u8,
                hex(p.pi_i()),
                hex(p.pi_q()),
                d
            ));
        }
        s
    }
}

fn dp_new(w: &[&str]) -> Option<Option<Live>> {
    let [own, baud, bits, retry, wd, mt, storage, ps @ ..] = w else {
        return None;
    };
    let own = own.parse::<u8>().ok()?;
    let baud = baud_of(baud.parse::<u64>().ok()?)?;
    let bits = opt_num(bits)?;
    let retry = opt_num(retry)?;
    let wd = opt_num(wd)?;
    let mt = opt_num(mt)?;
    let (grow, k) = match storage.split_at(1) {
        ("a", k) => (false, k.parse::<usize>().ok()?),
        ("v", k) => (true, k.parse::<usize>().ok()?),
        _ => return None,
    };
    let mut peris = vec![];
    for p in ps {
        peris.push(parse_periph(p)?);
    }
    if bits.map(|b| b > 65535).unwrap_or(false)
        || retry.map(|b| b > 255).unwrap_or(false)
        || mt.map(|b| b > 255).unwrap_or(false)
    {
        return None;
    }
    Some(guarded(move || {
        let mut b = fdl::ParametersBuilder::new(own, baud);
        if let Some(x) = bits {
            b.slot_bits(x as u16);
        }
        if let Some(x) = retry {
            b.max_retry_limit(x as u8);
        }
        if let Some(x) = wd {
            b.watchdog_timeout(Duration::from_millis(x));
        }
        if let Some(x) = mt {
            b.min_tsdr(x as u8);
        }
        let fdl = fdl::FdlActiveStation::new(b.build());
        let slots: Vec<dp::PeripheralStorage<'static>> = (0..k).map(|_| Default::default()).collect();
        let mut dpm = if grow {
            dp::DpMaster::new(slots)
        } else {
            let s: &'static mut [dp::PeripheralStorage<'static>] = Box::leak(slots.into_boxed_slice());
            dp::DpMaster::new(s)
        };
        let mut handles = vec![];
        for p in peris {
            handles.push(dpm.add(p));
        }
        Live { fdl, dp: dpm, handles, retired: vec![] }
    }))
}

/// One op on the worker's state.  `Err(())` = bad op.
fn step(st: &mut Option<Live>, line: &str) -> String {
    let w: Vec<&str> = line.split(' ').collect();
    if w[0] == "dp.env" {
        // marker: where the history comes from (`fdl` = produced by a real FdlActiveStation)
        return "env".to_string();
    }
    if w[0] == "dp.new" {
        return match dp_new(&w[1..]) {
            None => "bad-op".to_string(),
            Some(None) => {
                *st = None;
                "panic".to_string()
            }
            Some(Some(l)) => {
                let s = format!("ok ; {}", l.summary());
                *st = Some(l);
                s
            }
        };
    }
    let Some(l) = st.as_mut() else {
        return if w[0].starts_with("dp.") { "dead" } else { "bad-op" }.to_string();
    };
    let now_of = |s: &str| s.parse::<i64>().ok().map(Instant::from_micros);
    // Ok(Some(obs)) fine; Ok(None) panic; Err bad op
    let r: Result<Option<String>, ()> = match w.as_slice() {
        ["dp.tx", now, hp] => match now_of(now) {
            None => Err(()),
            Some(now) => Ok(guarded(|| {
                let mut buf = [0xA5u8; 256]; // a dirty transmit buffer (real PHYs reuse theirs)
                let r = l.dp.transmit_telegram(
                    now,
                    &l.fdl,
                    fdl::TelegramTx::new(&mut buf),
                    if *hp == "1" { fdl::HighPrioOnly::Yes } else { fdl::HighPrioOnly::No },
                );
                match r {
                    None => "none".to_string(),
                    Some(resp) => {
                        let n = resp.bytes_sent().min(256);
                        format!("tx exp={} {}", opt_u8(resp.expects_reply()), hex(&buf[..n]))
                    }
                }
            })),
        },
        ["dp.reply", now, addr, tg @ ..] => match (now_of(now), addr.parse::<u8>(), parse_tg(tg)) {
            (Some(now), Ok(addr), Some(tg)) => Ok(guarded(|| {
                with_tg(&tg, |t| l.dp.receive_reply(now, &l.fdl, addr, t));
                "ok".to_string()
            })),
            _ => Err(()),
        },
        ["dp.timeout", now, addr] => match (now_of(now), addr.parse::<u8>()) {
            (Some(now), Ok(addr)) => Ok(guarded(|| {
                l.dp.handle_timeout(now, &l.fdl, addr);
                "ok".to_string()
            })),
            _ => Err(()),
        },
        ["dp.take"] => Ok(guarded(|| {
            let e = l.dp.take_last_events();
            let p = match e.peripheral {
                None => "-".to_string(),
                Some((h, ev)) => format!("{}:{}:{}", l.slot_of(h), h.address(), event_name(ev)),
            };
            format!("ev cc={} p={}", e.cycle_completed as u8, p)
        })),
        ["dp.piq", slot, hx] => match slot.parse::<usize>() {
            Ok(i) => {
                let bs = unhex(hx);
                match l.handles.get(i).copied() {
                    Some(h) => Ok(guarded(|| {
                        let p = l.dp.get_mut(h);
                        if p.pi_q().len() == bs.len() {
                            p.pi_q_mut().copy_from_slice(&bs);
                            "ok".to_string()
                        } else {
                            "err".to_string()
                        }
                    })),
                    None => Ok(Some("err".to_string())),
                }
            }
            Err(_) => Err(()),
        },
        ["dp.diagreq", slot] => match slot.parse::<usize>() {
            Ok(i) => match l.handles.get(i).copied() {
                Some(h) => Ok(guarded(|| {
                    l.dp.get_mut(h).request_diagnostics();
                    "ok".to_string()
                })),
                None => Ok(Some("err".to_string())),
            },
            Err(_) => Err(()),
        },
        ["dp.resetaddr", slot, addr] => match (slot.parse::<usize>(), addr.parse::<u8>()) {
            (Ok(i), Ok(a)) => match l.handles.get(i).copied() {
                Some(h) => Ok(guarded(|| {
                    l.dp.get_mut(h).reset_address(a);
                    l.retired.push((i, h));
                    // handles carry the address: refresh them (slots are filled from the front)
                    l.handles = l.dp.iter().map(|(h, _)| h).collect();
                    "ok".to_string()
                })),
                None => Ok(Some("err".to_string())),
            },
            _ => Err(()),
        },
        ["dp.operate"] => Ok(guarded(|| {
            l.dp.enter_operate();
            "ok".to_string()
        })),
        ["dp.add", p] => match parse_periph(p) {
            None => Err(()),
            Some(p) => Ok(guarded(|| {
                let h = l.dp.add(p);
                l.handles.push(h);
                format!("ok {}", l.handles.len() - 1)
            })),
        },
        _ => Err(()),
    };
    match r {
        Err(()) => "bad-op".to_string(),
        Ok(None) => {
            *st = None;
            "panic".to_string()
        }
        Ok(Some(o)) => match guarded(|| l.summary()) {
            Some(s) => format!("{o} ; {s}"),
            None => {
                *st = None;
                "panic".to_string()
            }
        },
    }
}

struct Worker {
    to: mpsc::Sender<String>,
    from: mpsc::Receiver<String>,
}

fn spawn_worker() -> Worker {
    let (to, rx) = mpsc::channel::<String>();
    let (tx, from) = mpsc::channel::<String>();
    std::thread::spawn(move || {
        let mut st: Option<Live> = None;
        loop {
            // spin briefly before parking: ops arrive back to back
            let mut got = None;
            for _ in 0..20000 {
                match rx.try_recv() {
                    Ok(l) => {
                        got = Some(l);
                        break;
                    }
                    Err(mpsc::TryRecvError::Empty) => std::hint::spin_loop(),
                    Err(mpsc::TryRecvError::Disconnected) => return,
                }
            }
            let line = match got {
                Some(l) => l,
                None => match rx.recv() {
                    Ok(l) => l,
                    Err(_) => return,
                },
            };
            let o = match guarded(|| step(&mut st, &line)) {
                Some(o) => o,
                None => {
                    st = None;
                    "panic".to_string()
                }
            };
            if tx.send(o).is_err() {
                break;
            }
        }
    });
    Worker { to, from }
}

pub struct Exec {
    w: Worker,
}

impl Exec {
    pub fn new() -> Self {
        Exec { w: spawn_worker() }
    }
}

impl crate::Executor for Exec {
    fn exec(&mut self, line: &str) -> String {
        if self.w.to.send(line.to_string()).is_err() {
            self.w = spawn_worker();
            return "panic:harness".to_string();
        }
        for _ in 0..20000 {
            match self.w.from.try_recv() {
                Ok(o) => return o,
                Err(mpsc::TryRecvError::Empty) => std::hint::spin_loop(),
                Err(mpsc::TryRecvError::Disconnected) => break,
            }
        }
        match self.w.from.recv_timeout(std::time::Duration::from_millis(HANG_MS)) {
            Ok(o) => o,
            Err(_) => {
                // the call did not return: abandon the worker (it keeps spinning until the process
                // exits) and serve the following ops — `dead` until the next `dp.new` — from a new one
                self.w = spawn_worker();
                "hang".to_string()
            }
        }
    }
}

// ------------------------------------------------------------------------------------------------
// Generator
// ------------------------------------------------------------------------------------------------

const BAUDS: [u64; 11] = [9600, 19200, 31250, 45450, 93750, 187500, 500000, 1500000, 3000000, 6000000, 12000000];

pub(crate) fn min_bits(baud: u64) -> u64 {
    match baud {
        500000 => 200,
        1500000 => 300,
        3000000 => 400,
        6000000 => 600,
        12000000 => 1000,
        _ => 100,
    }
}

#[derive(Clone)]
pub(crate) struct PCfg {
    pub(crate) addr: u8,
    pub(crate) ident: u16,
    pub(crate) sync: bool,
    pub(crate) freeze: bool,
    pub(crate) groups: u8,
    pub(crate) prm: Option<Vec<u8>>,
    pub(crate) cfg: Option<Vec<u8>>,
    pub(crate) ilen: usize,
    pub(crate) qlen: usize,
    pub(crate) dbuf: usize,
}

impl PCfg {
    pub(crate) fn text(&self) -> String {
        let ob = |o: &Option<Vec<u8>>| match o {
            None => "n".to_string(),
            Some(b) => hex(b),
        };
        format!(
            "{}:{}:{}{}:{}:{}:{}:{}:{}:{}",
            self.addr,
            self.ident,
            self.sync as u8,
            self.freeze as u8,
            self.groups,
            ob(&self.prm),
            ob(&self.cfg),
            self.ilen,
            self.qlen,
            self.dbuf
        )
    }
}

#[derive(Clone)]
pub(crate) struct MCfg {
    pub(crate) own: u8,
    pub(crate) baud: u64,
    pub(crate) bits: Option<u64>,
    pub(crate) retry: Option<u64>,
    pub(crate) wd: Option<u64>,
    pub(crate) mt: Option<u64>,
    pub(crate) grow: bool,
    pub(crate) k: usize,
    pub(crate) ps: Vec<PCfg>,
}

impl MCfg {
    pub(crate) fn text(&self) -> String {
        let on = |o: Option<u64>| o.map(|x| x.to_string()).unwrap_or("-".to_string());
        let mut s = format!(
            "dp.new {} {} {} {} {} {} {}{}",
            self.own,
            self.baud,
            on(self.bits),
            on(self.retry),
            on(self.wd),
            on(self.mt),
            if self.grow { "v" } else { "a" },
            self.k
        );
        for p in &self.ps {
            s.push(' ');
            s.push_str(&p.text());
        }
        s
    }
    pub(crate) fn slot_us(&self) -> i64 {
        (self.bits.unwrap_or(min_bits(self.baud)) * 1_000_000 / self.baud) as i64
    }
    fn limit(&self) -> u64 {
        self.retry.unwrap_or(1)
    }
}

const LENS: [usize; 12] = [0, 0, 1, 1, 2, 3, 4, 8, 16, 32, 243, 244];

fn random_pcfg(rng: &mut Rng, addr: u8, big: bool) -> PCfg {
    let len = |rng: &mut Rng| {
        if big {
            *rng.pick(&LENS)
        } else {
            *rng.pick(&LENS[..8])
        }
    };
    let prm_len = match rng.below(12) {
        0 => 0,
        1 => 1,
        2 if big => 237,
        3 if big => 236,
        _ => rng.below(8) as usize,
    };
    let cfg_len = match rng.below(12) {
        0 => 0,
        1 if big => 244,
        2 if big => 243,
        3 => 8,
        _ => 1 + rng.below(6) as usize,
    };
    PCfg {
        addr,
        ident: *rng.pick(&[0u16, 1, 0x00ff, 0x0100, 0x80b1, 0xfffe, 0xffff, 0x1234]),
        sync: rng.chance(1, 3),
        freeze: rng.chance(1, 3),
        groups: *rng.pick(&[0u8, 1, 0x80, 0xff, 0x55]),
        prm: Some(rng.bytes(prm_len)),
        cfg: Some(rng.bytes(cfg_len)),
        ilen: len(rng),
        qlen: len(rng),
        dbuf: *rng.pick(&[0usize, 0, 6, 16, 64, 244]),
    }
}

const WDS: [Option<u64>; 8] = [None, None, Some(10), Some(15), Some(2550), Some(650000), Some(100), Some(2560)];

pub(crate) fn random_mcfg(rng: &mut Rng, n: usize, big: bool) -> MCfg {
    let baud = *rng.pick(&BAUDS);
    let own = *rng.pick(&[0u8, 1, 2, 2, 2, 7, 125]);
    let mut addrs: Vec<u8> = vec![];
    while addrs.len() < n {
        let a = match rng.below(6) {
            0 => *rng.pick(&[0u8, 1, 3, 124, 125, 126]),
            _ => 3 + rng.below(40) as u8,
        };
        if a != own && !addrs.contains(&a) {
            addrs.push(a);
        }
    }
    let grow = rng.bool();
    let k = if grow { *rng.pick(&[0usize, 0, 1, 3]) } else { n + *rng.pick(&[0usize, 0, 1, 4]) };
    MCfg {
        own,
        baud,
        bits: if rng.chance(1, 4) { Some(min_bits(baud) + rng.below(300)) } else { None },
        retry: match rng.below(4) {
            0 => None,
            1 => Some(*rng.pick(&[1u64, 2, 15])),
            _ => Some(1 + rng.below(15)),
        },
        wd: *rng.pick(&WDS),
        mt: match rng.below(4) {
            0 => Some(*rng.pick(&[11u64, 12, 60, 255])),
            _ => None,
        },
        grow,
        k,
        ps: addrs.iter().map(|a| random_pcfg(rng, *a, big)).collect(),
    }
}

/// A request of the master as the bus sees it.
#[derive(Clone, Debug)]
pub(crate) struct Req {
    pub(crate) da: u8,
    pub(crate) dsap: Option<u8>,
    pub(crate) ssap: Option<u8>,
    pub(crate) high: bool,
    pub(crate) pdu: Vec<u8>,
}

pub(crate) fn decode_req(bytes: &[u8]) -> Option<Req> {
    match fdl::Telegram::deserialize(bytes) {
        Some(Ok((fdl::Telegram::Data(t), _))) => match t.h.fc {
            fdl::FunctionCode::Request { req, .. } => Some(Req {
                da: t.h.da,
                dsap: t.h.dsap,
                ssap: t.h.ssap,
                high: req == fdl::RequestType::SrdHigh,
                pdu: t.pdu.to_vec(),
            }),
            _ => None,
        },
        _ => None,
    }
}

/// Result of one `dp.tx` as the generator sees it.
enum TxObs {
    None,
    Sent { exp: Option<u8>, req: Option<Req> },
    Gone,
}

fn parse_tx(obs: &str) -> TxObs {
    let head = obs.split(" ; ").next().unwrap_or("");
    let w: Vec<&str> = head.split(' ').collect();
    match w.as_slice() {
        ["none"] => TxObs::None,
        ["tx", exp, hx] => {
            let exp = exp.strip_prefix("exp=").and_then(|e| e.parse::<u8>().ok());
            let bytes = unhex(hx);
            TxObs::Sent { exp, req: guarded(|| decode_req(&bytes)).flatten() }
        }
        _ => TxObs::Gone,
    }
}

// --- reference DP-V0 slave (environment, not subject) -------------------------------------------

#[derive(Clone, Copy, PartialEq, Debug)]
enum SState {
    WaitPrm,
    WaitCfg,
    DataExch,
}

#[derive(Clone)]
pub(crate) struct Slave {
    pub(crate) addr: u8,
    /// what the device really is (may differ from what the master was configured with)
    pub(crate) ident: u16,
    pub(crate) cfg: Vec<u8>,
    pub(crate) ilen: usize,
    pub(crate) state: SState,
    pub(crate) prm_fault: bool,
    pub(crate) cfg_fault: bool,
    pub(crate) master: u8,
    pub(crate) diag_pending: bool,
    pub(crate) ext: Vec<u8>,
    pub(crate) counter: u8,
    pub(crate) present: bool,
    /// transient: reports STATION_NOT_READY for that many more diagnostics replies
    pub(crate) not_ready: u8,
    /// data-exchange replies answered since the configuration was accepted (a faulty device answers the
    /// first one with a payload of the wrong length although status and SAPs are fine)
    pub(crate) dx_since_cfg: u32,
}

impl Slave {
    pub(crate) fn new(p: &PCfg) -> Slave {
        Slave {
            addr: p.addr,
            ident: p.ident,
            cfg: p.cfg.clone().unwrap_or_default(),
            ilen: p.ilen,
            state: SState::WaitPrm,
            prm_fault: false,
            cfg_fault: false,
            master: 255,
            diag_pending: false,
            ext: vec![],
            counter: 0,
            present: true,
            not_ready: 0,
            dx_since_cfg: 0,
        }
    }
    pub(crate) fn power_cycle(&mut self) {
        self.state = SState::WaitPrm;
        self.prm_fault = false;
        self.cfg_fault = false;
        self.master = 255;
        self.diag_pending = false;
    }
    fn diag_pdu(&self) -> Vec<u8> {
        let mut st1 = 0u8;
        let mut st2 = 0x04u8;
        if self.state != SState::DataExch || self.not_ready > 0 {
            st1 |= 0x02;
        }
        if self.state == SState::WaitPrm {
            st2 |= 0x01;
        }
        if self.cfg_fault {
            st1 |= 0x04;
        }
        if self.prm_fault {
            st1 |= 0x40;
        }
        if !self.ext.is_empty() {
            st1 |= 0x08;
        }
        let mut p = vec![st1, st2, 0x00, self.master, (self.ident >> 8) as u8, self.ident as u8];
        p.extend_from_slice(&self.ext);
        p
    }
    /// The reply to `req` (telegram text), `None` = no reply on the wire.
    pub(crate) fn respond(&mut self, own: u8, req: &Req, rng: &mut Rng) -> Option<String> {
        if !self.present {
            return None;
        }
        let a = self.addr;
        match (req.dsap, req.ssap) {
            (Some(60), Some(62)) => {
                let pdu = self.diag_pdu();
                self.diag_pending = false;
                if self.not_ready > 0 {
                    self.not_ready -= 1;
                }
                Some(format!("data {own} {a} 62 60 r.0.8 {}", hex(&pdu)))
            }
            (Some(61), Some(62)) => {
                if req.pdu.len() >= 7 {
                    let id = u16::from_be_bytes([req.pdu[4], req.pdu[5]]);
                    if id == self.ident {
                        self.prm_fault = false;
                        self.cfg_fault = false;
                        self.state = SState::WaitCfg;
                        self.master = own;
                    } else {
                        self.prm_fault = true;
                        self.state = SState::WaitPrm;
                    }
                }
                Some("sc".to_string())
            }
            (Some(62), Some(62)) => {
                if self.state == SState::WaitCfg {
                    if req.pdu == self.cfg {
                        self.state = SState::DataExch;
                        self.dx_since_cfg = 0;
                    } else {
                        self.cfg_fault = true;
                        self.state = SState::WaitPrm;
                    }
                }
                Some("sc".to_string())
            }
            (None, None) if req.high => {
                if self.state != SState::DataExch {
                    // service not activated
                    return Some(format!("data {own} {a} - - r.0.3 -"));
                }
                if self.ilen == 0 && !self.diag_pending {
                    return Some("sc".to_string());
                }
                self.counter = self.counter.wrapping_add(1);
                self.dx_since_cfg += 1;
                // one device in six answers its very first data exchange with a payload one byte too long or short
                let n = if self.dx_since_cfg == 1 && self.ilen > 0 && (self.addr as u32 + self.ident as u32) % 6 == 0 {
                    if rng.bool() { self.ilen + 1 } else { self.ilen - 1 }
                } else {
                    self.ilen
                };
                let data: Vec<u8> = (0..n).map(|i| self.counter.wrapping_add(i as u8) ^ rng.u8()).collect();
                let status = if self.diag_pending { 10 } else { 8 };
                Some(format!("data {own} {a} - - r.0.{status} {}", hex(&data)))
            }
            _ => None,
        }
    }
}

// --- malformed replies -------------------------------------------------------------------------

const STATUS: [u8; 9] = [0, 1, 2, 3, 8, 9, 10, 12, 13];

/// Six flags that matter: STATION_NOT_READY 0x02, CONFIGURATION_FAULT 0x04, EXT_DIAG 0x08,
/// PARAMETER_FAULT 0x40 (byte 0); PARAMETER_REQUIRED 0x01, PERMANENT 0x04 (byte 1).
fn diag_flags_pdu(mask: u8, ident: u16, extra: &[u8]) -> Vec<u8> {
    let mut st1 = 0u8;
    let mut st2 = 0u8;
    if mask & 1 != 0 {
        st1 |= 0x02;
    }
    if mask & 2 != 0 {
        st1 |= 0x04;
    }
    if mask & 4 != 0 {
        st1 |= 0x08;
    }
    if mask & 8 != 0 {
        st1 |= 0x40;
    }
    if mask & 16 != 0 {
        st2 |= 0x01;
    }
    if mask & 32 != 0 {
        st2 |= 0x04;
    }
    let mut p = vec![st1, st2, 0, 2, (ident >> 8) as u8, ident as u8];
    p.extend_from_slice(extra);
    p
}

/// Any reply the FDL contract allows for a request to `a` (SA = a, DA = own, response function
/// code, or SC), aimed at the decision points of `receive_reply`.
pub(crate) fn weird_reply(rng: &mut Rng, own: u8, a: u8, ilen: usize, ident: u16) -> String {
    let status = *rng.pick(&STATUS);
    let state = rng.below(4);
    let data_len = |rng: &mut Rng| match rng.below(8) {
        0 => 0,
        1 => ilen + 1,
        2 => ilen.saturating_sub(1),
        3 => 244,
        4 => rng.below(8) as usize,
        _ => ilen,
    };
    match rng.below(14) {
        0 => "sc".to_string(),
        // a perfect data-exchange reply except that exactly ONE service access point is not the default
        12 | 13 => {
            let sap = *rng.pick(&[62u8, 60, 61, 0, 63, 1]);
            let (d, s) = if rng.bool() { (Some(sap), None) } else { (None, Some(sap)) };
            let st = *rng.pick(&[0u8, 8, 10]);
            format!("data {own} {a} {} {} r.{state}.{st} {}", opt_u8(d), opt_u8(s), hex(&rng.bytes(ilen)))
        }
        // well-formed diagnostics reply, every flag combination
        1 | 2 | 3 => {
            let mask = rng.below(64) as u8;
            // extended diagnostics: random bytes, or well-formed blocks (device / identifier / channel related)
            // possibly followed by zero padding or a zero-length block header (findings F5, C05-m3)
            let extra = if mask & 4 == 0 {
                vec![]
            } else if rng.bool() {
                rng.bytes_below(9)
            } else {
                let mut e = vec![];
                for _ in 0..rng.below(3) {
                    match rng.below(3) {
                        0 => {
                            let n = 1 + rng.below(3) as u8;
                            e.push(n + 1);
                            e.extend(rng.bytes(n as usize));
                        }
                        1 => {
                            let n = 1 + rng.below(2) as u8;
                            e.push(0x40 | (n + 1));
                            e.extend(rng.bytes(n as usize));
                        }
                        _ => {
                            e.push(0x80 | (rng.u8() & 0x3f));
                            e.extend(rng.bytes(2));
                        }
                    }
                }
                match rng.below(4) {
                    0 => e.extend([0x00, 0x00]),
                    1 => e.push(0x40),
                    2 => e.push(0x00),
                    _ => {}
                }
                e
            };
            format!("data {own} {a} 62 60 r.{state}.{status} {}", hex(&diag_flags_pdu(mask, ident, &extra)))
        }
        // short diagnostics PDU
        4 => {
            let n = rng.below(6) as usize;
            format!("data {own} {a} 62 60 r.0.8 {}", hex(&rng.bytes(n)))
        }
        // diagnostics-shaped reply of exactly the input length (F12)
        5 => format!("data {own} {a} 62 60 r.0.8 {}", hex(&rng.bytes(ilen))),
        // wrong SAPs
        6 => {
            let sap = |rng: &mut Rng| match rng.below(4) {
                0 => None,
                1 => Some(62u8),
                2 => Some(60u8),
                _ => Some(rng.u8() & 0x3f),
            };
            let n = data_len(rng);
            format!("data {own} {a} {} {} r.{state}.{status} {}", opt_u8(sap(rng)), opt_u8(sap(rng)), hex(&rng.bytes(n)))
        }
        // data-exchange shaped: every status, lengths around the configured one
        _ => {
            let n = data_len(rng);
            format!("data {own} {a} - - r.{state}.{status} {}", hex(&rng.bytes(n)))
        }
    }
}

// --- one case ---------------------------------------------------------------------------------

struct Case<'a> {
    ops: &'a mut Vec<String>,
    ex: &'a mut Exec,
    cfg: MCfg,
    now: i64,
    gone: bool,
    /// per-mille per opportunity: `reset_address()` on some peripheral (F14)
    reset_pm: u64,
}

#[derive(Clone, Copy)]
struct Plan {
    /// per-mille: request not seen by the slave
    lose_req: u64,
    /// per-mille: reply lost (after the slave acted on the request)
    lose_rep: u64,
    /// per-mille: neither reply nor timeout is delivered (token lost)
    nocb: u64,
    /// per-mille per step: a slave is power-cycled / unplugged / plugged
    power: u64,
    /// per-mille: the reply is replaced by a malformed one
    weird: u64,
    /// per-mille per step: user call
    user: u64,
    /// per-mille: events are *not* collected after a callback
    sloppy: u64,
    /// per-mille per step: time jump of at least 50 Tsl
    jump: u64,
    /// per-mille: `HighPrioOnly::Yes`
    hp: u64,
}

const CLEAN: Plan = Plan { lose_req: 0, lose_rep: 0, nocb: 0, power: 0, weird: 0, user: 0, sloppy: 0, jump: 10, hp: 0 };

impl<'a> Case<'a> {
    fn start(ops: &'a mut Vec<String>, ex: &'a mut Exec, cfg: MCfg, operate: bool) -> Case<'a> {
        let mut c = Case { ops, ex, cfg, now: 1000, gone: false, reset_pm: 0 };
        let line = c.cfg.text();
        let o = c.op(line);
        if !o.starts_with("ok") {
            c.gone = true;
        }
        if operate {
            c.op("dp.operate".to_string());
        }
        c
    }
    fn op(&mut self, line: String) -> String {
        use crate::Executor;
        let o = self.ex.exec(&line);
        self.ops.push(line);
        if o == "panic" || o == "hang" || o == "dead" {
            self.gone = true;
        }
        o
    }
    fn take(&mut self) {
        self.op("dp.take".to_string());
    }
    fn tick(&mut self, rng: &mut Rng, jump: u64) {
        let tsl = self.cfg.slot_us();
        if rng.below(1000) < jump {
            self.now += 50 * tsl + *rng.pick(&[0i64, 0, 1, 1000, -1]).max(&0);
        } else {
            self.now += match rng.below(4) {
                0 => 0,
                1 => tsl,
                _ => 1 + rng.below(2 * tsl as u64 + 50) as i64,
            };
        }
    }
    fn user_call(&mut self, rng: &mut Rng) {
        let n = self.cfg.ps.len();
        if n == 0 {
            return;
        }
        let i = rng.below(n as u64) as usize;
        match rng.below(5) {
            0 | 1 => {
                self.op(format!("dp.diagreq {i}"));
            }
            _ => {
                let q = self.cfg.ps[i].qlen;
                let bs = rng.bytes(q);
                self.op(format!("dp.piq {i} {}", hex(&bs)));
            }
        }
    }
    /// `reset_address()` on a random peripheral: to a free address, to the address of another configured
    /// peripheral, or to its own old address; the simulated device follows half of the time.
    fn maybe_reset(&mut self, rng: &mut Rng, slaves: &mut [Slave]) {
        if self.reset_pm == 0 || self.cfg.ps.is_empty() || rng.below(1000) >= self.reset_pm {
            return;
        }
        let i = rng.below(self.cfg.ps.len() as u64) as usize;
        let old = self.cfg.ps[i].addr;
        let new = match rng.below(6) {
            0 => old,
            1 | 2 if self.cfg.ps.len() > 1 => rng.pick(&self.cfg.ps).addr,
            _ => 3 + rng.below(60) as u8,
        };
        self.op(format!("dp.resetaddr {i} {new}"));
        self.cfg.ps[i].addr = new;
        if rng.bool() {
            if let Some(s) = slaves.get_mut(i) {
                s.addr = new;
            }
        }
    }

    /// One `transmit_telegram` and the callback that answers it.
    fn step(&mut self, rng: &mut Rng, slaves: &mut [Slave], plan: &Plan) {
        if self.gone {
            return;
        }
        self.maybe_reset(rng, slaves);
        if rng.below(1000) < plan.user {
            self.user_call(rng);
        }
        if rng.below(1000) < plan.power && !slaves.is_empty() {
            let i = rng.below(slaves.len() as u64) as usize;
            match rng.below(4) {
                0 => slaves[i].present = !slaves[i].present,
                1 => {
                    slaves[i].diag_pending = true;
                    slaves[i].ext = if rng.bool() { vec![] } else { vec![0x44, 0x00, 0x01, 0x00] };
                }
                2 => slaves[i].not_ready = 1 + rng.below(3) as u8,
                _ => slaves[i].power_cycle(),
            }
        }
        self.tick(rng, plan.jump);
        let hp = (rng.below(1000) < plan.hp) as u8;
        let o = self.op(format!("dp.tx {} {hp}", self.now));
        let sloppy = rng.below(1000) < plan.sloppy;
        if !sloppy {
            self.take();
        }
        let (exp, req) = match parse_tx(&o) {
            TxObs::Sent { exp: Some(a), req } => (a, req),
            _ => return,
        };
        if rng.below(1000) < plan.nocb {
            return;
        }
        // F14: the address is changed while the request is in flight; the reply still comes from `exp`
        self.maybe_reset(rng, slaves);
        self.now += 1 + rng.below(300) as i64;
        let own = self.cfg.own;
        let mut reply: Option<String> = None;
        if rng.below(1000) >= plan.lose_req {
            if let (Some(req), Some(s)) = (req.as_ref(), slaves.iter_mut().find(|s| s.addr == exp)) {
                reply = s.respond(own, req, rng);
            }
        }
        if rng.below(1000) < plan.weird {
            let (ilen, ident) = self
                .cfg
                .ps
                .iter()
                .find(|p| p.addr == exp)
                .map(|p| (p.ilen, p.ident))
                .unwrap_or((0, 0));
            reply = Some(weird_reply(rng, own, exp, ilen, ident));
        }
        if rng.below(1000) < plan.lose_rep {
            reply = None;
        }
        match reply {
            Some(t) => self.op(format!("dp.reply {} {exp} {t}", self.now)),
            None => self.op(format!("dp.timeout {} {exp}", self.now)),
        };
        if !sloppy {
            self.take();
            if rng.chance(1, 40) {
                self.take();
            }
        }
    }
}

pub(crate) fn slaves_for(cfg: &MCfg) -> Vec<Slave> {
    cfg.ps.iter().map(Slave::new).collect()
}

/// Mostly-valid history: reference slaves, a fault plan, user calls.
fn bus_case(ops: &mut Vec<String>, ex: &mut Exec, rng: &mut Rng, n: usize, steps: usize, big: bool, plan: Plan) {
    let cfg = random_mcfg(rng, n, big);
    let mut slaves = slaves_for(&cfg);
    // device mismatches: wrong ident / wrong configuration / absent / no parameters configured
    for (i, s) in slaves.iter_mut().enumerate() {
        match rng.below(14) {
            0 => s.ident = s.ident.wrapping_add(1),
            1 => s.cfg.push(0x11),
            2 => s.present = false,
            3 => s.ilen += 1,
            _ => {}
        }
        let _ = i;
    }
    let mut cfg = cfg;
    for p in cfg.ps.iter_mut() {
        match rng.below(30) {
            0 => p.prm = None,
            1 => p.cfg = None,
            _ => {}
        }
    }
    let mut c = Case::start(ops, ex, cfg, true);
    if plan.user > 0 && steps % 3 == 0 {
        c.reset_pm = 25;
    }
    for _ in 0..steps {
        c.step(rng, &mut slaves, &plan);
        if c.gone {
            break;
        }
    }
}

// --- bounded-exhaustive callback sequences --------------------------------------------------------

/// Alphabet of the exhaustive cases: what happens to the next request that expects a reply.
const ALPHA: [&str; 9] = ["T", "S", "Dok", "Dnr", "Dpf", "Xok", "Xdh", "Xwl", "Xsn"];

fn sym_reply(sym: &str, own: u8, p: &PCfg) -> Option<String> {
    let a = p.addr;
    match sym {
        "T" => None,
        "S" => Some("sc".to_string()),
        // clean diagnostics
        "Dok" => Some(format!("data {own} {a} 62 60 r.0.8 {}", hex(&diag_flags_pdu(32, p.ident, &[])))),
        // not ready + parameter request
        "Dnr" => Some(format!("data {own} {a} 62 60 r.0.8 {}", hex(&diag_flags_pdu(1 | 16 | 32, p.ident, &[])))),
        // station not ready only
        "Dn" => Some(format!("data {own} {a} 62 60 r.0.8 {}", hex(&diag_flags_pdu(1 | 32, p.ident, &[])))),
        // parameter fault
        "Dpf" => Some(format!("data {own} {a} 62 60 r.0.8 {}", hex(&diag_flags_pdu(8 | 32, p.ident, &[])))),
        // configuration fault
        "Dcf" => Some(format!("data {own} {a} 62 60 r.0.8 {}", hex(&diag_flags_pdu(2 | 32, p.ident, &[])))),
        "Xok" => Some(format!("data {own} {a} - - r.0.8 {}", hex(&vec![0xa5; p.ilen]))),
        "Xdh" => Some(format!("data {own} {a} - - r.0.10 {}", hex(&vec![0x5a; p.ilen]))),
        "Xwl" => Some(format!("data {own} {a} - - r.0.8 {}", hex(&vec![0x77; p.ilen + 1]))),
        "Xsn" => Some(format!("data {own} {a} - - r.0.3 -")),
        // diagnostics-shaped reply of the input length (F12)
        "Xsap" => Some(format!("data {own} {a} 62 60 r.0.8 {}", hex(&vec![0xcd; p.ilen]))),
        _ => None,
    }
}

fn fixed_pcfg(addr: u8, ilen: usize, qlen: usize) -> PCfg {
    PCfg {
        addr,
        ident: 0x80b1,
        sync: false,
        freeze: true,
        groups: 3,
        prm: Some(vec![0x01, 0x02, 0x03]),
        cfg: Some(vec![0x11, 0x21]),
        ilen,
        qlen,
        dbuf: 16,
    }
}

/// Drive one symbol: poll until a request expecting a reply goes out (at most a few polls), answer it.
fn drive_sym(c: &mut Case, sym: &str, user: bool) {
    if c.gone {
        return;
    }
    // `r<sym>`: reset_address() of slot 0 between the request and its reply (F14)
    let (sym, reset) = match sym.strip_prefix('r') {
        Some(rest) => (rest, true),
        None => (sym, false),
    };
    // `o<sym>`: enter_operate() again before the polls; `O<sym>`: between the request and its reply
    // (seed C14-m6: a repeated state change must not disturb the cycle)
    let (sym, op_before, op_between) = match (sym.strip_prefix('o'), sym.strip_prefix('O')) {
        (Some(rest), _) => (rest, true, false),
        (_, Some(rest)) => (rest, false, true),
        _ => (sym, false, false),
    };
    if user {
        c.op("dp.diagreq 0".to_string());
    }
    if op_before {
        c.op("dp.operate".to_string());
    }
    for _ in 0..4 {
        c.now += 700;
        let o = c.op(format!("dp.tx {} 0", c.now));
        c.take();
        if let TxObs::Sent { exp: Some(a), .. } = parse_tx(&o) {
            let p = c.cfg.ps.iter().find(|p| p.addr == a).cloned();
            if reset {
                let new = match c.now % 3 {
                    0 => c.cfg.ps[0].addr,
                    1 if c.cfg.ps.len() > 1 => c.cfg.ps[1].addr,
                    _ => if c.cfg.ps[0].addr == 7 { 8 } else { 7 },
                };
                c.op(format!("dp.resetaddr 0 {new}"));
                c.cfg.ps[0].addr = new;
            }
            if op_between {
                c.op("dp.operate".to_string());
            }
            c.now += 200;
            match p.and_then(|p| sym_reply(sym, c.cfg.own, &p)) {
                Some(t) => c.op(format!("dp.reply {} {a} {t}", c.now)),
                None => c.op(format!("dp.timeout {} {a}", c.now)),
            };
            c.take();
            return;
        }
        if c.gone {
            return;
        }
    }
}

fn exhaustive_case(ops: &mut Vec<String>, ex: &mut Exec, prefix: &[&str], seq: &[&str], two: bool, retry: u64, ilen: usize) {
    let mut ps = vec![fixed_pcfg(7, ilen, 2)];
    if two {
        ps.push(fixed_pcfg(9, 1, 0));
    }
    let cfg = MCfg { own: 2, baud: 1500000, bits: None, retry: Some(retry), wd: Some(100), mt: None, grow: false, k: ps.len(), ps };
    let mut c = Case::start(ops, ex, cfg, true);
    // first poll: global control
    c.now += 10;
    let t = c.now;
    c.op(format!("dp.tx {t} 0"));
    // collect after every callback, also after this one: otherwise the oracles treat the whole case as
    // "events may have been overwritten" and only resynchronise (found with seed C14-m6)
    c.take();
    for s in prefix {
        drive_sym(&mut c, s, false);
    }
    for s in seq {
        if let Some(u) = s.strip_prefix('u') {
            drive_sym(&mut c, u, true);
        } else {
            drive_sym(&mut c, s, false);
        }
    }
    // let the dust settle: two more polls
    drive_sym(&mut c, "T", false);
}

// --- outside the contract -------------------------------------------------------------------------

fn wild_case(ops: &mut Vec<String>, ex: &mut Exec, rng: &mut Rng) {
    let n = rng.below(4) as usize;
    let big = rng.chance(1, 4);
    let mut cfg = random_mcfg(rng, n, big);
    // parameter values outside the builder's range, over-long parameters, duplicate addresses, full arrays
    match rng.below(10) {
        0 => cfg.own = 126,
        1 => cfg.retry = Some(*rng.pick(&[0u64, 16, 255])),
        2 => cfg.wd = Some(*rng.pick(&[0u64, 9, 650001, 5_000_000])),
        3 => cfg.mt = Some(*rng.pick(&[0u64, 10])),
        4 => cfg.bits = Some(min_bits(cfg.baud) - 1),
        5 if !cfg.ps.is_empty() => {
            let n = 238 + rng.below(3) as usize;
            cfg.ps[0].prm = Some(rng.bytes(n))
        }
        6 if !cfg.ps.is_empty() => cfg.ps[0].cfg = Some(rng.bytes(245)),
        7 if !cfg.ps.is_empty() => cfg.ps[0].qlen = 245 + rng.below(3) as usize,
        8 if cfg.ps.len() >= 2 => cfg.ps[1].addr = cfg.ps[0].addr,
        9 if !cfg.grow && !cfg.ps.is_empty() => cfg.k = cfg.ps.len() - 1,
        _ => {}
    }
    let operate = !rng.chance(1, 10);
    let mut c = Case::start(ops, ex, cfg, operate);
    let steps = 10 + rng.below(50);
    for _ in 0..steps {
        let addr = if !c.cfg.ps.is_empty() && rng.chance(3, 4) { rng.pick(&c.cfg.ps).addr } else { rng.u8() & 0x7f };
        let (ilen, ident) = c.cfg.ps.iter().find(|p| p.addr == addr).map(|p| (p.ilen, p.ident)).unwrap_or((1, 0));
        c.now += rng.below(3000) as i64;
        let now = match rng.below(60) {
            0 => i64::MAX - rng.below(3) as i64,
            1 => i64::MIN + rng.below(3) as i64,
            2 => -5,
            _ => c.now,
        };
        let own = c.cfg.own;
        match rng.below(14) {
            0..=4 => c.op(format!("dp.tx {now} {}", (rng.chance(1, 6)) as u8)),
            5..=7 => {
                let t = match rng.below(10) {
                    0 => format!("token {own} {addr}"),
                    1 => format!("data {own} {addr} - - q.{}.{} -", rng.pick(&["F", "H", "L", "I"]), rng.pick(&[3u8, 12, 13, 9])),
                    _ => weird_reply(rng, own, addr, ilen, ident),
                };
                c.op(format!("dp.reply {now} {addr} {t}"))
            }
            8 => c.op(format!("dp.timeout {now} {addr}")),
            9 | 10 => c.op("dp.take".to_string()),
            11 => {
                let slot = rng.below(4);
                let n = if rng.chance(1, 3) { rng.below(4) as usize } else { c.cfg.ps.get(slot as usize).map(|p| p.qlen).unwrap_or(0) };
                c.op(format!("dp.piq {slot} {}", hex(&rng.bytes(n))))
            }
            12 => c.op(format!("dp.diagreq {}", rng.below(4))),
            _ => match rng.below(4) {
                0 => c.op("dp.operate".to_string()),
                1 => c.op(format!("dp.resetaddr {} {}", rng.below(4), rng.u8() & 0x7f)),
                _ => {
                    let a = rng.u8() & 0x7f;
                    let p = random_pcfg(rng, a, false);
                    c.op(format!("dp.add {}", p.text()))
                }
            },
        };
    }
}

pub fn gen(ops: &mut Vec<String>, seed: u64, thorough: bool) {
    let mut ex = Exec::new();
    let mut case = 0u64;
    let next = |case: &mut u64| {
        *case += 1;
        Rng::new(seed, "dp", *case)
    };
    // 1. clean bring-up and data exchange, 0..4 peripherals, every watchdog setting
    for n in 0..=4usize {
        for rep in 0..(if thorough { 12 } else { 3 }) {
            let mut rng = next(&mut case);
            bus_case(ops, &mut ex, &mut rng, n, 40 + 30 * n, rep % 3 == 2, CLEAN);
        }
    }
    // 2. fault plans
    let plans = [
        Plan { lose_req: 80, lose_rep: 80, nocb: 20, power: 10, weird: 0, user: 60, sloppy: 0, jump: 15, hp: 60 },
        Plan { lose_req: 300, lose_rep: 200, nocb: 50, power: 30, weird: 0, user: 100, sloppy: 0, jump: 30, hp: 100 },
        Plan { lose_req: 20, lose_rep: 20, nocb: 0, power: 5, weird: 150, user: 100, sloppy: 0, jump: 10, hp: 30 },
        Plan { lose_req: 50, lose_rep: 50, nocb: 10, power: 20, weird: 400, user: 150, sloppy: 0, jump: 10, hp: 30 },
        Plan { lose_req: 50, lose_rep: 50, nocb: 10, power: 20, weird: 100, user: 100, sloppy: 300, jump: 10, hp: 30 },
        Plan { lose_req: 700, lose_rep: 100, nocb: 30, power: 10, weird: 50, user: 50, sloppy: 0, jump: 5, hp: 10 },
    ];
    let reps = if thorough { 60 } else { 3 };
    for rep in 0..reps {
        for (pi, plan) in plans.iter().enumerate() {
            let mut rng = next(&mut case);
            let n = match rng.below(8) {
                0 => 0,
                1 | 2 => 1,
                3 | 4 => 2,
                5 | 6 => 3,
                _ => 4,
            };
            let steps = if (rep + pi) % 3 == 0 { 320 + rng.below(200) as usize } else { 60 + rng.below(120) as usize };
            let big = rng.chance(1, 6);
            bus_case(ops, &mut ex, &mut rng, n, steps, big, *plan);
        }
    }
    // 3. bounded-exhaustive sequences per start state
    let prefixes: [&[&str]; 4] = [&[], &["Dok", "S", "S"], &["Dok", "S", "S", "Dok"], &["Dok", "S", "S", "Dok", "Xok"]];
    // thorough: depth 4 complete (4 x 9^4) plus every 5th sequence of depth 5; quick: a thin sample of depth 5
    let plan: &[(usize, usize)] = if thorough { &[(4, 1), (5, 5)] } else { &[(5, 401)] };
    let mut idx = 0usize;
    for &(depth, stride) in plan {
        let total = ALPHA.len().pow(depth as u32);
        for (pi, prefix) in prefixes.iter().enumerate() {
            for code in 0..total {
                idx += 1;
                if (code + 7 * pi) % stride != 0 {
                    continue;
                }
                let mut seq: Vec<&str> = vec![];
                let mut c = code;
                for _ in 0..depth {
                    seq.push(ALPHA[c % ALPHA.len()]);
                    c /= ALPHA.len();
                }
                let two = idx % 3 == 0;
                let retry = if idx % 5 == 0 { 2 } else { 1 };
                exhaustive_case(ops, &mut ex, prefix, &seq, two, retry, if idx % 7 == 0 { 0 } else { 2 });
            }
        }
    }
    // user calls and the remaining reply kinds at every point of short sequences from data exchange
    let alpha2 = ["T", "uT", "Xok", "uXok", "Dok", "uDok", "Xsap", "Dcf", "Dn", "S", "rXok", "rDok", "rT", "rS"];
    let depth2 = if thorough { 4 } else { 3 };
    let total2 = alpha2.len().pow(depth2 as u32);
    for code in 0..total2 {
        if !thorough && code % 11 != 0 {
            continue;
        }
        let mut seq: Vec<&str> = vec![];
        let mut c = code;
        for _ in 0..depth2 {
            seq.push(alpha2[c % alpha2.len()]);
            c /= alpha2.len();
        }
        let prefix: &[&str] = if code % 2 == 0 { &["Dok", "S", "S", "Dok", "Xok"] } else { &["Dok", "S", "S"] };
        exhaustive_case(ops, &mut ex, prefix, &seq, code % 4 == 1, 1, 1);
    }
    // enter_operate() repeated at every point of short sequences, two peripherals, from mid-cycle
    let alpha3 = ["T", "Xok", "oXok", "OXok", "oT", "OT", "Dok", "oDok", "S", "oS"];
    let depth3 = if thorough { 4 } else { 3 };
    let total3 = alpha3.len().pow(depth3 as u32);
    for code in 0..total3 {
        if !thorough && code % 7 != 0 {
            continue;
        }
        let mut seq: Vec<&str> = vec![];
        let mut c = code;
        for _ in 0..depth3 {
            seq.push(alpha3[c % alpha3.len()]);
            c /= alpha3.len();
        }
        let prefix: &[&str] = if code % 3 == 0 { &["Dok", "Dok", "S", "S", "S", "S", "Dok", "Dok", "Xok"] } else if code % 3 == 1 { &["Dok", "Dok", "S", "S", "S", "S", "Dok", "Dok", "Xok", "Xok", "Xok"] } else { &["Dok", "Dok", "S"] };
        exhaustive_case(ops, &mut ex, prefix, &seq, true, 1, 1);
    }
    // 4. outside the contract (correspondence only)
    let n = if thorough { 4000 } else { 150 };
    for _ in 0..n {
        let mut rng = next(&mut case);
        wild_case(ops, &mut ex, &mut rng);
    }
}
