mod apps;
mod appsfdl;
mod codec;
mod decoder;
mod diag;
mod dp;
mod dplive;
mod dpfdl;
mod gap;
mod gsd;
mod las;
mod net;
mod phyrx;
mod prm;
mod station;
mod util;

use std::io::{BufRead, Write};

/// Stateless engines: one op line in, one observation line out.
/// Stateful engines keep their state in a boxed executor; a `reset`-style op starts a new case.
pub trait Executor {
    fn exec(&mut self, line: &str) -> String;
}
struct Stateless(fn(&str) -> String);
impl Executor for Stateless {
    fn exec(&mut self, line: &str) -> String {
        (self.0)(line)
    }
}

fn engine(name: &str) -> Option<(fn(&mut Vec<String>, u64, bool), Box<dyn Executor>)> {
    match name {
        "apps" => Some((apps::gen, Box::new(apps::Exec::new()))),
        "appsfdl" => Some((appsfdl::gen, Box::new(apps::Exec::new()))),
        "codec" => Some((codec::gen, Box::new(Stateless(codec::exec)))),
        "decoder" => Some((decoder::gen, Box::new(Stateless(decoder::exec)))),
        "diag" => Some((diag::gen, Box::new(diag::Exec::default()))),
        "dp" => Some((dp::gen, Box::new(dp::Exec::new()))),
        "dplive" => Some((dplive::gen, Box::new(dplive::Exec::new()))),
        "dpfdl" => Some((dpfdl::gen, Box::new(dp::Exec::new()))),
        "gap" => Some((gap::gen, Box::new(Stateless(gap::exec)))),
        "station" => Some((station::gen, Box::new(station::Exec::new()))),
        "prm" => Some((prm::gen, Box::new(prm::PrmExec::new()))),
        "gsd" => Some((gsd::gen, Box::new(Stateless(gsd::exec)))),
        "las" => Some((las::gen, Box::new(las::Exec::new()))),
        "net" => Some((net::gen, Box::new(net::Exec::new()))),
        "phyrx" => Some((phyrx::gen, Box::new(phyrx::Exec::new()))),
        _ => None,
    }
}

fn main() {
    let args: Vec<String> = std::env::args().collect();
    if args.len() < 3 {
        eprintln!("usage: pvharness <engine> <outdir> [--thorough] [--seed N] [--replay OPSFILE] [--corpus DIR]");
        std::process::exit(2);
    }
    let ename = args[1].as_str();
    let outdir = args[2].as_str();
    let thorough = args.iter().any(|a| a == "--thorough");
    let opt = |k: &str| args.iter().position(|a| a == k).and_then(|i| args.get(i + 1)).cloned();
    let seed = opt("--seed").and_then(|s| s.parse::<u64>().ok()).unwrap_or(1);
    util::init();
    util::start_watchdog(ename, 60);
    let Some((gen, mut exec)) = engine(ename) else {
        eprintln!("unknown engine {ename}");
        std::process::exit(2);
    };
    let mut ops: Vec<String> = vec![];
    if let Some(f) = opt("--replay") {
        for l in std::io::BufReader::new(std::fs::File::open(f).unwrap()).lines() {
            ops.push(l.unwrap());
        }
    } else {
        // committed corpus first (minimised past disagreements and finding witnesses)
        if let Some(dir) = opt("--corpus") {
            let mut files: Vec<_> = std::fs::read_dir(&dir)
                .map(|d| d.filter_map(|e| e.ok()).map(|e| e.path()).collect())
                .unwrap_or_default();
            files.sort();
            for f in files {
                if f.extension().map(|e| e == "ops").unwrap_or(false) {
                    for l in std::io::BufReader::new(std::fs::File::open(f).unwrap()).lines() {
                        let l = l.unwrap();
                        if !l.is_empty() && !l.starts_with('#') {
                            ops.push(l);
                        }
                    }
                }
            }
        }
        gen(&mut ops, seed, thorough);
    }
    let mut out = util::Out::new(outdir, ename);
    // side channel: announce progress so a hang can be attributed (orchestrator watchdog)
    let mut progress = std::fs::File::create(format!("{outdir}/{ename}.progress")).unwrap();
    for (i, op) in ops.iter().enumerate() {
        if i % 4096 == 0 {
            let _ = writeln!(progress, "{i}");
        }
        let obs = match util::guarded(|| exec.exec(op)) {
            Some(o) => o,
            None => "panic:harness".to_string(),
        };
        out.put(op, &obs);
    }
    let n = out.finish();
    println!("engine={ename} ops={n}");
}
