mod codec;
mod util;

fn main() {
    let args: Vec<String> = std::env::args().collect();
    if args.len() < 3 {
        eprintln!("usage: pvharness <engine> <outdir> [--thorough] [--seed N]");
        std::process::exit(2);
    }
    let engine = args[1].as_str();
    let outdir = args[2].as_str();
    let thorough = args.iter().any(|a| a == "--thorough");
    let seed = args
        .iter()
        .position(|a| a == "--seed")
        .and_then(|i| args.get(i + 1))
        .and_then(|s| s.parse::<u64>().ok())
        .unwrap_or(1);
    util::init();
    let mut out = util::Out::new(outdir, engine);
    match engine {
        "codec" => codec::run(&mut out, seed, thorough),
        _ => {
            eprintln!("unknown engine {engine}");
            std::process::exit(2);
        }
    }
    let n = out.finish();
    println!("engine={engine} ops={n}");
}
