//! Engine `apps` (stateful): `LiveList` (src/fdl/live_list.rs) and `DpScanner` (src/dp/scan.rs) driven
//! directly through the `FdlApplication` trait.
//!
//! Ops (`ll.` = LiveList, `sc.` = DpScanner; the two objects are independent):
//!   `X.new <own>`                 -> `ok` | `panic`            (ParametersBuilder::new asserts own <= 125)
//!   `X.tx <hp 0|1>`               -> `none` | `req exp=<a|-> <hex> | <decoded>` | `panic`
//!   `X.reply <addr> <telegram>`   -> `ok` | `panic`            telegram = `sc` | `token da sa` | `data da sa dsap ssap fc pdu`
//!   `X.timeout <addr>`            -> `ok` | `panic`
//!   `X.take`                      -> `none` | `discovered a state` | `lost a` | `found a ident master` | `requery a ident master`
//!   `ll.stations`                 -> `list <sorted comma list | ->`   (DpScanner has no accessor)
//!   `X.env <a:c,...|->`           -> `env`   marker: population from here on (c = g good reply, m other reply)
//! After a panic the object is poisoned: every further op on it answers `dead` until the next `X.new`.
use crate::codec::{obs_decode, parse_header};
use crate::util::*;
use profirust::dp::scan::{DpScanEvent, DpScanner};
use profirust::fdl::live_list::{LiveList, StationEvent};
use profirust::fdl::*;

pub struct Exec {
    ll: Option<(FdlActiveStation, LiveList)>,
    sc: Option<(FdlActiveStation, DpScanner)>,
    now: i64,
}

impl Exec {
    pub fn new() -> Self {
        Exec { ll: None, sc: None, now: 0 }
    }
}

fn station(own: u8) -> Option<FdlActiveStation> {
    guarded(|| FdlActiveStation::new(ParametersBuilder::new(own, profirust::Baudrate::B19200).build()))
}

/// Owned form of a telegram given on an op line.
enum Tg {
    Sc,
    Token(u8, u8),
    Data(DataTelegramHeader, Vec<u8>),
}

fn parse_tg(w: &[&str]) -> Option<Tg> {
    match w {
        ["sc"] => Some(Tg::Sc),
        ["token", da, sa] => Some(Tg::Token(da.parse().ok()?, sa.parse().ok()?)),
        ["data", a, b, c, d, e, pdu] => Some(Tg::Data(parse_header(&[a, b, c, d, e])?, unhex(pdu))),
        _ => None,
    }
}

impl Tg {
    fn with<R>(&self, f: impl FnOnce(Telegram) -> R) -> R {
        match self {
            Tg::Sc => f(Telegram::ShortConfirmation(ShortConfirmation)),
            Tg::Token(da, sa) => f(Telegram::Token(TokenTelegram::new(*da, *sa))),
            Tg::Data(h, pdu) => f(Telegram::Data(DataTelegram { h: h.clone(), pdu })),
        }
    }
}

fn obs_tx(app: &mut dyn FdlApplication, fdl: &FdlActiveStation, now: profirust::time::Instant, hp: bool) -> Option<String> {
    guarded(|| {
        let mut buf = [0xAAu8; 256];
        let r = app.transmit_telegram(
            now,
            fdl,
            TelegramTx::new(&mut buf),
            if hp { HighPrioOnly::Yes } else { HighPrioOnly::No },
        );
        match r {
            None => "none".to_string(),
            Some(resp) => {
                let n = resp.bytes_sent().min(256);
                format!("req exp={} {} | {}", opt_u8(resp.expects_reply()), hex(&buf[..n]), obs_decode(&buf[..n]))
            }
        }
    })
}

fn ok_or_panic(r: Option<()>) -> Option<String> {
    r.map(|_| "ok".to_string())
}

impl crate::Executor for Exec {
    fn exec(&mut self, line: &str) -> String {
        let w: Vec<&str> = line.split(' ').collect();
        self.now += 100;
        let now = profirust::time::Instant::from_micros(self.now);
        let Some((app, op)) = w[0].split_once('.') else {
            return "bad-op".to_string();
        };
        if op == "env" {
            return "env".to_string();
        }
        if op == "new" {
            let Some(own) = w.get(1).and_then(|s| s.parse::<u8>().ok()) else {
                return "bad-op".to_string();
            };
            let st = station(own);
            let ok = st.is_some();
            match app {
                "ll" => self.ll = st.map(|s| (s, LiveList::new())),
                "sc" => self.sc = st.map(|s| (s, DpScanner::new())),
                _ => return "bad-op".to_string(),
            }
            return if ok { "ok" } else { "panic" }.to_string();
        }
        // generic part: both applications through the trait object
        let res: Option<String> = match app {
            "ll" => {
                let Some((fdl, a)) = self.ll.as_mut() else {
                    return "dead".to_string();
                };
                match (op, &w[1..]) {
                    ("tx", [hp]) => obs_tx(a, fdl, now, *hp == "1"),
                    ("reply", [addr, tg @ ..]) => match (addr.parse::<u8>(), parse_tg(tg)) {
                        (Ok(addr), Some(tg)) => ok_or_panic(guarded(|| tg.with(|t| a.receive_reply(now, fdl, addr, t)))),
                        _ => return "bad-op".to_string(),
                    },
                    ("timeout", [addr]) => match addr.parse::<u8>() {
                        Ok(addr) => ok_or_panic(guarded(|| a.handle_timeout(now, fdl, addr))),
                        _ => return "bad-op".to_string(),
                    },
                    ("take", []) => guarded(|| match a.take_last_event() {
                        None => "none".to_string(),
                        Some(StationEvent::Discovered(d)) => format!("discovered {} {}", d.address, d.state as u8),
                        Some(StationEvent::Lost(x)) => format!("lost {x}"),
                    }),
                    ("stations", []) => guarded(|| {
                        let mut v: Vec<u8> = a.iter_stations().collect();
                        v.sort();
                        if v.is_empty() {
                            "list -".to_string()
                        } else {
                            format!("list {}", v.iter().map(|x| x.to_string()).collect::<Vec<_>>().join(","))
                        }
                    }),
                    _ => return "bad-op".to_string(),
                }
            }
            "sc" => {
                let Some((fdl, a)) = self.sc.as_mut() else {
                    return "dead".to_string();
                };
                match (op, &w[1..]) {
                    ("tx", [hp]) => obs_tx(a, fdl, now, *hp == "1"),
                    ("reply", [addr, tg @ ..]) => match (addr.parse::<u8>(), parse_tg(tg)) {
                        (Ok(addr), Some(tg)) => ok_or_panic(guarded(|| tg.with(|t| a.receive_reply(now, fdl, addr, t)))),
                        _ => return "bad-op".to_string(),
                    },
                    ("timeout", [addr]) => match addr.parse::<u8>() {
                        Ok(addr) => ok_or_panic(guarded(|| a.handle_timeout(now, fdl, addr))),
                        _ => return "bad-op".to_string(),
                    },
                    ("take", []) => guarded(|| match a.take_last_event() {
                        None => "none".to_string(),
                        Some(DpScanEvent::PeripheralFound(d)) => {
                            format!("found {} {} {}", d.address, d.ident, opt_u8(d.master_address))
                        }
                        Some(DpScanEvent::PeripheralRequery(d)) => {
                            format!("requery {} {} {}", d.address, d.ident, opt_u8(d.master_address))
                        }
                        Some(DpScanEvent::PeripheralLost(x)) => format!("lost {x}"),
                    }),
                    _ => return "bad-op".to_string(),
                }
            }
            _ => return "bad-op".to_string(),
        };
        match res {
            Some(s) => s,
            None => {
                // poisoned
                if app == "ll" {
                    self.ll = None
                } else {
                    self.sc = None
                }
                "panic".to_string()
            }
        }
    }
}

// ------------------------------------------------------------------------------------------------
// Generator
// ------------------------------------------------------------------------------------------------

const OWN: [u8; 7] = [0, 1, 2, 63, 124, 125, 126];

/// What answers at one address.
#[derive(Clone, PartialEq)]
enum Beh {
    Silent,
    /// reply of the stated population: LL = response telegram, SC = well-formed diagnostics response
    Good { dsap: Option<u8>, ssap: Option<u8>, state: u8, status: u8, pdu: Vec<u8> },
    /// any other reply the contract allows: SC, or (scanner) a response that is no diagnostics response
    Other { sc: bool, dsap: Option<u8>, ssap: Option<u8>, state: u8, status: u8, pdu: Vec<u8> },
}

const STATUS: [u8; 9] = [0, 1, 2, 3, 8, 9, 10, 12, 13];

fn opt(o: Option<u8>) -> String {
    opt_u8(o)
}

impl Beh {
    fn reply_text(&self, own: u8, a: u8) -> Option<String> {
        match self {
            Beh::Silent => None,
            Beh::Good { dsap, ssap, state, status, pdu } | Beh::Other { sc: false, dsap, ssap, state, status, pdu } => Some(
                format!("data {own} {a} {} {} r.{state}.{status} {}", opt(*dsap), opt(*ssap), hex(pdu)),
            ),
            Beh::Other { sc: true, .. } => Some("sc".to_string()),
        }
    }
    fn class(&self) -> Option<char> {
        match self {
            Beh::Silent => None,
            Beh::Good { .. } => Some('g'),
            Beh::Other { .. } => Some('m'),
        }
    }
}

fn diag_pdu(rng: &mut Rng) -> Vec<u8> {
    let extra = match rng.below(4) {
        0 => 0,
        1 => 1 + rng.below(4) as usize,
        _ => 0,
    };
    let mut p = vec![
        rng.u8() & 0x0f,
        // station_status_2: the permanent bit (0x04) mostly set
        if rng.chance(7, 8) { 0x04 | (rng.u8() & 0xf3) } else { rng.u8() & 0xfb },
        rng.u8() & 0x80,
        // master address: 255 = none
        match rng.below(4) {
            0 => 255,
            1 => 254,
            _ => rng.below(126) as u8,
        },
        *rng.pick(&[0x00u8, 0x12, 0x80, 0xff, 0x01]),
        *rng.pick(&[0x00u8, 0x34, 0x7f, 0xff, 0x02]),
    ];
    if rng.chance(1, 3) {
        p[4] = rng.u8();
        p[5] = rng.u8();
    }
    p.extend(rng.bytes(extra));
    p
}

fn random_beh(rng: &mut Rng, scanner: bool, exotic: bool) -> Beh {
    let state = rng.below(4) as u8;
    let status = *rng.pick(&STATUS);
    if !scanner {
        if exotic && rng.chance(1, 6) {
            return Beh::Other { sc: true, dsap: None, ssap: None, state, status, pdu: vec![] };
        }
        if rng.chance(1, 8) {
            // a response that is not an FDL status response (SAPs / data): still a response telegram
            let n = rng.below(5) as usize;
            return Beh::Good {
                dsap: if rng.bool() { Some(rng.u8()) } else { None },
                ssap: if rng.bool() { Some(rng.u8()) } else { None },
                state,
                status,
                pdu: rng.bytes(n),
            };
        }
        Beh::Good { dsap: None, ssap: None, state, status, pdu: vec![] }
    } else {
        if exotic && rng.chance(1, 4) {
            return match rng.below(5) {
                0 => Beh::Other { sc: true, dsap: None, ssap: None, state, status, pdu: vec![] },
                // short PDU
                1 => {
                    let n = rng.below(6) as usize;
                    Beh::Other { sc: false, dsap: Some(62), ssap: Some(60), state, status: 8, pdu: rng.bytes(n) }
                }
                // wrong SAPs
                2 => Beh::Other { sc: false, dsap: Some(60), ssap: Some(62), state, status: 8, pdu: diag_pdu(rng) },
                3 => Beh::Other {
                    sc: false,
                    dsap: if rng.bool() { Some(62) } else { None },
                    ssap: if rng.bool() { Some(rng.u8()) } else { None },
                    state,
                    status: 8,
                    pdu: diag_pdu(rng),
                },
                // what a station without DP slave functionality answers: RS / no service
                _ => Beh::Other { sc: false, dsap: None, ssap: None, state, status: 3, pdu: vec![] },
            };
        }
        Beh::Good { dsap: Some(62), ssap: Some(60), state, status: if rng.chance(3, 4) { 8 } else { status }, pdu: diag_pdu(rng) }
    }
}

struct Case<'a> {
    ops: &'a mut Vec<String>,
    k: &'static str,
    scanner: bool,
    own: u8,
    cursor: u8,
    done: bool,
    pop: Vec<Beh>,
}

impl<'a> Case<'a> {
    fn new(ops: &'a mut Vec<String>, scanner: bool, own: u8) -> Self {
        let k = if scanner { "sc" } else { "ll" };
        ops.push(format!("{k}.new {own}"));
        Case { ops, k, scanner, own, cursor: 0, done: false, pop: vec![Beh::Silent; 126] }
    }
    fn env(&mut self) {
        let items: Vec<String> =
            (0..126).filter_map(|a| self.pop[a].class().map(|c| format!("{a}:{c}"))).collect();
        self.ops.push(format!("{}.env {}", self.k, if items.is_empty() { "-".to_string() } else { items.join(",") }));
    }
    /// mirror of the cursor logic, only used to address the callbacks
    fn tx(&mut self, rng: &mut Rng) -> Option<u8> {
        self.ops.push(format!("{}.tx {}", self.k, rng.below(2)));
        if self.done {
            self.done = false;
            self.cursor = if self.cursor < 125 { self.cursor + 1 } else { 0 };
            None
        } else {
            Some(self.cursor)
        }
    }
    fn take(&mut self) {
        self.ops.push(format!("{}.take", self.k));
    }
    fn stations(&mut self) {
        if !self.scanner {
            self.ops.push("ll.stations".to_string());
        }
    }
    /// One token visit.  `loss`: per-mille probability that the reply of a responder is lost;
    /// `nocb`: per-mille probability that no callback at all is delivered (token lost);
    /// `sloppy`: per-mille probability that the event is not collected.
    fn visit(&mut self, rng: &mut Rng, loss: u64, nocb: u64, sloppy: u64) {
        let Some(a) = self.tx(rng) else {
            return;
        };
        if rng.below(1000) < nocb {
            return;
        }
        let reply = if a == self.own || rng.below(1000) < loss { None } else { self.pop[a as usize].reply_text(self.own, a) };
        match reply {
            Some(t) => self.ops.push(format!("{}.reply {a} {t}", self.k)),
            None => self.ops.push(format!("{}.timeout {a}", self.k)),
        }
        self.done = true;
        let r = rng.below(1000);
        if r < sloppy {
            self.tx(rng);
        } else if r < sloppy + 150 {
            // collected after the poll that also ended the visit
            self.tx(rng);
            self.take();
        } else {
            self.take();
            if rng.chance(1, 30) {
                self.take();
            }
            self.tx(rng);
        }
    }
    fn sweep(&mut self, rng: &mut Rng, visits: usize, loss: u64, nocb: u64, sloppy: u64) {
        for i in 0..visits {
            self.visit(rng, loss, nocb, sloppy);
            if i % 97 == 96 {
                self.stations();
            }
        }
        self.stations();
        self.take();
    }
}

fn random_pop(rng: &mut Rng, scanner: bool, exotic: bool) -> Vec<Beh> {
    let density = *rng.pick(&[0u64, 2, 8, 30, 60, 100]);
    let mut pop: Vec<Beh> = (0..126)
        .map(|_| if rng.below(100) < density { random_beh(rng, scanner, exotic) } else { Beh::Silent })
        .collect();
    for a in [0usize, 1, 124, 125] {
        if rng.chance(1, 2) {
            pop[a] = random_beh(rng, scanner, exotic);
        }
    }
    pop
}

fn mutate_pop(rng: &mut Rng, pop: &mut Vec<Beh>, scanner: bool, exotic: bool) {
    let n = 1 + rng.below(12);
    for _ in 0..n {
        let a = match rng.below(4) {
            0 => *rng.pick(&[0usize, 1, 2, 63, 124, 125]),
            _ => rng.below(126) as usize,
        };
        pop[a] = match (&pop[a], rng.below(3)) {
            (Beh::Silent, _) => random_beh(rng, scanner, exotic),
            (_, 0) => random_beh(rng, scanner, exotic),
            _ => Beh::Silent,
        };
    }
}

/// A long in-contract case: several populations, the last one held for more than two sweeps.
fn long_case(ops: &mut Vec<String>, rng: &mut Rng, scanner: bool, own: u8, exotic: bool, sloppy: u64) {
    let mut c = Case::new(ops, scanner, own);
    if own > 125 {
        c.tx(rng);
        c.take();
        c.stations();
        return;
    }
    c.pop = random_pop(rng, scanner, exotic);
    c.env();
    let phases = 1 + rng.below(3);
    for _ in 0..phases {
        let visits = match rng.below(3) {
            0 => rng.below(40) as usize,
            1 => 100 + rng.below(60) as usize,
            _ => 126 + rng.below(150) as usize,
        };
        let loss = *rng.pick(&[0u64, 0, 20, 200]);
        let nocb = *rng.pick(&[0u64, 0, 10, 100]);
        c.sweep(rng, visits, loss, nocb, sloppy);
        mutate_pop(rng, &mut c.pop, scanner, exotic);
        c.env();
    }
    // stable for at least two full sweeps (2 * 126 callbacks), then keep observing
    let visits = 3 * 126 + rng.below(30) as usize;
    c.sweep(rng, visits, 0, 0, sloppy);
}

/// Bounded-exhaustive: one watched address takes every behaviour sequence of length 3 (one behaviour
/// per sweep), all other addresses silent except a fixed neighbour.
fn tiny_case(ops: &mut Vec<String>, rng: &mut Rng, scanner: bool, own: u8, watch: u8, seq: [u8; 3]) {
    let mut c = Case::new(ops, scanner, own);
    let nb = (watch as usize + 1) % 126;
    c.pop[nb] = random_beh(rng, scanner, false);
    for (i, b) in seq.iter().enumerate() {
        c.pop[watch as usize] = match b {
            0 => Beh::Silent,
            1 => random_beh(rng, scanner, false),
            2 => Beh::Other { sc: true, dsap: None, ssap: None, state: 0, status: 0, pdu: vec![] },
            _ => {
                if scanner {
                    Beh::Other { sc: false, dsap: None, ssap: None, state: 3, status: 3, pdu: vec![] }
                } else {
                    Beh::Good { dsap: Some(3), ssap: None, state: 2, status: 8, pdu: vec![1, 2] }
                }
            }
        };
        c.env();
        let visits = if i == 2 { 2 * 126 + 3 } else { 126 };
        c.sweep(rng, visits, 0, 0, 0);
    }
}

fn random_tg(rng: &mut Rng, own: u8, a: u8) -> String {
    let addr = |rng: &mut Rng, dflt: u8| match rng.below(4) {
        0 => rng.u8() & 0x7f,
        _ => dflt,
    };
    match rng.below(8) {
        0 => "sc".to_string(),
        1 => format!("token {} {}", addr(rng, own), addr(rng, a)),
        2 => {
            // request function code: the FDL layer never forwards this
            let req = *rng.pick(&[3u8, 4, 5, 6, 9, 12, 13, 14, 15]);
            format!("data {} {} - - q.{}.{} -", addr(rng, own), addr(rng, a), rng.pick(&["F", "H", "L", "I"]), req)
        }
        _ => {
            let n = *rng.pick(&[0usize, 0, 3, 5, 6, 7, 12]);
            let sap = |rng: &mut Rng, good: u8| match rng.below(4) {
                0 => None,
                1 => Some(rng.u8()),
                _ => Some(good),
            };
            format!(
                "data {} {} {} {} r.{}.{} {}",
                addr(rng, own),
                addr(rng, a),
                opt(sap(rng, 62)),
                opt(sap(rng, 60)),
                rng.below(4),
                rng.pick(&STATUS),
                hex(&rng.bytes(n))
            )
        }
    }
}

/// Short case outside the contract: arbitrary callback order, addresses up to 255, any telegram kind.
fn wild_case(ops: &mut Vec<String>, rng: &mut Rng, scanner: bool, own: u8) {
    let k = if scanner { "sc" } else { "ll" };
    ops.push(format!("{k}.new {own}"));
    let n = 10 + rng.below(40);
    for _ in 0..n {
        let a = match rng.below(24) {
            0 => rng.u8(),
            1 => *rng.pick(&[127u8, 128, 255]),
            2..=5 => *rng.pick(&[124u8, 125, 126, 127]),
            6..=9 => rng.below(126) as u8,
            _ => rng.below(4) as u8,
        };
        match rng.below(10) {
            0..=2 => ops.push(format!("{k}.tx {}", rng.below(2))),
            3..=5 => ops.push(format!("{k}.reply {a} {}", random_tg(rng, own, a))),
            6 => ops.push(format!("{k}.timeout {a}")),
            7 | 8 => ops.push(format!("{k}.take")),
            _ => {
                if !scanner {
                    ops.push("ll.stations".to_string())
                } else {
                    ops.push(format!("{k}.take"))
                }
            }
        }
    }
}

pub fn gen(ops: &mut Vec<String>, seed: u64, thorough: bool) {
    let mut case = 0u64;
    let next = |case: &mut u64| {
        *case += 1;
        Rng::new(seed, "apps", *case)
    };
    // 1. every own address of the boundary set, both applications, plain population
    for scanner in [false, true] {
        for own in OWN {
            let mut rng = next(&mut case);
            long_case(ops, &mut rng, scanner, own, false, 0);
        }
    }
    // 2. random long cases (exotic replies, lost replies, lost tokens, sloppy collection)
    let n = if thorough { 260 } else { 4 };
    for i in 0..n {
        for scanner in [false, true] {
            let mut rng = next(&mut case);
            let own = if rng.chance(1, 2) { *rng.pick(&OWN[..6]) } else { rng.below(126) as u8 };
            let sloppy = if i % 4 == 3 { 30 } else { 0 };
            long_case(ops, &mut rng, scanner, own, true, sloppy);
        }
    }
    // 3. bounded-exhaustive behaviour sequences of one address (4^3 per application and address)
    let watches: &[u8] = if thorough { &[0, 125, 7] } else { &[125] };
    for scanner in [false, true] {
        for &watch in watches {
            for s in 0..64u8 {
                let seq = [s & 3, (s >> 2) & 3, (s >> 4) & 3];
                if !thorough && !(s % 9 == 1 || seq == [1, 2, 0] || seq == [1, 3, 3]) {
                    continue;
                }
                let mut rng = next(&mut case);
                let own = if watch == 7 { 7 } else { 2 };
                tiny_case(ops, &mut rng, scanner, own, watch, seq);
            }
        }
    }
    // 4. outside the contract (correspondence only)
    let n = if thorough { 6000 } else { 150 };
    for _ in 0..n {
        for scanner in [false, true] {
            let mut rng = next(&mut case);
            let own = if rng.chance(1, 8) { 126 } else { *rng.pick(&OWN[..6]) };
            wild_case(ops, &mut rng, scanner, own);
        }
    }
}
