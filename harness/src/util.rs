//! Shared helpers: PRNG, hex, panic capture, sink logger, paired op/observation writer.
use std::io::Write;

/// SplitMix64 — every random choice of the harness derives from one of these.
#[derive(Clone)]
pub struct Rng(pub u64);

impl Rng {
    pub fn new(seed: u64, engine: &str, case: u64) -> Self {
        let mut h = seed ^ 0x9E37_79B9_7F4A_7C15;
        for b in engine.bytes() {
            h = (h ^ u64::from(b)).wrapping_mul(0x100_0000_01B3);
        }
        let mut r = Rng(h ^ case.wrapping_mul(0xD6E8_FEB8_6659_FD93));
        r.next();
        r
    }
    pub fn next(&mut self) -> u64 {
        // generators draw constantly: this is their progress signal for the hang watchdog
        TICK.fetch_add(1, std::sync::atomic::Ordering::Relaxed);
        self.0 = self.0.wrapping_add(0x9E37_79B9_7F4A_7C15);
        let mut z = self.0;
        z = (z ^ (z >> 30)).wrapping_mul(0xBF58_476D_1CE4_E5B9);
        z = (z ^ (z >> 27)).wrapping_mul(0x94D0_49BB_1331_11EB);
        z ^ (z >> 31)
    }
    pub fn below(&mut self, n: u64) -> u64 {
        if n == 0 {
            0
        } else {
            self.next() % n
        }
    }
    pub fn range(&mut self, lo: u64, hi_incl: u64) -> u64 {
        lo + self.below(hi_incl - lo + 1)
    }
    pub fn u8(&mut self) -> u8 {
        self.next() as u8
    }
    pub fn bool(&mut self) -> bool {
        self.next() & 1 == 1
    }
    pub fn chance(&mut self, num: u64, den: u64) -> bool {
        self.below(den) < num
    }
    pub fn pick<'a, T>(&mut self, xs: &'a [T]) -> &'a T {
        &xs[self.below(xs.len() as u64) as usize]
    }
    /// `below(bound)` many random bytes.
    pub fn bytes_below(&mut self, bound: u64) -> Vec<u8> {
        let n = self.below(bound) as usize;
        self.bytes(n)
    }
    pub fn bytes(&mut self, n: usize) -> Vec<u8> {
        (0..n).map(|_| self.u8()).collect()
    }
}

pub fn hex(bs: &[u8]) -> String {
    if bs.is_empty() {
        return "-".to_string();
    }
    let mut s = String::with_capacity(bs.len() * 2);
    for b in bs {
        s.push_str(&format!("{:02x}", b));
    }
    s
}

pub fn unhex(s: &str) -> Vec<u8> {
    if s == "-" {
        return vec![];
    }
    (0..s.len() / 2)
        .map(|i| u8::from_str_radix(&s[2 * i..2 * i + 2], 16).unwrap())
        .collect()
}

pub fn opt_u8(o: Option<u8>) -> String {
    match o {
        None => "-".to_string(),
        Some(b) => b.to_string(),
    }
}

/// Logger that formats every record at every level (so panics hidden in log arguments surface)
/// and throws the text away.
struct SinkLogger;
impl log::Log for SinkLogger {
    fn enabled(&self, _: &log::Metadata) -> bool {
        true
    }
    fn log(&self, record: &log::Record) {
        use std::fmt::Write as _;
        let mut s = String::new();
        let _ = write!(s, "{}", record.args());
        std::hint::black_box(&s);
    }
    fn flush(&self) {}
}
static LOGGER: SinkLogger = SinkLogger;

pub fn init() {
    let _ = log::set_logger(&LOGGER);
    log::set_max_level(log::LevelFilter::Trace);
    // Silence the default panic message; panics are observations here.
    std::panic::set_hook(Box::new(|info| {
        if std::env::var_os("PV_SHOW_PANICS").is_some() {
            eprintln!("panic: {info}");
        }
    }));
}

/// Progress counter for the hang watchdog: bumped around every call into the code under test.
pub static TICK: std::sync::atomic::AtomicU64 = std::sync::atomic::AtomicU64::new(0);

/// Run `f`, mapping a panic to `None`.
pub fn guarded<T>(f: impl FnOnce() -> T) -> Option<T> {
    TICK.fetch_add(1, std::sync::atomic::Ordering::Relaxed);
    let r = std::panic::catch_unwind(std::panic::AssertUnwindSafe(f)).ok();
    TICK.fetch_add(1, std::sync::atomic::Ordering::Relaxed);
    r
}

/// Watchdog: if the harness makes no progress for `secs` seconds, a call into the code under test does not
/// return (the engines that run the real code in-process have no other way to get out).  The process exits
/// with code 4 and a `HANG` line; the orchestrator reports it as a violation of "returns in bounded time".
pub fn start_watchdog(engine: &str, secs: u64) {
    let engine = engine.to_string();
    std::thread::spawn(move || {
        let mut last = TICK.load(std::sync::atomic::Ordering::Relaxed);
        let mut idle = 0u64;
        loop {
            std::thread::sleep(std::time::Duration::from_secs(1));
            let now = TICK.load(std::sync::atomic::Ordering::Relaxed);
            if now == last {
                idle += 1;
                if idle >= secs {
                    println!("HANG engine={engine}: no progress for {secs} s — a call into the code under test does not return");
                    std::process::exit(4);
                }
            } else {
                idle = 0;
                last = now;
            }
        }
    });
}

/// Paired writer: one operation line (input for the Lean model) and one observation line
/// (what the implementation did) per operation.
pub struct Out {
    ops: std::io::BufWriter<std::fs::File>,
    obs: std::io::BufWriter<std::fs::File>,
    pub count: u64,
}

impl Out {
    pub fn new(dir: &str, engine: &str) -> Self {
        std::fs::create_dir_all(dir).unwrap();
        let ops = std::fs::File::create(format!("{dir}/{engine}.ops")).unwrap();
        let obs = std::fs::File::create(format!("{dir}/{engine}.impl")).unwrap();
        Out {
            ops: std::io::BufWriter::with_capacity(1 << 20, ops),
            obs: std::io::BufWriter::with_capacity(1 << 20, obs),
            count: 0,
        }
    }
    pub fn put(&mut self, op: &str, obs: &str) {
        debug_assert!(!op.contains('\n') && !obs.contains('\n'));
        writeln!(self.ops, "{op}").unwrap();
        writeln!(self.obs, "{obs}").unwrap();
        self.count += 1;
    }
    pub fn finish(mut self) -> u64 {
        self.ops.flush().unwrap();
        self.obs.flush().unwrap();
        self.count
    }
}
