//! Engine `phyrx`: the generic `ProfibusPhy` receive helpers (C16), over a scripted PHY (`rx.*`) and
//! over the repository's `SimulatorPhy` (`sim.*`, bytes released by advancing bus time).
use crate::codec::{all_fcs, show_telegram};
use crate::decoder::random_frame;
use crate::util::*;
use profirust::phy::{ProfibusPhy, SimulatorPhy};
use profirust::time::{Duration, Instant};

/// Minimal PHY: a byte buffer; `receive_data` hands out everything pending and drops what `f` says.
pub struct ScriptPhy {
    pub rx: Vec<u8>,
}
impl ProfibusPhy for ScriptPhy {
    fn poll_transmission(&mut self, _now: Instant) -> bool {
        false
    }
    fn transmit_data<F, R>(&mut self, _now: Instant, f: F) -> R
    where
        F: FnOnce(&mut [u8]) -> (usize, R),
    {
        let mut buf = [0xA5u8; 256]; // a dirty transmit buffer (real PHYs reuse theirs)
        f(&mut buf).1
    }
    fn receive_data<F, R>(&mut self, _now: Instant, f: F) -> R
    where
        F: FnOnce(&[u8]) -> (usize, R),
    {
        let (drop, r) = f(&self.rx);
        assert!(drop <= self.rx.len(), "dropping more than pending");
        self.rx.drain(..drop);
        r
    }
}

enum Phy {
    None,
    Script(ScriptPhy),
    Sim { tx: SimulatorPhy, rx: SimulatorPhy },
}

pub struct Exec {
    phy: Phy,
}
impl Exec {
    pub fn new() -> Self {
        Exec { phy: Phy::None }
    }
}

fn fmt_calls(calls: &[(String, bool)], ret: bool, pending: usize) -> String {
    let cs: Vec<String> = calls.iter().map(|(t, l)| format!("{}${}", t.replace(' ', ","), *l as u8)).collect();
    format!("calls [{}] ret={} pending={}", cs.join(";"), ret as u8, pending)
}

fn recv_all<P: ProfibusPhy>(phy: &mut P, now: Instant) -> String {
    let mut calls = vec![];
    let r = guarded(|| phy.receive_all_telegrams(now, |t, last| calls.push((show_telegram(&t), last))));
    match r {
        None => "panic".to_string(),
        Some(ret) => {
            let pending = phy.poll_pending_received_bytes(now);
            fmt_calls(&calls, ret.is_some(), pending)
        }
    }
}
fn recv_one<P: ProfibusPhy>(phy: &mut P, now: Instant) -> String {
    let mut calls = vec![];
    let before = phy.poll_pending_received_bytes(now);
    let r = guarded(|| phy.receive_telegram(now, |t| calls.push(show_telegram(&t))));
    match r {
        None => "panic".to_string(),
        Some(ret) => {
            let pending = phy.poll_pending_received_bytes(now);
            // `receive_telegram` does not pass is_last; the observable equivalent is "nothing pending afterwards"
            let _ = before;
            let calls: Vec<(String, bool)> = calls.into_iter().map(|t| (t, pending == 0)).collect();
            fmt_calls(&calls, ret.is_some(), pending)
        }
    }
}

impl crate::Executor for Exec {
    fn exec(&mut self, line: &str) -> String {
        let w: Vec<&str> = line.split(' ').collect();
        let now = match &self.phy {
            Phy::Sim { rx, .. } => rx.bus_time(),
            _ => Instant::ZERO,
        };
        match (w.as_slice(), &mut self.phy) {
            (["rx.new", _mode], _) => {
                self.phy = Phy::Script(ScriptPhy { rx: vec![] });
                "ok".into()
            }
            (["sim.new", mode], _) => {
                // `valid` = 500 kbit/s (22 us per character); `valid@<rate>` = another baud rate
                let rate: u64 = mode.split('@').nth(1).map(|r| r.parse().unwrap()).unwrap_or(500_000);
                let Some(baud) = crate::dp::baud_of(rate) else { return "bad-op".into() };
                let tx = SimulatorPhy::new(baud, "tx");
                let rx = tx.duplicate("rx");
                self.phy = Phy::Sim { tx, rx };
                "ok".into()
            }
            (["rx.arrive", h], Phy::Script(p)) => {
                p.rx.extend(unhex(h));
                format!("pending {}", p.rx.len())
            }
            (["rx.all"], Phy::Script(p)) => recv_all(p, now),
            (["rx.one"], Phy::Script(p)) => recv_one(p, now),
            (["rx.end"], _) | (["sim.end"], _) => "end".into(),
            (["sim.send", h], Phy::Sim { tx, .. }) => {
                let data = unhex(h);
                match guarded(|| {
                    tx.transmit_data(now, |b| {
                        b[..data.len()].copy_from_slice(&data);
                        (data.len(), ())
                    })
                }) {
                    Some(()) => "ok".into(),
                    None => "panic".into(),
                }
            }
            (["sim.adv", us, _chunk], Phy::Sim { tx, rx }) => {
                tx.advance_bus_time(Duration::from_micros(us.parse().unwrap()));
                let now = rx.bus_time();
                format!("pending {}", rx.poll_pending_received_bytes(now))
            }
            (["sim.all"], Phy::Sim { rx, .. }) => recv_all(rx, now),
            (["sim.one"], Phy::Sim { rx, .. }) => recv_one(rx, now),
            _ => "bad-op".into(),
        }
    }
}

fn random_telegram_bytes(rng: &mut Rng, fcs: &[profirust::fdl::FunctionCode]) -> Vec<u8> {
    match rng.below(8) {
        0 => vec![0xDC, rng.u8(), rng.u8()],
        1 => vec![0xE5],
        2 => {
            // a valid frame no profirust encoder would produce: SD2 framing with LE = 3 or LE = 11
            // (other stacks may send it; the decoder accepts it)
            let le: u8 = if rng.bool() { 3 } else { 11 };
            let mut body = vec![rng.u8() & 0x7f, rng.u8() & 0x7f, *rng.pick(&[0x49u8, 0x6c, 0x08, 0x5d, 0x00])];
            body.extend(rng.bytes(le as usize - 3));
            let cs = body.iter().fold(0u8, |a, b| a.wrapping_add(*b));
            let mut f = vec![0x68, le, le, 0x68];
            f.extend(body);
            f.push(cs);
            f.push(0x16);
            f
        }
        _ => random_frame(rng, fcs),
    }
}

pub fn gen(ops: &mut Vec<String>, seed: u64, thorough: bool) {
    let fcs = all_fcs();
    let ncases = if thorough { 6000 } else { 400 };
    for case in 0..ncases {
        let mut rng = Rng::new(seed, "phyrx", case);
        let garbage_mode = case % 5 == 4;
        // telegram sequence, geometric length (mean ~4)
        let mut stream: Vec<u8> = vec![];
        let mut boundaries = vec![0usize];
        let mut n = 1;
        while rng.chance(3, 4) && n < 12 {
            n += 1;
        }
        for _ in 0..n {
            stream.extend(random_telegram_bytes(&mut rng, &fcs));
            boundaries.push(stream.len());
        }
        if garbage_mode {
            ops.push("rx.new garbage".to_string());
            // undecodable data first: starts with a non-start byte
            let mut g = rng.bytes_below(20);
            g.insert(0, *rng.pick(&[0x00u8, 0x11, 0x69, 0xFF, 0x16]));
            ops.push(format!("rx.arrive {}", hex(&g)));
            ops.push((if rng.bool() { "rx.all" } else { "rx.one" }).to_string());
            // then one valid telegram, separately, possibly in two chunks
            let t = random_telegram_bytes(&mut rng, &fcs);
            let cut = rng.below(t.len() as u64 + 1) as usize;
            if cut > 0 && cut < t.len() {
                ops.push(format!("rx.arrive {}", hex(&t[..cut])));
                if rng.bool() {
                    ops.push("rx.all".to_string());
                }
                ops.push(format!("rx.arrive {}", hex(&t[cut..])));
            } else {
                ops.push(format!("rx.arrive {}", hex(&t)));
            }
            ops.push("rx.all".to_string());
            ops.push("rx.end".to_string());
            continue;
        }
        if case % 5 == 3 {
            // over the real SimulatorPhy: characters become visible after every full 11 bit times
            // (`time_to_bits(elapsed) / 11`); at 500 kbit/s that is 22 us per byte, at most other baud rates 11
            // bit times are not a whole number of microseconds
            let rate: u64 = *rng.pick(&[500_000u64, 500_000, 1_500_000, 19_200, 93_750, 187_500, 12_000_000, 45_450]);
            ops.push(if rate == 500_000 { "sim.new valid".to_string() } else { format!("sim.new valid@{rate}") });
            let char_us = (11 * 1_000_000 / rate).max(1);
            for k in 0..n {
                let t = &stream[boundaries[k]..boundaries[k + 1]];
                ops.push(format!("sim.send {}", hex(t)));
                let mut visible = 0usize;
                let mut elapsed = 0u64;
                while visible < t.len() {
                    let step = 1 + rng.below(char_us * 6);
                    elapsed += step;
                    let v = ((elapsed * rate / 1_000_000) / 11).min(t.len() as u64) as usize;
                    ops.push(format!("sim.adv {} {}", step, hex(&t[visible..v])));
                    visible = v;
                    match rng.below(4) {
                        0 => ops.push("sim.all".to_string()),
                        1 => ops.push("sim.one".to_string()),
                        _ => {}
                    }
                }
                // leave the 33 bit pause so the simulator accepts the next telegram
                ops.push(format!("sim.adv {} -", 34 * 1_000_000 / rate + 4 + rng.below(50)));
            }
            ops.push("sim.all".to_string());
            ops.push("sim.end".to_string());
            continue;
        }
        ops.push("rx.new valid".to_string());
        // cut points: uniform, plus adversarial cuts at header/length/FCS boundaries
        let mut cuts: Vec<usize> = vec![];
        let ncuts = rng.below(2 + stream.len() as u64 / 3);
        for _ in 0..ncuts {
            cuts.push(rng.below(stream.len() as u64 + 1) as usize);
        }
        for b in &boundaries {
            for d in [0usize, 1, 3, 4, 6] {
                if rng.chance(1, 3) {
                    cuts.push((b + d).min(stream.len()));
                }
                if *b >= d && rng.chance(1, 3) {
                    cuts.push(b - d);
                }
            }
        }
        cuts.push(stream.len());
        cuts.sort();
        cuts.dedup();
        let mut pos = 0;
        for c in cuts {
            if c > pos {
                ops.push(format!("rx.arrive {}", hex(&stream[pos..c])));
                pos = c;
            }
            match rng.below(5) {
                0 | 1 => ops.push("rx.all".to_string()),
                2 => ops.push("rx.one".to_string()),
                _ => {}
            }
        }
        ops.push("rx.all".to_string());
        ops.push("rx.end".to_string());
    }
}
