//! Engine `gsd`: `gsd_parser::parser::{parse, parse_with_warnings}` on text.
//!
//! Op lines (texts travel hex-encoded, UTF-8):
//!   `p <hex text>`                 parse an arbitrary text
//!   `r <hex text> <dump>`          text was rendered from a generated description whose canonical
//!                                  dump is `<dump>` (oracle: parse(render d) = d)
//! Observation: `ok <dump> w=<warnings>` | `err:<kind>` | `panic` | `mismatch` (parse vs parse_with_warnings)
use crate::util::*;
use gsd_parser::*;
use std::collections::BTreeMap;
use std::sync::Arc;

#[path = "gsd_gen.rs"]
mod gsd_gen;

// ---------------------------------------------------------------------------------------------
// canonical dump
// ---------------------------------------------------------------------------------------------

fn hx(s: &str) -> String {
    hex(s.as_bytes())
}
fn opt_hx(s: &Option<String>) -> String {
    match s {
        None => "~".into(),
        Some(s) => hx(s),
    }
}
fn b01(b: bool) -> char {
    if b {
        '1'
    } else {
        '0'
    }
}

fn dump_type(t: &UserPrmDataType) -> String {
    match t {
        UserPrmDataType::Unsigned8 => "u8".into(),
        UserPrmDataType::Unsigned16 => "u16".into(),
        UserPrmDataType::Unsigned32 => "u32".into(),
        UserPrmDataType::Signed8 => "i8".into(),
        UserPrmDataType::Signed16 => "i16".into(),
        UserPrmDataType::Signed32 => "i32".into(),
        UserPrmDataType::Bit(b) => format!("b{b}"),
        UserPrmDataType::BitArea(f, l) => format!("a{f}.{l}"),
    }
}

fn dump_def(d: &UserPrmDataDefinition) -> String {
    let c = match &d.constraint {
        PrmValueConstraint::Unconstrained => "u".to_string(),
        PrmValueConstraint::MinMax(a, b) => format!("r{a}:{b}"),
        PrmValueConstraint::Enum(v) => format!("e{}", v.iter().map(|x| x.to_string()).collect::<Vec<_>>().join(":")),
    };
    let t = match &d.text_ref {
        None => "~".to_string(),
        Some(m) => format!("[{}]", m.iter().map(|(k, v)| format!("{}={}", hx(k), v)).collect::<Vec<_>>().join("/")),
    };
    format!(
        "<{},{},{},{},{},{}{}>",
        hx(&d.name),
        dump_type(&d.data_type),
        d.default_value,
        c,
        t,
        b01(d.changeable),
        b01(d.visible)
    )
}

fn dump_prm(p: &UserPrmData) -> String {
    let c = p.data_const.iter().map(|(o, v)| format!("{o}:{}", hex(v))).collect::<Vec<_>>().join(",");
    let r = p.data_ref.iter().map(|(o, d)| format!("{o}:{}", dump_def(d))).collect::<Vec<_>>().join(",");
    format!("{{{};{};{}}}", p.length, c, r)
}

fn dump_module(m: &Module) -> String {
    format!(
        "{},{},{},{},{}",
        hx(&m.name),
        opt_hx(&m.info_text),
        hex(&m.config),
        m.reference.map(|r| r.to_string()).unwrap_or("~".into()),
        dump_prm(&m.module_prm_data)
    )
}

fn module_index(g: &GenericStationDescription, m: &Arc<Module>) -> String {
    if let Some(i) = g.available_modules.iter().position(|x| Arc::ptr_eq(x, m)) {
        return i.to_string();
    }
    // a description built by the generator shares by value, not by pointer
    match g.available_modules.iter().position(|x| x == m) {
        Some(i) => i.to_string(),
        None => "?".into(),
    }
}

fn dump_bits(b: &BTreeMap<u32, UnitDiagBitInfo>) -> String {
    b.iter().map(|(k, v)| format!("{k}:{}:{}", hx(&v.text), opt_hx(&v.help))).collect::<Vec<_>>().join(",")
}

pub fn dump(g: &GenericStationDescription) -> String {
    let t = &g.max_tsdr;
    let mods = if g.available_modules.is_empty() {
        "~".to_string()
    } else {
        g.available_modules.iter().map(|m| dump_module(m)).collect::<Vec<_>>().join("|")
    };
    let slots = if g.slots.is_empty() {
        "~".to_string()
    } else {
        g.slots
            .iter()
            .map(|s| {
                let a = if s.allowed_modules.is_empty() {
                    "~".to_string()
                } else {
                    s.allowed_modules.iter().map(|m| module_index(g, m)).collect::<Vec<_>>().join(".")
                };
                format!("{},{},{},{}", s.number, hx(&s.name), module_index(g, &s.default), a)
            })
            .collect::<Vec<_>>()
            .join("|")
    };
    let areas = g
        .unit_diag
        .areas
        .iter()
        .map(|a| {
            format!(
                "{}:{}:{}",
                a.first,
                a.last,
                a.values.iter().map(|(k, v)| format!("{k}={}", hx(v))).collect::<Vec<_>>().join("/")
            )
        })
        .collect::<Vec<_>>()
        .join(",");
    format!(
        "g={},{},{};s={},{},{},{},{},{};f={}{}{}{}{}{};x={},{},{},{},{};b={};t={},{},{},{},{},{},{},{},{},{},{};M={};S={};P={};U={};{};{}",
        g.gsd_revision,
        g.revision_number,
        g.ident_number,
        hx(&g.vendor),
        hx(&g.model),
        hx(&g.revision),
        hx(&g.hardware_release),
        hx(&g.software_release),
        hx(&g.implementation_type),
        b01(g.freeze_mode_supported),
        b01(g.sync_mode_supported),
        b01(g.auto_baud_supported),
        b01(g.set_slave_addr_supported),
        b01(g.fail_safe),
        b01(g.modular_station),
        g.max_modules,
        g.max_input_length,
        g.max_output_length,
        g.max_data_length,
        g.max_diag_data_length,
        g.supported_speeds.bits(),
        t.b9600,
        t.b19200,
        t.b31250,
        t.b45450,
        t.b93750,
        t.b187500,
        t.b500000,
        t.b1500000,
        t.b3000000,
        t.b6000000,
        t.b12000000,
        mods,
        slots,
        dump_prm(&g.user_prm_data),
        dump_bits(&g.unit_diag.bits),
        dump_bits(&g.unit_diag.not_bits),
        areas
    )
}

// ---------------------------------------------------------------------------------------------
// error / warning classification (small enums; message wording beyond the prefix is not compared)
// ---------------------------------------------------------------------------------------------

fn message(e: &parser::ParseError) -> Option<&str> {
    match &e.variant {
        pest::error::ErrorVariant::CustomError { message } => Some(message.as_str()),
        pest::error::ErrorVariant::ParsingError { .. } => None,
    }
}

fn err_kind(e: &parser::ParseError) -> &'static str {
    let Some(m) = message(e) else { return "syntax" };
    if m == "expected a number" {
        "num"
    } else if m == "invalid digit found while parsing integer" {
        "digit"
    } else if m == "invalid digit found while parsing signed integer" {
        "sdigit"
    } else if m == "out of range integral type conversion attempted" {
        "range"
    } else if m == "expected a list of numbers" {
        "list"
    } else if m == "expected a string literal" {
        "str"
    } else if m.starts_with("unknown data type") {
        "dtype"
    } else if m.starts_with("PrmText ") {
        "textref"
    } else if m.starts_with("ExtUserPrmData ") {
        "dataref"
    } else if m.starts_with("Slot ") && m.contains("Default module with reference") {
        "slotdefault"
    } else if m.starts_with("User_Prm_Data has maximum length") {
        "prmlen"
    } else if m == "missing value after the index in parentheses" {
        "missing"
    } else {
        "?"
    }
}

fn warn_kind(e: &parser::ParseError) -> &'static str {
    let Some(m) = message(e) else { return "?" };
    if m.starts_with("Slot ") && m.ends_with("does not exist?") {
        "wa"
    } else if m.starts_with("Slot ") && m.ends_with("is not listed in allowed range?") {
        "wd"
    } else if m.starts_with("Is a compact station but Max_Module") {
        "wm"
    } else if m.starts_with("Is a compact station but there are") {
        "wn"
    } else {
        "?"
    }
}

fn dump_warnings(ws: &[parser::ParseError]) -> String {
    if ws.is_empty() {
        return "-".into();
    }
    let mut out: Vec<String> = vec![];
    let mut i = 0;
    while i < ws.len() {
        let k = warn_kind(&ws[i]);
        let mut n = 1;
        while i + n < ws.len() && warn_kind(&ws[i + n]) == k {
            n += 1;
        }
        out.push(if n == 1 { k.to_string() } else { format!("{k}*{n}") });
        i += n;
    }
    out.join(",")
}

pub fn observe(text: &str) -> String {
    let path = std::path::Path::new("x.gsd");
    let a = guarded(|| {
        let (res, warnings) = parser::parse_with_warnings(path, text);
        match res {
            Ok(g) => format!("ok {} w={}", dump(&g), dump_warnings(&warnings)),
            Err(e) => {
                if std::env::var_os("PV_SHOW_ERRORS").is_some() {
                    eprintln!("{e}");
                }
                format!("err:{}", err_kind(&e))
            }
        }
    })
    .unwrap_or_else(|| "panic".to_string());
    let b = guarded(|| match parser::parse(path, text) {
        Ok(g) => format!("ok {}", dump(&g)),
        Err(e) => format!("err:{}", err_kind(&e)),
    })
    .unwrap_or_else(|| "panic".to_string());
    let same = if a.starts_with("ok ") { a.starts_with(&format!("{b} w=")) } else { a == b };
    if same {
        a
    } else {
        "mismatch".to_string()
    }
}

pub fn exec(line: &str) -> String {
    let w: Vec<&str> = line.split(' ').collect();
    match w.as_slice() {
        ["p", t] | ["r", t, _] => match String::from_utf8(unhex(t)) {
            Ok(s) => observe(&s),
            Err(_) => "bad-op".to_string(),
        },
        _ => "bad-op".to_string(),
    }
}

pub fn gen(ops: &mut Vec<String>, seed: u64, thorough: bool) {
    gsd_gen::gen(ops, seed, thorough)
}
