//! Engine `gap`: `next_gap_poll` through the `verif-hooks` view (C12 core).
//! op: gap <ts> <ns> <hsa> <cur>   obs: poll <a> | wait | panic
use crate::util::*;
use profirust::fdl::FdlActiveStation;

pub fn exec(line: &str) -> String {
    let w: Vec<&str> = line.split(' ').collect();
    match w.as_slice() {
        ["gap", ts, ns, hsa, cur] => {
            let (ts, ns, hsa, cur): (u8, u8, u8, u8) =
                (ts.parse().unwrap(), ns.parse().unwrap(), hsa.parse().unwrap(), cur.parse().unwrap());
            match guarded(|| FdlActiveStation::verif_next_gap_poll(ts, ns, hsa, cur)) {
                None => "panic".into(),
                Some(Some(a)) => format!("poll {a}"),
                Some(None) => "wait".into(),
            }
        }
        _ => "bad-op".into(),
    }
}

pub fn gen(ops: &mut Vec<String>, seed: u64, thorough: bool) {
    let mut rng = Rng::new(seed, "gap", 0);
    let small = if thorough { 32 } else { 16 };
    // exhaustive for small HSA (NS may lie at or above HSA: learnt from witnessed passes)
    for hsa in 1..=small {
        for ts in 0..hsa {
            for ns in 0..=(hsa + 2).min(125) {
                for cur in 0..hsa {
                    ops.push(format!("gap {ts} {ns} {hsa} {cur}"));
                }
            }
        }
    }
    // boundary families for every HSA
    for hsa in 1..=126u16 {
        let tss = [0u16, 1, hsa / 2, hsa.saturating_sub(2), hsa - 1];
        for ts in tss {
            if ts >= hsa {
                continue;
            }
            let nss = [ts, ts + 1, ts.wrapping_sub(1) % 126, hsa - 1, 0, hsa, hsa + 1, 125, ts + 2];
            for ns in nss {
                if ns > 125 {
                    continue;
                }
                let curs = [ts, ts + 1, ts.wrapping_sub(1) % hsa, hsa - 1, 0, hsa.saturating_sub(2), ns % hsa, (ns + hsa - 1) % hsa];
                for cur in curs {
                    if cur < hsa {
                        ops.push(format!("gap {ts} {ns} {hsa} {cur}"));
                    }
                }
            }
        }
    }
    // random, incl. arguments outside the station's invariant (cur >= hsa, ts >= hsa, hsa = 0);
    // TS and NS stay valid addresses (<= 125): the hook builds a real station / LAS from them
    let n = if thorough { 300_000 } else { 20_000 };
    for _ in 0..n {
        let hsa = if rng.chance(1, 50) { rng.below(256) } else { 1 + rng.below(126) };
        let ts = if rng.chance(1, 30) { rng.below(126) } else { rng.below(hsa.max(1)).min(125) };
        let ns = rng.below(126);
        let cur = if rng.chance(1, 30) { rng.below(256) } else { rng.below(hsa.max(1)) };
        ops.push(format!("gap {ts} {ns} {hsa} {cur}"));
    }
}
