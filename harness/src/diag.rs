//! Engine `diag`: diagnostics replies through the public DP path (`DpMaster` as `FdlApplication`),
//! `Peripheral::last_diagnostics()`, `ExtendedDiagnostics::{raw_diag_buffer, iter_diag_blocks}`,
//! `{:?}` formatting, and `DpScanner` → `DpScanEvent`.
//!
//! Ops (telegram syntax = `codec::show_telegram`: `data <da> <sa> <dsap> <ssap> <fc> <pduhex>` /
//! `token <da> <sa>` / `sc`):
//!   diag <bufsize> <off|dx> <telegram>   fresh peripheral with a diag buffer of <bufsize> bytes
//!                                        (0 = none attached), one reply delivered
//!   new <bufsize> <off|dx>               start a stateful case (same construction)
//!   reply <telegram>                     deliver one more diagnostics reply to the current case
//!   scan <telegram>                      fresh DpScanner, the same reply delivered twice
//!   iter0 <off|dx> <telegram>            fresh peripheral WITHOUT diag buffer, one reply, then a
//!                                        single `iter_diag_blocks().next()` → `<verdict> iter=<nolast|none|some|panic>`
//! Observation of diag/reply: `<accepted|rejected|panic> <state>`, of new: `ok <state>`,
//!   state = `last=-` | `flags=<u16> ident=<u16> master=<-|n> ext=<none|hex> blocks=<list|panic|hang> dbg=<ok|panic>`
//!   block list: `-` or `;`-joined  id(<nbits>)[i,j,..] | ch:<module>,<channel>,<-|i|o|io>,<dtype>,<error> | dev:<hex>
//!
//! Mode `off`: every reply meets the peripheral in state Offline (after an accepted reply the
//! harness lets the Set_Prm request time out until the peripheral is declared offline again;
//! `diag`/`ext_diag` survive that), acceptance = `PeripheralEvent::Online`.
//! Mode `dx`: the peripheral is first brought into data exchange with the fixed clean diagnostics
//! reply `BRINGUP_PDU` (delivered in Offline and in ValidateConfig), replies are then answers to
//! `request_diagnostics()`, acceptance = `PeripheralEvent::Diagnostics`.
use crate::codec::{parse_header, show_fc};
use crate::util::*;
use profirust::dp;
use profirust::fdl::{self, FdlApplication};
use profirust::time::Instant;

const MASTER: u8 = 2;
const SLAVE: u8 = 7;
pub const BRINGUP_PDU: [u8; 6] = [0x00, 0x04, 0x00, 0xff, 0x00, 0x00];

/// Owned form of a telegram (the real `Telegram` borrows its PDU).
pub enum Tg {
    Data(fdl::DataTelegramHeader, Vec<u8>),
    Token(u8, u8),
    Sc,
}

fn parse_tg(w: &[&str]) -> Option<Tg> {
    match w {
        ["data", a, b, c, d, e, pdu] => Some(Tg::Data(parse_header(&[a, b, c, d, e])?, unhex(pdu))),
        ["token", da, sa] => Some(Tg::Token(da.parse().ok()?, sa.parse().ok()?)),
        ["sc"] => Some(Tg::Sc),
        _ => None,
    }
}

fn with_tg<R>(tg: &Tg, f: impl FnOnce(fdl::Telegram) -> R) -> R {
    match tg {
        Tg::Data(h, pdu) => f(fdl::Telegram::Data(fdl::DataTelegram { h: h.clone(), pdu })),
        Tg::Token(da, sa) => f(fdl::Telegram::Token(fdl::TokenTelegram::new(*da, *sa))),
        Tg::Sc => f(fdl::Telegram::ShortConfirmation(fdl::ShortConfirmation)),
    }
}

fn dtype_name(d: dp::ChannelDataType) -> &'static str {
    match d {
        dp::ChannelDataType::Bit => "bit",
        dp::ChannelDataType::Bit2 => "bit2",
        dp::ChannelDataType::Bit4 => "bit4",
        dp::ChannelDataType::Byte => "byte",
        dp::ChannelDataType::Word => "word",
        dp::ChannelDataType::DWord => "dword",
        dp::ChannelDataType::Invalid => "invalid",
    }
}

fn error_name(e: dp::ChannelError) -> String {
    match e {
        dp::ChannelError::ShortCircuit => "shortcircuit".into(),
        dp::ChannelError::UnderVoltage => "undervoltage".into(),
        dp::ChannelError::OverVoltage => "overvoltage".into(),
        dp::ChannelError::OverLoad => "overload".into(),
        dp::ChannelError::OverTemperature => "overtemperature".into(),
        dp::ChannelError::LineBreak => "linebreak".into(),
        dp::ChannelError::UpperLimitOvershoot => "upperlimit".into(),
        dp::ChannelError::LowerLimitUndershoot => "lowerlimit".into(),
        dp::ChannelError::Error => "error".into(),
        dp::ChannelError::Reserved(r) => format!("reserved({r})"),
        dp::ChannelError::Vendor(v) => format!("vendor({v})"),
    }
}

fn show_block(b: &dp::ExtDiagBlock) -> String {
    match b {
        dp::ExtDiagBlock::Identifier(bits) => {
            let ones: Vec<String> = bits.iter_ones().map(|i| i.to_string()).collect();
            format!("id({})[{}]", bits.len(), ones.join(","))
        }
        dp::ExtDiagBlock::Channel(c) => format!(
            "ch:{},{},{},{},{}",
            c.module,
            c.channel,
            match (c.input, c.output) {
                (false, false) => "-",
                (true, false) => "i",
                (false, true) => "o",
                (true, true) => "io",
            },
            dtype_name(c.dtype),
            error_name(c.error)
        ),
        dp::ExtDiagBlock::Device(d) => format!("dev:{}", hex(d)),
    }
}

/// Collect the blocks with a step bound far above anything a terminating iterator can yield, so a
/// non-terminating iterator is observed (as `hang`) instead of hanging the harness.
fn show_blocks(ext: &dp::ExtendedDiagnostics) -> String {
    match guarded(|| {
        let mut out = vec![];
        let mut it = ext.iter_diag_blocks();
        for _ in 0..1000 {
            match it.next() {
                Some(b) => {
                    // every block is also formatted on its own
                    std::hint::black_box(format!("{b:?}"));
                    out.push(show_block(&b));
                }
                None => {
                    // the iterator must stay exhausted
                    if it.next().is_some() {
                        return "unfused".to_string();
                    }
                    return if out.is_empty() { "-".to_string() } else { out.join(";") };
                }
            }
        }
        "hang".to_string()
    }) {
        Some(s) => s,
        None => "panic".to_string(),
    }
}

fn show_state(p: &dp::Peripheral) -> String {
    match p.last_diagnostics() {
        None => "last=-".to_string(),
        Some(d) => {
            let ext = d.extended_diagnostics;
            let raw = match ext.raw_diag_buffer() {
                None => "none".to_string(),
                Some(r) => hex(r),
            };
            let dbg = match guarded(|| {
                std::hint::black_box(format!("{d:?}"));
                std::hint::black_box(format!("{d:#?}"));
                std::hint::black_box(format!("{ext:?}"));
            }) {
                Some(()) => "ok",
                None => "panic",
            };
            format!(
                "flags={} ident={} master={} ext={} blocks={} dbg={}",
                d.flags.bits(),
                d.ident_number,
                opt_u8(d.master_address),
                raw,
                show_blocks(ext),
                dbg
            )
        }
    }
}

pub struct Case {
    master: dp::DpMaster<'static>,
    fdl: fdl::FdlActiveStation,
    handle: dp::PeripheralHandle,
}

enum Sent {
    Nothing,
    GlobalControl,
    ToSlave(Option<u8>),
}

impl Case {
    fn transmit(&mut self) -> Sent {
        let mut buf = [0xA5u8; 256]; // a dirty transmit buffer (real PHYs reuse theirs)
        let r = self
            .master
            .transmit_telegram(Instant::ZERO, &self.fdl, fdl::TelegramTx::new(&mut buf), fdl::HighPrioOnly::No);
        match r {
            None => Sent::Nothing,
            Some(resp) => match fdl::Telegram::deserialize(&buf[..resp.bytes_sent()]) {
                Some(Ok((fdl::Telegram::Data(t), _))) if t.h.da == SLAVE => Sent::ToSlave(t.h.dsap),
                Some(Ok((fdl::Telegram::Data(_), _))) => Sent::GlobalControl,
                _ => panic!("harness: unexpected transmission"),
            },
        }
    }

    /// Drive the master until a diagnostics request to the peripheral is in flight.
    /// `answer_setup`: acknowledge Set_Prm / Chk_Cfg with SC (bring-up) instead of letting them time out.
    fn await_diag_request(&mut self, answer_setup: bool) {
        for _ in 0..64 {
            self.master.get_mut(self.handle).request_diagnostics();
            match self.transmit() {
                Sent::ToSlave(Some(60)) => return,
                Sent::ToSlave(Some(61)) | Sent::ToSlave(Some(62)) if answer_setup => {
                    self.master.receive_reply(
                        Instant::ZERO,
                        &self.fdl,
                        SLAVE,
                        fdl::Telegram::ShortConfirmation(fdl::ShortConfirmation),
                    );
                }
                _ => {}
            }
        }
        panic!("harness: no diagnostics request after 64 transmit calls");
    }

    /// Deliver one reply to the in-flight diagnostics request; returns whether it was accepted.
    fn deliver(&mut self, tg: &Tg) -> bool {
        let _ = self.master.take_last_events();
        with_tg(tg, |t| self.master.receive_reply(Instant::ZERO, &self.fdl, SLAVE, t));
        matches!(
            self.master.take_last_events().peripheral,
            Some((_, dp::PeripheralEvent::Online)) | Some((_, dp::PeripheralEvent::Diagnostics))
        )
    }

    pub fn new(bufsize: usize, dx: bool) -> Case {
        let mut master = dp::DpMaster::new(Vec::new());
        let options = dp::PeripheralOptions {
            ident_number: 0x1234,
            user_parameters: Some(&[]),
            config: Some(&[]),
            ..Default::default()
        };
        let mut p = dp::Peripheral::new(SLAVE, options, Vec::new(), Vec::new());
        if bufsize > 0 {
            p = p.with_diag_buffer(vec![0u8; bufsize]);
        }
        let handle = master.add(p);
        master.enter_operate();
        let fdl = fdl::FdlActiveStation::new(fdl::ParametersBuilder::new(MASTER, profirust::Baudrate::B19200).build());
        let mut c = Case { master, fdl, handle };
        if dx {
            let h = fdl::DataTelegramHeader {
                da: MASTER,
                sa: SLAVE,
                dsap: Some(62),
                ssap: Some(60),
                fc: fdl::FunctionCode::Response { state: fdl::ResponseState::Slave, status: fdl::ResponseStatus::DataLow },
            };
            let tg = Tg::Data(h, BRINGUP_PDU.to_vec());
            c.await_diag_request(true);
            assert!(c.deliver(&tg)); // Offline -> WaitForParam
            c.await_diag_request(true);
            c.deliver(&tg); // ValidateConfig -> PreDataExchange
            assert!(c.master.get_mut(c.handle).is_live());
        }
        c
    }

    pub fn state(&mut self) -> String {
        show_state(self.master.get_mut(self.handle))
    }

    pub fn reply(&mut self, tg: &Tg) -> String {
        self.await_diag_request(false);
        let acc = self.deliver(tg);
        format!("{} {}", if acc { "accepted" } else { "rejected" }, self.state())
    }
}

fn show_scan_event(e: Option<dp::scan::DpScanEvent>) -> String {
    match e {
        None => "none".to_string(),
        Some(dp::scan::DpScanEvent::PeripheralFound(d)) => {
            format!("found {} ident={} master={}", d.address, d.ident, opt_u8(d.master_address))
        }
        Some(dp::scan::DpScanEvent::PeripheralRequery(d)) => {
            format!("requery {} ident={} master={}", d.address, d.ident, opt_u8(d.master_address))
        }
        Some(dp::scan::DpScanEvent::PeripheralLost(a)) => format!("lost {a}"),
    }
}

fn scan(tg: &Tg) -> String {
    let fdl = fdl::FdlActiveStation::new(fdl::ParametersBuilder::new(MASTER, profirust::Baudrate::B19200).build());
    let mut sc = dp::scan::DpScanner::new();
    let mut out = vec![];
    for _ in 0..2 {
        // walk the scanner to address SLAVE
        let mut sent_to = None;
        for _ in 0..600 {
            let mut buf = [0xA5u8; 256]; // a dirty transmit buffer (real PHYs reuse theirs)
            if let Some(r) = sc.transmit_telegram(Instant::ZERO, &fdl, fdl::TelegramTx::new(&mut buf), fdl::HighPrioOnly::No) {
                let a = r.expects_reply().expect("scanner request expects a reply");
                if a == SLAVE {
                    sent_to = Some(a);
                    break;
                }
                sc.handle_timeout(Instant::ZERO, &fdl, a);
            }
        }
        let a = sent_to.expect("harness: scanner never reached the address");
        with_tg(tg, |t| sc.receive_reply(Instant::ZERO, &fdl, a, t));
        out.push(show_scan_event(sc.take_last_event()));
    }
    out.join(" | ")
}

#[derive(Default)]
pub struct Exec {
    case: Option<Case>,
}

impl crate::Executor for Exec {
    fn exec(&mut self, line: &str) -> String {
        let w: Vec<&str> = line.split(' ').collect();
        let mode = |m: &str| match m {
            "off" => Some(false),
            "dx" => Some(true),
            _ => None,
        };
        match w.as_slice() {
            ["diag", n, m, tg @ ..] => match (n.parse::<usize>(), mode(m), parse_tg(tg)) {
                (Ok(n), Some(dx), Some(tg)) => match guarded(|| {
                    let mut c = Case::new(n, dx);
                    c.reply(&tg)
                }) {
                    Some(s) => s,
                    None => "panic".to_string(),
                },
                _ => "bad-op".to_string(),
            },
            ["new", n, m] => match (n.parse::<usize>(), mode(m)) {
                (Ok(n), Some(dx)) => {
                    let mut c = Case::new(n, dx);
                    let s = format!("ok {}", c.state());
                    self.case = Some(c);
                    s
                }
                _ => "bad-op".to_string(),
            },
            ["reply", tg @ ..] => match parse_tg(tg) {
                Some(tg) => match self.case.take() {
                    None => "nocase".to_string(),
                    Some(mut c) => match guarded(|| c.reply(&tg)) {
                        Some(s) => {
                            self.case = Some(c);
                            s
                        }
                        // the case is dropped after a panic
                        None => "panic".to_string(),
                    },
                },
                None => "bad-op".to_string(),
            },
            ["iter0", m, tg @ ..] => match (mode(m), parse_tg(tg)) {
                (Some(dx), Some(tg)) => match guarded(|| {
                    let mut c = Case::new(0, dx);
                    c.await_diag_request(false);
                    let acc = c.deliver(&tg);
                    let p = c.master.get_mut(c.handle);
                    let it = match p.last_diagnostics() {
                        None => "nolast",
                        Some(d) => match guarded(|| d.extended_diagnostics.iter_diag_blocks().next().is_some()) {
                            None => "panic",
                            Some(true) => "some",
                            Some(false) => "none",
                        },
                    };
                    format!("{} iter={}", if acc { "accepted" } else { "rejected" }, it)
                }) {
                    Some(s) => s,
                    None => "panic".to_string(),
                },
                _ => "bad-op".to_string(),
            },
            ["scan", tg @ ..] => match parse_tg(tg) {
                Some(tg) => match guarded(|| scan(&tg)) {
                    Some(s) => s,
                    None => "panic".to_string(),
                },
                None => "bad-op".to_string(),
            },
            _ => "bad-op".to_string(),
        }
    }
}

/* ------------------------------------------------------------------------------------------- */
/* generator                                                                                   */

fn resp(status: fdl::ResponseStatus) -> fdl::FunctionCode {
    fdl::FunctionCode::Response { state: fdl::ResponseState::Slave, status }
}

fn tg_data(da: u8, sa: u8, dsap: Option<u8>, ssap: Option<u8>, fc: fdl::FunctionCode, pdu: &[u8]) -> String {
    format!("data {} {} {} {} {} {}", da, sa, opt_u8(dsap), opt_u8(ssap), show_fc(fc), hex(pdu))
}

/// A well-addressed diagnostics reply carrying `pdu`.
fn good(pdu: &[u8]) -> String {
    tg_data(MASTER, SLAVE, Some(62), Some(60), resp(fdl::ResponseStatus::DataLow), pdu)
}

/// Header with EXT_DIAG and the permanent bit set, followed by `ext`.
fn pdu_ext(ext: &[u8]) -> Vec<u8> {
    let mut p = vec![0x08, 0x0c, 0x00, 0xff, 0x12, 0x34];
    p.extend_from_slice(ext);
    p
}

/// One random well-formed block.
fn valid_block(rng: &mut Rng, max: usize) -> Vec<u8> {
    match rng.below(3) {
        0 => {
            let mut b = vec![0x80 | (rng.u8() & 0x3f)];
            b.extend(rng.bytes(2));
            b
        }
        k => {
            let n = 1 + rng.below(max.min(63) as u64) as usize;
            let mut b = vec![(if k == 1 { 0x40 } else { 0x00 }) | n as u8];
            let fill = match rng.below(4) {
                0 => vec![0u8; n - 1],
                1 => vec![0xffu8; n - 1],
                _ => rng.bytes(n - 1),
            };
            b.extend(fill);
            b
        }
    }
}

/// Structured ext-diag string: valid blocks, optionally followed by a malformed trailer.
fn structured(rng: &mut Rng, maxlen: usize) -> Vec<u8> {
    let mut s = vec![];
    let nb = rng.below(7);
    for _ in 0..nb {
        let mx = 1 + rng.below(20) as usize;
        let b = valid_block(rng, mx);
        if s.len() + b.len() > maxlen {
            break;
        }
        s.extend(b);
    }
    if s.len() < maxlen {
        match rng.below(8) {
            0 => s.push(0x00),
            1 => s.push(0x40),
            2 => s.push(0xc0 | (rng.u8() & 0x3f)),
            3 => {
                // cut off identifier/device block
                let n = 2 + rng.below(40) as usize;
                s.push((if rng.bool() { 0x40 } else { 0x00 }) | n as u8);
                let have = rng.below(n as u64 - 1) as usize;
                s.extend(rng.bytes(have.min(maxlen - s.len())));
            }
            4 => {
                s.push(0x80 | (rng.u8() & 0x3f));
                if rng.bool() && s.len() < maxlen {
                    s.push(rng.u8());
                }
            }
            _ => {}
        }
    }
    s.truncate(maxlen);
    s
}

const BUFS: [usize; 6] = [0, 1, 8, 64, 238, 244];

pub fn gen(ops: &mut Vec<String>, seed: u64, thorough: bool) {
    let mut rng = Rng::new(seed, "diag", 0);
    let m = |r: &mut Rng| if r.chance(1, 4) { "dx" } else { "off" };

    // (1) every 1-byte and every 2-byte ext-diag string (65 792 cases, both tiers: under a second)
    for b in 0..=255u8 {
        ops.push(format!("diag 8 {} {}", m(&mut rng), good(&pdu_ext(&[b]))));
    }
    for a in 0..=255u16 {
        for b in 0..=255u16 {
            ops.push(format!("diag 8 off {}", good(&pdu_ext(&[a as u8, b as u8]))));
        }
    }
    // (2) every header byte × structured tails: exact fit, one byte short, one byte more, followed by
    // a valid block, followed by a zero-length block, followed by the same header again
    for h in 0..=255u8 {
        let n = usize::from(h & 0x3f);
        let want = if h >> 6 == 2 { 3 } else { n };
        let mut tails: Vec<Vec<u8>> = vec![];
        for len in [want.saturating_sub(2), want.saturating_sub(1), want, want + 1] {
            let mut t = vec![h];
            while t.len() < len.max(1) {
                t.push(rng.u8());
            }
            tails.push(t);
        }
        let exact = tails[2].clone();
        for follow in [vec![0x00u8], vec![0x40], vec![0xc1, 1], vec![0x42, 0x81], vec![0x81, 0x42, 0x21], vec![0x02, 0xaa], vec![h]] {
            let mut t = exact.clone();
            t.extend(follow);
            tails.push(t);
        }
        for t in tails {
            ops.push(format!("diag 244 {} {}", m(&mut rng), good(&pdu_ext(&t))));
        }
    }
    // all channel-block bytes 1 and 2 (module/channel/io bits; data type and error tables)
    for b in 0..=255u8 {
        ops.push(format!("diag 8 off {}", good(&pdu_ext(&[0x80 | (b & 0x3f), b, 0x21]))));
        ops.push(format!("diag 8 off {}", good(&pdu_ext(&[0x85, 0x41, b]))));
    }
    // identifier blocks: every single bit position and random bit patterns
    for i in 0..(62 * 8) {
        let mut blk = vec![0x40 | 63u8];
        blk.extend(vec![0u8; 62]);
        blk[1 + i / 8] = 1 << (i % 8);
        if thorough || i % 8 == (seed % 8) as usize || i < 16 || i >= 62 * 8 - 8 {
            ops.push(format!("diag 64 off {}", good(&pdu_ext(&blk))));
        }
    }
    // (3) header bytes: every value of each of the six header bytes, with and without ext. data
    for i in 0..6 {
        for b in 0..=255u8 {
            let mut p = vec![0x08, 0x0c, 0x00, 0xff, 0x12, 0x34];
            p[i] = b;
            if rng.bool() {
                p.extend([0x02, 0x55]);
            }
            ops.push(format!("diag {} {} {}", rng.pick(&[0usize, 8, 8, 64]), m(&mut rng), good(&p)));
            if i < 2 {
                // flag combinations with random second flag byte
                let mut p2 = p.clone();
                p2[1 - i] = rng.u8();
                ops.push(format!("diag 8 off {}", good(&p2)));
            }
        }
    }
    // (4) short PDUs and SAP / function code / telegram kind variants
    for len in 0..=7usize {
        for f in [0x00u8, 0x08, 0xff] {
            let mut p = vec![f, 0x0c, 0x00, 0x03, 0xab, 0xcd, 0x01];
            p.truncate(len);
            ops.push(format!("diag 8 {} {}", m(&mut rng), good(&p)));
            ops.push(format!("scan {}", good(&p)));
        }
    }
    let saps: [Option<u8>; 8] = [None, Some(62), Some(60), Some(61), Some(0), Some(255), Some(63), Some(59)];
    let p = pdu_ext(&[0x02, 0x77]);
    for d in saps {
        for s in saps {
            ops.push(format!("diag 8 {} {}", m(&mut rng), tg_data(MASTER, SLAVE, d, s, resp(fdl::ResponseStatus::DataLow), &p)));
            ops.push(format!("scan {}", tg_data(MASTER, SLAVE, d, s, resp(fdl::ResponseStatus::Ok), &p)));
        }
    }
    for fc in crate::codec::all_fcs() {
        ops.push(format!("diag 8 {} {}", m(&mut rng), tg_data(rng.u8() & 0x7f, rng.u8() & 0x7f, Some(62), Some(60), fc, &p)));
    }
    for md in ["off", "dx"] {
        ops.push(format!("diag 8 {md} sc"));
        ops.push(format!("diag 8 {md} token 2 7"));
        ops.push(format!("diag 0 {md} {}", good(&p)));
    }
    for md in ["off", "dx"] {
        ops.push(format!("iter0 {md} {}", good(&p)));
        ops.push(format!("iter0 {md} {}", good(&p[..6])));
        ops.push(format!("iter0 {md} sc"));
    }
    ops.push("scan sc".to_string());
    ops.push("scan token 2 7".to_string());
    // (5) buffer sizes 0..64 and 244 against ext. data lengths around the size
    for size in (0..=64usize).chain([238, 244]) {
        for len in [0usize, 1, size.saturating_sub(1), size, size + 1, size + 2, 238] {
            if len > 238 {
                continue;
            }
            let ext = structured(&mut rng, len);
            let mut ext = ext;
            while ext.len() < len {
                ext.push(rng.u8());
            }
            ops.push(format!("diag {} {} {}", size, m(&mut rng), good(&pdu_ext(&ext))));
            // the same without the EXT_DIAG flag: nothing may be stored
            if rng.chance(1, 3) {
                let mut p = pdu_ext(&ext);
                p[0] = rng.u8() & !0x08;
                ops.push(format!("diag {} off {}", size, good(&p)));
            }
        }
    }
    // (6) random ext-diag strings up to 238 bytes: structured and pure random
    let n = if thorough { 150_000 } else { 4_000 };
    for i in 0..n {
        let maxlen = match rng.below(4) {
            0 => 8,
            1 => 40,
            _ => 238,
        };
        let ext = if i % 3 == 0 {
            let l = rng.below(maxlen as u64 + 1) as usize;
            rng.bytes(l)
        } else {
            structured(&mut rng, maxlen)
        };
        let size = if rng.chance(1, 5) { *rng.pick(&BUFS) } else if rng.bool() { 244 } else { rng.range(0, 64) as usize };
        let mut p = pdu_ext(&ext);
        if rng.chance(1, 6) {
            p[0] = rng.u8();
            p[1] = rng.u8();
        }
        if rng.chance(1, 6) {
            p[3] = rng.u8();
            p[4] = rng.u8();
            p[5] = rng.u8();
        }
        ops.push(format!("diag {} {} {}", size, m(&mut rng), good(&p)));
        if i % 16 == 0 {
            ops.push(format!("scan {}", good(&p)));
        }
    }
    // (7) stateful sequences: what survives a reply that is rejected / carries no ext. data / does not fit
    let cases = if thorough { 6_000 } else { 400 };
    for _ in 0..cases {
        let size = if rng.chance(1, 4) { *rng.pick(&BUFS) } else { rng.range(0, 24) as usize };
        ops.push(format!("new {} {}", size, m(&mut rng)));
        for _ in 0..rng.range(2, 8) {
            let len = match rng.below(5) {
                0 => size + 1 + rng.below(4) as usize,
                1 => size,
                _ => rng.below(size as u64 + 2) as usize,
            }
            .min(238);
            let mut ext = structured(&mut rng, len);
            if rng.bool() {
                while ext.len() < len {
                    ext.push(rng.u8());
                }
            }
            let mut p = pdu_ext(&ext);
            p[4] = rng.u8();
            p[5] = rng.u8();
            if rng.chance(1, 3) {
                p[0] = rng.u8();
                p[1] = rng.u8();
            }
            if rng.chance(1, 4) {
                p[3] = rng.u8();
            }
            let line = match rng.below(12) {
                0 => "sc".to_string(),
                1 => tg_data(MASTER, SLAVE, *rng.pick(&saps), Some(60), resp(fdl::ResponseStatus::Ok), &p),
                2 => tg_data(MASTER, SLAVE, Some(62), *rng.pick(&saps), resp(fdl::ResponseStatus::Ok), &p),
                3 => {
                    p.truncate(rng.below(6) as usize);
                    good(&p)
                }
                _ => good(&p),
            };
            ops.push(format!("reply {line}"));
        }
    }
}
