//! Engine `dplive` (stateful, property C07): the REAL `profirust::dp::DpMaster` + `Peripheral`,
//! driven through the `FdlApplication` trait like engine `dp`, against the reference DP slave below —
//! the same state machine as `lean/ProfiVerif/Model/Dp/Slave.lean` — under an environment that loses /
//! substitutes telegrams, power-cycles the slave, reports device faults and calls the user API.
//!
//! Ops:
//!   `dl.new <own> <baud> <retry> <wd_ms|-> <nslots> <periph> <slave>`
//!        ParametersBuilder::new(own, baud).max_retry_limit(retry)[.watchdog_timeout(wd)].build();
//!        DpMaster over a fixed array of <nslots> slots, the peripheral `add`ed (slot 0), enter_operate().
//!        periph = `<addr>:<ident>:<sync><freeze>:<groups>:<prm>:<cfg>:<ilen>:<qlen>:<diagbuf>` (as in `dp`)
//!        slave  = `<addr>:<ident>:<prmlen>:<cfg>:<inlen>:<outlen>:<inputs>`
//!   `dl.turn <now_us> <mid 0|1> <delivery…>`     one `transmit_telegram(now, …, HighPrioOnly::No)`;
//!        delivery = `ok` | `lossreq` | `lossrep` | `sub <telegram>`   (telegram as in engine `dp`)
//!        lossreq: the slave sees nothing, `handle_timeout`; lossrep: the slave acts, `handle_timeout`;
//!        sub: the slave acts, `receive_reply(<telegram>)` (time-out if the slave stays silent);
//!        mid = 1: `request_diagnostics()` between the request and its reply.
//!        Followed by `take_last_events()`.
//!   `dl.power`            slave power cycle / watchdog expiry
//!   `dl.fault <ext hex>`  the device reports a fault (extended diagnostics data)
//!   `dl.diagreq`          `request_diagnostics()`
//!   `dl.piq <hex>`        `pi_q_mut().copy_from_slice` (ignored when the length differs)
//!   `dl.inputs <hex>`     the slave's process inputs change (ignored when the length differs)
//! Observation of a turn:
//!   `tx=<wire hex|-> exp=<addr|-> seen=<0|1> rep=<silent|sc|data …> got=<-|sc|data …> ev=<cc>:<-|Event> ; <summary>`
//! of every other op: `ok ; <summary>`;  `panic` / `dead` as in engine `dp`.
//! summary = `run=<0|1> live=<0|1> i=<pi_i> q=<pi_q> d=<last_diagnostics> | s=<P|C|D> m=<master> f=<stored fcb -|0|1>
//!            p=<prm_fault><cfg_fault><diag_pending> o=<outputs>`
use crate::codec::{parse_header, show_telegram};
use crate::util::*;
use profirust::dp::{self, PeripheralEvent};
use profirust::fdl::{self, FdlApplication};
use profirust::time::{Duration, Instant};

// ------------------------------------------------------------------------------------------------
// Reference slave (mirror of Model/Dp/Slave.lean — keep the two in step, line by line)
// ------------------------------------------------------------------------------------------------

#[derive(Clone, Copy, PartialEq, Eq, Debug)]
enum SState {
    WaitPrm,
    WaitCfg,
    DataExch,
}

#[derive(Clone, Debug)]
struct SlaveCfg {
    address: u8,
    ident: usize,
    prm_len: usize,
    config: Vec<u8>,
    in_len: usize,
    out_len: usize,
}

#[derive(Clone, Debug, PartialEq)]
enum SReply {
    Silent,
    Sc,
    Data(fdl::DataTelegramHeader, Vec<u8>),
}

#[derive(Clone, Debug)]
struct Slave {
    cfg: SlaveCfg,
    state: SState,
    master: u8,
    prm_flags: u8,
    stored: Option<bool>,
    last: SReply,
    prm_fault: bool,
    cfg_fault: bool,
    diag_pending: bool,
    ext_diag: Vec<u8>,
    inputs: Vec<u8>,
    outputs: Vec<u8>,
}

fn bit(b: bool, v: u8) -> u8 {
    if b {
        v
    } else {
        0
    }
}

impl Slave {
    fn init(cfg: SlaveCfg, inputs: Vec<u8>) -> Slave {
        let out_len = cfg.out_len;
        Slave {
            cfg,
            state: SState::WaitPrm,
            master: 255,
            prm_flags: 0,
            stored: None,
            last: SReply::Silent,
            prm_fault: false,
            cfg_fault: false,
            diag_pending: false,
            ext_diag: vec![],
            inputs,
            outputs: vec![0; out_len],
        }
    }

    fn power(&mut self) {
        *self = Slave::init(self.cfg.clone(), self.inputs.clone());
    }

    fn report_fault(&mut self, ext: Vec<u8>) {
        self.diag_pending = true;
        self.ext_diag = ext;
    }

    fn set_inputs(&mut self, bs: Vec<u8>) {
        if bs.len() == self.cfg.in_len {
            self.inputs = bs;
        }
    }

    fn diag_pdu(&self) -> Vec<u8> {
        let wp = self.state == SState::WaitPrm;
        let b0 = bit(self.state != SState::DataExch, 0x02)
            | bit(self.cfg_fault, 0x04)
            | bit(self.diag_pending, 0x08)
            | bit(self.prm_fault, 0x40);
        let b1 = bit(wp, 0x01) | 0x04 | if wp { 0 } else { self.prm_flags & 0x38 };
        let mut v = vec![
            b0,
            b1,
            0,
            if wp { 255 } else { self.master },
            (self.cfg.ident / 256) as u8,
            (self.cfg.ident % 256) as u8,
        ];
        if self.diag_pending {
            v.extend_from_slice(&self.ext_diag);
        }
        v
    }

    fn reply_header(
        &self,
        req: &fdl::DataTelegramHeader,
        dsap: Option<u8>,
        ssap: Option<u8>,
        st: fdl::ResponseStatus,
    ) -> fdl::DataTelegramHeader {
        fdl::DataTelegramHeader {
            da: req.sa,
            sa: self.cfg.address,
            dsap,
            ssap,
            fc: fdl::FunctionCode::Response { state: fdl::ResponseState::Slave, status: st },
        }
    }

    fn rs(&self, req: &fdl::DataTelegramHeader) -> SReply {
        SReply::Data(self.reply_header(req, None, None, fdl::ResponseStatus::SapNotEnabled), vec![])
    }

    /// Serve a new request.
    fn serve(&mut self, h: &fdl::DataTelegramHeader, pdu: &[u8]) -> SReply {
        let at = |i: usize| pdu.get(i).copied().unwrap_or(0);
        if h.dsap == Some(60) && h.ssap == Some(62) {
            let r = SReply::Data(
                self.reply_header(h, Some(62), Some(60), fdl::ResponseStatus::DataLow),
                self.diag_pdu(),
            );
            self.diag_pending = false;
            self.ext_diag = vec![];
            r
        } else if h.dsap == Some(61) && h.ssap == Some(62) {
            if pdu.len() == 7 + self.cfg.prm_len && at(4) as usize * 256 + at(5) as usize == self.cfg.ident {
                self.prm_fault = false;
                self.master = h.sa;
                self.prm_flags = at(0) & 0x38;
                self.state = if self.state == SState::DataExch { SState::DataExch } else { SState::WaitCfg };
            } else {
                self.prm_fault = true;
                self.state = SState::WaitPrm;
            }
            SReply::Sc
        } else if h.dsap == Some(62) && h.ssap == Some(62) {
            if self.state == SState::WaitPrm {
                self.rs(h)
            } else if pdu == &self.cfg.config[..] {
                self.cfg_fault = false;
                self.state = SState::DataExch;
                SReply::Sc
            } else {
                self.cfg_fault = true;
                self.state = SState::WaitPrm;
                SReply::Sc
            }
        } else if h.dsap.is_none() && h.ssap.is_none() {
            if self.state == SState::DataExch {
                if pdu.len() == self.cfg.out_len {
                    let r = if self.diag_pending {
                        SReply::Data(
                            self.reply_header(h, None, None, fdl::ResponseStatus::DataHigh),
                            self.inputs.clone(),
                        )
                    } else if self.cfg.in_len == 0 {
                        SReply::Sc
                    } else {
                        SReply::Data(
                            self.reply_header(h, None, None, fdl::ResponseStatus::DataLow),
                            self.inputs.clone(),
                        )
                    };
                    self.outputs = pdu.to_vec();
                    r
                } else {
                    let r = self.rs(h);
                    self.state = SState::WaitPrm;
                    r
                }
            } else {
                self.rs(h)
            }
        } else {
            self.rs(h)
        }
    }

    fn receive(&mut self, h: &fdl::DataTelegramHeader, pdu: &[u8]) -> SReply {
        if h.da != self.cfg.address {
            return SReply::Silent;
        }
        match h.fc {
            fdl::FunctionCode::Response { .. } => SReply::Silent,
            fdl::FunctionCode::Request { fcb, req } => {
                if req == fdl::RequestType::SrdLow || req == fdl::RequestType::SrdHigh {
                    if fcb.fcv() && self.stored == Some(fcb.fcb()) {
                        self.last.clone()
                    } else {
                        let r = self.serve(h, pdu);
                        self.stored = if fcb.fcv() {
                            Some(fcb.fcb())
                        } else if fcb.fcb() {
                            Some(true)
                        } else {
                            None
                        };
                        self.last = r.clone();
                        r
                    }
                } else {
                    SReply::Silent
                }
            }
        }
    }

    /// Wire bytes arrive: decoded with the crate's own decoder (C09/C10).
    fn receive_wire(&mut self, bytes: &[u8]) -> SReply {
        match fdl::Telegram::deserialize(bytes) {
            Some(Ok((fdl::Telegram::Data(t), _))) => {
                let h = t.h.clone();
                let pdu = t.pdu.to_vec();
                self.receive(&h, &pdu)
            }
            _ => SReply::Silent,
        }
    }
}

fn show_reply(r: &SReply) -> String {
    match r {
        SReply::Silent => "silent".to_string(),
        SReply::Sc => "sc".to_string(),
        SReply::Data(h, pdu) => {
            show_telegram(&fdl::Telegram::Data(fdl::DataTelegram { h: h.clone(), pdu }))
        }
    }
}

// ------------------------------------------------------------------------------------------------
// Executor
// ------------------------------------------------------------------------------------------------

struct Live {
    fdl: fdl::FdlActiveStation,
    dp: dp::DpMaster<'static>,
    handle: dp::PeripheralHandle,
    slave: Slave,
}

enum Tg {
    Data(fdl::DataTelegramHeader, Vec<u8>),
    Sc,
}

fn parse_tg(w: &[&str]) -> Option<Tg> {
    match w {
        ["data", a, b, c, d, e, pdu] => Some(Tg::Data(parse_header(&[a, b, c, d, e])?, unhex(pdu))),
        ["sc"] => Some(Tg::Sc),
        _ => None,
    }
}

fn show_tg(t: &Tg) -> String {
    match t {
        Tg::Sc => "sc".to_string(),
        Tg::Data(h, pdu) => show_telegram(&fdl::Telegram::Data(fdl::DataTelegram { h: h.clone(), pdu })),
    }
}

fn baud_of(rate: u64) -> Option<profirust::Baudrate> {
    use profirust::Baudrate::*;
    Some(match rate {
        9600 => B9600,
        19200 => B19200,
        31250 => B31250,
        45450 => B45450,
        93750 => B93750,
        187500 => B187500,
        500000 => B500000,
        1500000 => B1500000,
        3000000 => B3000000,
        6000000 => B6000000,
        12000000 => B12000000,
        _ => return None,
    })
}

fn opt_bytes(s: &str) -> Option<Option<&'static [u8]>> {
    if s == "n" {
        return Some(None);
    }
    if s != "-" && (s.len() % 2 != 0 || !s.bytes().all(|c| c.is_ascii_hexdigit())) {
        return None;
    }
    Some(Some(Box::leak(unhex(s).into_boxed_slice())))
}

fn parse_periph(s: &str) -> Option<dp::Peripheral<'static>> {
    let f: Vec<&str> = s.split(':').collect();
    let [addr, ident, sf, groups, prm, cfg, ilen, qlen, dbuf] = f.as_slice() else {
        return None;
    };
    let sf = sf.as_bytes();
    if sf.len() != 2 || !sf.iter().all(|c| *c == b'0' || *c == b'1') {
        return None;
    }
    let options = dp::PeripheralOptions {
        ident_number: ident.parse::<u16>().ok()?,
        sync_mode: sf[0] == b'1',
        freeze_mode: sf[1] == b'1',
        groups: groups.parse::<u8>().ok()?,
        user_parameters: opt_bytes(prm)?,
        config: opt_bytes(cfg)?,
        ..Default::default()
    };
    let ilen = ilen.parse::<usize>().ok()?;
    let qlen = qlen.parse::<usize>().ok()?;
    let dbuf = dbuf.parse::<usize>().ok()?;
    let p = dp::Peripheral::new(addr.parse::<u8>().ok()?, options, vec![0u8; ilen], vec![0u8; qlen]);
    Some(if dbuf > 0 { p.with_diag_buffer(vec![0u8; dbuf]) } else { p })
}

fn parse_slave(s: &str) -> Option<Slave> {
    let f: Vec<&str> = s.split(':').collect();
    let [addr, ident, prmlen, cfg, inlen, outlen, inputs] = f.as_slice() else {
        return None;
    };
    let hexok = |s: &str| s == "-" || (s.len() % 2 == 0 && s.bytes().all(|c| c.is_ascii_hexdigit()));
    if !hexok(cfg) || !hexok(inputs) {
        return None;
    }
    let cfgv = SlaveCfg {
        address: addr.parse::<u8>().ok()?,
        ident: ident.parse::<usize>().ok()?,
        prm_len: prmlen.parse::<usize>().ok()?,
        config: unhex(cfg),
        in_len: inlen.parse::<usize>().ok()?,
        out_len: outlen.parse::<usize>().ok()?,
    };
    Some(Slave::init(cfgv, unhex(inputs)))
}

fn event_name(e: PeripheralEvent) -> &'static str {
    match e {
        PeripheralEvent::Online => "Online",
        PeripheralEvent::Configured => "Configured",
        PeripheralEvent::ConfigError => "ConfigError",
        PeripheralEvent::ParameterError => "ParameterError",
        PeripheralEvent::DataExchanged => "DataExchanged",
        PeripheralEvent::Diagnostics => "Diagnostics",
        PeripheralEvent::Offline => "Offline",
    }
}

impl Live {
    fn summary(&mut self) -> String {
        let p = self.dp.get_mut(self.handle);
        let d = match p.last_diagnostics() {
            None => "-".to_string(),
            Some(d) => {
                let ext = match guarded(|| d.extended_diagnostics.raw_diag_buffer().map(|b| b.to_vec())) {
                    None => "panic".to_string(),
                    Some(None) => "none".to_string(),
                    Some(Some(b)) => hex(&b),
                };
                format!("{:04x}/{}/{}/{}", d.flags.bits(), d.ident_number, opt_u8(d.master_address), ext)
            }
        };
        let s = &self.slave;
        format!(
            "run={} live={} i={} q={} d={} | s={} m={} f={} p={}{}{} o={}",
            p.is_running() as u8,
            p.is_live() as u8,
            hex(p.pi_i()),
            hex(p.pi_q()),
            d,
            match s.state {
                SState::WaitPrm => "P",
                SState::WaitCfg => "C",
                SState::DataExch => "D",
            },
            s.master,
            match s.stored {
                None => "-",
                Some(false) => "0",
                Some(true) => "1",
            },
            s.prm_fault as u8,
            s.cfg_fault as u8,
            s.diag_pending as u8,
            hex(&s.outputs)
        )
    }
}

fn dl_new(w: &[&str]) -> Option<Option<Live>> {
    let [own, baud, retry, wd, nslots, periph, slave] = w else {
        return None;
    };
    let own = own.parse::<u8>().ok()?;
    let baud = baud_of(baud.parse::<u64>().ok()?)?;
    let retry = retry.parse::<u8>().ok()?;
    let wd = if *wd == "-" { None } else { Some(wd.parse::<u64>().ok()?) };
    let k = nslots.parse::<usize>().ok()?;
    let p = parse_periph(periph)?;
    let slave = parse_slave(slave)?;
    Some(guarded(move || {
        let mut b = fdl::ParametersBuilder::new(own, baud);
        b.max_retry_limit(retry);
        if let Some(x) = wd {
            b.watchdog_timeout(Duration::from_millis(x));
        }
        let fdl = fdl::FdlActiveStation::new(b.build());
        let slots: Vec<dp::PeripheralStorage<'static>> = (0..k).map(|_| Default::default()).collect();
        let s: &'static mut [dp::PeripheralStorage<'static>] = Box::leak(slots.into_boxed_slice());
        let mut dpm = dp::DpMaster::new(s);
        let handle = dpm.add(p);
        dpm.enter_operate();
        Live { fdl, dp: dpm, handle, slave }
    }))
}

enum Delivery {
    Ok,
    LossReq,
    LossRep,
    Sub(Tg),
}

fn turn(l: &mut Live, now: Instant, mid: bool, d: &Delivery) -> String {
    let mut buf = [0xA5u8; 256]; // a dirty transmit buffer (real PHYs reuse theirs)
    let r = l.dp.transmit_telegram(now, &l.fdl, fdl::TelegramTx::new(&mut buf), fdl::HighPrioOnly::No);
    let (tx, exp, seen, rep, got) = match r {
        None => ("-".to_string(), None, false, SReply::Silent, None),
        Some(resp) => {
            let n = resp.bytes_sent().min(256);
            let wire = buf[..n].to_vec();
            let exp = resp.expects_reply();
            if mid {
                l.dp.get_mut(l.handle).request_diagnostics();
            }
            match d {
                Delivery::LossReq => {
                    if let Some(a) = exp {
                        l.dp.handle_timeout(now, &l.fdl, a);
                    }
                    (hex(&wire), exp, false, SReply::Silent, None)
                }
                _ => {
                    let rep = l.slave.receive_wire(&wire);
                    let got: Option<Tg> = match exp {
                        None => None,
                        Some(_) => match (d, &rep) {
                            (Delivery::Ok, SReply::Sc) => Some(Tg::Sc),
                            (Delivery::Ok, SReply::Data(h, pdu)) => Some(Tg::Data(h.clone(), pdu.clone())),
                            (Delivery::Sub(_), SReply::Silent) => None,
                            (Delivery::Sub(Tg::Sc), _) => Some(Tg::Sc),
                            (Delivery::Sub(Tg::Data(h, pdu)), _) => Some(Tg::Data(h.clone(), pdu.clone())),
                            _ => None,
                        },
                    };
                    if let Some(a) = exp {
                        match &got {
                            None => l.dp.handle_timeout(now, &l.fdl, a),
                            Some(Tg::Sc) => l.dp.receive_reply(
                                now,
                                &l.fdl,
                                a,
                                fdl::Telegram::ShortConfirmation(fdl::ShortConfirmation),
                            ),
                            Some(Tg::Data(h, pdu)) => l.dp.receive_reply(
                                now,
                                &l.fdl,
                                a,
                                fdl::Telegram::Data(fdl::DataTelegram { h: h.clone(), pdu }),
                            ),
                        }
                    }
                    (hex(&wire), exp, true, rep, got)
                }
            }
        }
    };
    let e = l.dp.take_last_events();
    let ev = match e.peripheral {
        None => "-".to_string(),
        Some((_, ev)) => event_name(ev).to_string(),
    };
    format!(
        "tx={} exp={} seen={} rep={} got={} ev={}:{}",
        tx,
        opt_u8(exp),
        seen as u8,
        show_reply(&rep),
        match &got {
            None => "-".to_string(),
            Some(t) => show_tg(t),
        },
        e.cycle_completed as u8,
        ev
    )
}

fn step(st: &mut Option<Live>, line: &str) -> String {
    let w: Vec<&str> = line.split(' ').collect();
    if w[0] == "dl.new" {
        return match dl_new(&w[1..]) {
            None => "bad-op".to_string(),
            Some(None) => {
                *st = None;
                "panic".to_string()
            }
            Some(Some(mut l)) => {
                let s = format!("ok ; {}", l.summary());
                *st = Some(l);
                s
            }
        };
    }
    let Some(l) = st.as_mut() else {
        return if w[0].starts_with("dl.") { "dead" } else { "bad-op" }.to_string();
    };
    let r: Result<Option<String>, ()> = match w.as_slice() {
        ["dl.turn", now, mid, d @ ..] => {
            let del = match d {
                ["ok"] => Some(Delivery::Ok),
                ["lossreq"] => Some(Delivery::LossReq),
                ["lossrep"] => Some(Delivery::LossRep),
                ["sub", tg @ ..] => parse_tg(tg).map(Delivery::Sub),
                _ => None,
            };
            match (now.parse::<i64>().ok(), *mid == "0" || *mid == "1", del) {
                (Some(now), true, Some(del)) => {
                    Ok(guarded(|| turn(l, Instant::from_micros(now), *mid == "1", &del)))
                }
                _ => Err(()),
            }
        }
        ["dl.power"] => {
            l.slave.power();
            Ok(Some("ok".to_string()))
        }
        ["dl.fault", hx] => {
            l.slave.report_fault(unhex(hx));
            Ok(Some("ok".to_string()))
        }
        ["dl.diagreq"] => Ok(guarded(|| {
            l.dp.get_mut(l.handle).request_diagnostics();
            "ok".to_string()
        })),
        ["dl.piq", hx] => {
            let bs = unhex(hx);
            Ok(guarded(|| {
                let p = l.dp.get_mut(l.handle);
                if p.pi_q().len() == bs.len() {
                    p.pi_q_mut().copy_from_slice(&bs);
                }
                "ok".to_string()
            }))
        }
        ["dl.inputs", hx] => {
            l.slave.set_inputs(unhex(hx));
            Ok(Some("ok".to_string()))
        }
        _ => Err(()),
    };
    match r {
        Err(()) => "bad-op".to_string(),
        Ok(None) => {
            *st = None;
            "panic".to_string()
        }
        Ok(Some(o)) => match guarded(|| l.summary()) {
            Some(s) => format!("{o} ; {s}"),
            None => {
                *st = None;
                "panic".to_string()
            }
        },
    }
}

// ------------------------------------------------------------------------------------------------
// Several peripherals: ops `dn.*`
//   `dn.new <own> <baud> <retry> <wd_ms|-> <nslots> (<periph> <slave>)+`   peripherals `add`ed in order
//        (slots 0 .. n-1), one reference slave each on the same bus; enter_operate()
//   `dn.turn <now_us> <mid -|slot> <delivery…>`  as `dl.turn`; every slave hears the request, the first
//        non-silent reply counts; mid = slot whose peripheral gets `request_diagnostics()` mid-request
//   `dn.power <slot>` `dn.fault <slot> <hex>` `dn.diagreq <slot>` `dn.piq <slot> <hex>` `dn.inputs <slot> <hex>`
// Observation of a turn: as `dl.turn`, the event as `<cc>:<-|slot:Event>`; summary = per slot
//   ` [<slot> run= live= i= q= d= | s= m= f= p= o=]`
// ------------------------------------------------------------------------------------------------

struct LiveN {
    fdl: fdl::FdlActiveStation,
    dp: dp::DpMaster<'static>,
    handles: Vec<dp::PeripheralHandle>,
    slaves: Vec<Slave>,
}

impl LiveN {
    fn summary(&mut self) -> String {
        let mut out = String::new();
        for i in 0..self.handles.len() {
            let p = self.dp.get_mut(self.handles[i]);
            let d = match p.last_diagnostics() {
                None => "-".to_string(),
                Some(d) => {
                    let ext = match guarded(|| d.extended_diagnostics.raw_diag_buffer().map(|b| b.to_vec())) {
                        None => "panic".to_string(),
                        Some(None) => "none".to_string(),
                        Some(Some(b)) => hex(&b),
                    };
                    format!("{:04x}/{}/{}/{}", d.flags.bits(), d.ident_number, opt_u8(d.master_address), ext)
                }
            };
            let s = &self.slaves[i];
            out.push_str(&format!(
                " [{} run={} live={} i={} q={} d={} | s={} m={} f={} p={}{}{} o={}]",
                i,
                p.is_running() as u8,
                p.is_live() as u8,
                hex(p.pi_i()),
                hex(p.pi_q()),
                d,
                match s.state {
                    SState::WaitPrm => "P",
                    SState::WaitCfg => "C",
                    SState::DataExch => "D",
                },
                s.master,
                match s.stored {
                    None => "-",
                    Some(false) => "0",
                    Some(true) => "1",
                },
                s.prm_fault as u8,
                s.cfg_fault as u8,
                s.diag_pending as u8,
                hex(&s.outputs)
            ));
        }
        out
    }
}

fn dn_new(w: &[&str]) -> Option<Option<LiveN>> {
    let [own, baud, retry, wd, nslots, rest @ ..] = w else {
        return None;
    };
    if rest.is_empty() || rest.len() % 2 != 0 {
        return None;
    }
    let own = own.parse::<u8>().ok()?;
    let baud = baud_of(baud.parse::<u64>().ok()?)?;
    let retry = retry.parse::<u8>().ok()?;
    let wd = if *wd == "-" { None } else { Some(wd.parse::<u64>().ok()?) };
    let k = nslots.parse::<usize>().ok()?;
    let mut ps = vec![];
    let mut slaves = vec![];
    for c in rest.chunks(2) {
        ps.push(parse_periph(c[0])?);
        slaves.push(parse_slave(c[1])?);
    }
    Some(guarded(move || {
        let mut b = fdl::ParametersBuilder::new(own, baud);
        b.max_retry_limit(retry);
        if let Some(x) = wd {
            b.watchdog_timeout(Duration::from_millis(x));
        }
        let fdl = fdl::FdlActiveStation::new(b.build());
        let slots: Vec<dp::PeripheralStorage<'static>> = (0..k).map(|_| Default::default()).collect();
        let s: &'static mut [dp::PeripheralStorage<'static>] = Box::leak(slots.into_boxed_slice());
        let mut dpm = dp::DpMaster::new(s);
        let handles = ps.into_iter().map(|p| dpm.add(p)).collect();
        dpm.enter_operate();
        LiveN { fdl, dp: dpm, handles, slaves }
    }))
}

fn turn_n(l: &mut LiveN, now: Instant, mid: Option<usize>, d: &Delivery) -> String {
    let mut buf = [0u8; 256];
    let r = l.dp.transmit_telegram(now, &l.fdl, fdl::TelegramTx::new(&mut buf), fdl::HighPrioOnly::No);
    let (tx, exp, seen, rep, got) = match r {
        None => ("-".to_string(), None, false, SReply::Silent, None),
        Some(resp) => {
            let n = resp.bytes_sent().min(256);
            let wire = buf[..n].to_vec();
            let exp = resp.expects_reply();
            if let Some(i) = mid {
                if let Some(h) = l.handles.get(i).copied() {
                    l.dp.get_mut(h).request_diagnostics();
                }
            }
            match d {
                Delivery::LossReq => {
                    if let Some(a) = exp {
                        l.dp.handle_timeout(now, &l.fdl, a);
                    }
                    (hex(&wire), exp, false, SReply::Silent, None)
                }
                _ => {
                    // every slave hears the telegram; the first non-silent reply counts
                    let mut rep = SReply::Silent;
                    for s in l.slaves.iter_mut() {
                        let r = s.receive_wire(&wire);
                        if rep == SReply::Silent {
                            rep = r;
                        }
                    }
                    let got: Option<Tg> = match exp {
                        None => None,
                        Some(_) => match (d, &rep) {
                            (Delivery::Ok, SReply::Sc) => Some(Tg::Sc),
                            (Delivery::Ok, SReply::Data(h, pdu)) => Some(Tg::Data(h.clone(), pdu.clone())),
                            (Delivery::Sub(_), SReply::Silent) => None,
                            (Delivery::Sub(Tg::Sc), _) => Some(Tg::Sc),
                            (Delivery::Sub(Tg::Data(h, pdu)), _) => Some(Tg::Data(h.clone(), pdu.clone())),
                            _ => None,
                        },
                    };
                    if let Some(a) = exp {
                        match &got {
                            None => l.dp.handle_timeout(now, &l.fdl, a),
                            Some(Tg::Sc) => l.dp.receive_reply(
                                now,
                                &l.fdl,
                                a,
                                fdl::Telegram::ShortConfirmation(fdl::ShortConfirmation),
                            ),
                            Some(Tg::Data(h, pdu)) => l.dp.receive_reply(
                                now,
                                &l.fdl,
                                a,
                                fdl::Telegram::Data(fdl::DataTelegram { h: h.clone(), pdu }),
                            ),
                        }
                    }
                    (hex(&wire), exp, true, rep, got)
                }
            }
        }
    };
    let e = l.dp.take_last_events();
    let ev = match e.peripheral {
        None => "-".to_string(),
        Some((h, ev)) => {
            let slot = l.handles.iter().position(|x| *x == h).map(|i| i.to_string()).unwrap_or("?".to_string());
            format!("{}:{}", slot, event_name(ev))
        }
    };
    format!(
        "tx={} exp={} seen={} rep={} got={} ev={}:{}",
        tx,
        opt_u8(exp),
        seen as u8,
        show_reply(&rep),
        match &got {
            None => "-".to_string(),
            Some(t) => show_tg(t),
        },
        e.cycle_completed as u8,
        ev
    )
}

fn step_n(st: &mut Option<LiveN>, line: &str) -> String {
    let w: Vec<&str> = line.split(' ').collect();
    if w[0] == "dn.new" {
        return match dn_new(&w[1..]) {
            None => "bad-op".to_string(),
            Some(None) => {
                *st = None;
                "panic".to_string()
            }
            Some(Some(mut l)) => {
                let s = format!("ok ;{}", l.summary());
                *st = Some(l);
                s
            }
        };
    }
    let Some(l) = st.as_mut() else {
        return "dead".to_string();
    };
    let slot_of = |s: &str, n: usize| s.parse::<usize>().ok().filter(|i| *i < n);
    let n = l.handles.len();
    let r: Result<Option<String>, ()> = match w.as_slice() {
        ["dn.turn", now, mid, d @ ..] => {
            let del = match d {
                ["ok"] => Some(Delivery::Ok),
                ["lossreq"] => Some(Delivery::LossReq),
                ["lossrep"] => Some(Delivery::LossRep),
                ["sub", tg @ ..] => parse_tg(tg).map(Delivery::Sub),
                _ => None,
            };
            let midv = if *mid == "-" { Some(None) } else { slot_of(mid, n).map(Some) };
            match (now.parse::<i64>().ok(), midv, del) {
                (Some(now), Some(midv), Some(del)) => Ok(guarded(|| turn_n(l, Instant::from_micros(now), midv, &del))),
                _ => Err(()),
            }
        }
        ["dn.power", i] => match slot_of(i, n) {
            Some(i) => {
                l.slaves[i].power();
                Ok(Some("ok".to_string()))
            }
            None => Err(()),
        },
        ["dn.fault", i, hx] => match slot_of(i, n) {
            Some(i) => {
                l.slaves[i].report_fault(unhex(hx));
                Ok(Some("ok".to_string()))
            }
            None => Err(()),
        },
        ["dn.diagreq", i] => match slot_of(i, n) {
            Some(i) => {
                let h = l.handles[i];
                Ok(guarded(|| {
                    l.dp.get_mut(h).request_diagnostics();
                    "ok".to_string()
                }))
            }
            None => Err(()),
        },
        ["dn.piq", i, hx] => match slot_of(i, n) {
            Some(i) => {
                let bs = unhex(hx);
                let h = l.handles[i];
                Ok(guarded(|| {
                    let p = l.dp.get_mut(h);
                    if p.pi_q().len() == bs.len() {
                        p.pi_q_mut().copy_from_slice(&bs);
                    }
                    "ok".to_string()
                }))
            }
            None => Err(()),
        },
        ["dn.inputs", i, hx] => match slot_of(i, n) {
            Some(i) => {
                l.slaves[i].set_inputs(unhex(hx));
                Ok(Some("ok".to_string()))
            }
            None => Err(()),
        },
        _ => Err(()),
    };
    match r {
        Err(()) => "bad-op".to_string(),
        Ok(None) => {
            *st = None;
            "panic".to_string()
        }
        Ok(Some(o)) => match guarded(|| l.summary()) {
            Some(s) => format!("{o} ;{s}"),
            None => {
                *st = None;
                "panic".to_string()
            }
        },
    }
}

pub struct Exec {
    st: Option<Live>,
    stn: Option<LiveN>,
}

impl Exec {
    pub fn new() -> Self {
        Exec { st: None, stn: None }
    }
}

impl crate::Executor for Exec {
    fn exec(&mut self, line: &str) -> String {
        if line.starts_with("dn.") {
            step_n(&mut self.stn, line)
        } else {
            step(&mut self.st, line)
        }
    }
}

// ------------------------------------------------------------------------------------------------
// Generator
// ------------------------------------------------------------------------------------------------

#[derive(Clone)]
struct Cfg {
    own: u8,
    retry: u64,
    wd: Option<u64>,
    nslots: usize,
    addr: u8,
    ident: u16,
    prm: Vec<u8>,
    cfg: Vec<u8>,
    ilen: usize,
    qlen: usize,
    dbuf: usize,
    inputs: Vec<u8>,
    /// the slave's ident / configuration when they differ from the master's options (mismatch cases)
    s_ident: Option<u16>,
    s_cfg: Option<Vec<u8>>,
}

impl Cfg {
    fn slave_text(&self) -> String {
        format!(
            "{}:{}:{}:{}:{}:{}:{}",
            self.addr,
            self.s_ident.unwrap_or(self.ident),
            self.prm.len(),
            hex(self.s_cfg.as_ref().unwrap_or(&self.cfg)),
            self.ilen,
            self.qlen,
            hex(&self.inputs)
        )
    }
    fn new_line(&self) -> String {
        format!(
            "dl.new {} 500000 {} {} {} {}:{}:00:0:{}:{}:{}:{}:{} {}",
            self.own,
            self.retry,
            self.wd.map(|x| x.to_string()).unwrap_or("-".to_string()),
            self.nslots,
            self.addr,
            self.ident,
            hex(&self.prm),
            hex(&self.cfg),
            self.ilen,
            self.qlen,
            self.dbuf,
            self.slave_text()
        )
    }
    /// Bound of the oracle (engine turns that are not global-control broadcasts).
    fn quiet_turns(&self) -> u64 {
        2 * (self.retry + 8) + 4
    }
}

fn small_cfg(retry: u64, ilen: usize) -> Cfg {
    Cfg {
        own: 2,
        retry,
        wd: Some(100),
        nslots: 1,
        addr: 7,
        ident: 0x1234,
        prm: vec![0xaa],
        cfg: vec![0x11, 0x21],
        ilen,
        qlen: 2,
        dbuf: 8,
        inputs: (0..ilen).map(|i| 0xc0 + i as u8).collect(),
        s_ident: None,
        s_cfg: None,
    }
}

fn random_cfg(rng: &mut Rng) -> Cfg {
    let ilen = *rng.pick(&[0usize, 0, 1, 2, 4, 16]);
    let prm_len = rng.below(5) as usize;
    let cfg_len = 1 + rng.below(4) as usize;
    Cfg {
        own: rng.range(1, 5) as u8,
        retry: *rng.pick(&[1u64, 1, 2, 3, 4, 15]),
        wd: if rng.bool() { Some(*rng.pick(&[10u64, 100, 2550])) } else { None },
        nslots: rng.range(1, 3) as usize,
        addr: rng.range(6, 125) as u8,
        ident: rng.next() as u16,
        prm: rng.bytes(prm_len),
        cfg: rng.bytes(cfg_len),
        ilen,
        qlen: *rng.pick(&[0usize, 1, 2, 8]),
        dbuf: *rng.pick(&[0usize, 4, 16]),
        inputs: rng.bytes(ilen),
        s_ident: None,
        s_cfg: None,
    }
}

/// Substituted replies: well-formed telegrams a corrupted-but-decodable reply could turn into.
fn sub_alphabet(c: &Cfg) -> Vec<String> {
    let a = c.addr;
    let o = c.own;
    let ih = (c.ident >> 8) as u8;
    let il = c.ident as u8;
    let diag = |b0: u8, b1: u8, st: u8| format!("sub data {o} {a} 62 60 r.0.{st} {:02x}{:02x}00ff{:02x}{:02x}", b0, b1, ih, il);
    let mut v = vec![
        "sub sc".to_string(),
        format!("sub data {o} {a} - - r.0.3 -"),                      // RS
        format!("sub data {o} {a} - - r.0.8 {}", hex(&vec![0x5a; c.ilen])), // good-looking data
        format!("sub data {o} {a} - - r.0.10 {}", hex(&vec![0x5b; c.ilen])), // DH
        format!("sub data {o} {a} - - r.0.8 {}", hex(&vec![0x5c; c.ilen + 1])), // wrong length
        format!("sub data {o} {a} - - r.0.2 -"),                      // other status
        diag(0x00, 0x04, 8),                                            // ready
        diag(0x02, 0x05, 8),                                            // prm_req + not ready
        diag(0x02, 0x04, 8),                                            // not ready
        diag(0x40, 0x04, 8),                                            // prm_fault
        diag(0x04, 0x04, 8),                                            // cfg_fault
        diag(0x00, 0x04, 10),                                           // ready, DH
        diag(0x00, 0x04, 3),                                            // ready, RS status
        diag(0x08, 0x04, 8) + "4201",                                   // ext diag
        format!("sub data {o} {a} 62 60 r.0.8 0004"),                   // too short for a diagnostics reply
    ];
    v.truncate(15);
    v
}

/// One environment symbol → op line (`now` filled in by the caller for turns).
#[derive(Clone)]
enum Sym {
    Turn(bool, String),
    Power,
    Fault(Vec<u8>),
    DiagReq,
    Piq(Vec<u8>),
    Inputs(Vec<u8>),
}

struct Case<'a> {
    ops: &'a mut Vec<String>,
    now: i64,
    dt: i64,
}

impl<'a> Case<'a> {
    fn push(&mut self, s: &Sym) {
        match s {
            Sym::Turn(mid, d) => {
                self.now += self.dt;
                self.ops.push(format!("dl.turn {} {} {}", self.now, *mid as u8, d));
            }
            Sym::Power => self.ops.push("dl.power".to_string()),
            Sym::Fault(e) => self.ops.push(format!("dl.fault {}", hex(e))),
            Sym::DiagReq => self.ops.push("dl.diagreq".to_string()),
            Sym::Piq(b) => self.ops.push(format!("dl.piq {}", hex(b))),
            Sym::Inputs(b) => self.ops.push(format!("dl.inputs {}", hex(b))),
        }
    }
    fn quiet(&mut self, n: u64) {
        for _ in 0..n {
            self.push(&Sym::Turn(false, "ok".to_string()));
        }
    }
}

fn run_case(ops: &mut Vec<String>, c: &Cfg, warm: u64, hist: &[Sym], dt: i64) {
    ops.push(c.new_line());
    let mut k = Case { ops, now: 1000, dt };
    k.quiet(warm);
    for s in hist {
        k.push(s);
    }
    // a global-control broadcast goes out every `period`-th turn (50 slot times of 400 us at 500 kbit/s)
    let period = ((20000 + dt - 1) / dt).max(2) as u64;
    let q = c.quiet_turns() * period / (period - 1) + period;
    k.quiet(q + 4);
}

fn enumerate(alpha: &[Sym], depth: usize, f: &mut dyn FnMut(&[Sym])) {
    fn rec(alpha: &[Sym], depth: usize, cur: &mut Vec<Sym>, f: &mut dyn FnMut(&[Sym])) {
        if cur.len() == depth {
            f(cur);
            return;
        }
        for s in alpha {
            cur.push(s.clone());
            rec(alpha, depth, cur, f);
            cur.pop();
        }
    }
    rec(alpha, depth, &mut vec![], f);
}

pub fn gen(ops: &mut Vec<String>, seed: u64, thorough: bool) {
    let t = |mid: bool, d: &str| Sym::Turn(mid, d.to_string());
    // --- exhaustive, small alphabet (losses, power cycle, user call, device fault) ---
    let a6 = vec![t(false, "ok"), t(false, "lossreq"), t(false, "lossrep"), Sym::Power, Sym::DiagReq, Sym::Fault(vec![0x42, 0x01])];
    // depth per (retry, input length, warm-up): the deepest enumeration starts from data exchange
    let plan: &[(u64, usize, u64, usize)] = if thorough {
        &[(1, 1, 14, 6), (1, 0, 14, 5), (1, 1, 0, 5), (1, 0, 0, 4), (2, 1, 16, 4)]
    } else {
        &[(1, 1, 14, 4), (1, 0, 14, 4), (1, 1, 0, 4), (2, 1, 16, 3)]
    };
    for &(retry, ilen, warm, depth) in plan {
        let c = small_cfg(retry, ilen);
        enumerate(&a6, depth, &mut |h| run_case(ops, &c, warm, h, 3000));
    }
    // --- exhaustive, wider alphabet: mid-request user calls and substituted replies ---
    {
        let c = small_cfg(1, 1);
        let subs = sub_alphabet(&c);
        let mut a12 = vec![
            t(false, "ok"),
            t(false, "lossreq"),
            t(false, "lossrep"),
            t(true, "ok"),
            t(true, "lossrep"),
            Sym::Power,
            Sym::Fault(vec![]),
        ];
        for i in [0usize, 1, 6, 7, 8, 11] {
            a12.push(t(false, &subs[i]));
        }
        let plan12: &[(u64, usize)] = if thorough { &[(14, 4), (0, 3)] } else { &[(14, 3), (0, 3)] };
        for &(warm, depth) in plan12 {
            enumerate(&a12, depth, &mut |h| run_case(ops, &c, warm, h, 7000));
        }
    }
    // --- sampled long histories ---
    let n = if thorough { 6000 } else { 400 };
    for case in 0..n {
        let mut rng = Rng::new(seed, "dplive", case);
        let mut c = random_cfg(&mut rng);
        match rng.below(16) {
            0 => c.s_ident = Some(c.ident.wrapping_add(1)),
            1 => c.s_cfg = Some(vec![0xee]),
            _ => {}
        }
        let subs = sub_alphabet(&c);
        let depth = rng.range(1, 40) as usize;
        let loss_heavy = rng.chance(1, 3);
        let mut h = vec![];
        for _ in 0..depth {
            let r = rng.below(if loss_heavy { 60 } else { 100 });
            let mid = rng.chance(1, 8);
            h.push(match r {
                0..=19 => t(mid, "lossreq"),
                20..=34 => t(mid, "lossrep"),
                35..=44 => t(mid, rng.pick(&subs[..]).as_str()),
                45..=49 => Sym::Power,
                50..=54 => Sym::DiagReq,
                55..=59 => Sym::Fault(rng.bytes_below(6)),
                60..=64 => Sym::Piq(rng.bytes(c.qlen)),
                65..=67 => Sym::Inputs(rng.bytes(c.ilen)),
                68 => Sym::Piq(rng.bytes(c.qlen + 1)),
                69 => Sym::Inputs(rng.bytes(c.ilen + 1)),
                _ => t(mid, "ok"),
            });
        }
        let warm = *rng.pick(&[0u64, 0, 3, 6, 9, 16]);
        let dt = *rng.pick(&[500i64, 3000, 7000, 15000]);
        run_case(ops, &c, warm, &h, dt);
    }
    // --- mismatching slaves (outside C07's liveness scope; correspondence and life-cycle order only) ---
    {
        let mut bad_cfg = small_cfg(1, 1);
        bad_cfg.s_cfg = Some(vec![0x11, 0x22]);
        let mut bad_ident = small_cfg(2, 1);
        bad_ident.s_ident = Some(0x1111);
        for c in [bad_cfg, bad_ident] {
            for warm in [0u64, 9] {
                enumerate(&a6, 3, &mut |h| run_case(ops, &c, warm, h, 3000));
            }
        }
    }
    gen_multi(ops, seed, thorough);
}

// ------------------------------------------------------------------------------------------------
// Generator, several peripherals
// ------------------------------------------------------------------------------------------------

fn multi_new_line(cs: &[Cfg]) -> String {
    let c0 = &cs[0];
    let mut s = format!(
        "dn.new {} 500000 {} {} {}",
        c0.own,
        c0.retry,
        c0.wd.map(|x| x.to_string()).unwrap_or("-".to_string()),
        cs.len() + c0.nslots - 1
    );
    for c in cs {
        s.push_str(&format!(
            " {}:{}:00:0:{}:{}:{}:{}:{} {}",
            c.addr,
            c.ident,
            hex(&c.prm),
            hex(&c.cfg),
            c.ilen,
            c.qlen,
            c.dbuf,
            c.slave_text()
        ));
    }
    s
}

#[derive(Clone)]
enum SymN {
    Turn(Option<usize>, String),
    Power(usize),
    Fault(usize, Vec<u8>),
    DiagReq(usize),
    Piq(usize, Vec<u8>),
    Inputs(usize, Vec<u8>),
}

fn run_case_multi(ops: &mut Vec<String>, cs: &[Cfg], warm: u64, hist: &[SymN], dt: i64) {
    ops.push(multi_new_line(cs));
    let mut now: i64 = 1000;
    let mut push = |ops: &mut Vec<String>, s: &SymN| match s {
        SymN::Turn(mid, d) => {
            now += dt;
            let m = mid.map(|i| i.to_string()).unwrap_or("-".to_string());
            ops.push(format!("dn.turn {} {} {}", now, m, d));
        }
        SymN::Power(i) => ops.push(format!("dn.power {}", i)),
        SymN::Fault(i, e) => ops.push(format!("dn.fault {} {}", i, hex(e))),
        SymN::DiagReq(i) => ops.push(format!("dn.diagreq {}", i)),
        SymN::Piq(i, b) => ops.push(format!("dn.piq {} {}", i, hex(b))),
        SymN::Inputs(i, b) => ops.push(format!("dn.inputs {} {}", i, hex(b))),
    };
    let ok = SymN::Turn(None, "ok".to_string());
    for _ in 0..warm {
        push(ops, &ok);
    }
    for s in hist {
        push(ops, s);
    }
    // bound of the oracle in non-broadcast turns, plus the broadcasts in between
    let n = cs.len() as u64;
    let kn = (cs[0].retry + 8) * (n + 1) + n;
    let period = ((20000 + dt - 1) / dt).max(2) as u64;
    let q = kn * period / (period - 1) + period + 4;
    for _ in 0..q {
        push(ops, &ok);
    }
}

fn gen_multi(ops: &mut Vec<String>, seed: u64, thorough: bool) {
    let t = |mid: Option<usize>, d: &str| SymN::Turn(mid, d.to_string());
    // two peripherals: #7 (one input byte) and #9 (no inputs)
    let mut c7 = small_cfg(1, 1);
    c7.nslots = 2;
    let mut c9 = small_cfg(1, 0);
    c9.addr = 9;
    c9.ident = 0x0909;
    c9.cfg = vec![0x55];
    c9.prm = vec![];
    c9.dbuf = 0;
    let pair = vec![c7.clone(), c9.clone()];
    let alpha = vec![
        t(None, "ok"),
        t(None, "lossreq"),
        t(None, "lossrep"),
        t(Some(0), "ok"),
        t(Some(1), "lossrep"),
        SymN::Power(0),
        SymN::Power(1),
        SymN::DiagReq(0),
        SymN::DiagReq(1),
        SymN::Fault(0, vec![0x42, 0x01]),
        SymN::Fault(1, vec![]),
    ];
    let depth = if thorough { 4 } else { 3 };
    for warm in [0u64, 26] {
        let mut cur: Vec<SymN> = vec![];
        fn rec(alpha: &[SymN], depth: usize, cur: &mut Vec<SymN>, f: &mut dyn FnMut(&[SymN])) {
            if cur.len() == depth {
                f(cur);
                return;
            }
            for s in alpha {
                cur.push(s.clone());
                rec(alpha, depth, cur, f);
                cur.pop();
            }
        }
        rec(&alpha, depth, &mut cur, &mut |h| run_case_multi(ops, &pair, warm, h, 3000));
    }
    // sampled: two or three peripherals, independent fault plans
    let n = if thorough { 2500 } else { 150 };
    for case in 0..n {
        let mut rng = Rng::new(seed, "dplive-multi", case);
        let k = rng.range(2, 3) as usize;
        let mut cs: Vec<Cfg> = vec![];
        for i in 0..k {
            let mut c = random_cfg(&mut rng);
            c.addr = 10 + 7 * i as u8 + rng.below(5) as u8;
            match rng.below(24) {
                0 => c.s_ident = Some(c.ident.wrapping_add(1)),
                1 => c.s_cfg = Some(vec![0xee]),
                _ => {}
            }
            if i > 0 {
                c.own = cs[0 as usize].own;
                c.retry = cs[0 as usize].retry;
                c.wd = cs[0 as usize].wd;
            }
            cs.push(c);
        }
        let subs: Vec<Vec<String>> = cs.iter().map(sub_alphabet).collect();
        let depth = rng.range(1, 40) as usize;
        let mut h = vec![];
        for _ in 0..depth {
            let i = rng.below(k as u64) as usize;
            let mid = if rng.chance(1, 8) { Some(i) } else { None };
            h.push(match rng.below(100) {
                0..=17 => t(mid, "lossreq"),
                18..=31 => t(mid, "lossrep"),
                32..=37 => t(mid, rng.pick(&subs[i][..]).as_str()),
                38..=43 => SymN::Power(i),
                44..=48 => SymN::DiagReq(i),
                49..=53 => SymN::Fault(i, rng.bytes_below(6)),
                54..=57 => SymN::Piq(i, rng.bytes(cs[i].qlen)),
                58..=60 => SymN::Inputs(i, rng.bytes(cs[i].ilen)),
                _ => t(mid, "ok"),
            });
        }
        let warm = *rng.pick(&[0u64, 0, 5, 12, 30]);
        let dt = *rng.pick(&[500i64, 3000, 7000, 15000]);
        run_case_multi(ops, &cs, warm, &h, dt);
    }
}
