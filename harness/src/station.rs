//! Engine `station`: one real `FdlActiveStation` + scripted PHY + scripted applications, one op per
//! API call (C01 C05 C11 C12 C13 C15 at station level).
//!
//! ops:
//!   st.new <addr> <rate> <slot_bits> <ttr_bits> <gap_wait> <hsa> <max_retry> <napps>
//!   st.online | st.offline
//!   st.script <app> <answer>...      answer = d | s:<da>:<sa>:<dsap>:<ssap>:<fc>:<pduhex>
//!   st.rx <hex>                      bytes arrive in the PHY receive buffer
//!   st.phytx <0|1>                   what `poll_transmission` reports
//!   st.poll <now_us>
//! observation of st.poll:
//!   tx=<hex|-> rx=<bytes left> calls=[..] st=<state> inring=<0|1> ns=<n> ps=<n> ready=<0|1> las=<a,b,..>
use crate::codec::{parse_header, show_fc, show_telegram};
use crate::util::*;
use profirust::fdl::*;
use profirust::phy::ProfibusPhy;
use profirust::time::Instant;
use std::cell::RefCell;
use std::collections::VecDeque;
use std::rc::Rc;

pub struct StPhy {
    pub rx: Vec<u8>,
    pub transmitting: bool,
    pub tx: Option<Vec<u8>>,
}
impl ProfibusPhy for StPhy {
    fn poll_transmission(&mut self, _now: Instant) -> bool {
        self.transmitting
    }
    fn transmit_data<F, R>(&mut self, _now: Instant, f: F) -> R
    where
        F: FnOnce(&mut [u8]) -> (usize, R),
    {
        assert!(!self.transmitting, "transmit while transmitting");
        let mut buf = [0xA5u8; 256]; // a dirty transmit buffer (real PHYs reuse theirs)
        let (n, r) = f(&mut buf);
        if n > 0 {
            assert!(self.tx.is_none(), "second transmission in one poll");
            self.tx = Some(buf[..n].to_vec());
        }
        r
    }
    fn receive_data<F, R>(&mut self, _now: Instant, f: F) -> R
    where
        F: FnOnce(&[u8]) -> (usize, R),
    {
        assert!(!self.transmitting, "receive while transmitting");
        let (drop, r) = f(&self.rx);
        assert!(drop <= self.rx.len());
        self.rx.drain(..drop);
        r
    }
}

#[derive(Clone)]
pub enum Answer {
    Decline,
    Send(DataTelegramHeader, Vec<u8>),
}

pub fn show_answer(a: &Answer) -> String {
    match a {
        Answer::Decline => "d".into(),
        Answer::Send(h, pdu) => format!(
            "s:{}:{}:{}:{}:{}:{}",
            h.da,
            h.sa,
            opt_u8(h.dsap),
            opt_u8(h.ssap),
            show_fc(h.fc),
            hex(pdu)
        ),
    }
}

pub fn parse_answer(s: &str) -> Option<Answer> {
    if s == "d" {
        return Some(Answer::Decline);
    }
    let w: Vec<&str> = s.split(':').collect();
    if w.len() == 7 && w[0] == "s" {
        Some(Answer::Send(parse_header(&w[1..6])?, unhex(w[6])))
    } else {
        None
    }
}

pub struct ScriptApp {
    pub idx: usize,
    pub script: VecDeque<Answer>,
    pub log: Rc<RefCell<Vec<String>>>,
}
impl FdlApplication for ScriptApp {
    fn transmit_telegram(
        &mut self,
        _now: Instant,
        _fdl: &FdlActiveStation,
        tx: TelegramTx,
        high_prio_only: HighPrioOnly,
    ) -> Option<TelegramTxResponse> {
        let a = self.script.pop_front().unwrap_or(Answer::Decline);
        self.log.borrow_mut().push(format!(
            "T{}.{}.{}",
            self.idx,
            (high_prio_only == HighPrioOnly::Yes) as u8,
            show_answer(&a)
        ));
        match a {
            Answer::Decline => None,
            Answer::Send(h, pdu) => Some(tx.send_data_telegram(h, pdu.len(), |b| b.copy_from_slice(&pdu))),
        }
    }
    fn receive_reply(&mut self, _now: Instant, _fdl: &FdlActiveStation, addr: u8, telegram: Telegram) {
        self.log
            .borrow_mut()
            .push(format!("R{}.{}.{}", self.idx, addr, show_telegram(&telegram).replace(' ', ",")));
    }
    fn handle_timeout(&mut self, _now: Instant, _fdl: &FdlActiveStation, addr: u8) {
        self.log.borrow_mut().push(format!("O{}.{}", self.idx, addr));
    }
}

pub fn baud_of(rate: u64) -> Option<profirust::Baudrate> {
    use profirust::Baudrate::*;
    Some(match rate {
        9600 => B9600,
        19200 => B19200,
        31250 => B31250,
        45450 => B45450,
        93750 => B93750,
        187500 => B187500,
        500000 => B500000,
        1500000 => B1500000,
        3000000 => B3000000,
        6000000 => B6000000,
        12000000 => B12000000,
        _ => return None,
    })
}

pub struct Station {
    pub fdl: FdlActiveStation,
    pub phy: StPhy,
    pub apps: Vec<ScriptApp>,
    pub log: Rc<RefCell<Vec<String>>>,
    pub dead: bool,
}

pub fn make_params(addr: u8, rate: u64, slot: u16, ttr: u32, gap_wait: u8, hsa: u8, retry: u8) -> Parameters {
    let mut p = ParametersBuilder::new(addr.min(125), baud_of(rate).unwrap()).build();
    p.address = addr;
    p.slot_bits = slot;
    p.token_rotation_bits = ttr;
    p.gap_wait_rotations = gap_wait;
    p.highest_station_address = hsa;
    p.max_retry_limit = retry;
    p
}

impl Station {
    pub fn new(w: &[&str]) -> Option<Station> {
        let addr: u8 = w[0].parse().ok()?;
        let p = make_params(
            addr,
            w[1].parse().ok()?,
            w[2].parse().ok()?,
            w[3].parse().ok()?,
            w[4].parse().ok()?,
            w[5].parse().ok()?,
            w[6].parse().ok()?,
        );
        let napps: usize = w[7].parse().ok()?;
        let log = Rc::new(RefCell::new(vec![]));
        let fdl = guarded(|| FdlActiveStation::new(p))?;
        Some(Station {
            fdl,
            phy: StPhy { rx: vec![], transmitting: false, tx: None },
            apps: (0..napps).map(|idx| ScriptApp { idx, script: VecDeque::new(), log: log.clone() }).collect(),
            log,
            dead: false,
        })
    }

    pub fn view(&self) -> String {
        let r = self.fdl.inspect_token_ring();
        let las: Vec<String> = r.iter_active_stations().map(|a| a.to_string()).collect();
        format!(
            "st={} inring={} ns={} ps={} ready={} las={}",
            self.fdl.verif_state_name(),
            self.fdl.is_in_ring() as u8,
            r.next_station(),
            r.previous_station(),
            r.ready_for_ring() as u8,
            if las.is_empty() { "-".to_string() } else { las.join(",") }
        )
    }

    /// One poll; returns (observation, transmitted bytes).
    pub fn poll(&mut self, now: i64) -> (String, Option<Vec<u8>>) {
        if self.dead {
            return ("dead".into(), None);
        }
        self.phy.tx = None;
        self.log.borrow_mut().clear();
        let now = Instant::from_micros(now);
        let fdl = &mut self.fdl;
        let phy = &mut self.phy;
        let apps = &mut self.apps;
        let ok = guarded(|| {
            let mut refs: Vec<&mut dyn FdlApplication> = apps.iter_mut().map(|a| a as &mut dyn FdlApplication).collect();
            fdl.poll_multi(now, phy, &mut refs[..]);
        });
        if ok.is_none() {
            self.dead = true;
            return ("panic".into(), None);
        }
        let tx = self.phy.tx.clone();
        let calls = self.log.borrow().join(";");
        (
            format!(
                "tx={} rx={} calls=[{}] {}",
                tx.as_ref().map(|t| hex(t)).unwrap_or("-".into()),
                self.phy.rx.len(),
                calls,
                self.view()
            ),
            tx,
        )
    }
}

pub struct Exec {
    st: Option<Station>,
}
impl Exec {
    pub fn new() -> Self {
        Exec { st: None }
    }
}

impl crate::Executor for Exec {
    fn exec(&mut self, line: &str) -> String {
        let w: Vec<&str> = line.split(' ').collect();
        if w[0] == "st.new" {
            if w.len() != 9 {
                return "bad-op".into();
            }
            self.st = Station::new(&w[1..]);
            return if self.st.is_some() { "ok".into() } else { "panic".into() };
        }
        let Some(st) = self.st.as_mut() else { return "dead".into() };
        if st.dead {
            return "dead".into();
        }
        match w.as_slice() {
            ["st.online"] => {
                st.fdl.set_online();
                "ok".into()
            }
            ["st.offline"] => {
                st.fdl.set_offline();
                "ok".into()
            }
            ["st.napps", k] => {
                // the application list may be changed while the station is offline (documented)
                if st.fdl.connectivity_state() != profirust::fdl::ConnectivityState::Offline {
                    return "bad-op".into();
                }
                let k: usize = k.parse().unwrap();
                st.apps.truncate(k);
                while st.apps.len() < k {
                    let idx = st.apps.len();
                    st.apps.push(ScriptApp { idx, script: VecDeque::new(), log: st.log.clone() });
                }
                "ok".into()
            }
            ["st.script", app, answers @ ..] => {
                let i: usize = app.parse().unwrap();
                if i >= st.apps.len() {
                    return "bad-op".into();
                }
                for a in answers {
                    match parse_answer(a) {
                        Some(a) => st.apps[i].script.push_back(a),
                        None => return "bad-op".into(),
                    }
                }
                "ok".into()
            }
            ["st.rx", h] => {
                st.phy.rx.extend(unhex(h));
                format!("rx={}", st.phy.rx.len())
            }
            ["st.phytx", b] => {
                st.phy.transmitting = *b == "1";
                "ok".into()
            }
            ["st.poll", now] => st.poll(now.parse().unwrap()).0,
            _ => "bad-op".into(),
        }
    }
}

// ---------------------------------------------------------------------------------------------
// Closed-loop generator: drives its own real station to decide what the environment does next
// (so deep FDL states are reached), and records the operation lines.  `exec` later replays them
// on a fresh station.
// ---------------------------------------------------------------------------------------------

fn enc(h: &DataTelegramHeader, pdu: &[u8]) -> Vec<u8> {
    crate::decoder::encode(h, pdu)
}
fn status_req(da: u8, sa: u8) -> Vec<u8> {
    enc(
        &DataTelegramHeader { da, sa, dsap: None, ssap: None, fc: FunctionCode::Request { fcb: FrameCountBit::Inactive, req: RequestType::FdlStatus } },
        &[],
    )
}
fn status_resp(da: u8, sa: u8, state: ResponseState) -> Vec<u8> {
    enc(
        &DataTelegramHeader { da, sa, dsap: None, ssap: None, fc: FunctionCode::Response { state, status: ResponseStatus::Ok } },
        &[],
    )
}
fn token(da: u8, sa: u8) -> Vec<u8> {
    vec![0xDC, da, sa]
}

struct Gen<'a> {
    ops: &'a mut Vec<String>,
    st: Station,
    now: i64,
    rate: u64,
    slot_bits: u64,
    ts: u8,
    hsa: u8,
}

impl<'a> Gen<'a> {
    fn bits(&self, b: u64) -> i64 {
        (b * 1_000_000 / self.rate) as i64
    }
    fn op(&mut self, line: String) -> (String, Option<Vec<u8>>) {
        self.ops.push(line.clone());
        let w: Vec<&str> = line.split(' ').collect();
        match w.as_slice() {
            ["st.online"] => {
                self.st.fdl.set_online();
                ("ok".into(), None)
            }
            ["st.offline"] => {
                self.st.fdl.set_offline();
                ("ok".into(), None)
            }
            ["st.rx", h] => {
                self.st.phy.rx.extend(unhex(h));
                ("ok".into(), None)
            }
            ["st.phytx", b] => {
                self.st.phy.transmitting = *b == "1";
                ("ok".into(), None)
            }
            ["st.napps", k] => {
                let k: usize = k.parse().unwrap();
                self.st.apps.truncate(k);
                while self.st.apps.len() < k {
                    let idx = self.st.apps.len();
                    self.st.apps.push(ScriptApp { idx, script: VecDeque::new(), log: self.st.log.clone() });
                }
                ("ok".into(), None)
            }
            ["st.script", app, answers @ ..] => {
                let i: usize = app.parse().unwrap();
                for a in answers {
                    self.st.apps[i].script.push_back(parse_answer(a).unwrap());
                }
                ("ok".into(), None)
            }
            ["st.poll", now] => self.st.poll(now.parse().unwrap()),
            _ => unreachable!(),
        }
    }
    fn poll(&mut self) -> Option<Vec<u8>> {
        let now = self.now;
        self.op(format!("st.poll {now}")).1
    }
    fn rx(&mut self, bytes: &[u8]) {
        self.op(format!("st.rx {}", hex(bytes)));
    }
}

fn pick_peer(rng: &mut Rng, peers: &[u8]) -> u8 {
    if peers.is_empty() {
        rng.u8() & 0x7f
    } else {
        *rng.pick(peers)
    }
}

/// What the simulated rest of the bus does with a telegram the station sent.
#[allow(clippy::too_many_arguments)]
fn react(g: &mut Gen, rng: &mut Rng, peers: &[u8], tx: &[u8], faulty: bool) {
    let ts = g.ts;
    let Some(Ok((t, _))) = Telegram::deserialize(tx) else { return };
    // transmission time of the station's telegram
    g.now += g.bits(11 * tx.len() as u64);
    match t {
        Telegram::Token(tok) if tok.da != ts => {
            if peers.contains(&tok.da) && !(faulty && rng.chance(1, 4)) {
                // the peer takes the token and, after a while, something happens on the bus
                g.now += g.bits(11 + rng.below(60));
                let choice = rng.below(if faulty { 8 } else { 5 });
                let from = tok.da;
                let bytes = match choice {
                    0 | 1 => token(ts, from), // gives it straight back
                    2 => {
                        // passes to another peer first, then that one to us
                        let other = pick_peer(rng, peers);
                        let mut b = token(other, from);
                        if rng.bool() {
                            b.extend(token(ts, other));
                        }
                        b
                    }
                    3 => status_req(ts, from), // polls us
                    4 => token(from, from),
                    5 => token(ts, pick_peer(rng, peers)), // token from a stranger
                    6 => rng.bytes_below(6),
                    _ => vec![0xE5],
                };
                g.rx(&bytes);
            }
        }
        Telegram::Data(d) => {
            if let FunctionCode::Request { req, .. } = d.h.fc {
                let answering = peers.contains(&d.h.da) || (faulty && rng.chance(1, 6));
                if req.expects_reply() && answering && !(faulty && rng.chance(1, 5)) {
                    g.now += g.bits(11 + rng.below(40));
                    let bytes = if req == RequestType::FdlStatus {
                        let state = *rng.pick(&[
                            ResponseState::MasterWithoutToken,
                            ResponseState::MasterWithoutToken,
                            ResponseState::MasterNotReady,
                            ResponseState::Slave,
                            ResponseState::MasterInRing,
                        ]);
                        match if faulty { rng.below(6) } else { 0 } {
                            0 | 1 | 2 => status_resp(ts, d.h.da, state),
                            3 => status_resp(ts, pick_peer(rng, peers), state), // wrong source
                            4 => token(ts, d.h.da),
                            _ => vec![0xE5],
                        }
                    } else {
                        match if faulty { rng.below(7) } else { rng.below(2) } {
                            0 => vec![0xE5],
                            1 | 2 => enc(
                                &DataTelegramHeader {
                                    da: ts,
                                    sa: d.h.da,
                                    dsap: d.h.ssap,
                                    ssap: d.h.dsap,
                                    fc: FunctionCode::Response { state: ResponseState::Slave, status: ResponseStatus::DataLow },
                                },
                                &rng.bytes_below(6),
                            ),
                            3 => enc(
                                &DataTelegramHeader {
                                    da: ts,
                                    sa: d.h.da.wrapping_add(1) & 0x7f,
                                    dsap: None,
                                    ssap: None,
                                    fc: FunctionCode::Response { state: ResponseState::Slave, status: ResponseStatus::Ok },
                                },
                                &[],
                            ),
                            4 => status_req(ts, d.h.da), // a request instead of a response
                            5 => {
                                if rng.bool() {
                                    token(ts, d.h.da)
                                } else {
                                    // a response from the right station but to a foreign destination (incl. broadcast)
                                    enc(
                                        &DataTelegramHeader {
                                            da: *rng.pick(&[127u8, 126, ts.wrapping_add(1) & 0x7f, 0]),
                                            sa: d.h.da,
                                            dsap: None,
                                            ssap: None,
                                            fc: FunctionCode::Response { state: ResponseState::Slave, status: ResponseStatus::Ok },
                                        },
                                        &rng.bytes_below(4),
                                    )
                                }
                            }
                            _ => rng.bytes_below(8),
                        }
                    };
                    // sometimes split the reply into two arrivals
                    if bytes.len() > 1 && rng.chance(1, 4) {
                        let cut = 1 + rng.below(bytes.len() as u64 - 1) as usize;
                        g.rx(&bytes[..cut]);
                        g.now += g.bits(11 * cut as u64);
                        g.poll();
                        g.rx(&bytes[cut..]);
                    } else {
                        g.rx(&bytes);
                    }
                }
            }
        }
        _ => {}
    }
}

fn random_answers(rng: &mut Rng, ts: u8, peers: &[u8], n: usize) -> Vec<String> {
    (0..n)
        .map(|_| {
            if rng.chance(2, 5) {
                "d".to_string()
            } else {
                // mostly the common services, one time in three any of the twelve request kinds (incl. MulticastSrd,
                // Ident, LsapStatus, clock/time events)
                let req = if rng.chance(1, 3) {
                    *rng.pick(&crate::codec::ALL_REQ)
                } else {
                    *rng.pick(&[RequestType::SrdLow, RequestType::SrdHigh, RequestType::SdnLow, RequestType::FdlStatus, RequestType::SdaLow])
                };
                let h = DataTelegramHeader {
                    da: if peers.is_empty() || rng.chance(1, 3) { rng.u8() & 0x7f } else { *rng.pick(peers) },
                    sa: ts,
                    dsap: if rng.bool() { Some(rng.u8()) } else { None },
                    ssap: if rng.bool() { Some(rng.u8()) } else { None },
                    fc: FunctionCode::Request { fcb: *rng.pick(&crate::codec::ALL_FCB), req },
                };
                show_answer(&Answer::Send(h, rng.bytes_below(10)))
            }
        })
        .collect()
}

impl<'a> Gen<'a> {
    /// Poll every `step` us for `dur` us without any reaction of the environment; returns what was sent.
    fn idle(&mut self, dur: i64, step: i64) -> Vec<Vec<u8>> {
        let mut out = vec![];
        let end = self.now + dur;
        while self.now < end && !self.st.dead {
            self.now += step.max(1);
            if let Some(tx) = self.poll() {
                self.now += self.bits(11 * tx.len() as u64);
                out.push(tx);
            }
        }
        out
    }
    /// Deliver bytes, then poll once after their transmission time and once more after the sync pause.
    fn deliver(&mut self, bytes: &[u8]) -> Option<Vec<u8>> {
        self.rx(bytes);
        self.now += self.bits(11 * bytes.len() as u64) + 1;
        let a = self.poll();
        self.now += self.bits(34);
        let b = self.poll();
        let tx = a.or(b);
        if let Some(t) = &tx {
            self.now += self.bits(11 * t.len() as u64) + 1;
        }
        tx
    }
}

/// Bring the station into the ring next to the peers `ring` (ascending): it listens to rotations until its
/// LAS is valid, is polled by its predecessor, answers "ready" and ends up in ActiveIdle.
fn prep_in_ring(g: &mut Gen, rng: &mut Rng, ring: &[u8]) {
    let ts = g.ts;
    for _ in 0..3 {
        for k in 0..ring.len() {
            let sa = ring[k];
            let da = ring[(k + 1) % ring.len()];
            g.rx(&token(da, sa));
            g.now += g.bits(33 + 3 * 11 + rng.below(40));
            g.poll();
            if rng.chance(1, 12) {
                let bad = *rng.pick(&[126u8, 127, 128, 200, 255]);
                let t = if rng.bool() { token(bad, sa) } else { token(da, bad) };
                g.rx(&t);
                g.now += g.bits(33 + 3 * 11);
                g.poll();
            }
        }
    }
    let ps = g.st.fdl.inspect_token_ring().previous_station();
    if ps != ts {
        g.deliver(&status_req(ts, ps));
    }
}

/// Targeted short cases: from a station that is a ring member next to several peers, a short random
/// sequence over an alphabet of environment actions (tokens from PS / from two different strangers /
/// between peers / with the own source address, silences of slot, 3 slots and time-out length, status
/// requests, SC, garbage, natural peer behaviour).
fn gen_targeted(ops: &mut Vec<String>, seed: u64, ncases: u64) {
    for case in 0..ncases {
        let mut rng = Rng::new(seed, "station-targeted", case);
        let rate = *rng.pick(&[19200u64, 500_000, 1_500_000, 93_750]);
        let slot: u64 = match rate {
            500_000 => 200,
            1_500_000 => 300,
            _ => 100,
        } + rng.below(2) * 40;
        let hsa = *rng.pick(&[126u8, 32, 16]);
        let ts = 1 + rng.below(hsa as u64 - 2) as u8;
        let napps = rng.below(3) as usize;
        // 2..4 peers, ascending, distinct from TS
        let mut ring: Vec<u8> = vec![];
        while ring.len() < 2 + rng.below(3) as usize {
            let p = match rng.below(4) {
                0 => ts + 1,
                1 => ts - 1,
                _ => rng.below(hsa as u64) as u8,
            };
            if p != ts && p < hsa && !ring.contains(&p) {
                ring.push(p);
            }
        }
        ring.sort();
        let line = format!("st.new {ts} {rate} {slot} {} {} {hsa} {} {napps}", *rng.pick(&[256u32, 5000, 50_000]), *rng.pick(&[1u8, 2, 10]), 1 + rng.below(2));
        ops.push(line.clone());
        let w: Vec<&str> = line.split(' ').collect();
        let st = Station::new(&w[1..]).unwrap();
        let mut g = Gen { ops, st, now: 100, rate, slot_bits: slot, ts, hsa };
        g.op("st.online".into());
        for i in 0..napps {
            let a = random_answers(&mut rng, ts, &ring, 6);
            g.op(format!("st.script {i} {}", a.join(" ")));
        }
        prep_in_ring(&mut g, &mut rng, &ring);
        let slot_t = g.bits(slot);
        let tto = g.bits(slot * (6 + 2 * ts as u64));
        let strangers: Vec<u8> = {
            let ps = g.st.fdl.inspect_token_ring().previous_station();
            let mut v: Vec<u8> = ring.iter().copied().filter(|a| *a != ps).collect();
            v.push((ts as u16 + 50) as u8 % hsa.max(2));
            v.push(hsa - 1);
            v.retain(|a| *a != ts);
            v
        };
        let nact = 3 + rng.below(7);
        for _ in 0..nact {
            if g.st.dead {
                break;
            }
            let ps = g.st.fdl.inspect_token_ring().previous_station();
            let ns = g.st.fdl.inspect_token_ring().next_station();
            match rng.below(21) {
                0 | 1 => {
                    g.deliver(&token(ts, ps));
                }
                2 => {
                    let a = strangers[0];
                    g.deliver(&token(ts, a));
                }
                3 => {
                    let b = strangers[strangers.len() - 1 - rng.below(2.min(strangers.len() as u64 - 1)) as usize];
                    g.deliver(&token(ts, b));
                }
                4 => {
                    let a = *rng.pick(&ring);
                    let b = *rng.pick(&ring);
                    g.deliver(&token(b, a));
                }
                5 => {
                    g.idle(slot_t + slot_t / 2, (slot_t / 3).max(1));
                }
                6 | 7 => {
                    g.idle(4 * slot_t, (slot_t / 3).max(1));
                }
                8 => {
                    g.idle(tto + 2 * slot_t, slot_t.max(1));
                }
                9 => {
                    g.deliver(&status_req(ts, ps));
                }
                10 => {
                    let a = *rng.pick(&strangers);
                    g.deliver(&status_req(ts, a));
                }
                11 => {
                    g.deliver(&[0xE5]);
                }
                12 => {
                    let b = rng.bytes_below(5);
                    g.deliver(&b);
                }
                13 => {
                    g.deliver(&token(*rng.pick(&ring), ts));
                }
                14 => {
                    // natural behaviour of the peers for a few polls
                    for _ in 0..(3 + rng.below(8)) {
                        g.now += (slot_t / 4).max(1);
                        if let Some(tx) = g.poll() {
                            react(&mut g, &mut rng, &ring, &tx, false);
                        }
                    }
                }
                19 | 20 => {
                    // a telegram cut off in mid-transmission (its sender crashed), then silence: the stale
                    // bytes stay in the receive buffer, but the bus is silent and must be claimed after Tto
                    let full = match rng.below(4) {
                        0 => token(ts, ps),
                        1 => token(*rng.pick(&ring), ps),
                        2 => status_req(ts, ps),
                        _ => {
                            let pdu = rng.bytes_below(8);
                            enc(
                                &DataTelegramHeader {
                                    da: ts,
                                    sa: ps,
                                    dsap: None,
                                    ssap: None,
                                    fc: FunctionCode::Request { fcb: FrameCountBit::Inactive, req: RequestType::SrdLow },
                                },
                                &pdu,
                            )
                        }
                    };
                    let cut = 1 + rng.below(full.len() as u64 - 1) as usize;
                    g.rx(&full[..cut]);
                    g.now += g.bits(11 * cut as u64) + 1;
                    g.idle(tto + 3 * slot_t, (slot_t / 2).max(1));
                }
                16 | 17 | 18 => {
                    // hand the token over; the first request that expects a reply is answered with a chosen,
                    // mostly inadmissible, telegram (wrong destination incl. broadcast, wrong source, wrong kind)
                    if napps > 0 {
                        let a = random_answers(&mut rng, ts, &ring, 2);
                        g.op(format!("st.script {} {}", rng.below(napps as u64), a.join(" ")));
                    }
                    g.rx(&token(ts, ps));
                    g.now += g.bits(33) + 1;
                    for _ in 0..40 {
                        if g.st.dead {
                            break;
                        }
                        g.now += (slot_t / 4).max(1);
                        let Some(tx) = g.poll() else { continue };
                        let req = match Telegram::deserialize(&tx) {
                            Some(Ok((Telegram::Data(d), _))) => match d.h.fc {
                                FunctionCode::Request { req, .. } if req.expects_reply() => Some((d.h.da, d.h.dsap, d.h.ssap)),
                                _ => None,
                            },
                            _ => None,
                        };
                        let Some((peer, dsap, ssap)) = req else {
                            react(&mut g, &mut rng, &ring, &tx, false);
                            continue;
                        };
                        g.now += g.bits(11 * tx.len() as u64) + g.bits(11 + rng.below(30));
                        let resp = |da: u8, sa: u8, pdu: &[u8]| {
                            enc(
                                &DataTelegramHeader {
                                    da,
                                    sa,
                                    dsap: ssap,
                                    ssap: dsap,
                                    fc: FunctionCode::Response { state: ResponseState::Slave, status: ResponseStatus::DataLow },
                                },
                                pdu,
                            )
                        };
                        let pdu = rng.bytes_below(5);
                        let other = *rng.pick(&strangers);
                        let bytes = match rng.below(10) {
                            0 | 1 => resp(ts, peer, &pdu),
                            2 | 3 => resp(127, peer, &pdu),
                            4 => resp(126, peer, &pdu),
                            5 => resp(other, peer, &pdu),
                            6 => resp(ts, other, &pdu),
                            7 => vec![0xE5],
                            8 => status_req(ts, peer),
                            _ => token(ts, peer),
                        };
                        g.rx(&bytes);
                        g.now += g.bits(11 * bytes.len() as u64) + 1;
                        g.poll();
                        g.now += g.bits(34);
                        g.poll();
                        break;
                    }
                }
                _ => {
                    // the successor answers the token by passing it on (keeps the ring alive)
                    g.deliver(&token(*rng.pick(&ring), ns));
                }
            }
        }
    }
}

pub fn gen(ops: &mut Vec<String>, seed: u64, thorough: bool) {
    gen_targeted(ops, seed, if thorough { 20_000 } else { 700 });
    let ncases = if thorough { 3000 } else { 160 };
    let rates = [19200u64, 500_000, 1_500_000, 12_000_000, 93_750];
    for case in 0..ncases {
        let mut rng = Rng::new(seed, "station", case);
        let rate = *rng.pick(&rates);
        let min_slot = match rate {
            500_000 => 200,
            1_500_000 => 300,
            12_000_000 => 1000,
            _ => 100,
        };
        let slot = min_slot + rng.below(3) * 50;
        let hsa = *rng.pick(&[126u8, 10, 16, 32, 5, 3]);
        let ts = match rng.below(5) {
            0 => 0,
            1 => hsa - 1,
            _ => rng.below(hsa as u64) as u8,
        };
        let ttr = *rng.pick(&[256u32, 2000, 20_000, 100_000]);
        let gap_wait = *rng.pick(&[1u8, 2, 10]);
        let retry = 1 + rng.below(3) as u8;
        let napps = rng.below(4) as usize;
        let faulty = case % 3 == 2;
        // peers: other active stations simulated by the generator
        let mut peers: Vec<u8> = vec![];
        for _ in 0..rng.below(4) {
            let p = match rng.below(4) {
                0 => (ts + 1) % hsa,
                1 => (ts + hsa - 1) % hsa,
                2 => hsa - 1,
                _ => rng.below(hsa as u64) as u8,
            };
            if p != ts && !peers.contains(&p) {
                peers.push(p);
            }
        }
        let line = format!("st.new {ts} {rate} {slot} {ttr} {gap_wait} {hsa} {retry} {napps}");
        ops.push(line.clone());
        let w: Vec<&str> = line.split(' ').collect();
        let st = Station::new(&w[1..]).unwrap();
        let mut g = Gen { ops, st, now: rng.below(1000) as i64, rate, slot_bits: slot, ts, hsa };
        g.op("st.online".into());
        for i in 0..napps {
            let na = 3 + rng.below(12) as usize;
            let a = random_answers(&mut rng, ts, &peers, na);
            g.op(format!("st.script {i} {}", a.join(" ")));
        }
        // optionally a ring is already running among the peers: let the station listen to rotations
        if !peers.is_empty() && rng.chance(2, 3) {
            let mut ring = peers.clone();
            ring.sort();
            let rounds = 2 + rng.below(3);
            for r in 0..rounds {
                for k in 0..ring.len() {
                    let sa = ring[k];
                    let da = ring[(k + 1) % ring.len()];
                    g.rx(&token(da, sa));
                    g.now += g.bits(33 + rng.below(100));
                    g.poll();
                    if faulty && rng.chance(1, 5) {
                        // a token from/to an address that cannot exist
                        let bad = *rng.pick(&[126u8, 127, 128, 200, 255]);
                        let t = if rng.bool() { token(bad, sa) } else { token(da, bad) };
                        g.rx(&t);
                        g.now += g.bits(33 + 40);
                        g.poll();
                    }
                    // the predecessor polls us for our status now and then
                    if r >= 1 && rng.chance(1, 3) {
                        g.rx(&status_req(ts, sa));
                        g.now += g.bits(11 + rng.below(30));
                        g.poll();
                        g.now += g.bits(34);
                        if let Some(tx) = g.poll() {
                            g.now += g.bits(11 * tx.len() as u64 + 1);
                        }
                    }
                }
            }
            // hand the token to the station (from its predecessor, or from a stranger twice)
            if rng.chance(3, 4) {
                let ps = g.st.fdl.inspect_token_ring().previous_station();
                let from = if rng.chance(3, 4) { ps } else { pick_peer(&mut rng, &peers) };
                g.rx(&token(ts, from));
                g.now += g.bits(33);
                g.poll();
                if rng.bool() {
                    g.rx(&token(ts, from));
                    g.now += g.bits(40);
                    g.poll();
                }
            }
        }
        // main walk
        let steps = if thorough { 400 } else { 250 };
        let slot_t = g.bits(g.slot_bits);
        let tto = g.bits(g.slot_bits * (6 + 2 * ts as u64));
        for _ in 0..steps {
            let dt = match rng.below(14) {
                0 => 1,
                1 => g.bits(11),
                2 => g.bits(33),
                3 => g.bits(33) + 1,
                4 => slot_t - 1,
                5 => slot_t,
                6 => slot_t + 1,
                7 => tto,
                8 => tto + 1,
                9 | 10 => slot_t / 4,
                11 => g.bits(11) / 2 + 1,
                _ => rng.below(slot_t.max(2) as u64) as i64,
            };
            g.now += dt.max(0);
            if faulty {
                match rng.below(40) {
                    0 => {
                        let b = rng.bytes_below(8);
                        g.rx(&b);
                    }
                    1 => {
                        let p = if peers.is_empty() { rng.u8() & 0x7f } else { *rng.pick(&peers) };
                        g.rx(&token(*rng.pick(&[ts, p, 126, 127, 200]), *rng.pick(&[ts, p, 126, 130])));
                    }
                    2 => {
                        g.rx(&status_req(ts, rng.u8() & 0x7f));
                    }
                    3 => {
                        g.rx(&[0xE5]);
                    }
                    4 => {
                        g.op("st.phytx 1".into());
                        g.now += 5;
                        g.poll();
                        g.op("st.phytx 0".into());
                    }
                    5 => {
                        g.op("st.offline".into());
                        g.now += 10;
                        g.poll();
                        if rng.chance(1, 2) {
                            // the application list is changed while offline (shorter, longer, same)
                            let k = rng.below(4) as usize;
                            g.op(format!("st.napps {k}"));
                            for i in 0..k {
                                if rng.bool() {
                                    let a = random_answers(&mut rng, ts, &peers, 4);
                                    g.op(format!("st.script {i} {}", a.join(" ")));
                                }
                            }
                        }
                        g.op("st.online".into());
                    }
                    6 => {
                        g.rx(&token(ts, ts));
                    }
                    _ => {}
                }
            }
            if let Some(tx) = g.poll() {
                react(&mut g, &mut rng, &peers, &tx, faulty);
            }
            if g.st.dead {
                break;
            }
        }
        let _ = g.hsa;
    }
}
