//! Engine `net`: N real `FdlActiveStation`s on the harness bus of DESIGN 5.1, polled on independent
//! jittered schedules, with go-online plans, application load and (for C06) fault plans.
//!
//! ops:
//!   net.new <rate> <slot_bits> <hsa> <n> <addr:ttr:gapwait:retry:napps>...
//!   net.online <i> <now> | net.offline <i> <now>
//!   net.script <i> <app> <answer>...
//!   net.corrupt <from_us> <to_us>     every byte whose reception ends inside the window arrives as 0x00
//!   net.drop <k>                      the k-th transmission from now on (0 = next) is lost completely
//!   net.poll <i> <now>
//! observation of net.poll = the station engine's poll observation, prefixed by the bytes that were
//! delivered to the station's PHY for this poll:  in=<hex> tx=... rx=... calls=[..] st=.. ...
use crate::station::{parse_answer, Station};
use crate::util::*;

#[derive(Clone)]
pub struct Transmission {
    pub start: i64,
    pub sender: usize,
    pub bytes: Vec<u8>,
    pub dropped: bool,
}

pub struct Bus {
    pub rate: u64,
    pub txs: Vec<Transmission>,
    /// per station: everything with arrival time <= seen[i] has been delivered
    pub seen: Vec<i64>,
    pub corrupt: Vec<(i64, i64)>,
    pub drops: Vec<u64>,
    pub tx_count: u64,
}

impl Bus {
    /// End of byte k (0-based) of a transmission, relative to its start: ceil(11 (k+1) 10^6 / rate)
    pub fn byte_end(&self, k: usize) -> i64 {
        let num = 11 * (k as u64 + 1) * 1_000_000;
        ((num + self.rate - 1) / self.rate) as i64
    }
    pub fn tx_end(&self, t: &Transmission) -> i64 {
        t.start + self.byte_end(t.bytes.len() - 1)
    }
    fn collides(&self, ti: usize, k: usize) -> bool {
        let t = &self.txs[ti];
        let b0 = t.start + if k == 0 { 0 } else { self.byte_end(k - 1) };
        let b1 = t.start + self.byte_end(k);
        self.txs.iter().enumerate().any(|(j, o)| j != ti && !o.dropped && o.start < b1 && self.tx_end(o) > b0)
    }
    /// Bytes that become visible to station `i` in the interval (seen[i], now], in arrival order.
    pub fn deliver(&mut self, i: usize, now: i64) -> Vec<u8> {
        let from = self.seen[i];
        let mut items: Vec<(i64, usize, usize, u8)> = vec![];
        for (ti, t) in self.txs.iter().enumerate() {
            if t.sender == i || t.dropped || self.tx_end(t) <= from || t.start >= now {
                continue;
            }
            for k in 0..t.bytes.len() {
                let at = t.start + self.byte_end(k);
                if at > from && at <= now {
                    let mut b = t.bytes[k];
                    if self.collides(ti, k) || self.corrupt.iter().any(|(a, z)| at > *a && at <= *z) {
                        b = 0x00;
                    }
                    items.push((at, ti, k, b));
                }
            }
        }
        items.sort();
        self.seen[i] = now;
        items.into_iter().map(|x| x.3).collect()
    }
    pub fn transmitting(&self, i: usize, now: i64) -> bool {
        self.txs.iter().rev().find(|t| t.sender == i).map(|t| now < self.tx_end(t)).unwrap_or(false)
    }
    pub fn send(&mut self, i: usize, now: i64, bytes: Vec<u8>) {
        let dropped = if let Some(p) = self.drops.iter().position(|d| *d == 0) {
            self.drops.remove(p);
            true
        } else {
            false
        };
        for d in self.drops.iter_mut() {
            *d = d.saturating_sub(1);
        }
        self.tx_count += 1;
        self.txs.push(Transmission { start: now, sender: i, bytes, dropped });
        // keep the list short: transmissions that ended more than 100 ms ago are forgotten (every online
        // station is polled far more often than that; a station coming online flushes its buffer anyway)
        let keep: Vec<Transmission> = self.txs.iter().filter(|t| self.tx_end(t) + 100_000 > now).cloned().collect();
        self.txs = keep;
    }
}

pub struct Net {
    pub bus: Bus,
    pub stations: Vec<Station>,
    pub online: Vec<bool>,
}

impl Net {
    pub fn new(w: &[&str]) -> Option<Net> {
        let rate: u64 = w[0].parse().ok()?;
        let slot = w[1];
        let hsa = w[2];
        let n: usize = w[3].parse().ok()?;
        let mut stations = vec![];
        for k in 0..n {
            let f: Vec<&str> = w[4 + k].split(':').collect();
            // addr rate slot ttr gapwait hsa retry napps
            let args = [f[0], w[0], slot, f[1], f[2], hsa, f[3], f[4]];
            stations.push(Station::new(&args)?);
        }
        Some(Net {
            bus: Bus { rate, txs: vec![], seen: vec![0; n], corrupt: vec![], drops: vec![], tx_count: 0 },
            stations,
            online: vec![false; n],
        })
    }
    pub fn poll(&mut self, i: usize, now: i64) -> (String, Option<Vec<u8>>) {
        let incoming = self.bus.deliver(i, now);
        let st = &mut self.stations[i];
        if self.online[i] {
            st.phy.rx.extend(&incoming);
        }
        st.phy.transmitting = self.bus.transmitting(i, now);
        let (obs, tx) = st.poll(now);
        if let Some(b) = &tx {
            self.bus.send(i, now, b.clone());
        }
        (format!("in={} {}", hex(&incoming), obs), tx)
    }
    pub fn exec(&mut self, w: &[&str]) -> String {
        match w {
            ["net.online", i, now] => {
                let i: usize = i.parse().unwrap();
                let now: i64 = now.parse().unwrap();
                // stale PHY buffers at set_online are excluded (DESIGN 5.3 b): start with an empty buffer
                self.bus.deliver(i, now);
                self.stations[i].phy.rx.clear();
                self.stations[i].fdl.set_online();
                self.online[i] = true;
                "ok".into()
            }
            ["net.offline", i, _now] => {
                let i: usize = i.parse().unwrap();
                self.stations[i].fdl.set_offline();
                self.online[i] = false;
                "ok".into()
            }
            ["net.script", i, app, answers @ ..] => {
                let i: usize = i.parse().unwrap();
                let a: usize = app.parse().unwrap();
                for x in answers.iter() {
                    self.stations[i].apps[a].script.push_back(parse_answer(x).unwrap());
                }
                "ok".into()
            }
            ["net.corrupt", a, z] => {
                self.bus.corrupt.push((a.parse().unwrap(), z.parse().unwrap()));
                "ok".into()
            }
            ["net.drop", k] => {
                self.bus.drops.push(k.parse().unwrap());
                "ok".into()
            }
            ["net.poll", i, now] => self.poll(i.parse().unwrap(), now.parse().unwrap()).0,
            _ => "bad-op".into(),
        }
    }
}

pub struct Exec {
    net: Option<Net>,
}
impl Exec {
    pub fn new() -> Self {
        Exec { net: None }
    }
}
impl crate::Executor for Exec {
    fn exec(&mut self, line: &str) -> String {
        let w: Vec<&str> = line.split(' ').collect();
        if w[0] == "net.new" {
            self.net = Net::new(&w[1..]);
            return if self.net.is_some() { "ok".into() } else { "panic".into() };
        }
        match self.net.as_mut() {
            Some(n) => n.exec(&w),
            None => "dead".into(),
        }
    }
}

fn traffic_answers(rng: &mut Rng, ts: u8, others: &[u8], n: usize, appetite: u64) -> Vec<String> {
    use profirust::fdl::*;
    (0..n)
        .map(|_| {
            if rng.below(10) >= appetite {
                "d".to_string()
            } else {
                let req = if rng.chance(1, 4) {
                    *rng.pick(&crate::codec::ALL_REQ)
                } else {
                    *rng.pick(&[RequestType::SdnLow, RequestType::SrdLow, RequestType::FdlStatus, RequestType::SdnHigh])
                };
                let h = DataTelegramHeader {
                    da: if rng.chance(1, 4) { 90 + rng.below(20) as u8 } else { *rng.pick(others) },
                    sa: ts,
                    dsap: if rng.bool() { Some(rng.u8()) } else { None },
                    ssap: None,
                    fc: FunctionCode::Request { fcb: FrameCountBit::Inactive, req },
                };
                crate::station::show_answer(&crate::station::Answer::Send(h, rng.bytes_below(12)))
            }
        })
        .collect()
}

pub fn gen(ops: &mut Vec<String>, seed: u64, thorough: bool) {
    let ncases = if thorough { 60 } else { 9 };
    for case in 0..ncases {
        let mut rng = Rng::new(seed, "net", case);
        let rate = *rng.pick(&[500_000u64, 1_500_000, 187_500]);
        let slot: u64 = match rate {
            500_000 => 200,
            1_500_000 => 300,
            _ => 100,
        };
        let n = 2 + rng.below(if thorough { 4 } else { 3 }) as usize;
        let hsa: u8 = *rng.pick(&[8u8, 12, 20, 32]);
        // addresses from boundary families
        let mut addrs: Vec<u8> = vec![];
        while addrs.len() < n {
            let a = match rng.below(6) {
                0 => 0,
                1 => hsa - 1,
                2 => addrs.last().map(|x| (x + 1) % hsa).unwrap_or(1),
                3 => addrs.last().map(|x| (x + hsa - 1) % hsa).unwrap_or(2),
                _ => rng.below(hsa as u64) as u8,
            };
            if !addrs.contains(&a) {
                addrs.push(a);
            }
        }
        let faulty = case % 3 == 2;
        let mut specs = vec![];
        let mut napps_v = vec![];
        // consistent bus parameters (what C01/C13 quantify over) in two thirds of the cases: one TTR for the ring
        let ring_ttr = *rng.pick(&[3000u32, 20_000, 100_000]);
        let same_ttr = case % 3 != 0;
        for a in &addrs {
            let napps = rng.below(3);
            napps_v.push(napps as usize);
            let own_ttr = *rng.pick(&[3000u32, 20_000, 100_000]);
            specs.push(format!("{}:{}:{}:{}:{}", a, if same_ttr { ring_ttr } else { own_ttr }, *rng.pick(&[1u8, 2, 5]), 1 + rng.below(2), napps));
        }
        let line = format!("net.new {rate} {slot} {hsa} {n} {}", specs.join(" "));
        ops.push(line.clone());
        let w: Vec<&str> = line.split(' ').collect();
        let mut net = Net::new(&w[1..]).unwrap();
        let mut emit = |net: &mut Net, ops: &mut Vec<String>, l: String| {
            let w: Vec<&str> = l.split(' ').collect();
            let r = net.exec(&w);
            ops.push(l);
            r
        };
        let slot_t = (slot * 1_000_000 / rate) as i64;
        // poll period: two thirds of the cases poll fast (Tsl/10), one third at the limit of C01's quantifier
        // (Tsl/4), where known finding K3 (late start after token receipt) can occur
        let period = if case % 3 == 1 { (slot_t / 4).max(2) } else { (slot_t / 10).max(2) };
        for (i, &k) in napps_v.iter().enumerate() {
            for a in 0..k {
                let others: Vec<u8> = addrs.iter().copied().filter(|x| *x != addrs[i]).collect();
                let appetite = rng.below(11);
                let ans = traffic_answers(&mut rng, addrs[i], &others, 30, appetite);
                emit(&mut net, ops, format!("net.script {i} {a} {}", ans.join(" ")));
            }
        }
        // go-online plan: together / staggered / late joiner
        let plan = rng.below(3);
        let mut online_at: Vec<i64> = (0..n)
            .map(|i| match plan {
                0 => 10 + i as i64,
                1 => 10 + (i as i64) * (40 * slot_t + rng.below(50) as i64),
                _ => {
                    if i == n - 1 {
                        (600 + rng.below(400) as i64) * slot_t
                    } else {
                        10 + i as i64 * 3
                    }
                }
            })
            .collect();
        // excluded (DESIGN 5.3 a): two never-synchronised claim time-outs expiring within ~ one token time
        // of each other; keep the claim instants (online + Tto) at least 3 slot times apart
        loop {
            let mut moved = false;
            for i in 0..n {
                for j in 0..i {
                    let ci = online_at[i] + slot_t * (6 + 2 * addrs[i] as i64);
                    let cj = online_at[j] + slot_t * (6 + 2 * addrs[j] as i64);
                    if (ci - cj).abs() < 3 * slot_t {
                        online_at[i] += 3 * slot_t + 7;
                        moved = true;
                    }
                }
            }
            if !moved {
                break;
            }
        }
        let horizon: i64 = (if thorough { 2600 } else { 1800 }) * slot_t + online_at.iter().max().unwrap();
        let mut next_poll: Vec<i64> = (0..n).map(|i| online_at[i] + 1 + rng.below(period as u64) as i64).collect();
        let mut is_on = vec![false; n];
        let mut fault_budget = if faulty { 6 } else { 0 };
        // fault instants: spread over the first half of the run (also long after the ring has formed)
        let mut fault_times: Vec<i64> = (0..fault_budget).map(|_| (horizon / 16) + rng.below((horizon / 2 - horizon / 16).max(1) as u64) as i64).collect();
        fault_times.sort();
        fault_times.reverse();
        // half of the faulty cases have clean crashes only (no corruption, no drops), some of them for good
        let crash_only = faulty && (case / 3) % 2 == 0;
        let fault_until = horizon / 2;
        loop {
            // next event in global time order
            let (i, t) = next_poll.iter().copied().enumerate().min_by_key(|(i, t)| (*t, *i)).unwrap();
            if t > horizon {
                break;
            }
            if !is_on[i] {
                emit(&mut net, ops, format!("net.online {i} {}", online_at[i]));
                is_on[i] = true;
            }
            if fault_budget > 0 && t < fault_until && fault_times.last().map_or(false, |ft| t >= *ft) {
                fault_budget -= 1;
                fault_times.pop();
                match if crash_only { 2 } else { rng.below(3) } {
                    0 => {
                        emit(&mut net, ops, format!("net.corrupt {} {}", t, t + rng.below(6 * slot_t as u64) as i64));
                    }
                    1 => {
                        emit(&mut net, ops, format!("net.drop {}", rng.below(3)));
                    }
                    _ => {
                        // a station crashes and restarts a little later
                        let v = rng.below(n as u64) as usize;
                        if is_on[v] {
                            emit(&mut net, ops, format!("net.offline {v} {t}"));
                            is_on[v] = false;
                            // it restarts a little later — or, in crash-only cases, sometimes never
                            if crash_only && rng.bool() && is_on.iter().filter(|b| **b).count() >= 1 {
                                online_at[v] = horizon + 1;
                            } else {
                                online_at[v] = t + (5 + rng.below(60) as i64) * slot_t;
                            }
                            next_poll[v] = online_at[v] + 1;
                        }
                    }
                }
                continue;
            }
            emit(&mut net, ops, format!("net.poll {i} {t}"));
            next_poll[i] = t + period / 2 + rng.below((period / 2 + 1) as u64) as i64;
            if next_poll[i] <= t {
                next_poll[i] = t + 1;
            }
        }
    }
}
