//! Engine `prm`: `PrmBuilder::{new, set_prm, set_prm_from_text, as_bytes}` and
//! `UserPrmDataType::write_value_to_slice` of gsd-parser.
//!
//! Line protocol (stateful: `new` starts a case, the builder lives until the next `new`):
//!   new <length> <consts> <refs>     -> ok <hex> | err:range | panic
//!   set <name> <i64>                 -> ok <hex> | err:<kind> <hex> | panic | nobuilder
//!   settext <name> <text>            -> same
//!   write <type> <i64> <hex slice>   -> ok <hex> | err:range <hex> | panic      (stateless)
//! consts = `-` or `off:hex;off:hex…`;  refs = `-` or `;`-separated
//!   `off:name:type:default:constraint:texts`
//! type = u8|u16|u32|s8|s16|s32|bit.B|area.F.L ; constraint = n | m.MIN.MAX | e[.V]* ;
//! texts = `-` (no text reference) | t[,KEY=VAL]* ; names/texts are [A-Za-z0-9_]+ tokens.
use crate::util::*;
use crate::Executor;
use gsd_parser::{
    PrmBuilder, PrmValueConstraint, SetPrmError, UserPrmData, UserPrmDataDefinition, UserPrmDataType,
};
use std::collections::BTreeMap;
use std::sync::Arc;

// ---------------------------------------------------------------------------------------------
// layout description shared by generator and executor
// ---------------------------------------------------------------------------------------------

#[derive(Clone, Copy, PartialEq, Eq, Debug)]
pub enum Ty {
    U8,
    U16,
    U32,
    S8,
    S16,
    S32,
    Bit(u8),
    Area(u8, u8),
}

impl Ty {
    fn show(self) -> String {
        match self {
            Ty::U8 => "u8".into(),
            Ty::U16 => "u16".into(),
            Ty::U32 => "u32".into(),
            Ty::S8 => "s8".into(),
            Ty::S16 => "s16".into(),
            Ty::S32 => "s32".into(),
            Ty::Bit(b) => format!("bit.{b}"),
            Ty::Area(f, l) => format!("area.{f}.{l}"),
        }
    }
    fn parse(s: &str) -> Option<Ty> {
        let p: Vec<&str> = s.split('.').collect();
        Some(match p.as_slice() {
            ["u8"] => Ty::U8,
            ["u16"] => Ty::U16,
            ["u32"] => Ty::U32,
            ["s8"] => Ty::S8,
            ["s16"] => Ty::S16,
            ["s32"] => Ty::S32,
            ["bit", b] => Ty::Bit(b.parse().ok()?),
            ["area", f, l] => Ty::Area(f.parse().ok()?, l.parse().ok()?),
            _ => return None,
        })
    }
    fn real(self) -> UserPrmDataType {
        match self {
            Ty::U8 => UserPrmDataType::Unsigned8,
            Ty::U16 => UserPrmDataType::Unsigned16,
            Ty::U32 => UserPrmDataType::Unsigned32,
            Ty::S8 => UserPrmDataType::Signed8,
            Ty::S16 => UserPrmDataType::Signed16,
            Ty::S32 => UserPrmDataType::Signed32,
            Ty::Bit(b) => UserPrmDataType::Bit(b),
            Ty::Area(f, l) => UserPrmDataType::BitArea(f, l),
        }
    }
    fn size(self) -> usize {
        match self {
            Ty::U16 | Ty::S16 => 2,
            Ty::U32 | Ty::S32 => 4,
            _ => 1,
        }
    }
    /// (min, max) of the values the type can hold (for invalid bit positions: as if valid)
    fn range(self) -> (i64, i64) {
        match self {
            Ty::U8 => (0, 255),
            Ty::U16 => (0, 65535),
            Ty::U32 => (0, 4294967295),
            Ty::S8 => (-128, 127),
            Ty::S16 => (-32768, 32767),
            Ty::S32 => (-2147483648, 2147483647),
            Ty::Bit(_) => (0, 1),
            Ty::Area(f, l) => {
                if l >= f && l - f < 8 {
                    (0, (1i64 << (l - f + 1)) - 1)
                } else {
                    (0, 1)
                }
            }
        }
    }
    /// the boundary values of C20's quantifier
    fn boundaries(self) -> Vec<i64> {
        let (lo, hi) = self.range();
        let mut v = vec![lo - 1, lo, -1, 0, 1, hi, hi + 1, i64::MIN, i64::MAX, hi / 2 + 1];
        if let Ty::S16 = self {
            v.extend([-2, 40000, 65535, 32768]);
        }
        let mut out = vec![];
        for x in v {
            if !out.contains(&x) {
                out.push(x);
            }
        }
        out
    }
    /// the generator's own idea of "value of the data type" (only used to shape the cases)
    fn holds(self, v: i64) -> bool {
        let (lo, hi) = self.range();
        let pos_ok = match self {
            Ty::Bit(b) => b <= 7,
            Ty::Area(f, l) => f <= l && l <= 7,
            _ => true,
        };
        pos_ok && lo <= v && v <= hi
    }
}

#[derive(Clone, Debug)]
pub enum Cons {
    None,
    MinMax(i64, i64),
    Enum(Vec<i64>),
}

#[derive(Clone, Debug)]
pub struct RefD {
    pub off: usize,
    pub name: String,
    pub ty: Ty,
    pub default: i64,
    pub cons: Cons,
    pub texts: Option<Vec<(String, i64)>>,
}

#[derive(Clone, Debug, Default)]
pub struct LayoutD {
    pub length: u8,
    pub consts: Vec<(usize, Vec<u8>)>,
    pub refs: Vec<RefD>,
}

impl LayoutD {
    pub fn show(&self) -> String {
        let consts = if self.consts.is_empty() {
            "-".to_string()
        } else {
            self.consts.iter().map(|(o, d)| format!("{o}:{}", hex(d))).collect::<Vec<_>>().join(";")
        };
        let refs = if self.refs.is_empty() {
            "-".to_string()
        } else {
            self.refs
                .iter()
                .map(|r| {
                    let cons = match &r.cons {
                        Cons::None => "n".to_string(),
                        Cons::MinMax(a, b) => format!("m.{a}.{b}"),
                        Cons::Enum(vs) => {
                            let mut s = "e".to_string();
                            for v in vs {
                                s.push_str(&format!(".{v}"));
                            }
                            s
                        }
                    };
                    let texts = match &r.texts {
                        None => "-".to_string(),
                        Some(m) => {
                            let mut s = "t".to_string();
                            for (k, v) in m {
                                s.push_str(&format!(",{k}={v}"));
                            }
                            s
                        }
                    };
                    format!("{}:{}:{}:{}:{}:{}", r.off, r.name, r.ty.show(), r.default, cons, texts)
                })
                .collect::<Vec<_>>()
                .join(";")
        };
        format!("new {} {} {}", self.length, consts, refs)
    }

    pub fn parse(len: &str, consts: &str, refs: &str) -> Option<LayoutD> {
        let mut l = LayoutD { length: len.parse().ok()?, ..Default::default() };
        if consts != "-" {
            for c in consts.split(';') {
                let (o, d) = c.split_once(':')?;
                l.consts.push((o.parse().ok()?, unhex(d)));
            }
        }
        if refs != "-" {
            for r in refs.split(';') {
                let p: Vec<&str> = r.split(':').collect();
                if p.len() != 6 {
                    return None;
                }
                let cons = {
                    let q: Vec<&str> = p[4].split('.').collect();
                    match q[0] {
                        "n" => Cons::None,
                        "m" => Cons::MinMax(q.get(1)?.parse().ok()?, q.get(2)?.parse().ok()?),
                        "e" => Cons::Enum(q[1..].iter().map(|x| x.parse().ok()).collect::<Option<Vec<i64>>>()?),
                        _ => return None,
                    }
                };
                let texts = if p[5] == "-" {
                    None
                } else {
                    let q: Vec<&str> = p[5].split(',').collect();
                    if q[0] != "t" {
                        return None;
                    }
                    let mut m = vec![];
                    for kv in &q[1..] {
                        let (k, v) = kv.split_once('=')?;
                        m.push((k.to_string(), v.parse().ok()?));
                    }
                    Some(m)
                };
                l.refs.push(RefD {
                    off: p[0].parse().ok()?,
                    name: p[1].to_string(),
                    ty: Ty::parse(p[2])?,
                    default: p[3].parse().ok()?,
                    cons,
                    texts,
                });
            }
        }
        Some(l)
    }

    /// The real description, built from the crate's public structs.
    pub fn real(&self) -> UserPrmData {
        UserPrmData {
            length: self.length,
            data_const: self.consts.clone(),
            data_ref: self
                .refs
                .iter()
                .map(|r| {
                    (
                        r.off,
                        Arc::new(UserPrmDataDefinition {
                            name: r.name.clone(),
                            data_type: r.ty.real(),
                            default_value: r.default,
                            constraint: match &r.cons {
                                Cons::None => PrmValueConstraint::Unconstrained,
                                Cons::MinMax(a, b) => PrmValueConstraint::MinMax(*a, *b),
                                Cons::Enum(v) => PrmValueConstraint::Enum(v.clone()),
                            },
                            text_ref: r.texts.as_ref().map(|m| {
                                let mut b = BTreeMap::new();
                                for (k, v) in m {
                                    // first entry wins (the model's association-list lookup)
                                    b.entry(k.clone()).or_insert(*v);
                                }
                                Arc::new(b)
                            }),
                            changeable: true,
                            visible: true,
                        }),
                    )
                })
                .collect(),
        }
    }
}

// ---------------------------------------------------------------------------------------------
// executor
// ---------------------------------------------------------------------------------------------

pub struct PrmExec {
    // declared before `desc` so it is dropped first; it borrows `*desc`
    builder: Option<PrmBuilder<'static>>,
    desc: *mut UserPrmData,
}

impl PrmExec {
    pub fn new() -> Self {
        PrmExec { builder: None, desc: std::ptr::null_mut() }
    }
    fn clear(&mut self) {
        self.builder = None;
        if !self.desc.is_null() {
            // SAFETY: allocated by Box::into_raw below; the only borrower was dropped above
            unsafe { drop(Box::from_raw(self.desc)) };
            self.desc = std::ptr::null_mut();
        }
    }
}

impl Drop for PrmExec {
    fn drop(&mut self) {
        self.clear();
    }
}

fn err_kind(e: &SetPrmError) -> &'static str {
    match e {
        SetPrmError::PrmNotFound(_) => "notfound",
        SetPrmError::PrmWithoutTexts(_) => "notexts",
        SetPrmError::PrmTextNotFound { .. } => "textnotfound",
        SetPrmError::ValueConstraint(_) => "constraint",
        SetPrmError::ValueRange { .. } => "range",
    }
}

impl Executor for PrmExec {
    fn exec(&mut self, line: &str) -> String {
        let w: Vec<&str> = line.split(' ').collect();
        match w.as_slice() {
            ["new", len, consts, refs] => {
                self.clear();
                let Some(l) = LayoutD::parse(len, consts, refs) else { return "bad-op".into() };
                self.desc = Box::into_raw(Box::new(l.real()));
                // SAFETY: the box lives until `clear`, which drops the builder first
                let d: &'static UserPrmData = unsafe { &*self.desc };
                match guarded(|| PrmBuilder::new(d)) {
                    None => "panic".into(),
                    Some(Err(_)) => "err:range".into(),
                    Some(Ok(b)) => {
                        let s = format!("ok {}", hex(b.as_bytes()));
                        self.builder = Some(b);
                        s
                    }
                }
            }
            ["set", name, v] => {
                let Ok(v) = v.parse::<i64>() else { return "bad-op".into() };
                let Some(b) = self.builder.as_mut() else { return "nobuilder".into() };
                match guarded(|| b.set_prm(name, v).map(|_| ()).map_err(|e| err_kind(&e))) {
                    None => "panic".into(),
                    Some(Ok(())) => format!("ok {}", hex(b.as_bytes())),
                    Some(Err(k)) => format!("err:{k} {}", hex(b.as_bytes())),
                }
            }
            ["settext", name, text] => {
                let Some(b) = self.builder.as_mut() else { return "nobuilder".into() };
                match guarded(|| b.set_prm_from_text(name, text).map(|_| ()).map_err(|e| err_kind(&e))) {
                    None => "panic".into(),
                    Some(Ok(())) => format!("ok {}", hex(b.as_bytes())),
                    Some(Err(k)) => format!("err:{k} {}", hex(b.as_bytes())),
                }
            }
            ["write", ty, v, s] => {
                let (Some(ty), Ok(v)) = (Ty::parse(ty), v.parse::<i64>()) else { return "bad-op".into() };
                let mut s = unhex(s);
                match guarded(|| ty.real().write_value_to_slice(v, &mut s).is_ok()) {
                    None => "panic".into(),
                    Some(true) => format!("ok {}", hex(&s)),
                    Some(false) => format!("err:range {}", hex(&s)),
                }
            }
            _ => "bad-op".into(),
        }
    }
}

// ---------------------------------------------------------------------------------------------
// generator
// ---------------------------------------------------------------------------------------------

const BYTE_TYPES: [Ty; 6] = [Ty::U8, Ty::U16, Ty::U32, Ty::S8, Ty::S16, Ty::S32];
const WORDS: [&str; 8] = ["FALSE", "TRUE", "Value_1", "Value_2", "Value_3", "Value_4", "on", "off"];

fn all_types(max_pos: u8) -> Vec<Ty> {
    let mut v = BYTE_TYPES.to_vec();
    for b in 0..=max_pos {
        v.push(Ty::Bit(b));
    }
    for f in 0..=max_pos {
        for l in 0..=max_pos {
            v.push(Ty::Area(f, l));
        }
    }
    v
}

fn valid_bit_types() -> Vec<Ty> {
    let mut v = vec![];
    for b in 0..8 {
        v.push(Ty::Bit(b));
    }
    for f in 0..8 {
        for l in f..8 {
            v.push(Ty::Area(f, l));
        }
    }
    v
}

fn random_type(rng: &mut Rng) -> Ty {
    match rng.below(10) {
        0..=4 => *rng.pick(&BYTE_TYPES),
        5 | 6 => Ty::Bit(if rng.chance(1, 12) { rng.range(8, 255) as u8 } else { rng.below(8) as u8 }),
        _ => {
            if rng.chance(1, 10) {
                Ty::Area(rng.u8(), rng.u8())
            } else {
                let f = rng.below(8) as u8;
                let l = rng.range(f as u64, 7) as u8;
                Ty::Area(f, l)
            }
        }
    }
}

fn value_for(rng: &mut Rng, r: &RefD) -> i64 {
    let (lo, hi) = r.ty.range();
    match rng.below(10) {
        0..=2 => *rng.pick(&r.ty.boundaries()),
        3 | 4 => match &r.cons {
            Cons::MinMax(a, b) => *rng.pick(&[a.wrapping_sub(1), *a, *b, b.wrapping_add(1), a / 2 + b / 2]),
            Cons::Enum(vs) if !vs.is_empty() => *rng.pick(vs) + if rng.chance(1, 4) { 1 } else { 0 },
            _ => lo + (rng.next() % ((hi - lo + 1) as u64)) as i64,
        },
        5..=8 => lo + (rng.next() % ((hi - lo + 1) as u64)) as i64,
        _ => rng.next() as i64 >> rng.below(64),
    }
}

fn random_layout(rng: &mut Rng) -> LayoutD {
    let mut l = LayoutD { length: rng.u8(), ..Default::default() };
    let span = rng.range(1, 12) as usize;
    for _ in 0..rng.below(4) {
        let off = rng.below(span as u64 + 2) as usize;
        let n = rng.below(7) as usize;
        let data = match rng.below(4) {
            0 => vec![0u8; n],
            1 => vec![0xffu8; n],
            _ => rng.bytes(n),
        };
        l.consts.push((off, data));
    }
    let nrefs = if rng.chance(1, 25) { 0 } else { rng.range(1, 6) };
    for i in 0..nrefs {
        let ty = random_type(rng);
        // offsets inside the constants, at their end and beyond it
        let off = if rng.chance(1, 6) { span + rng.below(4) as usize } else { rng.below(span as u64 + 1) as usize };
        // overlapping bit fields sharing a byte: reuse the previous offset
        let off = if i > 0 && ty.size() == 1 && rng.chance(1, 2) { l.refs[(i - 1) as usize].off } else { off };
        let (lo, hi) = ty.range();
        let cons = match rng.below(5) {
            0 | 1 => Cons::None,
            2 | 3 => {
                let a = lo + (rng.next() % ((hi - lo + 1) as u64)) as i64;
                let b = lo + (rng.next() % ((hi - lo + 1) as u64)) as i64;
                let (a, b) = if rng.chance(9, 10) { (a.min(b), a.max(b)) } else { (a, b) };
                // sometimes wider than the type
                if rng.chance(1, 6) {
                    Cons::MinMax(lo - 3, hi + 3)
                } else {
                    Cons::MinMax(a, b)
                }
            }
            _ => Cons::Enum(
                (0..rng.below(5))
                    .map(|_| if rng.chance(1, 8) { hi + 1 } else { lo + (rng.next() % ((hi - lo + 1) as u64)) as i64 })
                    .collect(),
            ),
        };
        let texts = if rng.chance(2, 5) {
            let n = rng.below(5);
            let mut m: Vec<(String, i64)> = vec![];
            for _ in 0..n {
                let k = rng.pick(&WORDS).to_string();
                if m.iter().any(|(k2, _)| *k2 == k) {
                    continue;
                }
                let v = match rng.below(6) {
                    0 => hi + 1,
                    1 => lo - 1,
                    _ => lo + (rng.next() % ((hi - lo + 1) as u64)) as i64,
                };
                m.push((k, v));
            }
            Some(m)
        } else {
            None
        };
        let default = match rng.below(12) {
            0 => *rng.pick(&ty.boundaries()),
            1 => hi,
            2 => lo,
            _ => lo + (rng.next() % ((hi - lo + 1) as u64)) as i64,
        };
        // duplicate names now and then (get_prm takes the first)
        let name = if i > 0 && rng.chance(1, 10) { l.refs[0].name.clone() } else { format!("p{i}") };
        l.refs.push(RefD { off, name, ty, default, cons, texts });
    }
    l
}

fn random_calls(ops: &mut Vec<String>, rng: &mut Rng, l: &LayoutD, n: u64) {
    for _ in 0..n {
        if l.refs.is_empty() || rng.chance(1, 12) {
            if rng.bool() {
                ops.push(format!("set nosuch {}", rng.below(3)));
            } else {
                ops.push("settext nosuch TRUE".to_string());
            }
            continue;
        }
        let r = rng.pick(&l.refs).clone();
        if rng.chance(1, 3) {
            let text = match &r.texts {
                Some(m) if !m.is_empty() && rng.chance(3, 4) => rng.pick(m).0.clone(),
                _ => rng.pick(&WORDS).to_string(),
            };
            let text = if rng.chance(1, 8) { "InvalidTextAllTheWay".to_string() } else { text };
            ops.push(format!("settext {} {}", r.name, text));
        } else {
            ops.push(format!("set {} {}", r.name, value_for(rng, &r)));
        }
    }
}

/// One field of type `ty` at `off` over the constant bytes `under`; every boundary value.
fn single_field_case(ops: &mut Vec<String>, ty: Ty, off: usize, under: &[u8], default: i64) {
    let l = LayoutD {
        length: under.len() as u8,
        consts: vec![(0, under.to_vec())],
        refs: vec![RefD { off, name: "p".into(), ty, default, cons: Cons::None, texts: None }],
    };
    ops.push(l.show());
    for v in ty.boundaries() {
        ops.push(format!("set p {v}"));
    }
}

pub fn mock_gsd_case(ops: &mut Vec<String>) {
    // tests/data/mock.gsd + tests/regress.rs::regress_prm (names with `_` for the blanks)
    ops.push(
        "new 10 0:0000000000000000000000ff 5:Peripheral_Setting:bit.0:0:m.0.1:t,FALSE=0,TRUE=1;\
5:Peripheral_Setting_2:area.1.2:0:m.0.3:t,Value_1=0,Value_2=1,Value_3=2,Value_4=3"
            .to_string(),
    );
    ops.push("settext Peripheral_Setting TRUE".into());
    ops.push("settext Peripheral_Setting InvalidTextAllTheWay".into());
    ops.push("settext Peripheral_Setting_2 Value_2".into());
    ops.push("settext Peripheral_Setting_2 InvalidTextAllTheWay".into());
    ops.push("set ThisPrmNeverEverExistsEver 0".into());
    // the module of mock.gsd
    ops.push(
        "new 3 0:050000 1:Peripheral_Setting:bit.0:0:m.0.1:t,FALSE=0,TRUE=1;\
1:Peripheral_Setting_2:area.1.2:0:m.0.3:t,Value_1=0,Value_2=1,Value_3=2,Value_4=3"
            .to_string(),
    );
    ops.push("set Peripheral_Setting_2 3".into());
    ops.push("set Peripheral_Setting 1".into());
    ops.push("set Peripheral_Setting 0".into());
}

pub fn gen(ops: &mut Vec<String>, seed: u64, thorough: bool) {
    mock_gsd_case(ops);

    // 1. `write_value_to_slice` directly: every type (incl. invalid bit positions) x boundary
    //    values x slice lengths 0..=5 (too short, exact, longer)
    let patterns: [&[u8]; 6] = [&[], &[0xa5], &[0xff, 0x00], &[0x5a, 0xff, 0x00], &[0xff, 0xff, 0xff, 0xff], &[1, 2, 3, 4, 5]];
    for ty in all_types(if thorough { 9 } else { 8 }) {
        let thin = matches!(ty, Ty::Area(f, l) if !thorough && (f + l) % 3 != 0 && f <= l && l < 8);
        for v in ty.boundaries() {
            for s in patterns {
                if thin && s.len() > 2 {
                    continue;
                }
                ops.push(format!("write {} {} {}", ty.show(), v, hex(s)));
            }
        }
    }

    // 2. bounded-exhaustive single-field layouts over constants 00 / ff / a5.., inside, at the
    //    end of and beyond the constants
    for ty in all_types(if thorough { 9 } else { 8 }) {
        let unders: [&[u8]; 3] = [&[0, 0, 0, 0, 0, 0], &[0xff; 6], &[0xa5, 0x5a, 0x3c, 0xc3, 0x0f, 0xf0]];
        for (k, under) in unders.iter().enumerate() {
            let offs: &[usize] = if thorough { &[0, 1, 5, 6, 9] } else if k == 2 { &[1, 5, 6] } else { &[0, 8] };
            if !thorough && matches!(ty, Ty::Area(f, l) if (f as usize + l as usize + k) % 2 == 1) {
                continue;
            }
            for &off in offs {
                single_field_case(ops, ty, off, under, 0);
            }
        }
        // defaults at the boundaries (accepted / rejected by `new`)
        for d in ty.boundaries() {
            let l = LayoutD {
                length: 4,
                consts: vec![(0, vec![0xff, 0xff, 0xff])],
                refs: vec![RefD { off: 1, name: "p".into(), ty, default: d, cons: Cons::MinMax(0, 0), texts: None }],
            };
            ops.push(l.show());
            ops.push("set p 0".into());
        }
    }

    // 3. two bit fields sharing one byte (all valid pairs in thorough; a third in quick),
    //    constants underneath; set each, then the other, then clear
    let bits = valid_bit_types();
    for (i, a) in bits.iter().enumerate() {
        for (j, b) in bits.iter().enumerate() {
            if !thorough && (i * 7 + j) % 5 != 0 {
                continue;
            }
            let under = [0x00u8, 0xff, 0xa5][(i + j) % 3];
            let l = LayoutD {
                length: 2,
                consts: vec![(0, vec![under, under])],
                refs: vec![
                    RefD { off: 1, name: "a".into(), ty: *a, default: 0, cons: Cons::None, texts: None },
                    RefD { off: 1, name: "b".into(), ty: *b, default: a.range().1.min(b.range().1), cons: Cons::None, texts: None },
                ],
            };
            ops.push(l.show());
            ops.push(format!("set a {}", a.range().1));
            ops.push(format!("set b {}", b.range().1));
            ops.push("set a 0".into());
            ops.push("set b 0".into());
            ops.push(format!("set a {}", a.range().1 + 1));
        }
    }

    // 4. constraints and texts at their boundaries, for every byte type
    for ty in BYTE_TYPES {
        let (lo, hi) = ty.range();
        for (a, b) in [(lo, hi), (lo + 1, hi - 1), (lo - 5, hi + 5), (5, 5), (6, 5), (i64::MIN, i64::MAX)] {
            let l = LayoutD {
                length: 6,
                consts: vec![(0, vec![0x11, 0x22, 0x33, 0x44, 0x55, 0x66])],
                refs: vec![RefD {
                    off: 1,
                    name: "p".into(),
                    ty,
                    default: 5,
                    cons: Cons::MinMax(a, b),
                    texts: Some(vec![("lo".into(), a), ("hi".into(), b), ("below".into(), a.wrapping_sub(1)), ("above".into(), b.wrapping_add(1))]),
                }],
            };
            ops.push(l.show());
            for v in [a.wrapping_sub(1), a, a.wrapping_add(1), b.wrapping_sub(1), b, b.wrapping_add(1), lo - 1, lo, hi, hi + 1] {
                ops.push(format!("set p {v}"));
            }
            for t in ["lo", "hi", "below", "above", "nosuch"] {
                ops.push(format!("settext p {t}"));
            }
        }
        let l = LayoutD {
            length: 6,
            consts: vec![],
            refs: vec![
                RefD { off: 0, name: "e".into(), ty, default: 0, cons: Cons::Enum(vec![lo, 3, hi, hi + 1]), texts: None },
                RefD { off: 2, name: "none".into(), ty, default: 1, cons: Cons::Enum(vec![]), texts: Some(vec![]) },
            ],
        };
        ops.push(l.show());
        for v in [lo, 3, hi, hi + 1, 4, 0, lo - 1] {
            ops.push(format!("set e {v}"));
            ops.push(format!("set none {v}"));
        }
        ops.push("settext e x".into());
        ops.push("settext none x".into());
    }

    // 5. `offset + size` leaving the usize range (the only panics of `new`); never an offset
    //    that would merely be huge (the real code would try to allocate it)
    let m = usize::MAX;
    for (off, ty) in [(m, Ty::U8), (m - 1, Ty::U16), (m, Ty::U16), (m - 3, Ty::S32), (m, Ty::Bit(0)), (m, Ty::Area(1, 2))] {
        let l = LayoutD {
            length: 0,
            consts: vec![(0, vec![1])],
            refs: vec![RefD { off, name: "p".into(), ty, default: 0, cons: Cons::None, texts: None }],
        };
        ops.push(l.show());
        ops.push("set p 0".into());
        // an earlier default outside its type is reported first
        let mut l2 = l.clone();
        l2.refs.insert(0, RefD { off: 0, name: "q".into(), ty: Ty::U8, default: 256, cons: Cons::None, texts: None });
        ops.push(l2.show());
    }
    ops.push(format!("new 0 {m}:01 -"));
    ops.push(format!("new 0 {}:0102 0:p:u8:0:n:-", m - 1));

    // 6. random layouts and call sequences
    let cases = if thorough { 60_000 } else { 2_000 };
    for case in 0..cases {
        let mut r = Rng::new(seed, "prm", 1 + case);
        let l = random_layout(&mut r);
        ops.push(l.show());
        // a rejected `new` leaves no builder: one call to observe that, no more
        let built = l.refs.iter().all(|x| x.ty.holds(x.default));
        let n = if built { r.range(3, if thorough { 24 } else { 16 }) } else { 1 };
        random_calls(ops, &mut r, &l, n);
    }
}
