//! Engine `decoder`: Telegram::deserialize on arbitrary byte strings (C10).
//! ops:  dec <hex> | decx <hex> <ext> (verdict on prefix and on extension) |
//!       sub <framehex> <i> <v> <ext> (verdict on the frame and on frame[i := v] ++ ext)
use crate::codec::{all_fcs, obs_decode};
use crate::util::*;
use profirust::fdl::*;

pub fn exec(line: &str) -> String {
    let w: Vec<&str> = line.split(' ').collect();
    match w.as_slice() {
        ["dec", h] => obs_decode(&unhex(h)),
        ["decx", h, e] => {
            let mut bs = unhex(h);
            let a = obs_decode(&bs);
            bs.extend(unhex(e));
            format!("{} | {}", a, obs_decode(&bs))
        }
        ["sub", h, i, v, e] => {
            let mut bs = unhex(h);
            let a = obs_decode(&bs);
            let i: usize = i.parse().unwrap();
            if i < bs.len() {
                bs[i] = v.parse().unwrap();
            }
            bs.extend(unhex(e));
            format!("{} | {}", a, obs_decode(&bs))
        }
        _ => "bad-op".to_string(),
    }
}

pub fn encode(h: &DataTelegramHeader, pdu: &[u8]) -> Vec<u8> {
    let mut buf = [0xA5u8; 256]; // a dirty transmit buffer (real PHYs reuse theirs)
    let r = TelegramTx::new(&mut buf).send_data_telegram(h.clone(), pdu.len(), |b| b.copy_from_slice(pdu));
    buf[..r.bytes_sent()].to_vec()
}

pub fn random_frame(rng: &mut Rng, fcs: &[FunctionCode]) -> Vec<u8> {
    let dsap = if rng.chance(1, 3) { Some(rng.u8()) } else { None };
    let ssap = if rng.chance(1, 3) { Some(rng.u8()) } else { None };
    let saps = dsap.is_some() as usize + ssap.is_some() as usize;
    let max = 246 - saps;
    let l = match rng.below(6) {
        0 => 0,
        1 => 8 - saps.min(8),
        2 => max,
        3 => rng.below(12) as usize,
        _ => rng.below(max as u64 + 1) as usize,
    };
    let h = DataTelegramHeader {
        da: rng.u8() & 0x7f,
        sa: rng.u8() & 0x7f,
        dsap,
        ssap,
        fc: *rng.pick(fcs),
    };
    encode(&h, &rng.bytes(l))
}

const SDS: [u8; 5] = [0x10, 0x68, 0xA2, 0xDC, 0xE5];

pub fn gen(ops: &mut Vec<String>, seed: u64, thorough: bool) {
    let mut rng = Rng::new(seed, "decoder", 0);
    let fcs = all_fcs();
    // all strings of length <= 2 (quick: all 1-byte, all 2-byte with a start code first, strided otherwise)
    ops.push("dec -".to_string());
    for a in 0..=255u8 {
        ops.push(format!("dec {}", hex(&[a])));
    }
    for a in 0..=255u8 {
        for b in 0..=255u8 {
            if thorough || SDS.contains(&a) || (a as u32 * 7 + b as u32) % 61 == 0 {
                ops.push(format!("dec {}", hex(&[a, b])));
            }
        }
    }
    // length 3 with a start code first
    for a in SDS {
        for b in 0..=255u8 {
            for c in 0..=255u8 {
                if thorough || (b as u32 * 3 + c as u32) % 97 == 0 {
                    ops.push(format!("dec {}", hex(&[a, b, c])));
                }
            }
        }
    }
    // 6-byte strings SD1 DA SA FC x y over boundary values
    let bv = [0u8, 1, 0x7f, 0x80, 0xff, 0x16, 0x10, 0x68, 0x49];
    for da in bv {
        for sa in bv {
            for fc in [0x49u8, 0x00, 0x6c, 0x7d, 0x0f, 0x4b, 0xc9, 0x88] {
                let cs = da.wrapping_add(sa).wrapping_add(fc);
                for x in [cs, cs.wrapping_add(1), 0] {
                    for y in [0x16u8, 0x17, 0] {
                        ops.push(format!("dec {}", hex(&[0x10, da, sa, fc, x, y])));
                    }
                }
            }
        }
    }
    // SD2 headers: all (LE, LEr, 4th byte) boundary combos x structured bodies
    let les = [0u8, 1, 2, 3, 4, 5, 11, 12, 248, 249, 250, 255];
    for le in les {
        for ler in [le, le.wrapping_add(1), 3, 0] {
            for b3 in [0x68u8, 0x69, 0x10, 0x00] {
                for variant in 0..4 {
                    // body of exactly le bytes (if le>=3) with correct or broken checksum/ED, and truncations
                    let n = le.max(3) as usize;
                    let mut body = rng.bytes(n);
                    body[0] &= if variant == 1 { 0xff } else { 0x7f };
                    body[1] &= 0x7f;
                    body[2] = *rng.pick(&[0x49u8, 0x6c, 0x08, 0x5d]);
                    let cs = body.iter().fold(0u8, |a, b| a.wrapping_add(*b));
                    let mut f = vec![0x68, le, ler, b3];
                    f.extend(&body);
                    f.push(if variant == 2 { cs.wrapping_add(1) } else { cs });
                    f.push(if variant == 3 { 0x00 } else { 0x16 });
                    ops.push(format!("dec {}", hex(&f)));
                    let cut = rng.below(f.len() as u64) as usize;
                    ops.push(format!("decx {} {}", hex(&f[..cut]), hex(&f[cut..])));
                }
            }
        }
    }
    // valid frames: every prefix (prefix consistency), single-byte substitutions
    let nframes = if thorough { 4000 } else { 250 };
    for k in 0..nframes {
        let f = if k % 50 == 0 { vec![0xE5] } else { random_frame(&mut rng, &fcs) };
        // prefixes
        let step = if thorough || f.len() < 20 { 1 } else { 1 + f.len() / 12 };
        let mut cut = 0;
        while cut <= f.len() {
            ops.push(format!("decx {} {}", hex(&f[..cut]), hex(&f[cut..])));
            cut += step;
        }
        let ext = rng.bytes_below(3);
        ops.push(format!("decx {} {}", hex(&f), hex(&ext)));
        // substitutions: header/trailer positions always, body positions sampled; values: bit flips,
        // start codes, random
        let mut positions: Vec<usize> = (0..f.len().min(8)).collect();
        for p in f.len().saturating_sub(3)..f.len() {
            positions.push(p);
        }
        for _ in 0..(if thorough { 24 } else { 6 }) {
            positions.push(rng.below(f.len() as u64) as usize);
        }
        for p in positions {
            let mut vals: Vec<u8> = vec![];
            for b in 0..8 {
                vals.push(f[p] ^ (1 << b));
            }
            vals.extend(SDS);
            vals.push(rng.u8());
            vals.push(0x16);
            if thorough && p < 8 {
                vals = (0..=255u8).collect();
            }
            for v in vals {
                if v == f[p] {
                    continue;
                }
                let ext = if rng.chance(1, 4) { random_frame(&mut rng, &fcs) } else { rng.bytes_below(4) };
                ops.push(format!("sub {} {} {} {}", hex(&f), p, v, hex(&ext)));
            }
        }
    }
    // random and mutational strings up to 262 bytes
    let n = if thorough { 100_000 } else { 4_000 };
    for _ in 0..n {
        let mut s = match rng.below(4) {
            0 => rng.bytes_below(263),
            1 => {
                let mut s = vec![*rng.pick(&SDS)];
                s.extend(rng.bytes_below(262));
                s
            }
            _ => {
                let mut f = random_frame(&mut rng, &fcs);
                for _ in 0..rng.below(4) {
                    let p = rng.below(f.len() as u64) as usize;
                    match rng.below(3) {
                        0 => f[p] = rng.u8(),
                        1 => {
                            f.remove(p);
                        }
                        _ => f.insert(p, rng.u8()),
                    }
                    if f.is_empty() {
                        break;
                    }
                }
                f
            }
        };
        if rng.chance(1, 5) {
            s.extend(random_frame(&mut rng, &fcs));
        }
        s.truncate(262);
        let cut = rng.below(s.len() as u64 + 1) as usize;
        ops.push(format!("decx {} {}", hex(&s[..cut]), hex(&s[cut..])));
    }
}
