//! Generators of the `gsd` engine:
//! (a) random station descriptions rendered by a pretty-printer with lexical variation,
//! (b) grammar-aware mutations of those texts and of mock.gsd,
//! (c) random bytes / random GSD-alphabet soup.
use super::dump;
use crate::util::*;
use gsd_parser::*;
use std::collections::BTreeMap;
use std::sync::Arc;

pub const MOCK: &str = include_str!("../data/mock.gsd");

// ---------------------------------------------------------------------------------------------
// generated description (ids of texts / definitions are kept next to the repo's own types)
// ---------------------------------------------------------------------------------------------

#[derive(Clone)]
struct GText {
    id: u16,
    entries: Vec<(i64, String)>, // distinct strings
}

#[derive(Clone)]
struct GDef {
    id: u32,
    text_id: Option<u16>,
    def: UserPrmDataDefinition,
}

#[derive(Clone)]
struct GPrm {
    length: u8,
    consts: Vec<(usize, Vec<u8>)>,
    refs: Vec<(usize, u32)>, // offset, definition id
}

#[derive(Clone)]
struct GModule {
    name: String,
    info: Option<String>,
    config: Vec<u8>,
    reference: Option<u32>,
    prm: GPrm,
}

#[derive(Clone)]
enum GAllowed {
    Range(u16, u16),
    Set(Vec<u16>),
}

#[derive(Clone)]
struct GSlot {
    number: u8,
    name: String,
    default_ref: u16,
    allowed: GAllowed,
}

#[derive(Clone)]
enum GUserPrm {
    None,
    /// User_Prm_Data_Len / User_Prm_Data only
    Legacy { length: u8, datas: Vec<Vec<u8>> },
    /// Ext_User_Prm_Data_* (length stays 0); optionally ignored legacy lines in front
    Ext { prm: GPrm, max_len: Option<u8>, ignored_legacy: Option<(u8, Vec<u8>)> },
}

#[derive(Clone)]
struct GArea {
    first: u16,
    last: u16,
    values: Vec<(u16, String)>, // distinct keys, non-empty
}

#[derive(Clone)]
struct GDesc {
    gsd_revision: u8,
    vendor: String,
    model: String,
    revision: String,
    revision_number: u8,
    ident_number: u16,
    hardware_release: String,
    software_release: String,
    implementation_type: String,
    freeze: bool,
    sync: bool,
    auto_baud: bool,
    set_addr: bool,
    fail_safe: bool,
    max_diag: u8,
    modular: bool,
    max_modules: u8, // value written in the file (effective value is 1 for compact stations)
    max_modules_present: bool,
    max_in: u8,
    max_out: u8,
    max_data: u16,
    speeds: u16,      // bit i+1 set = speed i supported
    tsdr: [u16; 11],
    texts: Vec<GText>,
    defs: Vec<GDef>,
    modules: Vec<GModule>,
    slots: Vec<GSlot>,
    user_prm: GUserPrm,
    bits: Vec<(u32, Option<String>, Option<String>)>, // bit, text, help (at least one Some), distinct bits
    not_bits: Vec<(u32, Option<String>, Option<String>)>,
    areas: Vec<GArea>,
}

const SPEED_KEYS: [&str; 11] = ["9.6", "19.2", "31.25", "45.45", "93.75", "187.5", "500", "1.5M", "3M", "6M", "12M"];
const TSDR_DEFAULT: [u16; 11] = [60, 60, 60, 60, 60, 60, 100, 150, 250, 450, 800];

fn gen_string(rng: &mut Rng) -> String {
    let n = match rng.below(8) {
        0 => 0,
        1 => rng.range(20, 40),
        _ => rng.range(1, 12),
    };
    let plain = rng.chance(2, 3);
    let mut s = String::new();
    for _ in 0..n {
        let c = if plain {
            *rng.pick(&['a', 'b', 'Z', 'q', '0', '7', ' ', '_', '-', '.', 'M', 'x'])
        } else {
            match rng.below(12) {
                0 => *rng.pick(&[';', ',', '=', '(', ')', '#', '\\', '/', '@', '\'', '\t']),
                1 => *rng.pick(&['\n', '\r', '\u{e9}', '\u{fc}', '\u{6f22}', '\u{1f600}', '\u{0}', '\u{7f}']),
                2 => '\\',
                _ => (rng.range(0x20, 0x7e) as u8) as char,
            }
        };
        if c != '"' {
            s.push(c);
        }
    }
    // domain of the printer: no backslash directly in front of a line break (it would be a continuation)
    let mut out = String::new();
    for c in s.chars() {
        if c == '\n' || c == '\r' {
            while out.ends_with('\\') {
                out.pop();
            }
        }
        out.push(c);
    }
    out
}

fn gen_u(rng: &mut Rng, max: u64) -> u64 {
    match rng.below(8) {
        0 => 0,
        1 => max,
        2 => max.saturating_sub(1),
        3 => rng.below(4).min(max),
        _ => rng.range(0, max),
    }
}

fn gen_i64(rng: &mut Rng) -> i64 {
    match rng.below(10) {
        0 => i64::MIN,
        1 => i64::MAX,
        2 => -1,
        3 => 0,
        4 => rng.next() as i64,
        5 => -(rng.below(70000) as i64),
        _ => rng.below(300) as i64,
    }
}

fn gen_bytes(rng: &mut Rng, min: usize, max: usize) -> Vec<u8> {
    let n = rng.range(min as u64, max as u64) as usize;
    (0..n).map(|_| gen_u(rng, 255) as u8).collect()
}

fn distinct_ids(rng: &mut Rng, n: usize, max: u64) -> Vec<u64> {
    let mut v: Vec<u64> = vec![];
    while v.len() < n {
        let x = if rng.chance(3, 4) { rng.range(0, 12.min(max)) } else { gen_u(rng, max) };
        if !v.contains(&x) {
            v.push(x);
        }
    }
    v
}

fn gen_prm(rng: &mut Rng, defs: &[GDef]) -> GPrm {
    let nc = rng.below(3) as usize;
    let nr = if defs.is_empty() { 0 } else { rng.below(4) as usize };
    GPrm {
        length: gen_u(rng, 255) as u8,
        consts: (0..nc).map(|_| { let m = if rng.chance(1, 10) { u32::MAX as u64 } else { 40 }; (gen_u(rng, m) as usize, gen_bytes(rng, 1, 6)) }).collect(),
        refs: (0..nr).map(|_| (gen_u(rng, 40) as usize, rng.pick(defs).id)).collect(),
    }
}

fn gen_desc(rng: &mut Rng) -> GDesc {
    let small = rng.chance(1, 4);
    let nt = if small { rng.below(2) } else { rng.below(4) } as usize;
    let text_ids = distinct_ids(rng, nt, 65535);
    let texts: Vec<GText> = text_ids
        .iter()
        .map(|id| {
            let n = rng.range(1, 4) as usize;
            let mut entries: Vec<(i64, String)> = vec![];
            while entries.len() < n {
                let s = gen_string(rng);
                if !entries.iter().any(|(_, t)| *t == s) {
                    entries.push((gen_i64(rng), s));
                }
            }
            GText { id: *id as u16, entries }
        })
        .collect();
    let nd = if small { rng.below(2) } else { rng.below(5) } as usize;
    let def_ids = distinct_ids(rng, nd, u32::MAX as u64);
    let defs: Vec<GDef> = def_ids
        .iter()
        .map(|id| {
            let ty = match rng.below(8) {
                0 => UserPrmDataType::Unsigned8,
                1 => UserPrmDataType::Unsigned16,
                2 => UserPrmDataType::Unsigned32,
                3 => UserPrmDataType::Signed8,
                4 => UserPrmDataType::Signed16,
                5 => UserPrmDataType::Signed32,
                6 => UserPrmDataType::Bit(gen_u(rng, 255) as u8),
                _ => UserPrmDataType::BitArea(gen_u(rng, 255) as u8, gen_u(rng, 255) as u8),
            };
            let constraint = match rng.below(3) {
                0 => PrmValueConstraint::Unconstrained,
                1 => PrmValueConstraint::MinMax(gen_i64(rng), gen_i64(rng)),
                _ => PrmValueConstraint::Enum((0..rng.range(1, 4)).map(|_| gen_i64(rng)).collect()),
            };
            let text = if !texts.is_empty() && rng.bool() { Some(rng.pick(&texts).clone()) } else { None };
            GDef {
                id: *id as u32,
                text_id: text.as_ref().map(|t| t.id),
                def: UserPrmDataDefinition {
                    name: gen_string(rng),
                    data_type: ty,
                    default_value: gen_i64(rng),
                    constraint,
                    text_ref: text.map(|t| Arc::new(t.entries.iter().map(|(n, s)| (s.clone(), *n)).collect::<BTreeMap<_, _>>())),
                    changeable: rng.chance(3, 4),
                    visible: rng.chance(3, 4),
                },
            }
        })
        .collect();
    let nm = if small { rng.below(2) } else { rng.below(5) } as usize;
    let unique_refs = rng.chance(5, 6);
    let mut modules: Vec<GModule> = vec![];
    for _ in 0..nm {
        let reference = if rng.chance(4, 5) {
            loop {
                let r = if rng.chance(9, 10) { rng.range(0, 9) } else { gen_u(rng, u32::MAX as u64) } as u32;
                if !unique_refs || !modules.iter().any(|m| m.reference == Some(r)) {
                    break Some(r);
                }
            }
        } else {
            None
        };
        modules.push(GModule {
            name: gen_string(rng),
            info: if rng.bool() { Some(gen_string(rng)) } else { None },
            config: gen_bytes(rng, 1, 5),
            reference,
            prm: if rng.bool() { gen_prm(rng, &defs) } else { GPrm { length: 0, consts: vec![], refs: vec![] } },
        });
    }
    // slots need an existing default module whose reference fits u16
    let avail: Vec<u16> = modules.iter().filter_map(|m| m.reference).filter(|r| *r <= 65535).map(|r| r as u16).collect();
    let mut slots = vec![];
    if !avail.is_empty() {
        for _ in 0..rng.below(4) {
            let allowed = if rng.bool() {
                let a = gen_u(rng, 12) as u16;
                let b = if rng.chance(1, 8) { gen_u(rng, 12) as u16 } else { a + rng.below(6) as u16 };
                GAllowed::Range(a, b)
            } else {
                GAllowed::Set((0..rng.range(1, 4)).map(|_| if rng.chance(1, 10) { gen_u(rng, 65535) as u16 } else { gen_u(rng, 10) as u16 }).collect())
            };
            slots.push(GSlot { number: gen_u(rng, 255) as u8, name: gen_string(rng), default_ref: *rng.pick(&avail), allowed });
        }
    }
    let user_prm = match rng.below(4) {
        0 => GUserPrm::None,
        1 => {
            let length = if rng.chance(1, 4) { 0 } else { gen_u(rng, 255) as u8 };
            let datas = (0..rng.below(3))
                .map(|_| {
                    let max = if length == 0 { 8 } else { (length as usize).min(8) };
                    gen_bytes(rng, 1, max.max(1))
                })
                .collect();
            GUserPrm::Legacy { length, datas }
        }
        _ => GUserPrm::Ext {
            prm: gen_prm(rng, &defs),
            max_len: if rng.bool() { Some(gen_u(rng, 255) as u8) } else { None },
            ignored_legacy: if rng.chance(1, 3) { Some((10, gen_bytes(rng, 1, 10))) } else { None },
        },
    };
    let gen_bits = |rng: &mut Rng| -> Vec<(u32, Option<String>, Option<String>)> {
        let n = rng.below(4) as usize;
        distinct_ids(rng, n, u32::MAX as u64)
            .iter()
            .map(|b| {
                let (t, h) = match rng.below(3) {
                    0 => (Some(gen_string(rng)), None),
                    1 => (None, Some(gen_string(rng))),
                    _ => (Some(gen_string(rng)), Some(gen_string(rng))),
                };
                (*b as u32, t, h)
            })
            .collect()
    };
    let bits = gen_bits(rng);
    let not_bits = gen_bits(rng);
    let areas = (0..rng.below(3))
        .map(|_| {
            let n = rng.range(1, 3) as usize;
            GArea {
                first: gen_u(rng, 65535) as u16,
                last: gen_u(rng, 65535) as u16,
                values: distinct_ids(rng, n, 65535).iter().map(|k| (*k as u16, gen_string(rng))).collect(),
            }
        })
        .collect();
    let mut tsdr = TSDR_DEFAULT;
    for t in tsdr.iter_mut() {
        if rng.bool() {
            *t = gen_u(rng, 65535) as u16;
        }
    }
    GDesc {
        gsd_revision: gen_u(rng, 255) as u8,
        vendor: gen_string(rng),
        model: gen_string(rng),
        revision: gen_string(rng),
        revision_number: gen_u(rng, 255) as u8,
        ident_number: gen_u(rng, 65535) as u16,
        hardware_release: gen_string(rng),
        software_release: gen_string(rng),
        implementation_type: gen_string(rng),
        freeze: rng.bool(),
        sync: rng.bool(),
        auto_baud: rng.bool(),
        set_addr: rng.bool(),
        fail_safe: rng.bool(),
        max_diag: gen_u(rng, 255) as u8,
        modular: rng.bool(),
        max_modules: gen_u(rng, 255) as u8,
        max_modules_present: rng.chance(2, 3),
        max_in: gen_u(rng, 255) as u8,
        max_out: gen_u(rng, 255) as u8,
        max_data: gen_u(rng, 65535) as u16,
        speeds: (rng.next() as u16) & 0x0ffe,
        tsdr,
        texts,
        defs,
        modules,
        slots,
        user_prm,
        bits,
        not_bits,
        areas,
    }
}

// ---------------------------------------------------------------------------------------------
// what the file says, as the repo's own type (independent of the parser: built from the G* data)
// ---------------------------------------------------------------------------------------------

fn real_prm(p: &GPrm, defs: &[GDef]) -> UserPrmData {
    UserPrmData {
        length: p.length,
        data_const: p.consts.clone(),
        data_ref: p.refs.iter().map(|(o, id)| (*o, Arc::new(defs.iter().find(|d| d.id == *id).unwrap().def.clone()))).collect(),
    }
}

fn expected(d: &GDesc) -> GenericStationDescription {
    let mut g = GenericStationDescription::default();
    g.gsd_revision = d.gsd_revision;
    g.vendor = d.vendor.clone();
    g.model = d.model.clone();
    g.revision = d.revision.clone();
    g.revision_number = d.revision_number;
    g.ident_number = d.ident_number;
    g.hardware_release = d.hardware_release.clone();
    g.software_release = d.software_release.clone();
    g.implementation_type = d.implementation_type.clone();
    g.freeze_mode_supported = d.freeze;
    g.sync_mode_supported = d.sync;
    g.auto_baud_supported = d.auto_baud;
    g.set_slave_addr_supported = d.set_addr;
    g.fail_safe = d.fail_safe;
    g.max_diag_data_length = d.max_diag;
    g.modular_station = d.modular;
    g.max_modules = if d.modular && d.max_modules_present { d.max_modules } else { 1 };
    g.max_input_length = d.max_in;
    g.max_output_length = d.max_out;
    g.max_data_length = d.max_data;
    g.supported_speeds = SupportedSpeeds::from_bits(d.speeds).unwrap();
    let t = &d.tsdr;
    g.max_tsdr = MaxTsdr {
        b9600: t[0],
        b19200: t[1],
        b31250: t[2],
        b45450: t[3],
        b93750: t[4],
        b187500: t[5],
        b500000: t[6],
        b1500000: t[7],
        b3000000: t[8],
        b6000000: t[9],
        b12000000: t[10],
    };
    for m in &d.modules {
        g.available_modules.push(Arc::new(Module {
            name: m.name.clone(),
            info_text: m.info.clone(),
            config: m.config.clone(),
            reference: m.reference,
            module_prm_data: real_prm(&m.prm, &d.defs),
        }));
    }
    let find = |g: &GenericStationDescription, r: u16| g.available_modules.iter().find(|m| m.reference == Some(u32::from(r))).cloned();
    for s in &d.slots {
        let refs: Vec<u16> = match &s.allowed {
            GAllowed::Range(a, b) => (*a..=*b).collect(),
            GAllowed::Set(v) => v.clone(),
        };
        let slot = Slot {
            name: s.name.clone(),
            number: s.number,
            default: find(&g, s.default_ref).unwrap(),
            allowed_modules: refs.iter().filter_map(|r| find(&g, *r)).collect(),
        };
        g.slots.push(slot);
    }
    g.user_prm_data = match &d.user_prm {
        GUserPrm::None => UserPrmData::default(),
        GUserPrm::Legacy { length, datas } => UserPrmData { length: *length, data_const: datas.iter().map(|v| (0usize, v.clone())).collect(), data_ref: vec![] },
        GUserPrm::Ext { prm, .. } => {
            let mut p = real_prm(prm, &d.defs);
            p.length = 0;
            p
        }
    };
    let bits = |v: &Vec<(u32, Option<String>, Option<String>)>| -> BTreeMap<u32, UnitDiagBitInfo> {
        v.iter().map(|(b, t, h)| (*b, UnitDiagBitInfo { text: t.clone().unwrap_or_default(), help: h.clone() })).collect()
    };
    g.unit_diag.bits = bits(&d.bits);
    g.unit_diag.not_bits = bits(&d.not_bits);
    for a in &d.areas {
        g.unit_diag.areas.push(UnitDiagArea { first: a.first, last: a.last, values: a.values.iter().cloned().collect() });
    }
    g
}

// ---------------------------------------------------------------------------------------------
// pretty-printer with lexical variation
// ---------------------------------------------------------------------------------------------

struct Pr<'a> {
    rng: &'a mut Rng,
    out: String,
    crlf: u8,   // 0 = LF, 1 = CRLF, 2 = mixed, 3 = CR only
    noise: u64, // 0 = plain, higher = more variation
}

impl<'a> Pr<'a> {
    fn nl(&mut self) {
        let s = match self.crlf {
            0 => "\n",
            1 => "\r\n",
            3 => "\r",
            _ => *self.rng.pick(&["\n", "\r\n"]),
        };
        self.out.push_str(s);
    }
    fn noisy(&mut self, one_in: u64) -> bool {
        self.noise > 0 && self.rng.below(one_in * 4 / self.noise.min(4)) == 0
    }
    /// optional white space (possibly a line continuation)
    fn ws(&mut self) {
        if self.noisy(3) {
            match self.rng.below(6) {
                0 => self.out.push('\t'),
                1 => self.out.push_str("  "),
                2 => {
                    self.out.push('\\');
                    self.nl();
                    if self.rng.bool() {
                        self.out.push('\t');
                    }
                }
                _ => self.out.push(' '),
            }
        }
    }
    /// mandatory white space
    fn ws1(&mut self) {
        self.out.push(*self.rng.pick(&[' ', '\t']));
        self.ws();
    }
    /// keyword with random letter case
    fn kw(&mut self, s: &str) {
        let mode = if self.noise == 0 { 0 } else { self.rng.below(5) };
        for c in s.chars() {
            let c = match mode {
                1 => c.to_ascii_uppercase(),
                2 => c.to_ascii_lowercase(),
                3 => {
                    if self.rng.bool() {
                        c.to_ascii_uppercase()
                    } else {
                        c.to_ascii_lowercase()
                    }
                }
                _ => c,
            };
            self.out.push(c);
        }
    }
    fn lit(&mut self, s: &str) {
        self.out.push_str(s);
    }
    fn unum(&mut self, v: u64) {
        let style = if self.noise == 0 { self.rng.below(2) * 3 } else { self.rng.below(6) };
        match style {
            0 => self.out.push_str(&format!("0x{v:x}")),
            1 => self.out.push_str(&format!("0x{v:X}")),
            2 => self.out.push_str(&format!("0x{v:04x}")),
            4 => self.out.push_str(&format!("{v:03}")),
            _ => self.out.push_str(&v.to_string()),
        }
    }
    fn inum(&mut self, v: i64) {
        if v >= 0 && self.rng.bool() {
            self.unum(v as u64)
        } else if v < 0 && self.noise > 0 && self.rng.chance(1, 4) {
            // leading zeros after the sign
            self.out.push_str(&format!("-00{}", (v as i128).unsigned_abs()));
        } else {
            self.out.push_str(&v.to_string())
        }
    }
    fn string(&mut self, s: &str) {
        self.out.push('"');
        for c in s.chars() {
            if self.noisy(12) {
                self.out.push('\\');
                self.out.push_str(if self.crlf == 0 || self.crlf == 2 && self.rng.bool() { "\n" } else { "\r\n" });
            }
            self.out.push(c);
        }
        if self.noisy(12) {
            self.out.push_str("\\\n");
        }
        self.out.push('"');
    }
    fn comment(&mut self) {
        self.out.push(';');
        let n = self.rng.below(20);
        for _ in 0..n {
            let c = match self.rng.below(10) {
                0 => *self.rng.pick(&['"', ';', '\\', '#', '=', '\u{e9}', '\t']),
                _ => (self.rng.range(0x20, 0x7e) as u8) as char,
            };
            self.out.push(c);
        }
        // a trailing backslash would not matter inside a comment: comments run to the line end
    }
    /// end of a line: optional blanks, optional comment, line break, optional blank/comment lines
    fn eol(&mut self) {
        if self.noisy(4) {
            self.out.push_str(*self.rng.pick(&[" ", "\t", "  "]));
        }
        if self.noisy(5) {
            self.comment();
        }
        self.nl();
        while self.noisy(5) {
            match self.rng.below(3) {
                0 => {}
                1 => self.out.push_str(*self.rng.pick(&[" ", "\t \t"])),
                _ => self.comment(),
            }
            self.nl();
        }
    }
    fn ulist(&mut self, v: &[u8]) {
        for (i, b) in v.iter().enumerate() {
            if i > 0 {
                self.ws();
                self.lit(",");
                self.ws();
            }
            self.unum(*b as u64);
        }
    }
    // key [ "(" idx ")" ] "=" — caller prints the value and eol
    fn key(&mut self, k: &str, idx: Option<u64>) {
        self.kw(k);
        self.ws();
        if let Some(i) = idx {
            self.lit("(");
            self.ws();
            self.unum(i);
            self.ws();
            self.lit(")");
            self.ws();
        }
        self.lit("=");
        self.ws();
    }
    fn set_num(&mut self, k: &str, v: u64) {
        self.key(k, None);
        self.unum(v);
        self.eol();
    }
    fn set_str(&mut self, k: &str, v: &str) {
        self.key(k, None);
        self.string(v);
        self.eol();
    }
    fn set_bool(&mut self, k: &str, v: bool) {
        let n = if !v {
            0
        } else if self.noise > 0 && self.rng.chance(1, 5) {
            self.rng.range(2, u32::MAX as u64)
        } else {
            1
        };
        self.set_num(k, n);
    }
}

fn pr_prm_lines(p: &mut Pr, prm: &GPrm) {
    // consts and refs may interleave freely; each keeps its own order
    let (mut i, mut j) = (0, 0);
    while i < prm.consts.len() || j < prm.refs.len() {
        let take_const = j >= prm.refs.len() || (i < prm.consts.len() && p.rng.bool());
        if take_const {
            let (o, v) = &prm.consts[i];
            p.key("Ext_User_Prm_Data_Const", Some(*o as u64));
            p.ulist(v);
            p.eol();
            i += 1;
        } else {
            let (o, id) = &prm.refs[j];
            p.key("Ext_User_Prm_Data_Ref", Some(*o as u64));
            p.unum(*id as u64);
            p.eol();
            j += 1;
        }
    }
}

fn pr_noise_setting(p: &mut Pr) {
    let k = *p.rng.pick(&["OrderNumber", "Protocol_Ident", "Station_Type", "24V_Pins", "Min_Slave_Intervall", "Bitmap_Device", "Family_Name", "Slave_Family", "X.y_9", "Redundancy", "Repeater_Ctrl_Sig"]);
    p.key(k, None);
    match p.rng.below(4) {
        0 => {
            let s = gen_string(p.rng);
            p.string(&s)
        }
        1 => {
            let v = gen_bytes(p.rng, 2, 4);
            p.ulist(&v)
        }
        2 => {
            p.unum(3);
            p.lit("@Machine Vision;0 = General")
        }
        _ => {
            let n = p.rng.below(1000);
            p.unum(n)
        }
    }
    p.eol();
}

fn pr_noise_block(p: &mut Pr) {
    let (a, b) = *p.rng.pick(&[
        ("UnitDiagType", "EndUnitDiagType"),
        ("Physical_Interface", "End_Physical_Interface"),
        ("Jokerblock_Type", "End_Jokerblock_Type"),
        ("Version_Firmware_Download", "End_Version_Firmware_Download"),
    ]);
    p.kw(a);
    if a != "Version_Firmware_Download" {
        p.ws();
        p.lit("=");
        p.ws();
        p.unum(1);
    }
    p.eol();
    for _ in 0..p.rng.below(3) {
        let l = *p.rng.pick(&["X_Unit_Diag_Bit(24) = \"foo\"", "Transmission_Delay_9.6 = 0", "Slot_Number = 1", "), ( \"", "@@ 0x"]);
        p.lit(l);
        p.eol();
    }
    p.kw(b);
    p.eol();
}

/// Renders `d`; every statement is a closure so that independent statements can be shuffled.
fn render(d: &GDesc, rng: &mut Rng, noise: u64) -> String {
    let crlf = if noise == 0 { 0 } else { [0, 0, 1, 1, 2, 3][rng.below(6) as usize] };
    // CR-only files: strings must not be split with "\\\r" (not a continuation the parser removes)
    let mut p = Pr { rng, out: String::new(), crlf, noise };
    // text in front of the marker
    if p.noise > 0 {
        for _ in 0..p.rng.below(4) {
            match p.rng.below(5) {
                0 => p.comment(),
                1 => p.lit("GSD_Revision=1"),
                2 => p.lit("x #Profibus_DP"),
                3 => p.lit("#Profibus_DPx \"\\"),
                _ => {}
            }
            p.nl();
        }
    }
    p.lit("#");
    p.kw("Profibus_DP");
    p.nl();
    while p.noisy(4) {
        if p.rng.bool() {
            p.comment();
        }
        p.nl();
    }

    // scalar statements in random order, structural ones in dependency order; both are merged
    type Stmt<'b> = Box<dyn Fn(&mut Pr) + 'b>;
    let mut scalars: Vec<Stmt> = vec![];
    let optional = |p_default: bool, rng: &mut Rng| -> bool { !(p_default && rng.bool()) };
    macro_rules! num {
        ($k:expr, $v:expr, $def:expr) => {
            let v = $v as u64;
            if optional(v == $def, p.rng) {
                scalars.push(Box::new(move |p: &mut Pr| p.set_num($k, v)));
            }
        };
    }
    macro_rules! st {
        ($k:expr, $v:expr) => {
            let v = $v.clone();
            if optional(v.is_empty(), p.rng) {
                scalars.push(Box::new(move |p: &mut Pr| p.set_str($k, &v)));
            }
        };
    }
    macro_rules! bo {
        ($k:expr, $v:expr) => {
            let v = $v;
            if optional(!v, p.rng) {
                scalars.push(Box::new(move |p: &mut Pr| p.set_bool($k, v)));
            }
        };
    }
    num!("GSD_Revision", d.gsd_revision, 0);
    st!("Vendor_Name", d.vendor);
    st!("Model_Name", d.model);
    st!("Revision", d.revision);
    num!("Revision_Number", d.revision_number, 0);
    num!("Ident_Number", d.ident_number, 0);
    st!("Hardware_Release", d.hardware_release);
    st!("Software_Release", d.software_release);
    st!("Implementation_Type", d.implementation_type);
    bo!("Freeze_Mode_supp", d.freeze);
    bo!("Sync_Mode_supp", d.sync);
    bo!("Auto_Baud_supp", d.auto_baud);
    bo!("Set_Slave_Add_supp", d.set_addr);
    bo!("Fail_Safe", d.fail_safe);
    num!("Max_Diag_Data_Len", d.max_diag, 0);
    bo!("Modular_Station", d.modular);
    if d.max_modules_present {
        let v = d.max_modules as u64;
        scalars.push(Box::new(move |p: &mut Pr| p.set_num("Max_Module", v)));
    }
    num!("Max_Input_Len", d.max_in, 0);
    num!("Max_Output_Len", d.max_out, 0);
    num!("Max_Data_Len", d.max_data, 0);
    for i in 0..11 {
        let on = d.speeds & (1 << (i + 1)) != 0;
        if optional(!on, p.rng) {
            let k = format!("{}_supp", SPEED_KEYS[i]);
            scalars.push(Box::new(move |p: &mut Pr| p.set_bool(&k, on)));
        }
        let t = d.tsdr[i] as u64;
        if optional(d.tsdr[i] == TSDR_DEFAULT[i], p.rng) {
            let k = format!("MaxTsdr_{}", SPEED_KEYS[i]);
            scalars.push(Box::new(move |p: &mut Pr| p.set_num(&k, t)));
        }
    }
    if p.noise > 0 {
        for _ in 0..p.rng.below(4) {
            scalars.push(Box::new(|p: &mut Pr| pr_noise_setting(p)));
        }
        for _ in 0..p.rng.below(2) {
            scalars.push(Box::new(|p: &mut Pr| pr_noise_block(p)));
        }
        // shuffle
        for i in (1..scalars.len()).rev() {
            let j = p.rng.below(i as u64 + 1) as usize;
            scalars.swap(i, j);
        }
    }

    let mut structural: Vec<Stmt> = vec![];
    for t in &d.texts {
        structural.push(Box::new(move |p: &mut Pr| {
            p.kw("PrmText");
            p.ws();
            p.lit("=");
            p.ws();
            p.unum(t.id as u64);
            p.eol();
            for (n, s) in &t.entries {
                p.kw("Text");
                p.ws();
                p.lit("(");
                p.ws();
                p.inum(*n);
                p.ws();
                p.lit(")");
                p.ws();
                p.lit("=");
                p.ws();
                p.string(s);
                p.eol();
            }
            p.kw("EndPrmText");
            p.eol();
        }));
    }
    for gd in &d.defs {
        structural.push(Box::new(move |p: &mut Pr| {
            let f = &gd.def;
            p.kw("ExtUserPrmData");
            p.ws();
            p.lit("=");
            p.ws();
            p.unum(gd.id as u64);
            p.ws();
            p.string(&f.name);
            p.eol();
            match f.data_type {
                UserPrmDataType::Unsigned8 => p.kw("Unsigned8"),
                UserPrmDataType::Unsigned16 => p.kw("Unsigned16"),
                UserPrmDataType::Unsigned32 => p.kw("Unsigned32"),
                UserPrmDataType::Signed8 => p.kw("Signed8"),
                UserPrmDataType::Signed16 => p.kw("Signed16"),
                UserPrmDataType::Signed32 => p.kw("Signed32"),
                UserPrmDataType::Bit(b) => {
                    p.kw("Bit");
                    p.ws();
                    p.lit("(");
                    p.ws();
                    p.unum(b as u64);
                    p.ws();
                    p.lit(")");
                }
                UserPrmDataType::BitArea(a, b) => {
                    p.kw("BitArea");
                    p.ws();
                    p.lit("(");
                    p.ws();
                    p.unum(a as u64);
                    p.ws();
                    p.lit("-");
                    p.ws();
                    p.unum(b as u64);
                    p.ws();
                    p.lit(")");
                }
            }
            p.ws1();
            p.inum(f.default_value);
            match &f.constraint {
                PrmValueConstraint::Unconstrained => {}
                PrmValueConstraint::MinMax(a, b) => {
                    p.ws1();
                    p.inum(*a);
                    p.ws();
                    p.lit("-");
                    p.ws();
                    p.inum(*b);
                }
                PrmValueConstraint::Enum(v) => {
                    p.ws1();
                    for (i, x) in v.iter().enumerate() {
                        if i > 0 {
                            p.ws();
                            p.lit(",");
                            p.ws();
                        }
                        p.inum(*x);
                    }
                }
            }
            p.eol();
            if let Some(t) = gd.text_id {
                p.kw("Prm_Text_Ref");
                p.ws();
                p.lit("=");
                p.ws();
                p.unum(t as u64);
                p.eol();
            }
            if !f.changeable || p.rng.chance(1, 4) {
                p.kw("Changeable");
                p.ws();
                p.lit("=");
                p.ws();
                p.unum(f.changeable as u64);
                p.eol();
            }
            if !f.visible || p.rng.chance(1, 4) {
                p.kw("Visible");
                p.ws();
                p.lit("=");
                p.ws();
                p.unum(f.visible as u64);
                p.eol();
            }
            p.kw("EndExtUserPrmData");
            p.eol();
        }));
    }
    match &d.user_prm {
        GUserPrm::None => {}
        GUserPrm::Legacy { length, datas } => {
            structural.push(Box::new(move |p: &mut Pr| {
                if *length != 0 || p.rng.bool() {
                    p.set_num("User_Prm_Data_Len", *length as u64);
                }
                for v in datas {
                    p.key("User_Prm_Data", None);
                    p.ulist(v);
                    p.eol();
                }
            }));
        }
        GUserPrm::Ext { prm, max_len, ignored_legacy } => {
            structural.push(Box::new(move |p: &mut Pr| {
                if let Some((l, v)) = ignored_legacy {
                    p.set_num("User_Prm_Data_Len", *l as u64);
                    p.key("User_Prm_Data", None);
                    p.ulist(v);
                    p.eol();
                }
                let force = prm.consts.is_empty() && prm.refs.is_empty() && ignored_legacy.is_some();
                if let Some(m) = max_len {
                    p.set_num("Max_User_Prm_Data_Len", *m as u64);
                } else if force {
                    p.set_num("Max_User_Prm_Data_Len", 0);
                }
                pr_prm_lines(p, prm);
            }));
        }
    }
    for m in &d.modules {
        structural.push(Box::new(move |p: &mut Pr| {
            p.kw("Module");
            p.ws();
            p.lit("=");
            p.ws();
            p.string(&m.name);
            p.ws();
            p.ulist(&m.config);
            p.eol();
            // settings may stand in front of and behind the reference line
            let info_first = p.rng.bool();
            let pr_info = |p: &mut Pr| {
                if let Some(i) = &m.info {
                    p.set_str("Info_Text", i);
                }
            };
            let pr_len = |p: &mut Pr| {
                if m.prm.length != 0 || p.rng.bool() {
                    p.set_num("Ext_Module_Prm_Data_Len", m.prm.length as u64);
                }
            };
            if info_first {
                pr_info(p);
            }
            if p.noise > 0 && p.rng.chance(1, 4) {
                pr_noise_setting(p);
            }
            let len_first = p.rng.bool();
            if len_first {
                pr_len(p);
            }
            if let Some(r) = m.reference {
                p.unum(r as u64);
                p.eol();
            }
            if !info_first {
                pr_info(p);
            }
            if !len_first {
                pr_len(p);
            }
            let prm_before_area = p.rng.bool();
            if prm_before_area {
                pr_prm_lines(p, &m.prm);
            }
            if p.noise > 0 && p.rng.chance(1, 4) {
                p.kw("Data_Area_Beg");
                p.eol();
                p.set_num("Related_CFG_Identifier", 0x11);
                p.set_num("Area_Name", 3);
                p.kw("Data_Area_End");
                p.eol();
            }
            if !prm_before_area {
                pr_prm_lines(p, &m.prm);
            }
            p.kw("EndModule");
            p.eol();
        }));
    }
    if !d.slots.is_empty() {
        // one or two SlotDefinition blocks
        let split = if d.slots.len() > 1 && rng_bool(p.rng) { d.slots.len() / 2 } else { d.slots.len() };
        for part in [&d.slots[..split], &d.slots[split..]] {
            if part.is_empty() {
                continue;
            }
            structural.push(Box::new(move |p: &mut Pr| {
                p.kw("SlotDefinition");
                p.eol();
                for s in part {
                    p.kw("Slot");
                    p.ws();
                    p.lit("(");
                    p.ws();
                    p.unum(s.number as u64);
                    p.ws();
                    p.lit(")");
                    p.ws();
                    p.lit("=");
                    p.ws();
                    p.string(&s.name);
                    p.ws();
                    p.unum(s.default_ref as u64);
                    p.ws1();
                    match &s.allowed {
                        GAllowed::Range(a, b) => {
                            p.unum(*a as u64);
                            p.ws();
                            p.lit("-");
                            p.ws();
                            p.unum(*b as u64);
                        }
                        GAllowed::Set(v) => {
                            for (i, x) in v.iter().enumerate() {
                                if i > 0 {
                                    p.ws();
                                    p.lit(",");
                                    p.ws();
                                }
                                p.unum(*x as u64);
                            }
                        }
                    }
                    p.eol();
                }
                p.kw("EndSlotDefinition");
                p.eol();
            }));
        }
    }
    for (key, help_key, list) in [("Unit_Diag_Bit", "Unit_Diag_Bit_Help", &d.bits), ("Unit_Diag_Not_Bit", "Unit_Diag_Not_Bit_Help", &d.not_bits)] {
        for (b, t, h) in list {
            structural.push(Box::new(move |p: &mut Pr| {
                let help_first = p.rng.bool();
                for k in 0..2 {
                    if (k == 0) == help_first {
                        if let Some(h) = h {
                            p.key(help_key, Some(*b as u64));
                            p.string(h);
                            p.eol();
                        }
                    } else if let Some(t) = t {
                        p.key(key, Some(*b as u64));
                        p.string(t);
                        p.eol();
                    }
                }
            }));
        }
    }
    for a in &d.areas {
        structural.push(Box::new(move |p: &mut Pr| {
            p.kw("Unit_Diag_Area");
            p.ws();
            p.lit("=");
            p.ws();
            p.unum(a.first as u64);
            p.ws();
            p.lit("-");
            p.ws();
            p.unum(a.last as u64);
            p.eol();
            for (k, v) in &a.values {
                p.kw("Value");
                p.ws();
                p.lit("(");
                p.ws();
                p.unum(*k as u64);
                p.ws();
                p.lit(")");
                p.ws();
                p.lit("=");
                p.ws();
                p.string(v);
                p.eol();
            }
            p.kw("Unit_Diag_Area_End");
            p.eol();
        }));
    }

    // merge the two sequences
    let (mut i, mut j) = (0, 0);
    let total = scalars.len() + structural.len();
    if total == 0 {
        p.set_num("Station_Type", 0);
    }
    while i < scalars.len() || j < structural.len() {
        let take_scalar = j >= structural.len() || (i < scalars.len() && (p.noise == 0 || p.rng.chance(scalars.len() as u64, total as u64)));
        if take_scalar {
            scalars[i](&mut p);
            i += 1;
        } else {
            structural[j](&mut p);
            j += 1;
        }
    }
    let mut text = std::mem::take(&mut p.out);
    // the last line break is optional
    if noise > 0 && rng_bool(p.rng) {
        while text.ends_with('\n') || text.ends_with('\r') {
            text.pop();
        }
    }
    text
}

fn rng_bool(r: &mut Rng) -> bool {
    r.bool()
}

// ---------------------------------------------------------------------------------------------
// (b) grammar-aware mutation
// ---------------------------------------------------------------------------------------------

#[derive(Clone, Copy, PartialEq)]
enum Tok {
    Num,
    Str,
    Ident,
    Punct,
}

/// Loose tokenisation (byte offsets): numbers, string literals, identifiers, punctuation.
fn tokens(t: &str) -> Vec<(Tok, usize, usize)> {
    let b = t.as_bytes();
    let mut v = vec![];
    let mut i = 0;
    while i < b.len() {
        let c = b[i];
        if c == b'"' {
            let mut j = i + 1;
            while j < b.len() && b[j] != b'"' {
                j += 1;
            }
            let e = (j + 1).min(b.len());
            v.push((Tok::Str, i, e));
            i = e;
        } else if c == b';' {
            while i < b.len() && b[i] != b'\n' && b[i] != b'\r' {
                i += 1;
            }
        } else if c.is_ascii_digit() {
            let mut j = i;
            while j < b.len() && (b[j].is_ascii_alphanumeric() || b[j] == b'.' || b[j] == b'_') {
                j += 1;
            }
            let is_num = b[i..j].iter().all(|x| x.is_ascii_hexdigit() || *x == b'x' || *x == b'.');
            v.push((if is_num { Tok::Num } else { Tok::Ident }, i, j));
            i = j;
        } else if c.is_ascii_alphabetic() || c == b'_' {
            let mut j = i;
            while j < b.len() && (b[j].is_ascii_alphanumeric() || b[j] == b'.' || b[j] == b'_') {
                j += 1;
            }
            v.push((Tok::Ident, i, j));
            i = j;
        } else if matches!(c, b'(' | b')' | b'=' | b',' | b'-' | b'@' | b'#' | b'\\') {
            v.push((Tok::Punct, i, i + 1));
            i += 1;
        } else {
            i += 1;
        }
    }
    v
}

const EXTREME_NUMS: [&str; 22] = [
    "0", "1", "255", "256", "65535", "65536", "4294967295", "4294967296", "9223372036854775807", "9223372036854775808", "-9223372036854775808",
    "-9223372036854775809", "-1", "-0", "1.5", "0x", "0xFFFFFFFF", "0x100000000", "0x7FFFFFFFFFFFFFFF", "0x8000000000000000", "99999999999999999999999999", "007",
];
const TYPE_NAMES: [&str; 12] = ["Unsigned8", "Unsigned16", "Unsigned32", "Signed8", "Signed16", "Signed32", "Foo8", "Bit", "BitArea", "Unsigned64", "Float32", "unsigned8"];
const INDEXED_KEYS: [&str; 6] = ["Ext_User_Prm_Data_Ref", "Ext_User_Prm_Data_Const", "Unit_Diag_Bit", "Unit_Diag_Bit_Help", "Unit_Diag_Not_Bit", "Unit_Diag_Not_Bit_Help"];
const KEYWORDS: [&str; 40] = [
    "PrmText", "EndPrmText", "Text", "ExtUserPrmData", "EndExtUserPrmData", "Prm_Text_Ref", "Changeable", "Visible", "Module", "EndModule", "SlotDefinition",
    "EndSlotDefinition", "Slot", "Unit_Diag_Area", "Unit_Diag_Area_End", "Value", "Data_Area_Beg", "Data_Area_End", "UnitDiagType", "EndUnitDiagType",
    "GSD_Revision", "Vendor_Name", "Ident_Number", "Max_Module", "Modular_Station", "User_Prm_Data", "User_Prm_Data_Len", "Max_User_Prm_Data_Len",
    "Ext_Module_Prm_Data_Len", "Info_Text", "MaxTsdr_9.6", "9.6_supp", "12M_supp", "MaxTsdr_12M", "Fail_Safe", "Revision", "Ext_User_Prm_Data_Ref",
    "Ext_User_Prm_Data_Const", "Unit_Diag_Bit", "Unit_Diag_Not_Bit_Help",
];

fn splice(t: &str, a: usize, b: usize, with: &str) -> String {
    if a > b || b > t.len() || !t.is_char_boundary(a) || !t.is_char_boundary(b) {
        return t.to_string();
    }
    let mut s = String::with_capacity(t.len() + with.len());
    s.push_str(&t[..a]);
    s.push_str(with);
    s.push_str(&t[b..]);
    s
}

fn lines_of(t: &str) -> Vec<(usize, usize)> {
    // byte ranges of lines including their terminator
    let mut v = vec![];
    let mut a = 0;
    let b = t.as_bytes();
    let mut i = 0;
    while i < b.len() {
        if b[i] == b'\n' {
            v.push((a, i + 1));
            a = i + 1;
        }
        i += 1;
    }
    if a < b.len() {
        v.push((a, b.len()));
    }
    v
}

fn mutate_once(t: &str, rng: &mut Rng) -> String {
    let toks = tokens(t);
    let of = |k: Tok| -> Vec<(usize, usize)> { toks.iter().filter(|x| x.0 == k).map(|x| (x.1, x.2)).collect() };
    let pick = |v: &Vec<(usize, usize)>, rng: &mut Rng| -> Option<(usize, usize)> {
        if v.is_empty() {
            None
        } else {
            Some(*rng.pick(v))
        }
    };
    for _ in 0..8 {
        let choice = rng.below(17);
        let r = match choice {
            0 | 1 => pick(&of(Tok::Num), rng).map(|(a, b)| splice(t, a, b, *rng.pick(&EXTREME_NUMS))),
            2 => pick(&of(Tok::Num), rng).map(|(a, b)| splice(t, a, b, "\"abc\"")),
            3 => pick(&of(Tok::Str), rng).map(|(a, b)| splice(t, a, b, *rng.pick(&["12", "0x1F", "1,2,3", "3@x", "abc", ""]))),
            4 => {
                // type / identifier swaps
                let ids: Vec<(usize, usize)> = toks
                    .iter()
                    .filter(|x| x.0 == Tok::Ident && TYPE_NAMES.iter().any(|n| n.eq_ignore_ascii_case(&t[x.1..x.2])))
                    .map(|x| (x.1, x.2))
                    .collect();
                pick(&ids, rng).map(|(a, b)| splice(t, a, b, *rng.pick(&TYPE_NAMES)))
            }
            5 => {
                // dangling reference: the number behind Prm_Text_Ref= / ..._Ref(n)= / the slot default
                let mut cands = vec![];
                for (i, x) in toks.iter().enumerate() {
                    if x.0 == Tok::Ident && t[x.1..x.2].to_ascii_lowercase().ends_with("_ref") {
                        if let Some(n) = toks[i + 1..].iter().take(6).filter(|y| y.0 == Tok::Num).last() {
                            cands.push((n.1, n.2));
                        }
                    }
                }
                pick(&cands, rng).map(|(a, b)| splice(t, a, b, *rng.pick(&["99", "1337", "0", "65536", "4294967295"])))
            }
            6 => {
                // missing parenthesis / equals sign / comma / quote
                let p: Vec<(usize, usize)> = toks.iter().filter(|x| x.0 == Tok::Punct).map(|x| (x.1, x.2)).collect();
                pick(&p, rng).map(|(a, b)| splice(t, a, b, ""))
            }
            7 => {
                // drop the whole "(n)" of an indexed statement
                let mut cands = vec![];
                for (i, x) in toks.iter().enumerate() {
                    if x.0 == Tok::Punct && &t[x.1..x.2] == "(" {
                        if let Some(c) = toks[i + 1..].iter().take(4).find(|y| y.0 == Tok::Punct && &t[y.1..y.2] == ")") {
                            cands.push((x.1, c.2));
                        }
                    }
                }
                pick(&cands, rng).map(|(a, b)| splice(t, a, b, ""))
            }
            8 => pick(&of(Tok::Str), rng).map(|(a, b)| if rng.bool() { splice(t, a, a + 1, "") } else { splice(t, b - 1, b, "") }),
            9 => {
                let l = lines_of(t);
                pick(&l, rng).map(|(a, b)| splice(t, a, b, ""))
            }
            10 => {
                let l = lines_of(t);
                pick(&l, rng).map(|(a, b)| {
                    let line = t[a..b].to_string();
                    let line = if line.ends_with('\n') { line } else { format!("{line}\n") };
                    let (c, _) = *rng.pick(&l);
                    splice(t, c, c, &line)
                })
            }
            11 => {
                let l = lines_of(t);
                if l.len() < 2 {
                    None
                } else {
                    let i = rng.below(l.len() as u64 - 1) as usize;
                    let (a, b) = l[i];
                    let (c, d) = l[i + 1];
                    let second = t[c..d].to_string();
                    let second = if second.ends_with('\n') { second } else { format!("{second}\n") };
                    Some(format!("{}{}{}{}", &t[..a], second, &t[a..b], &t[d..]))
                }
            }
            12 => pick(&of(Tok::Ident), rng).map(|(a, b)| splice(t, a, b, *rng.pick(&KEYWORDS))),
            13 => {
                // truncate at a token boundary
                toks.get(rng.below(toks.len().max(1) as u64) as usize).map(|x| t[..x.1].to_string())
            }
            14 => {
                // insert a statement using an indexed key, with or without index, with a random value kind
                let l = lines_of(t);
                let k = *rng.pick(&INDEXED_KEYS);
                let idx = match rng.below(3) {
                    0 => "".to_string(),
                    1 => "(0)".to_string(),
                    _ => format!("({})", rng.pick(&EXTREME_NUMS)),
                };
                let v = *rng.pick(&["1", "\"x\"", "1,2", "0x10", "3@y", "99"]);
                let stmt = format!("{k}{idx}={v}\n");
                pick(&l, rng).map(|(a, _)| splice(t, a, a, &stmt))
            }
            15 => {
                // single character edit (keeps UTF-8 valid: operates on chars)
                let cs: Vec<char> = t.chars().collect();
                if cs.is_empty() {
                    None
                } else {
                    let i = rng.below(cs.len() as u64) as usize;
                    let mut out: Vec<char> = cs.clone();
                    let c = *rng.pick(&['"', '\\', '\n', '\r', ';', '(', ')', '=', ',', '-', '@', '#', ' ', 'x', '0', '\u{e9}']);
                    match rng.below(3) {
                        0 => out[i] = c,
                        1 => out.insert(i, c),
                        _ => {
                            out.remove(i);
                        }
                    }
                    Some(out.into_iter().collect())
                }
            }
            _ => {
                // value/type swap between two settings: exchange two value tokens
                let vals: Vec<(usize, usize)> = toks.iter().filter(|x| x.0 == Tok::Num || x.0 == Tok::Str).map(|x| (x.1, x.2)).collect();
                if vals.len() < 2 {
                    None
                } else {
                    let i = rng.below(vals.len() as u64) as usize;
                    let j = rng.below(vals.len() as u64) as usize;
                    let (x, y) = if i <= j { (vals[i], vals[j]) } else { (vals[j], vals[i]) };
                    if x == y {
                        None
                    } else {
                        Some(format!("{}{}{}{}{}", &t[..x.0], &t[y.0..y.1], &t[x.1..y.0], &t[x.0..x.1], &t[y.1..]))
                    }
                }
            }
        };
        if let Some(s) = r {
            return s;
        }
    }
    t.to_string()
}

pub fn mutate(t: &str, rng: &mut Rng) -> String {
    let n = match rng.below(6) {
        0 => 2,
        1 => 3,
        _ => 1,
    };
    let mut s = t.to_string();
    for _ in 0..n {
        s = mutate_once(&s, rng);
    }
    s
}

// ---------------------------------------------------------------------------------------------
// (c) random input
// ---------------------------------------------------------------------------------------------

fn random_text(rng: &mut Rng) -> String {
    match rng.below(4) {
        0 => {
            // raw random bytes, made valid UTF-8 the way a caller reading a file would
            let n = rng.below(200) as usize;
            String::from_utf8_lossy(&rng.bytes(n)).into_owned()
        }
        1 => {
            // marker + random bytes
            let n = rng.below(120) as usize;
            format!("#Profibus_DP\n{}", String::from_utf8_lossy(&rng.bytes(n)))
        }
        _ => {
            // GSD alphabet soup
            let mut s = String::new();
            if rng.chance(3, 4) {
                s.push_str("#Profibus_DP\n");
            }
            let frags = [
                "\n", "\r\n", "\r", " ", "\t", "=", "(", ")", ",", "-", "\"", "\"x\"", "\\", "\\\n", ";", "; c\n", "@", "#", "0", "1", "7", "255", "0x1F", "0x", "1.5", "-3",
            ];
            for _ in 0..rng.below(40) {
                match rng.below(3) {
                    0 => s.push_str(*rng.pick(&KEYWORDS)),
                    1 => s.push_str(*rng.pick(&TYPE_NAMES)),
                    _ => s.push_str(*rng.pick(&frags)),
                }
                if rng.chance(1, 3) {
                    s.push_str(*rng.pick(&frags));
                }
            }
            s
        }
    }
}

// ---------------------------------------------------------------------------------------------

fn op_p(t: &str) -> String {
    format!("p {}", hex(t.as_bytes()))
}

pub fn gen(ops: &mut Vec<String>, seed: u64, thorough: bool) {
    let scale = if thorough { 30 } else { 1 };
    ops.push(op_p(MOCK));
    ops.push(op_p(&MOCK.replace('\n', "\r\n")));
    // (a) rendered descriptions: plain style first, then increasing lexical variation
    let n_render = 1500 * scale;
    let mut rendered: Vec<String> = vec![];
    for case in 0..n_render {
        let mut rng = Rng::new(seed, "gsd", case);
        let d = gen_desc(&mut rng);
        let noise = match case % 5 {
            0 => 0,
            1 => 1,
            2 => 2,
            _ => 4,
        };
        let text = render(&d, &mut rng, noise);
        ops.push(format!("r {} {}", hex(text.as_bytes()), dump(&expected(&d))));
        if case % 3 == 0 {
            rendered.push(text);
        }
    }
    // (b) mutations of rendered texts and of mock.gsd
    let n_mut = 2500 * scale;
    for case in 0..n_mut {
        let mut rng = Rng::new(seed, "gsd-mut", case);
        let base: &str = if case % 4 == 0 { MOCK } else { &rendered[rng.below(rendered.len() as u64) as usize] };
        ops.push(op_p(&mutate(base, &mut rng)));
    }
    // (c) random input
    let n_rand = 1000 * scale;
    for case in 0..n_rand {
        let mut rng = Rng::new(seed, "gsd-rand", case);
        ops.push(op_p(&random_text(&mut rng)));
    }
}
