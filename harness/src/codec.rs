//! Engine `codec`: TelegramTx::send_*, telegram_len, FunctionCode::{to,from}_byte, Telegram::deserialize
use crate::util::*;
use profirust::fdl::*;

pub const ALL_REQ: [RequestType; 12] = [
    RequestType::ClockValue,
    RequestType::TimeEvent,
    RequestType::SdaLow,
    RequestType::SdnLow,
    RequestType::SdaHigh,
    RequestType::SdnHigh,
    RequestType::MulticastSrd,
    RequestType::FdlStatus,
    RequestType::SrdLow,
    RequestType::SrdHigh,
    RequestType::Ident,
    RequestType::LsapStatus,
];
pub const ALL_FCB: [FrameCountBit; 4] = [
    FrameCountBit::First,
    FrameCountBit::High,
    FrameCountBit::Low,
    FrameCountBit::Inactive,
];
pub const ALL_STATE: [ResponseState; 4] = [
    ResponseState::Slave,
    ResponseState::MasterNotReady,
    ResponseState::MasterWithoutToken,
    ResponseState::MasterInRing,
];
pub const ALL_STATUS: [ResponseStatus; 9] = [
    ResponseStatus::Ok,
    ResponseStatus::UserError,
    ResponseStatus::NoResources,
    ResponseStatus::SapNotEnabled,
    ResponseStatus::DataLow,
    ResponseStatus::NoDataReady,
    ResponseStatus::DataHigh,
    ResponseStatus::NotReceivedDataLow,
    ResponseStatus::NotReceivedDataHigh,
];

pub fn all_fcs() -> Vec<FunctionCode> {
    let mut v = vec![];
    for fcb in ALL_FCB {
        for req in ALL_REQ {
            v.push(FunctionCode::Request { fcb, req });
        }
    }
    for state in ALL_STATE {
        for status in ALL_STATUS {
            v.push(FunctionCode::Response { state, status });
        }
    }
    v
}

pub fn fcb_name(f: FrameCountBit) -> &'static str {
    match f {
        FrameCountBit::First => "F",
        FrameCountBit::High => "H",
        FrameCountBit::Low => "L",
        FrameCountBit::Inactive => "I",
    }
}

pub fn show_fc(fc: FunctionCode) -> String {
    match fc {
        FunctionCode::Request { fcb, req } => format!("q.{}.{}", fcb_name(fcb), req as u8),
        FunctionCode::Response { state, status } => format!("r.{}.{}", state as u8, status as u8),
    }
}

pub fn show_telegram(t: &Telegram) -> String {
    match t {
        Telegram::Data(d) => format!(
            "data {} {} {} {} {} {}",
            d.h.da,
            d.h.sa,
            opt_u8(d.h.dsap),
            opt_u8(d.h.ssap),
            show_fc(d.h.fc),
            hex(d.pdu)
        ),
        Telegram::Token(t) => format!("token {} {}", t.da, t.sa),
        Telegram::ShortConfirmation(_) => "sc".to_string(),
    }
}

/// Observation of `Telegram::deserialize(bytes)`.
pub fn obs_decode(bytes: &[u8]) -> String {
    match guarded(|| match Telegram::deserialize(bytes) {
        None => "needmore".to_string(),
        Some(Err(())) => "reject".to_string(),
        Some(Ok((t, n))) => format!("accept {} {}", n, show_telegram(&t)),
    }) {
        Some(s) => s,
        None => "panic".to_string(),
    }
}

pub fn op_enc(h: &DataTelegramHeader, pdu: &[u8], rest: &[u8]) -> String {
    format!(
        "enc {} {} {} {} {} {} {}",
        h.da,
        h.sa,
        opt_u8(h.dsap),
        opt_u8(h.ssap),
        show_fc(h.fc),
        hex(pdu),
        hex(rest)
    )
}

/// Drive `TelegramTx::send_data_telegram` on a 256 byte buffer, then decode `bytes ++ rest`.
pub fn obs_encode(h: &DataTelegramHeader, pdu: &[u8], rest: &[u8]) -> String {
    let tl = h.telegram_len(pdu.len());
    let r = guarded(|| {
        let mut buf = [0xAAu8; 256];
        let tx = TelegramTx::new(&mut buf);
        let resp = tx.send_data_telegram(h.clone(), pdu.len(), |b| b.copy_from_slice(pdu));
        (buf[..resp.bytes_sent()].to_vec(), resp.expects_reply())
    });
    // `expects_reply` is only observable on success; on panic print the value the public contract
    // implies so both sides have the same line shape.
    let exp_static = match h.fc {
        FunctionCode::Request { req, .. } if req.expects_reply() => Some(h.da),
        _ => None,
    };
    match r {
        Some((mut bytes, exp)) => {
            let s = format!("ok {} exp={} len={}", hex(&bytes), opt_u8(exp), tl);
            bytes.extend_from_slice(rest);
            format!("{} | {}", s, obs_decode(&bytes))
        }
        None => format!("panic exp={} len={}", opt_u8(exp_static), tl),
    }
}

fn parse_fc(s: &str) -> Option<FunctionCode> {
    let p: Vec<&str> = s.split('.').collect();
    match p.as_slice() {
        ["q", f, r] => {
            let fcb = match *f {
                "F" => FrameCountBit::First,
                "H" => FrameCountBit::High,
                "L" => FrameCountBit::Low,
                "I" => FrameCountBit::Inactive,
                _ => return None,
            };
            let req = RequestType::from_u8(r.parse().ok()?)?;
            Some(FunctionCode::Request { fcb, req })
        }
        ["r", a, b] => Some(FunctionCode::Response {
            state: ResponseState::from_u8(a.parse().ok()?)?,
            status: ResponseStatus::from_u8(b.parse().ok()?)?,
        }),
        _ => None,
    }
}

pub fn parse_opt_u8(s: &str) -> Option<Option<u8>> {
    if s == "-" {
        Some(None)
    } else {
        s.parse().ok().map(Some)
    }
}

pub fn parse_header(w: &[&str]) -> Option<DataTelegramHeader> {
    Some(DataTelegramHeader {
        da: w[0].parse().ok()?,
        sa: w[1].parse().ok()?,
        dsap: parse_opt_u8(w[2])?,
        ssap: parse_opt_u8(w[3])?,
        fc: parse_fc(w[4])?,
    })
}

/// Execute one operation line on the real code.
pub fn exec(line: &str) -> String {
    let w: Vec<&str> = line.split(' ').collect();
    match w.as_slice() {
        ["fcb", b] => {
            let b: u8 = b.parse().unwrap();
            match FunctionCode::from_byte(b) {
                Ok(fc) => format!("ok {} {}", show_fc(fc), fc.to_byte()),
                // the error type is not exported; its Debug name identifies the kind
                Err(e) => match format!("{e:?}").as_str() {
                    "InvalidRequestType" => "err req".to_string(),
                    "InvalidResponseState" => "err state".to_string(),
                    "InvalidResponseStatus" => "err status".to_string(),
                    other => format!("err ?{other}"),
                },
            }
        }
        ["sc", rest] => {
            let mut buf = [0xA5u8; 256]; // a dirty transmit buffer (real PHYs reuse theirs)
            let r = TelegramTx::new(&mut buf).send_short_confirmation();
            let mut bytes = buf[..r.bytes_sent()].to_vec();
            let s = format!("ok {}", hex(&bytes));
            bytes.extend(unhex(rest));
            format!("{} | {}", s, obs_decode(&bytes))
        }
        ["tok", da, sa, rest] => {
            let mut buf = [0xA5u8; 256]; // a dirty transmit buffer (real PHYs reuse theirs)
            let r = TelegramTx::new(&mut buf).send_token_telegram(da.parse().unwrap(), sa.parse().unwrap());
            let mut bytes = buf[..r.bytes_sent()].to_vec();
            let s = format!("ok {}", hex(&bytes));
            bytes.extend(unhex(rest));
            format!("{} | {}", s, obs_decode(&bytes))
        }
        ["enc", a, b, c, d, e, pdu, rest] => match parse_header(&[a, b, c, d, e]) {
            Some(h) => obs_encode(&h, &unhex(pdu), &unhex(rest)),
            None => "bad-op".to_string(),
        },
        ["dec", h] => obs_decode(&unhex(h)),
        _ => "bad-op".to_string(),
    }
}

const ADDRS: [u8; 9] = [0, 1, 2, 63, 64, 125, 126, 127, 7];

fn enc_case(ops: &mut Vec<String>, rng: &mut Rng, h: DataTelegramHeader, pdu_len: usize) {
    let pdu = match rng.below(8) {
        0 => vec![0u8; pdu_len],
        1 => vec![0xffu8; pdu_len],
        _ => rng.bytes(pdu_len),
    };
    let rest = match rng.below(3) {
        0 => vec![],
        _ => {
            let n = 1 + rng.below(4) as usize;
            rng.bytes(n)
        }
    };
    ops.push(op_enc(&h, &pdu, &rest));
}

pub fn gen(ops: &mut Vec<String>, seed: u64, thorough: bool) {
    let mut rng = Rng::new(seed, "codec", 0);
    // all 256 function code bytes
    for b in 0..=255u8 {
        ops.push(format!("fcb {b}"));
    }
    ops.push("sc -".to_string());
    ops.push("sc e5dc".to_string());
    // tokens: all pairs (thorough) / boundary × all (quick)
    for da in 0..=255u8 {
        for sa in 0..=255u8 {
            let take = if thorough {
                da < 128 && sa < 128 || ADDRS.contains(&(da & 0x7f)) || ADDRS.contains(&(sa & 0x7f))
            } else {
                (ADDRS.contains(&da) && sa % 8 == 1) || (ADDRS.contains(&sa) && da % 8 == 3) || (da >= 250 && sa >= 250)
            };
            if take {
                let rest = if rng.bool() { vec![] } else { rng.bytes(2) };
                ops.push(format!("tok {da} {sa} {}", hex(&rest)));
            }
        }
    }
    // data telegrams: structural enumeration
    let fcs = all_fcs();
    for saps in 0..4u8 {
        for pdu_len in 0..=247usize {
            let boundary = matches!(pdu_len, 0 | 1 | 5 | 6 | 7 | 8 | 9 | 243..=247);
            for (i, fc) in fcs.iter().enumerate() {
                let take = thorough || boundary && (i as u64 + pdu_len as u64) % 4 == 0 || rng.below(84) < 2;
                if !take {
                    continue;
                }
                let h = DataTelegramHeader {
                    da: *rng.pick(&ADDRS),
                    sa: *rng.pick(&ADDRS),
                    dsap: if saps & 1 != 0 { Some(rng.u8()) } else { None },
                    ssap: if saps & 2 != 0 { Some(rng.u8()) } else { None },
                    fc: *fc,
                };
                enc_case(ops, &mut rng, h, pdu_len);
            }
        }
    }
    // all address pairs for SD1 frames (status request/response shape)
    for da in 0..128u8 {
        for sa in 0..128u8 {
            if !thorough && !(ADDRS.contains(&da) || ADDRS.contains(&sa)) {
                continue;
            }
            let h = DataTelegramHeader {
                da,
                sa,
                dsap: None,
                ssap: None,
                fc: *rng.pick(&fcs),
            };
            enc_case(ops, &mut rng, h, 0);
        }
    }
    // random headers incl. addresses with bit 7 set (outside the round-trip domain: compared, not asserted)
    let n = if thorough { 200_000 } else { 3_000 };
    for _ in 0..n {
        let h = DataTelegramHeader {
            da: if rng.chance(1, 10) { rng.u8() } else { rng.u8() & 0x7f },
            sa: if rng.chance(1, 10) { rng.u8() } else { rng.u8() & 0x7f },
            dsap: if rng.bool() { Some(rng.u8()) } else { None },
            ssap: if rng.bool() { Some(rng.u8()) } else { None },
            fc: *rng.pick(&fcs),
        };
        let l = match rng.below(4) {
            0 => rng.below(12) as usize,
            1 => 240 + rng.below(10) as usize,
            _ => rng.below(248) as usize,
        };
        enc_case(ops, &mut rng, h, l);
    }
}
