//! Engine `codec`: TelegramTx::send_*, telegram_len, FunctionCode::{to,from}_byte, Telegram::deserialize
use crate::util::*;
use profirust::fdl::*;

pub const ALL_REQ: [RequestType; 12] = [
    RequestType::ClockValue,
    RequestType::TimeEvent,
    RequestType::SdaLow,
    RequestType::SdnLow,
    RequestType::SdaHigh,
    RequestType::SdnHigh,
    RequestType::MulticastSrd,
    RequestType::FdlStatus,
    RequestType::SrdLow,
    RequestType::SrdHigh,
    RequestType::Ident,
    RequestType::LsapStatus,
];
pub const ALL_FCB: [FrameCountBit; 4] = [
    FrameCountBit::First,
    FrameCountBit::High,
    FrameCountBit::Low,
    FrameCountBit::Inactive,
];
pub const ALL_STATE: [ResponseState; 4] = [
    ResponseState::Slave,
    ResponseState::MasterNotReady,
    ResponseState::MasterWithoutToken,
    ResponseState::MasterInRing,
];
pub const ALL_STATUS: [ResponseStatus; 9] = [
    ResponseStatus::Ok,
    ResponseStatus::UserError,
    ResponseStatus::NoResources,
    ResponseStatus::SapNotEnabled,
    ResponseStatus::DataLow,
    ResponseStatus::NoDataReady,
    ResponseStatus::DataHigh,
    ResponseStatus::NotReceivedDataLow,
    ResponseStatus::NotReceivedDataHigh,
];

pub fn all_fcs() -> Vec<FunctionCode> {
    let mut v = vec![];
    for fcb in ALL_FCB {
        for req in ALL_REQ {
            v.push(FunctionCode::Request { fcb, req });
        }
    }
    for state in ALL_STATE {
        for status in ALL_STATUS {
            v.push(FunctionCode::Response { state, status });
        }
    }
    v
}

pub fn fcb_name(f: FrameCountBit) -> &'static str {
    match f {
        FrameCountBit::First => "F",
        FrameCountBit::High => "H",
        FrameCountBit::Low => "L",
        FrameCountBit::Inactive => "I",
    }
}

pub fn show_fc(fc: FunctionCode) -> String {
    match fc {
        FunctionCode::Request { fcb, req } => format!("q.{}.{}", fcb_name(fcb), req as u8),
        FunctionCode::Response { state, status } => format!("r.{}.{}", state as u8, status as u8),
    }
}

pub fn show_telegram(t: &Telegram) -> String {
    match t {
        Telegram::Data(d) => format!(
            "data {} {} {} {} {} {}",
            d.h.da,
            d.h.sa,
            opt_u8(d.h.dsap),
            opt_u8(d.h.ssap),
            show_fc(d.h.fc),
            hex(d.pdu)
        ),
        Telegram::Token(t) => format!("token {} {}", t.da, t.sa),
        Telegram::ShortConfirmation(_) => "sc".to_string(),
    }
}

/// Observation of `Telegram::deserialize(bytes)`.
pub fn obs_decode(bytes: &[u8]) -> String {
    match guarded(|| match Telegram::deserialize(bytes) {
        None => "needmore".to_string(),
        Some(Err(())) => "reject".to_string(),
        Some(Ok((t, n))) => format!("accept {} {}", n, show_telegram(&t)),
    }) {
        Some(s) => s,
        None => "panic".to_string(),
    }
}

pub fn op_enc(h: &DataTelegramHeader, pdu: &[u8]) -> String {
    format!(
        "enc {} {} {} {} {} {}",
        h.da,
        h.sa,
        opt_u8(h.dsap),
        opt_u8(h.ssap),
        show_fc(h.fc),
        hex(pdu)
    )
}

/// Drive `TelegramTx::send_data_telegram` on a 256 byte buffer; returns (observation, bytes if ok).
pub fn obs_encode(h: &DataTelegramHeader, pdu: &[u8]) -> (String, Option<Vec<u8>>) {
    let tl = h.telegram_len(pdu.len());
    let r = guarded(|| {
        let mut buf = [0xAAu8; 256];
        let tx = TelegramTx::new(&mut buf);
        let resp = tx.send_data_telegram(h.clone(), pdu.len(), |b| b.copy_from_slice(pdu));
        (buf[..resp.bytes_sent()].to_vec(), resp.expects_reply())
    });
    // what the model calls `expectsReplyOf` is only observable on success; on panic print the
    // value the public contract implies so both sides have the same line shape.
    let exp_static = match h.fc {
        FunctionCode::Request { req, .. } if req.expects_reply() => Some(h.da),
        _ => None,
    };
    match r {
        Some((bytes, exp)) => (
            format!("ok {} exp={} len={}", hex(&bytes), opt_u8(exp), tl),
            Some(bytes),
        ),
        None => (format!("panic exp={} len={}", opt_u8(exp_static), tl), None),
    }
}

const ADDRS: [u8; 9] = [0, 1, 2, 63, 64, 125, 126, 127, 7];

fn enc_case(out: &mut Out, rng: &mut Rng, h: DataTelegramHeader, pdu_len: usize) {
    let pdu = match rng.below(8) {
        0 => vec![0u8; pdu_len],
        1 => vec![0xffu8; pdu_len],
        _ => rng.bytes(pdu_len),
    };
    let (obs, bytes) = obs_encode(&h, &pdu);
    out.put(&op_enc(&h, &pdu), &obs);
    if let Some(bytes) = bytes {
        out.put(&format!("dec {}", hex(&bytes)), &obs_decode(&bytes));
        // with trailing bytes: must consume exactly the frame
        let mut ext = bytes.clone();
        let n = 1 + rng.below(4) as usize;
        ext.extend(rng.bytes(n));
        out.put(&format!("dec {}", hex(&ext)), &obs_decode(&ext));
    }
}

pub fn run(out: &mut Out, seed: u64, thorough: bool) {
    let mut rng = Rng::new(seed, "codec", 0);
    // all 256 function code bytes
    for b in 0..=255u8 {
        let obs = match FunctionCode::from_byte(b) {
            Ok(fc) => format!("ok {} {}", show_fc(fc), fc.to_byte()),
            // the error type is not exported; its Debug name identifies the kind
            Err(e) => match format!("{e:?}").as_str() {
                "InvalidRequestType" => "err req".to_string(),
                "InvalidResponseState" => "err state".to_string(),
                "InvalidResponseStatus" => "err status".to_string(),
                other => format!("err ?{other}"),
            },
        };
        out.put(&format!("fcb {b}"), &obs);
    }
    out.put("sc", &{
        let mut buf = [0u8; 256];
        let r = TelegramTx::new(&mut buf).send_short_confirmation();
        format!("ok {}", hex(&buf[..r.bytes_sent()]))
    });
    // tokens: all pairs (thorough) / boundary × all (quick)
    for da in 0..=255u8 {
        for sa in 0..=255u8 {
            let take = if thorough {
                da < 128 && sa < 128 || ADDRS.contains(&(da & 0x7f)) || ADDRS.contains(&(sa & 0x7f))
            } else {
                (ADDRS.contains(&da) && sa % 8 == 1) || (ADDRS.contains(&sa) && da % 8 == 3) || (da >= 250 && sa >= 250)
            };
            if !take {
                continue;
            }
            let mut buf = [0u8; 256];
            let r = TelegramTx::new(&mut buf).send_token_telegram(da, sa);
            let bytes = buf[..r.bytes_sent()].to_vec();
            out.put(&format!("tok {da} {sa}"), &format!("ok {}", hex(&bytes)));
            out.put(&format!("dec {}", hex(&bytes)), &obs_decode(&bytes));
        }
    }
    // data telegrams: structural enumeration
    let fcs = all_fcs();
    for saps in 0..4u8 {
        for pdu_len in 0..=247usize {
            let boundary = matches!(pdu_len, 0 | 1 | 5 | 6 | 7 | 8 | 9 | 243..=247);
            for (i, fc) in fcs.iter().enumerate() {
                let take = thorough || boundary && (i as u64 + pdu_len as u64) % 4 == 0 || rng.below(84) < 2;
                if !take {
                    continue;
                }
                let h = DataTelegramHeader {
                    da: *rng.pick(&ADDRS),
                    sa: *rng.pick(&ADDRS),
                    dsap: if saps & 1 != 0 { Some(rng.u8()) } else { None },
                    ssap: if saps & 2 != 0 { Some(rng.u8()) } else { None },
                    fc: *fc,
                };
                enc_case(out, &mut rng, h, pdu_len);
            }
        }
    }
    // all address pairs for SD1 frames (status request/response shape)
    for da in 0..128u8 {
        for sa in 0..128u8 {
            if !thorough && !(ADDRS.contains(&da) || ADDRS.contains(&sa)) {
                continue;
            }
            let h = DataTelegramHeader {
                da,
                sa,
                dsap: None,
                ssap: None,
                fc: *rng.pick(&fcs),
            };
            enc_case(out, &mut rng, h, 0);
        }
    }
    // random headers incl. addresses with bit 7 set (outside the round-trip domain: compared, not asserted)
    let n = if thorough { 200_000 } else { 3_000 };
    for _ in 0..n {
        let h = DataTelegramHeader {
            da: if rng.chance(1, 10) { rng.u8() } else { rng.u8() & 0x7f },
            sa: if rng.chance(1, 10) { rng.u8() } else { rng.u8() & 0x7f },
            dsap: if rng.bool() { Some(rng.u8()) } else { None },
            ssap: if rng.bool() { Some(rng.u8()) } else { None },
            fc: *rng.pick(&fcs),
        };
        let l = match rng.below(4) {
            0 => rng.below(12) as usize,
            1 => 240 + rng.below(10) as usize,
            _ => rng.below(248) as usize,
        };
        enc_case(out, &mut rng, h, l);
    }
}
