//! Engine `las`: the crate-private `TokenRing` through the `verif-hooks` re-export (C02 core).
//! ops: tr.new <ts> | tr.w <sa> <da> | tr.claim | tr.setns <a> | tr.rm <a>
//! obs: las=<a,b,..> ns=<n> ps=<n> ready=<0|1>   (or panic)
use crate::util::*;
use profirust::fdl::{ParametersBuilder, VerifTokenRing};

pub struct Exec {
    r: Option<VerifTokenRing>,
}
impl Exec {
    pub fn new() -> Self {
        Exec { r: None }
    }
}

fn view(r: &VerifTokenRing) -> String {
    let las: Vec<String> = r.iter_active_stations().map(|a| a.to_string()).collect();
    format!(
        "las={} ns={} ps={} ready={}",
        if las.is_empty() { "-".to_string() } else { las.join(",") },
        r.next_station(),
        r.previous_station(),
        r.ready_for_ring() as u8
    )
}

impl crate::Executor for Exec {
    fn exec(&mut self, line: &str) -> String {
        let w: Vec<&str> = line.split(' ').collect();
        if let ["tr.new", ts] = w.as_slice() {
            let ts: u8 = ts.parse().unwrap();
            let mut p = ParametersBuilder::new(ts.min(125), profirust::Baudrate::B19200).build();
            p.address = ts;
            self.r = guarded(|| VerifTokenRing::new(&p));
            return match &self.r {
                Some(r) => view(r),
                None => "panic".into(),
            };
        }
        let Some(r) = self.r.as_mut() else { return "dead".into() };
        let ok = match w.as_slice() {
            ["tr.w", sa, da] => guarded(|| r.witness_token_pass(sa.parse().unwrap(), da.parse().unwrap())),
            ["tr.claim"] => guarded(|| r.claim_token()),
            ["tr.setns", a] => guarded(|| r.set_next_station(a.parse().unwrap())),
            ["tr.rm", a] => guarded(|| r.remove_station(a.parse().unwrap())),
            _ => return "bad-op".into(),
        };
        match ok {
            Some(()) => view(self.r.as_ref().unwrap()),
            None => {
                self.r = None;
                "panic".into()
            }
        }
    }
}

pub fn gen(ops: &mut Vec<String>, seed: u64, thorough: bool) {
    // (1) exhaustive pass sequences over a 5-address alphabet to depth 5/6 from a fresh ring and
    //     after a learnt rotation
    let alpha = [3u8, 7, 9, 0, 125];
    let depth = if thorough { 4 } else { 3 };
    let npairs = alpha.len() * alpha.len();
    for prep in 0..3 {
        let total = (npairs as u64).pow(depth);
        for code in 0..total {
            if !thorough && code % 3 != 0 {
                continue;
            }
            ops.push("tr.new 7".to_string());
            if prep >= 1 {
                // learn the ring {3,9}: wrap, then two rotations
                for _ in 0..(if prep == 1 { 3 } else { 2 }) {
                    ops.push("tr.w 3 9".to_string());
                    ops.push("tr.w 9 3".to_string());
                }
            }
            let mut c = code;
            for _ in 0..depth {
                let k = (c % npairs as u64) as usize;
                c /= npairs as u64;
                ops.push(format!("tr.w {} {}", alpha[k / alpha.len()], alpha[k % alpha.len()]));
            }
        }
    }
    // (2) rotations of random rings with joins/leaves, invalid addresses, claims, set_next, remove
    let ncases = if thorough { 4000 } else { 300 };
    for case in 0..ncases {
        let mut rng = Rng::new(seed, "las", case);
        let ts = match rng.below(4) {
            0 => 0,
            1 => 125,
            _ => rng.below(126) as u8,
        };
        ops.push(format!("tr.new {ts}"));
        let mut ring: Vec<u8> = vec![];
        for _ in 0..(1 + rng.below(6)) {
            let a = match rng.below(5) {
                0 => ts.wrapping_add(1) % 126,
                1 => (ts as u16 + 125) as u8 % 126,
                2 => 125,
                3 => 0,
                _ => rng.below(126) as u8,
            };
            if !ring.contains(&a) {
                ring.push(a);
            }
        }
        if rng.chance(1, 3) && !ring.contains(&ts) {
            ring.push(ts);
        }
        ring.sort();
        let start = rng.below(ring.len() as u64) as usize;
        let rotations = 2 + rng.below(4);
        let mut k = start;
        for step in 0..(rotations * ring.len() as u64 + rng.below(3)) {
            let sa = ring[k % ring.len()];
            let da = ring[(k + 1) % ring.len()];
            ops.push(format!("tr.w {sa} {da}"));
            k += 1;
            // disturbances
            match rng.below(40) {
                0 => {
                    // a station leaves
                    if ring.len() > 1 {
                        let i = rng.below(ring.len() as u64) as usize;
                        ring.remove(i);
                        k = rng.below(ring.len() as u64) as usize;
                    }
                }
                1 => {
                    let a = rng.below(126) as u8;
                    if !ring.contains(&a) {
                        ring.push(a);
                        ring.sort();
                        k = rng.below(ring.len() as u64) as usize;
                    }
                }
                2 => ops.push(format!("tr.w {} {}", rng.below(256), rng.below(256))),
                3 => ops.push(format!("tr.w {} {}", 126 + rng.below(3), rng.below(126))),
                4 => ops.push("tr.claim".to_string()),
                5 => ops.push(format!("tr.setns {}", rng.below(128))),
                6 => ops.push(format!("tr.rm {}", rng.below(128))),
                7 => ops.push(format!("tr.w {} {}", rng.below(126), rng.below(126))),
                _ => {}
            }
            let _ = step;
        }
    }
}
