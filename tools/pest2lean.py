#!/usr/bin/env python3
"""pest -> Lean translator for the GSD grammar (DESIGN 12.8).

    tools/pest2lean.py [--check] [--stdout] [PEST_FILE]

Reads gsd-parser/src/gsd.pest of the tree the harness is built against and GENERATES
lean/ProfiVerif/Model/Gsd/Grammar.lean: the `Rule` enumeration, the rule kinds and the grammar as
data (`ruleDef : Rule -> RuleTy x Expr`) for the PEG interpreter of Model/Gsd/Peg.lean.

Source tree: $PV_REPO if set, else the directory named by the `gsd-parser = { path = ... }` line of
harness/Cargo.toml (so the model always follows the very tree the harness links), else /repo.

Supported pest (2.x) syntax: rules `name = { e }`, `name = _{ e }` (silent), `name = @{ e }` (atomic);
sequence `~`, ordered choice `|` (also a leading `|`), postfix `*` `+` `?`, prefix `!` `&`, groups `( )`,
strings "..." with the escapes \\" \\\\ \\n \\r \\t \\0 \\' \\xHH \\u{H..}, case-insensitive ^"..." (ASCII),
ranges 'a'..'z', the built-ins SOI EOI ANY NEWLINE ASCII_DIGIT ASCII_NONZERO_DIGIT ASCII_BIN_DIGIT
ASCII_OCT_DIGIT ASCII_HEX_DIGIT ASCII_ALPHA_LOWER ASCII_ALPHA_UPPER ASCII_ALPHA ASCII_ALPHANUMERIC ASCII,
comments `//`, `/* */` (nested), doc comments `///`, `//!`.

Everything else -- `${ }` compound-atomic and `!{ }` non-atomic rules, the stack (PUSH POP PEEK DROP ...),
`e{n}` / `e{n,m}` repetition counts, `#tag = e`, Unicode property built-ins, a rule named like a
built-in, an undefined rule, a rule defined twice -- makes the translator FAIL (exit status 2 and a
message starting with `pest2lean:`); `./check` reports that as a broken obligation.

--check : do not write; exit 1 if the committed Grammar.lean differs from what would be generated.
"""
import hashlib, os, re, sys

ROOT = os.path.dirname(os.path.dirname(os.path.abspath(__file__)))
OUT = os.path.join(ROOT, "lean", "ProfiVerif", "Model", "Gsd", "Grammar.lean")


class Unsupported(Exception):
    pass


def die(msg):
    sys.stderr.write("pest2lean: " + msg + "\n")
    sys.stdout.write("pest2lean: " + msg + "\n")
    sys.exit(2)


def source_tree():
    if os.environ.get("PV_REPO"):
        return os.environ["PV_REPO"]
    try:
        cargo = open(os.path.join(ROOT, "harness", "Cargo.toml")).read()
        m = re.search(r'^gsd-parser\s*=\s*\{[^}]*path\s*=\s*"([^"]+)"', cargo, re.M)
        if m:
            return os.path.dirname(m.group(1).rstrip("/"))
    except OSError:
        pass
    return "/repo"


# ------------------------------------------------------------------------------------------------
# tokenizer
# ------------------------------------------------------------------------------------------------

def unescape(body, where):
    """pest string / character escapes -> list of code points."""
    out, i = [], 0
    while i < len(body):
        ch = body[i]
        if ch != "\\":
            out.append(ord(ch)); i += 1; continue
        if i + 1 >= len(body):
            raise Unsupported(f"{where}: dangling backslash")
        e = body[i + 1]
        simple = {'"': 34, "\\": 92, "n": 10, "r": 13, "t": 9, "0": 0, "'": 39}
        if e in simple:
            out.append(simple[e]); i += 2
        elif e == "x":
            h = body[i + 2:i + 4]
            if not re.fullmatch(r"[0-9a-fA-F]{2}", h):
                raise Unsupported(f"{where}: bad \\x escape")
            out.append(int(h, 16)); i += 4
        elif e == "u":
            m = re.match(r"\{([0-9a-fA-F]{2,6})\}", body[i + 2:])
            if not m:
                raise Unsupported(f"{where}: bad \\u escape")
            out.append(int(m.group(1), 16)); i += 2 + len(m.group(0))
        else:
            raise Unsupported(f"{where}: unknown escape \\{e}")
    return out


def tokenize(src):
    toks, i, n, line = [], 0, len(src), 1
    while i < n:
        ch = src[i]
        if ch == "\n":
            line += 1; i += 1; continue
        if ch in " \t\r":
            i += 1; continue
        if src.startswith("//", i):
            j = src.find("\n", i)
            i = n if j < 0 else j
            continue
        if src.startswith("/*", i):
            depth, i = 1, i + 2
            while i < n and depth:
                if src.startswith("/*", i): depth += 1; i += 2
                elif src.startswith("*/", i): depth -= 1; i += 2
                else:
                    if src[i] == "\n": line += 1
                    i += 1
            if depth:
                raise Unsupported(f"line {line}: unterminated block comment")
            continue
        where = f"line {line}"
        if ch == '"':
            j = i + 1
            while j < n and src[j] != '"':
                j += 2 if src[j] == "\\" else 1
            if j >= n:
                raise Unsupported(f"{where}: unterminated string")
            toks.append(("str", unescape(src[i + 1:j], where), line)); i = j + 1; continue
        if ch == "'":
            j = i + 1
            while j < n and src[j] != "'":
                j += 2 if src[j] == "\\" else 1
            if j >= n:
                raise Unsupported(f"{where}: unterminated character literal")
            cps = unescape(src[i + 1:j], where)
            if len(cps) != 1:
                raise Unsupported(f"{where}: character literal must hold exactly one character")
            toks.append(("chr", cps[0], line)); i = j + 1; continue
        if src.startswith("..", i):
            toks.append(("..", None, line)); i += 2; continue
        m = re.match(r"[A-Za-z_][A-Za-z0-9_]*", src[i:])
        if m:
            toks.append(("id", m.group(0), line)); i += len(m.group(0)); continue
        if ch in "={}()~|*+?!&^@$#[],":
            toks.append((ch, None, line)); i += 1; continue
        if ch.isdigit():
            raise Unsupported(f"{where}: numbers (repetition counts / stack slices) are not supported")
        raise Unsupported(f"{where}: unexpected character {ch!r}")
    toks.append(("eof", None, line))
    return toks


# ------------------------------------------------------------------------------------------------
# parser: expression AST as tuples
#   ("str", [cp..]) ("insens", [cp..]) ("range", lo, hi) ("id", name)
#   ("seq", [e..]) ("choice", [e..]) ("opt", e) ("star", e) ("plus", e) ("npred", e) ("ppred", e)
# ------------------------------------------------------------------------------------------------

class Parser:
    def __init__(self, toks):
        self.t, self.i = toks, 0

    def peek(self):
        return self.t[self.i]

    def next(self):
        tok = self.t[self.i]; self.i += 1; return tok

    def expect(self, kind):
        tok = self.next()
        if tok[0] != kind:
            raise Unsupported(f"line {tok[2]}: expected {kind!r}, found {tok[0]!r}")
        return tok

    def grammar(self):
        rules = []
        while self.peek()[0] != "eof":
            name = self.expect("id")
            self.expect("=")
            ty = "normal"
            k = self.peek()[0]
            if k == "id" and self.peek()[1] == "_":
                self.next(); ty = "silent"
            elif k == "@":
                self.next(); ty = "atomic"
            elif k == "$":
                raise Unsupported(f"line {self.peek()[2]}: rule {name[1]}: compound-atomic rules `${{…}}` are not supported")
            elif k == "!":
                raise Unsupported(f"line {self.peek()[2]}: rule {name[1]}: non-atomic rules `!{{…}}` are not supported")
            self.expect("{")
            e = self.expression()
            self.expect("}")
            rules.append((name[1], ty, e, name[2]))
        return rules

    def expression(self):
        if self.peek()[0] == "|":
            self.next()
        alts = [self.sequence()]
        while self.peek()[0] == "|":
            self.next()
            alts.append(self.sequence())
        return alts[0] if len(alts) == 1 else ("choice", alts)

    def sequence(self):
        items = [self.term()]
        while self.peek()[0] == "~":
            self.next()
            items.append(self.term())
        return items[0] if len(items) == 1 else ("seq", items)

    def term(self):
        tok = self.peek()
        if tok[0] == "#":
            raise Unsupported(f"line {tok[2]}: node tags `#name = …` are not supported")
        if tok[0] == "!":
            self.next(); return ("npred", self.term())
        if tok[0] == "&":
            self.next(); return ("ppred", self.term())
        node = self.node()
        while True:
            k = self.peek()
            if k[0] == "*": self.next(); node = ("star", node)
            elif k[0] == "+": self.next(); node = ("plus", node)
            elif k[0] == "?": self.next(); node = ("opt", node)
            elif k[0] == "{":
                raise Unsupported(f"line {k[2]}: repetition counts `e{{n}}` / `e{{n,m}}` are not supported")
            else: break
        return node

    def node(self):
        tok = self.next()
        if tok[0] == "(":
            e = self.expression()
            self.expect(")")
            return e
        if tok[0] == "str":
            return ("str", tok[1])
        if tok[0] == "^":
            s = self.expect("str")
            if any(cp > 127 for cp in s[1]):
                raise Unsupported(f"line {s[2]}: non-ASCII case-insensitive string")
            return ("insens", s[1])
        if tok[0] == "chr":
            self.expect("..")
            hi = self.expect("chr")
            return ("range", tok[1], hi[1])
        if tok[0] == "id":
            if self.peek()[0] in ("[", "("):
                raise Unsupported(f"line {tok[2]}: `{tok[1]}(…)` / `{tok[1]}[…]` (stack operations) are not supported")
            return ("id", tok[1], tok[2])
        raise Unsupported(f"line {tok[2]}: unexpected token {tok[0]!r}")


# ------------------------------------------------------------------------------------------------
# built-ins
# ------------------------------------------------------------------------------------------------

def rng(a, b):
    return ("range", ord(a), ord(b))


BUILTIN = {
    "ANY": ("any",),
    "SOI": ("soi",),
    "NEWLINE": ("newline",),
    "ASCII_DIGIT": rng("0", "9"),
    "ASCII_NONZERO_DIGIT": rng("1", "9"),
    "ASCII_BIN_DIGIT": rng("0", "1"),
    "ASCII_OCT_DIGIT": rng("0", "7"),
    "ASCII_HEX_DIGIT": ("choice", [rng("0", "9"), rng("a", "f"), rng("A", "F")]),
    "ASCII_ALPHA_LOWER": rng("a", "z"),
    "ASCII_ALPHA_UPPER": rng("A", "Z"),
    "ASCII_ALPHA": ("choice", [rng("a", "z"), rng("A", "Z")]),
    "ASCII_ALPHANUMERIC": ("choice", [rng("0", "9"), rng("a", "z"), rng("A", "Z")]),
    "ASCII": ("range", 0, 127),
}
UNSUPPORTED_BUILTIN = {"PUSH", "PUSH_LITERAL", "POP", "POP_ALL", "PEEK", "PEEK_ALL", "DROP"}
LEAN_KEYWORDS = {"at", "from", "have", "show", "fun", "do", "end", "if", "then", "else", "let", "in", "match", "with",
                 "open", "section", "namespace", "def", "theorem", "instance", "structure", "inductive", "class",
                 "where", "import", "export", "Type", "Prop", "Sort", "by", "for", "return", "mutual", "private",
                 "protected", "universe", "variable", "deriving", "extends", "using", "calc", "nomatch", "macro", "syntax"}


def resolve(e, names, used_eoi):
    k = e[0]
    if k == "id":
        name, line = e[1], e[2]
        if name == "EOI":
            used_eoi.append(True)
            return ("call", "EOI")
        if name in BUILTIN:
            return BUILTIN[name]
        if name in UNSUPPORTED_BUILTIN:
            raise Unsupported(f"line {line}: stack built-in {name} is not supported")
        if name not in names:
            if re.fullmatch(r"[A-Z][A-Z0-9_]*", name):
                raise Unsupported(f"line {line}: built-in rule {name} is not supported")
            raise Unsupported(f"line {line}: rule {name} is not defined")
        return ("call", name)
    if k in ("seq", "choice"):
        return (k, [resolve(x, names, used_eoi) for x in e[1]])
    if k in ("opt", "star", "plus", "npred", "ppred"):
        return (k, resolve(e[1], names, used_eoi))
    if k == "insens":
        return ("insens", [cp + 32 if 65 <= cp <= 90 else cp for cp in e[1]])
    return e


# ------------------------------------------------------------------------------------------------
# Lean output
# ------------------------------------------------------------------------------------------------

def lean_char(cp):
    if cp == 39: return "'\\''"
    if cp == 92: return "'\\\\'"
    if cp == 10: return "'\\n'"
    if cp == 13: return "'\\r'"
    if cp == 9: return "'\\t'"
    if 32 <= cp < 127: return "'" + chr(cp) + "'"
    if cp > 0x10FFFF or 0xD800 <= cp <= 0xDFFF:
        raise Unsupported(f"code point {cp:#x} is not a character")
    return f"(Char.ofNat {cp})"


def lean_chars(cps):
    return "[" + ", ".join(lean_char(c) for c in cps) + "]"


def lean_expr(e):
    k = e[0]
    if k == "str": return f".str {lean_chars(e[1])}"
    if k == "insens": return f".insens {lean_chars(e[1])}"
    if k == "range": return f".range {lean_char(e[1])} {lean_char(e[2])}"
    if k in ("any", "soi", "newline"): return "." + k
    if k == "call": return f".call .{e[1]}"
    if k == "seq": return "seqs [" + ", ".join(lean_expr(x) for x in e[1]) + "]"
    if k == "choice": return "alts [" + ", ".join(lean_expr(x) for x in e[1]) + "]"
    sub = lean_expr(e[1])
    return f".{k} ({sub})"


def call_depth(rules):
    """Longest chain of nested rule calls (0 if the grammar is recursive)."""
    body = {n: e for (n, _, e, _) in rules}

    def calls(e, acc):
        if e[0] == "call": acc.add(e[1])
        elif e[0] in ("seq", "choice"):
            for x in e[1]: calls(x, acc)
        elif e[0] in ("opt", "star", "plus", "npred", "ppred"): calls(e[1], acc)
        return acc
    graph = {n: calls(e, set()) for n, e in body.items()}
    memo, active = {}, set()

    def depth(n):
        if n in memo: return memo[n]
        if n in active: raise RecursionError
        active.add(n)
        d = 1 + max([depth(m) for m in graph[n]], default=0)
        active.discard(n)
        memo[n] = d
        return d
    try:
        return max(depth(n) for n in graph)
    except RecursionError:
        return 0


PRELUDE = '''/-
GENERATED by tools/pest2lean.py from gsd-parser/src/gsd.pest -- DO NOT EDIT.
`./check C19` regenerates this file from the source tree on every run (props/C19.json "generate"),
so a change of gsd.pest flows into the model and into every theorem about it.
source sha256: {sha}

The grammar of the GSD parser as data for the PEG interpreter of `Model/Gsd/Peg.lean`:
one constructor of `Rule` per pest rule (file order; `EOI` is pest's built-in end-of-input rule, which
produces a pair), `ruleDef r = (kind, body)`.  Built-ins are expanded: `ANY`, `SOI`, `NEWLINE`
(`"\\n" | "\\r\\n" | "\\r"`) are primitive expressions, `ASCII_*` are character ranges.  `^"…"` literals
are stored in lower case.  Import-free apart from `Str`.
-/
import ProfiVerif.Model.Gsd.Ast

namespace PV.Gsd.Peg
open PV.Gsd

inductive Rule where
{ctors}
  deriving Repr, DecidableEq, Inhabited

/-- Every rule, in declaration order. -/
def Rule.all : List Rule :=
  [{allrules}]

inductive RuleTy where
  | normal | silent | atomic
  deriving Repr, DecidableEq

inductive Expr where
  | str (s : Str)
  | insens (s : Str)            -- literal given in lower case
  | range (lo hi : Char)
  | any | soi | newline
  | call (r : Rule)
  | seq (a b : Expr)
  | choice (a b : Expr)
  | opt (e : Expr)
  | star (e : Expr)
  | plus (e : Expr)
  | npred (e : Expr)
  | ppred (e : Expr)
  deriving Repr, Inhabited

/-- `a ~ b ~ …` (right-nested; the empty sequence matches the empty string). -/
def seqs : List Expr → Expr
  | [] => .str []
  | [e] => e
  | e :: rest => .seq e (seqs rest)

/-- `a | b | …` (right-nested; the empty choice fails). -/
def alts : List Expr → Expr
  | [] => .npred (.str [])
  | [e] => e
  | e :: rest => .choice e (alts rest)

/-- Longest chain of nested rule calls in the grammar (0: the grammar is recursive).  Only a hint for
the fuel of the decision procedures of `Lemmas/Peg*.lean`; nothing is assumed about it. -/
def callDepth : Nat := {depth}

/-- gsd.pest, rule by rule, in file order. -/
def ruleDef : Rule → RuleTy × Expr
'''


def generate(pest_path):
    src = open(pest_path, encoding="utf-8").read()
    rules = Parser(tokenize(src)).grammar()
    if not rules:
        raise Unsupported("no rules found")
    names = [r[0] for r in rules]
    for n, _, _, line in rules:
        if names.count(n) > 1:
            raise Unsupported(f"line {line}: rule {n} is defined twice")
        if n in BUILTIN or n in UNSUPPORTED_BUILTIN or n == "EOI":
            raise Unsupported(f"line {line}: rule {n} redefines a built-in")
        if n in LEAN_KEYWORDS or n in ("all", "rec", "casesOn", "noConfusion", "ofNat", "toCtorIdx", "ctorIdx"):
            raise Unsupported(f"line {line}: rule name {n} clashes with a Lean keyword / generated name")
    used_eoi = []
    resolved = [(n, ty, resolve(e, set(names), used_eoi), line) for (n, ty, e, line) in rules]
    if used_eoi:
        resolved.append(("EOI", "normal", ("npred", ("any",)), 0))
    all_names = [r[0] for r in resolved]
    ctors, linebuf = [], "  |"
    for n in all_names:
        if len(linebuf) + len(n) + 3 > 100:
            ctors.append(linebuf); linebuf = "  |"
        linebuf += (" " if linebuf == "  |" else " | ") + n
    ctors.append(linebuf)
    allr, linebuf = [], ""
    for n in all_names:
        item = "." + n
        if len(linebuf) + len(item) + 2 > 96:
            allr.append(linebuf); linebuf = ""
        linebuf += ("" if not linebuf else ", ") + item
    allr.append(linebuf)
    out = PRELUDE.format(sha=hashlib.sha256(src.encode()).hexdigest(), ctors="\n".join(ctors),
                         allrules=",\n   ".join(allr), depth=call_depth(resolved))
    for n, ty, e, _ in resolved:
        out += f"  | .{n} => (.{ty}, {lean_expr(e)})\n"
    ws, cm = "WHITESPACE" in names, "COMMENT" in names
    if ws and cm:
        skip = ".seq (.star (.call .WHITESPACE)) (.star (.seq (.call .COMMENT) (.star (.call .WHITESPACE))))"
    elif ws:
        skip = ".star (.call .WHITESPACE)"
    elif cm:
        skip = ".star (.call .COMMENT)"
    else:
        skip = ".str []"
    out += ("\n/-- Implicit skipping between the parts of a non-atomic sequence / repetition, as pest generates it\n"
            "from the rules `WHITESPACE` / `COMMENT` (where defined): `WHITESPACE* (COMMENT WHITESPACE*)*`,\n"
            "evaluated atomically. -/\n"
            f"def skipExpr : Expr := {skip}\n")
    out += "\nend PV.Gsd.Peg\n"
    return out


def main():
    args = [a for a in sys.argv[1:] if not a.startswith("--")]
    pest = args[0] if args else os.path.join(source_tree(), "gsd-parser", "src", "gsd.pest")
    try:
        text = generate(pest)
    except Unsupported as e:
        die(f"{pest}: unsupported pest construct: {e}")
    except OSError as e:
        die(f"cannot read {pest}: {e}")
    if "--stdout" in sys.argv:
        sys.stdout.write(text); return 0
    old = open(OUT).read() if os.path.exists(OUT) else None
    if "--check" in sys.argv:
        if old != text:
            print(f"pest2lean: {OUT} is not what {pest} translates to"); return 1
        print("pest2lean: Grammar.lean is up to date"); return 0
    if old != text:
        with open(OUT, "w") as f:
            f.write(text)
        print(f"pest2lean: regenerated {os.path.relpath(OUT, ROOT)} from {pest}" + ("" if old is None else " (CHANGED)"))
    else:
        print(f"pest2lean: {os.path.relpath(OUT, ROOT)} is up to date with {pest}")
    return 0


if __name__ == "__main__":
    sys.exit(main())
