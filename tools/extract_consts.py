#!/usr/bin/env python3
"""DESIGN 2.6: extract the constant tables from /repo's source on every run and compare them with the
constants the Lean model was proved about (lean/ProfiVerif/Model/Telegram.lean)."""
import re, sys, os
ROOT = os.path.dirname(os.path.dirname(os.path.abspath(__file__)))
src = open('/repo/src/consts.rs').read()
lean = open(os.path.join(ROOT, 'lean/ProfiVerif/Model/Telegram.lean')).read()
rust = {}
for m in re.finditer(r'pub const (\w+): u8 = (0x[0-9A-Fa-f]+|\d+);', src):
    rust[m.group(1)] = int(m.group(2), 0)
for m in re.finditer(r'pub const (\w+): Option<u8> = (None|Some\((\d+)\));', src):
    rust[m.group(1)] = None if m.group(2) == 'None' else int(m.group(3))
model = {}
for m in re.finditer(r'^def (\w+)\s*:\s*UInt8 := (0x[0-9A-Fa-f]+|\d+)', lean, re.M):
    model[m.group(1)] = int(m.group(2), 0)
for m in re.finditer(r'^def (SAP_\w+) : Option UInt8 := (none|some (\d+))', lean, re.M):
    model[m.group(1)] = None if m.group(2) == 'none' else int(m.group(3))
bad = [(k, v, rust.get(k, 'missing')) for k, v in model.items() if rust.get(k, 'missing') != v]
for k in ('SD1', 'SD2', 'SD3', 'SD4', 'ED', 'SC'):
    if k not in model: bad.append((k, 'missing-in-model', rust.get(k)))
# DiagnosticFlags (bitflags! in src/dp/peripheral.rs) against the flag masks of Model/Diag.lean and
# Model/Dp/Peripheral.lean (the masks the C03 / C07 / C17 theorems are about)
psrc = open('/repo/src/dp/peripheral.rs').read()
rflags = {m.group(1): int(m.group(2).replace('_', ''), 2)
          for m in re.finditer(r'^\s*const (\w+)\s*=\s*0b([01_]+);', psrc, re.M)}
mflags = {}
for fn in ('lean/ProfiVerif/Model/Diag.lean', 'lean/ProfiVerif/Model/Dp/Peripheral.lean'):
    for m in re.finditer(r'^def ([A-Z_]+)\s*:\s*UInt16 := (0x[0-9A-Fa-f]+|\d+)', open(os.path.join(ROOT, fn)).read(), re.M):
        mflags[m.group(1)] = int(m.group(2), 0)
for k in ('STATION_NOT_READY', 'CONFIGURATION_FAULT', 'PARAMETER_FAULT', 'PARAMETER_REQUIRED', 'PERMANENT_BIT', 'EXT_DIAG'):
    if k not in mflags: bad.append((k, 'missing-in-model', rflags.get(k)))
bad += [(k, v, rflags.get(k, 'missing')) for k, v in mflags.items() if rflags.get(k, 'missing') != v]
if bad:
    for k, a, b in bad: print(f'constant {k}: model={a} source={b}')
    sys.exit(1)
print(f'consts ok: {len(model)} constants of src/consts.rs and {len(mflags)} DiagnosticFlags masks of src/dp/peripheral.rs equal the model\'s')
