#!/usr/bin/env python3
"""Generate MANIFEST.json from props.json (claimed properties) and the fixed property list."""
import json, os
ROOT = os.path.dirname(os.path.dirname(os.path.abspath(__file__)))
import os
props = {f[:-5]: json.load(open(ROOT+'/props/'+f)) for f in sorted(os.listdir(ROOT+'/props')) if f.endswith('.json')}
ids = [json.loads(l)['id'] for l in open(ROOT+'/properties.jsonl')]
NA = json.load(open(ROOT+'/not_applicable.json'))
checks = []
for pid in ids:
    if pid not in props: continue
    c = props[pid]
    checks.append({
        "property_id": pid,
        "quick_cmd": f"./check {pid} --tier quick",
        "thorough_cmd": f"./check {pid} --tier thorough",
        "evidence_file": f"/verif/evidence/{pid}.json",
        "replay_cmd_template": f"./check {pid} --replay {{path}}",
        "engine": "+".join(e["name"] for e in c["engines"]),
        "level_claimed": {"category": "proof", "text": c["level_text"], "design_ref": c.get("design_ref", "DESIGN.md section 6 " + pid)},
        "level_note": c["level_note"],
        "technique": c.get("technique", "Lean 4 machine-checked proof about a hand-written executable model + differential correspondence check of model vs. implementation"),
    })
m = {
    "version": 1,
    "setup_cmd": "./check --setup",
    "hooks": {
        "guard": "verif-hooks",
        "enable": "cargo feature `verif-hooks` of the profirust crate (enabled by /verif/harness/Cargo.toml)",
        "baseline_off_cmd": "cd /repo && cargo test --workspace --no-fail-fast --offline",
        "source_commits": json.load(open(ROOT+'/hooks.json'))["source_commits"],
        "add_only": True,
    },
    "engines": [{"name": "lean-model+rust-harness", "path": "/verif/lean, /verif/harness, /verif/check",
                 "serves_properties": [c["property_id"] for c in checks],
                 "kind_free_text": "Lean 4 models + theorems (lean/ProfiVerif), Rust differential harness (harness/), python orchestrator (check)"}],
    "checks": checks,
    "not_applicable": [x for x in NA if x["property_id"] not in props],
    "notes": "See DESIGN.md. Every check: lake build of the property's theorems + axiom audit, rebuild of the harness against /repo's working tree, correspondence (implementation vs. Lean model on the same operation lines), property oracle on the implementation's observations, triage against known_findings.json.",
}
json.dump(m, open(ROOT+'/MANIFEST.json', 'w'), indent=1)
print("claimed:", [c["property_id"] for c in checks], "not_applicable:", [x["property_id"] for x in m["not_applicable"]])
