#!/usr/bin/env python3
"""Regenerates corpus/apps/*.ops (minimal hand-designed cases of the `apps` engine, C18).
Deterministic; run from the repository root:  python3 tools/gen_apps_corpus.py"""
import os

ROOT = os.path.join(os.path.dirname(os.path.abspath(__file__)), "..", "corpus", "apps")


def visit(k, a, reply=None, take=True):
    """one token visit of address a: probe, callback, collect, end of visit"""
    l = [f"{k}.tx 0", f"{k}.reply {a} {reply}" if reply else f"{k}.timeout {a}"]
    if take:
        l.append(f"{k}.take")
    l.append(f"{k}.tx 0")
    return l


def sweep(k, env, frm=0, to=126):
    l = []
    for a in range(frm, to):
        l += visit(k, a, env.get(a))
    return l


def status(own, a, state=0):
    return f"data {own} {a} - - r.{state}.0 -"


def diag(own, a, pdu="020500021234"):
    return f"data {own} {a} 62 60 r.0.8 {pdu}"


def write(name, lines):
    with open(os.path.join(ROOT, name), "w") as f:
        f.write("\n".join(lines) + "\n")


os.makedirs(ROOT, exist_ok=True)

# 1. cursor wrap: 125 is the last address probed, the next probe is 0 (never 126 / 127)
own = 2
env = {125: status(own, 125, 3), 0: status(own, 0)}
l = ["# cursor wrap at 125 -> 0; stations 0 and 125 discovered, then two more stable sweeps",
     f"ll.new {own}", "ll.env 0:g,125:g"]
l += sweep("ll", env) + ["ll.stations"] + sweep("ll", env) + sweep("ll", env) + ["ll.stations", "ll.take"]
write("01_wrap_125.ops", l)

# 2. own address: probed like any other (own = 0 is the very first probe; own = 125 the last of a sweep)
l = ["# the own address is probed and times out", "ll.new 0", "ll.env 1:g"]
l += visit("ll", 0) + visit("ll", 1, status(0, 1)) + ["ll.stations"]
l += ["sc.new 125", "sc.env 124:g"] + sweep("sc", {124: diag(125, 124)}) + ["sc.tx 1"]
l += ["# a reply 'from' the own address (contract allows it, physically impossible): listed like any other",
      "ll.new 1", "ll.env -"] + visit("ll", 0) + visit("ll", 1, status(1, 1)) + ["ll.stations"]
write("02_own_address.ops", l)

# 3. short confirmation as reply to the status request: bit set without Discovered, later Lost without predecessor
own = 2
l = ["# excluded environment of events_alternate: SC is not a status reply", f"ll.new {own}", "ll.env 0:m"]
l += visit("ll", 0, "sc") + ["ll.stations"] + sweep("ll", {}, 1) + ["ll.env -"] + visit("ll", 0) + ["ll.stations"]
write("03_sc_reply.ops", l)

# 4. regression of K_C18_scanner_stale (fixed in c0f8a92): peripheral 0 found, then the address keeps answering but not with a
#    diagnostics response (here: SC; an RS response has the same effect) -> never reported lost
own = 2
l = ["# regression (former finding K_C18_scanner_stale, fixed in c0f8a92): stale DP peripheral is reported lost", f"sc.new {own}", "sc.env 0:g"]
l += sweep("sc", {0: diag(own, 0)}) + ["sc.env 0:m"]
l += sweep("sc", {0: "sc"}) + sweep("sc", {0: status(own, 0, 3).replace("r.3.0", "r.3.3")}) + ["sc.take"]
write("04_scanner_stale.ops", l)

# 5. ParametersBuilder::new(126) asserts; the object does not exist
write("05_new_126.ops", ["ll.new 126", "ll.tx 0", "ll.take", "ll.stations", "sc.new 126", "sc.tx 0", "sc.take"])

# 6. outside the contract: address >= 128 indexes outside the 128-bit array -> panic; 126/127 do not
l = ["ll.new 2", "ll.reply 127 sc", "ll.stations", "ll.timeout 127", "ll.take", "ll.reply 128 sc", "ll.tx 0",
     "sc.new 2", "sc.timeout 126", "sc.reply 126 " + diag(2, 126), "sc.take", "sc.timeout 255", "sc.take",
     "ll.new 2", "ll.timeout 200", "ll.stations"]
write("06_address_range.ops", l)

# 7. event overwritten when not collected (allowed by the property: events must be collected after every poll)
l = ["ll.new 2", "ll.env 0:g,1:g"] + visit("ll", 0, status(2, 0), take=False) + visit("ll", 1, status(2, 1), take=False)
l += ["ll.take", "ll.take", "ll.stations"]
l += ["sc.new 2", "sc.env 0:g"] + visit("sc", 0, diag(2, 0, "000400ff0001aabb")) + sweep("sc", {}, 1)
l += visit("sc", 0, diag(2, 0, "0004000580ff")) + ["# short PDU / wrong SAP: no event, bit unchanged"]
l += sweep("sc", {}, 1) + visit("sc", 0, diag(2, 0, "0004000580")) + ["sc.take"]
write("07_events.ops", l)
