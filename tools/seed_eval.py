#!/usr/bin/env python3
"""Evaluate a seeded mutation:  tools/seed_eval.py <PROP> <m1|m2> [--confirm]
 --confirm : in the scratch worktree /tmp/seed/<PROP>, confirm (a) the existing suite passes with the patch,
             (b) the demo fails with it, (c) the demo passes without it.
 always    : apply the patch to /repo, run every claimed check (quick), undo; record which checks fire.
Writes /verif/seeded/<PROP>-<m>/{patch.diff,demo.rs,meta.json}."""
import json, os, re, shutil, subprocess, sys, time
prop, m = sys.argv[1], sys.argv[2]
confirm = "--confirm" in sys.argv
src = f"/tmp/seed/out/{prop}/{m}"
wt = f"/tmp/seed/{prop}"
dst = f"/verif/seeded/{prop}-{m}"
os.makedirs(dst, exist_ok=True)
env = dict(os.environ, CARGO_NET_OFFLINE="true")
def sh(cmd, cwd=None, timeout=3600):
    p = subprocess.run(cmd, shell=True, cwd=cwd, env=env, stdout=subprocess.PIPE, stderr=subprocess.STDOUT, text=True, timeout=timeout)
    return p.returncode, p.stdout
meta = {"property": prop, "mutation": m}
if os.path.exists(os.path.join(dst, "meta.json")):
    try: meta.update(json.load(open(os.path.join(dst, "meta.json"))))
    except Exception: pass
if not os.path.exists(os.path.join(src, "patch.diff")): src = dst   # already imported earlier
patch = os.path.join(src, "patch.diff")
if src != dst: shutil.copy(patch, dst)
if src != dst and os.path.exists(os.path.join(src, "demo.rs")): shutil.copy(os.path.join(src, "demo.rs"), dst)
if os.path.exists(os.path.join(src, "meta.txt")): meta["needs"] = open(os.path.join(src, "meta.txt")).read()[:3000]
if confirm and os.path.isdir(wt):
    sh("git checkout -- . && git clean -fdq -e target", cwd=wt)
    rc, out = sh(f"git apply {patch}", cwd=wt)
    meta["patch_applies"] = rc == 0
    rc, out = sh("cargo test --workspace --no-fail-fast --offline 2>&1 | grep -E '^test result' ", cwd=wt)
    passed = sum(int(x) for x in re.findall(r"(\d+) passed", out)); failed = sum(int(x) for x in re.findall(r"(\d+) failed", out))
    meta["suite_with_patch"] = {"passed": passed, "failed": failed}
    demo_name = f"demo_seed_{prop.lower()}_{m}"
    is_gsd = "gsd_parser" in open(os.path.join(src, "demo.rs")).read() and "profirust::" not in open(os.path.join(src, "demo.rs")).read()
    tdir = os.path.join(wt, "gsd-parser/tests" if is_gsd else "tests")
    os.makedirs(tdir, exist_ok=True)
    shutil.copy(os.path.join(src, "demo.rs"), os.path.join(tdir, demo_name + ".rs"))
    pkg = "-p gsd-parser" if is_gsd else ""
    rc1, out1 = sh(f"cargo test --offline {pkg} --test {demo_name} -- --test-threads=1 2>&1 | tail -15", cwd=wt)
    meta["demo_with_patch_fails"] = "FAILED" in out1 or "panicked" in out1
    sh(f"git apply -R {patch}", cwd=wt)
    rc2, out2 = sh(f"cargo test --offline {pkg} --test {demo_name} -- --test-threads=1 2>&1 | tail -8", cwd=wt)
    meta["demo_without_patch_passes"] = ("test result: ok" in out2) and "FAILED" not in out2
    meta["demo_cmd"] = f"cp demo.rs <worktree>/{'gsd-parser/' if is_gsd else ''}tests/{demo_name}.rs && cargo test --offline {pkg} --test {demo_name}"
    sh("git checkout -- . && git clean -fdq -e target", cwd=wt)
if "--no-checks" in sys.argv:
    json.dump(meta, open(os.path.join(dst, "meta.json"), "w"), indent=1)
    print(prop, m, "confirmed:", {k: meta.get(k) for k in ("suite_with_patch", "demo_with_patch_fails", "demo_without_patch_passes")})
    sys.exit(0)
# run my checks against the mutation — in an isolated sandbox copy of /repo and /verif (so that the
# real /repo is never touched and work in /verif can go on): /tmp/seedbox/{repo,verif}
BOX = "/tmp/seedbox"
for a in sys.argv:
    if a.startswith("--box="): BOX = "/tmp/seedbox" + a.split("=")[1]
if "--refresh" in sys.argv or not os.path.isdir(BOX + "/verif"):
    sh(f"mkdir -p {BOX} && rsync -a --delete --exclude target /repo/ {BOX}/repo/ && rsync -a --delete --exclude out --exclude seeded /verif/ {BOX}/verif/")
    sh(f"sed -i 's#path = \"/repo#path = \"{BOX}/repo#g' {BOX}/verif/harness/Cargo.toml")
    sh(f"sed -i 's#/repo/src/consts.rs#{BOX}/repo/src/consts.rs#' {BOX}/verif/tools/extract_consts.py")
sh(f"git -C {BOX}/repo checkout -- .")
rc, out = sh(f"git -C {BOX}/repo apply {patch}")
assert rc == 0, out
fired = {}
try:
    props = sorted(f[:-5] for f in os.listdir(BOX + "/verif/props") if f.endswith(".json"))
    # only the checks whose engines link the changed code can react (the others neither build nor run it)
    touched = re.findall(r"^\+\+\+ b/(\S+)", open(patch).read(), re.M)
    FDL = ["C01", "C02", "C05", "C06", "C11", "C12", "C13", "C15"]
    DP = ["C03", "C04", "C07", "C08", "C14", "C17", "C18"]
    rel = set([prop])
    for t in touched:
        if t.startswith("gsd-parser/"): rel |= {"C19", "C20"}
        elif t.startswith("src/dp/"): rel |= set(DP)
        elif t.endswith("live_list.rs"): rel |= {"C18"}
        elif t.endswith("active.rs") or t.endswith("token_ring.rs"): rel |= set(FDL)
        else: rel |= set(FDL) | set(DP) | {"C09", "C10", "C16"}
    if "--all" not in sys.argv: props = [p for p in props if p in rel]
    if "--own-only" in sys.argv:
        also = [a.split("=")[1] for a in sys.argv if a.startswith("--also=")]
        props = [p for p in props if p == prop or p in also]
        meta["note"] = "only the own property's check (and --also) was run; the other checks on the same engine see the same correspondence break"
    meta["checks_run"] = props
    for p in props:
        t0 = time.time()
        rc, out = sh(f"./check {p} --tier quick", cwd=BOX + "/verif", timeout=3000)
        v = [l for l in out.splitlines() if l.startswith("VIOLATION")]
        if v:
            v.sort(key=lambda l: "no-failing-input-found" in l)   # a concrete violation first
            rep = re.search(r"replay=(\S+)", v[0]).group(1)
            clause = ""
            try:
                txt = open(rep).read()
                mm = re.search(r"^clause: (.*)$", txt, re.M)
                clause = (mm.group(1) if mm else re.search(r"^kind: (.*)$", txt, re.M).group(1))[:200]
            except Exception: pass
            fired[p] = {"line": v[0][:200], "clause": clause}
finally:
    sh(f"git -C {BOX}/repo checkout -- .")
meta["checks_fired"] = fired
meta["caught_by_own_property"] = prop in fired and "no-failing-input-found" not in fired[prop]["line"]
meta["what_i_ran"] = "tools/seed_eval.py: patch applied to an isolated copy of /repo, every claimed quick check whose engines link the changed files run (checks_run), patch undone" + ("; suite+demo confirmed in scratch worktree" if confirm else "")
json.dump(meta, open(os.path.join(dst, "meta.json"), "w"), indent=1)
print(prop, m, "fired:", {k: ("concrete" if "no-failing" not in v["line"] else "corr-break") for k, v in fired.items()}, {k: meta.get(k) for k in ("suite_with_patch", "demo_with_patch_fails", "demo_without_patch_passes")})
