#!/usr/bin/env python3
"""Print the markdown table of seeded changes (DESIGN 12.5) from seeded/*/meta.json."""
import json, glob, os, re
print("| seed | change | files | own check | other checks that fire |")
print("|---|---|---|---|---|")
for d in sorted(glob.glob(os.path.join(os.path.dirname(__file__), "..", "seeded", "*", ""))):
    m = json.load(open(d + "meta.json"))
    f = m.get("checks_fired", {})
    cls = lambda v: "concrete" if "no-failing" not in v["line"] else "corr"
    own = m["property"]
    o = cls(f[own]) if own in f else "missed"
    oth = ", ".join(f"{k} {cls(v)}" for k, v in f.items() if k != own) or "—"
    needs = m.get("needs") or ""
    lines = [l.strip() for l in needs.splitlines() if l.strip() and not set(l.strip()) <= set("=-")]
    title = lines[0] if lines else ""
    for sep in (" -- ", " — ", "--  ", "): "):
        if sep in title:
            title = title.split(sep, 1)[1].strip()
            break
    patch = open(d + "patch.diff").read()
    files = ", ".join(sorted({os.path.basename(l[6:]) for l in patch.splitlines() if l.startswith("+++ b/")}))
    clause = (f.get(own, {}).get("clause") or "").replace("|", "/")[:110]
    print(f"| {os.path.basename(d[:-1])} | {title[:140].replace('|','/')} | {files} | {o}" + (f": {clause}" if clause and o == "concrete" else "") + f" | {oth} |")
