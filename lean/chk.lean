import ProfiVerif.Props.C15
open PV PV.C05 PV.C15
def orderStation : Station :=
  { (Station.new demoParams) with online := true, st := .useToken ⟨0, none⟩ false, lastBusActivity := some 0, endTokenHoldTime := 1000000 }
def orderApps : Apps := [[], [.send (fdlStatusRequestHeader 9 7) []], []]
def orderWorld : World := ⟨orderStation, orderApps, []⟩
#eval (match orderWorld.runLog [.poll 1000 false [], .poll 100000 false []] with | some (w, log) => (log, w.s.nextApp, w.s.st) | none => ([], 99, .offline))
#eval (match orderWorld.runLog [.poll 1000 false []] with | some (w, log) => (log, w.s.nextApp, w.s.st) | none => ([], 99, .offline))
