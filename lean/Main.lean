import ProfiVerif.Driver.Util
open PV PV.Driver

/-- One protocol line → one output line (stateless engines). -/
def stepLine (line : String) : String :=
  match line.trimAscii.toString.splitOn " " with
  | ["enc", da, sa, dsap, ssap, fc, pdu] =>
    match parseHeader da sa dsap ssap fc, hexToBytes pdu with
    | some h, some p =>
      let r := h.serialize p
      s!"{showTx r} exp={showOptU8 (expectsReplyOf h)} len={h.telegramLen p.length}"
    | _, _ => "bad-op"
  | ["tok", da, sa] =>
    match u8? da, u8? sa with
    | some d, some s => s!"ok {bytesToHex (sendToken d s)}"
    | _, _ => "bad-op"
  | ["sc"] => s!"ok {bytesToHex sendSc}"
  | ["dec", hex] =>
    match hexToBytes hex with
    | some bs => showDecoded (deserialize bs)
    | none => "bad-op"
  | ["fcb", b] =>
    match u8? b with
    | some b =>
      match FunctionCode.fromByte b with
      | .ok fc => s!"ok {showFc fc} {fc.toByte.toNat}"
      | .error .invalidRequestType => "err req"
      | .error .invalidResponseState => "err state"
      | .error .invalidResponseStatus => "err status"
    | none => "bad-op"
  | _ => "bad-op"

partial def loop (h : IO.FS.Stream) (out : IO.FS.Stream) : IO Unit := do
  let line ← h.getLine
  if line.isEmpty then return ()
  out.putStrLn (stepLine line)
  loop h out

def main : IO Unit := do
  let out ← IO.getStdout
  loop (← IO.getStdin) out
