import ProfiVerif.Driver.Codec
open PV PV.Driver

/-- Model mode: stateless engines answer line by line. -/
def stepLine (line : String) : String :=
  let w := splitWords line
  match stepCodec w with
  | some r => r
  | none => "bad-op"

partial def loop (h : IO.FS.Stream) (out : IO.FS.Stream) : IO Unit := do
  let line ← h.getLine
  if line.isEmpty then return ()
  out.putStrLn (stepLine line)
  loop h out

def oracleOf (name : String) : Option (String → String → Option (String × String)) :=
  match name with
  | "C09" => some oracleC09
  | _ => none

def runOracle (name opsFile implFile : String) : IO UInt32 := do
  match oracleOf name with
  | none => IO.eprintln s!"unknown oracle {name}"; return 2
  | some f =>
    let ops := (← IO.FS.lines opsFile)
    let obs := (← IO.FS.lines implFile)
    let out ← IO.getStdout
    let mut failed := 0
    let mut checked := 0
    for i in [0:ops.size] do
      let o := obs.getD i ""
      match f (ops.getD i "") o with
      | none => checked := checked + 1
      | some (cls, why) =>
        checked := checked + 1
        failed := failed + 1
        if failed ≤ 200 then out.putStrLn s!"FAIL {i+1} {cls} {why}"
    out.putStrLn s!"ORACLE checked={checked} failed={failed}"
    return 0

def main (args : List String) : IO UInt32 := do
  match args with
  | ["oracle", name, opsFile, implFile] => runOracle name opsFile implFile
  | _ =>
    let out ← IO.getStdout
    loop (← IO.getStdin) out
    return 0
