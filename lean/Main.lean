import ProfiVerif.Driver.Codec
import ProfiVerif.Driver.PhyRx
import ProfiVerif.Driver.Gap
import ProfiVerif.Driver.Gsd
import ProfiVerif.Driver.Las
import ProfiVerif.Driver.Diag
import ProfiVerif.Driver.Apps
import ProfiVerif.Driver.Prm
import ProfiVerif.Driver.Station
import ProfiVerif.Driver.StationOracle
import ProfiVerif.Driver.Net
import ProfiVerif.Driver.NetOracle
import ProfiVerif.Driver.DpOracle
import ProfiVerif.Driver.DpLive
open PV PV.Driver

/-
pvdriver model <engine>              : op lines on stdin → model observation lines on stdout
pvdriver oracle <name> <ops> <impl>  : property oracle over the implementation's observations
One line per engine / oracle below; each engine lives in its own `Driver/<Engine>.lean`.
-/
def main (args : List String) : IO UInt32 := do
  let inp ← IO.getStdin
  let out ← IO.getStdout
  match args with
  | ["model", "codec"] => engineLoop (fun (_ : Unit) l => ((), (stepCodec (splitWords l)).getD "bad-op")) () inp out; return 0
  | ["model", "decoder"] => engineLoop (fun (_ : Unit) l => ((), (stepDecoder (splitWords l)).getD "bad-op")) () inp out; return 0
  | ["oracle", "C01st", o, i] => oracleLoop (oracleStation "C01") {} o i
  | ["oracle", "C05st", o, i] => oracleLoop (oracleStation "C05") {} o i
  | ["oracle", "C06st", o, i] => oracleLoop (oracleStation "C06") {} o i
  | ["oracle", "C11st", o, i] => oracleLoop (oracleStation "C11") {} o i
  | ["oracle", "C12st", o, i] => oracleLoop (oracleStation "C12") {} o i
  | ["oracle", "C13st", o, i] => oracleLoop (oracleStation "C13") {} o i
  | ["oracle", "C15st", o, i] => oracleLoop (oracleStation "C15") {} o i
  | ["oracle", "C01net", o, i] => oracleLoop (oracleNet "C01") {} o i
  | ["oracle", "C02net", o, i] => oracleLoop (oracleNet "C02") {} o i
  | ["oracle", "C05net", o, i] => oracleLoop (oracleNet "C05") {} o i
  | ["oracle", "C06net", o, i] => oracleLoop (oracleNet "C06") {} o i
  | ["oracle", "C13net", o, i] => oracleLoop (oracleNet "C13") {} o i
  | ["model", "net"] => engineLoop stepNet none inp out; return 0
  | ["model", "station"] => engineLoop stepStation none inp out; return 0
  | ["model", "prm"] => engineLoop stepPrm none inp out; return 0
  | ["oracle", "C20", o, i] => oracleLoop oracleC20 (none, 0) o i
  | ["model", "phyrx"] => engineLoop stepPhyRx {} inp out; return 0
  | ["model", "apps"] => engineLoop (fun (st : AppsState) l => stepApps st (splitWords l)) {} inp out; return 0
  | ["model", "appsfdl"] => engineLoop (fun (st : AppsState) l => stepApps st (splitWords l)) {} inp out; return 0
  | ["oracle", "C18", o, i] => oracleLoop oracleC18 {} o i
  | ["oracle", "C05apps", o, i] => oracleLoop oracleC05apps {} o i
  | ["oracle", "C05any", o, i] => oracleLoop (fun (_ : Unit) op obs => ((), oracleC05any op obs)) () o i
  | ["oracle", "C05dp", o, i] => oracleLoop oracleC05dp ({}, ()) o i
  | ["model", "dp"] => engineLoop (fun (st : Option DpCase) l => stepDp st (splitWords l)) none inp out; return 0
  | ["model", "dpfdl"] => engineLoop (fun (st : Option DpCase) l => stepDp st (splitWords l)) none inp out; return 0
  | ["oracle", "C03", o, i] => oracleLoop oracleC03 ({}, {}) o i
  | ["oracle", "C04", o, i] => oracleLoop oracleC04 ({}, {}) o i
  | ["oracle", "C08", o, i] => oracleLoop oracleC08 ({}, {}) o i
  | ["oracle", "C14", o, i] => oracleLoop oracleC14 ({}, {}) o i
  | ["model", "dplive"] => engineLoop (fun (st : DlState) l => stepDpLive st (splitWords l)) {} inp out; return 0
  | ["oracle", "C07", o, i] => oracleLoop oracleC07 {} o i
  | ["model", "diag"] => engineLoop (fun (st : Option PV.Diag.PState) l => stepDiag st (splitWords l)) none inp out; return 0
  | ["oracle", "C17", o, i] => oracleLoop oracleC17 { cap := 0, prev := "last=-" } o i
  | ["oracle", "C02las", o, i] => oracleLoop oracleLas {} o i
  | ["model", "las"] => engineLoop stepLas none inp out; return 0
  | ["model", "gsd"] => engineLoop (fun (_ : Unit) l => ((), (stepGsd (splitWords l)).getD "bad-op")) () inp out; return 0
  | ["oracle", "C19", o, i] => oracleLoop (fun (_ : Unit) op obs => ((), oracleC19 op obs)) () o i
  | ["model", "gap"] => engineLoop (fun (_ : Unit) l => ((), stepGap l)) () inp out; return 0
  | ["oracle", "C12gap", o, i] => oracleLoop (fun (_ : Unit) op obs => ((), oracleGap op obs)) () o i
  | ["oracle", "C16", o, i] => oracleLoop oracleC16 {} o i
  | ["oracle", "C10", o, i] => oracleLoop (fun (_ : Unit) op obs => ((), oracleC10 op obs)) () o i
  | ["oracle", "C09", o, i] => oracleLoop (fun (_ : Unit) op obs => ((), oracleC09 op obs)) () o i
  | _ => IO.eprintln "usage: pvdriver model <engine> | oracle <name> <ops> <impl>"; return 2
