import ProfiVerif.Driver.Apps
import ProfiVerif.Driver.Codec
open PV PV.Driver

/-
pvdriver model <engine>              : op lines on stdin → model observation lines on stdout
pvdriver oracle <name> <ops> <impl>  : property oracle over the implementation's observations
One line per engine / oracle below; each engine lives in its own `Driver/<Engine>.lean`.
-/
def main (args : List String) : IO UInt32 := do
  let inp ← IO.getStdin
  let out ← IO.getStdout
  match args with
  | ["model", "apps"] => engineLoop (fun (st : AppsState) l => stepApps st (splitWords l)) {} inp out; return 0
  | ["model", "codec"] => engineLoop (fun (_ : Unit) l => ((), (stepCodec (splitWords l)).getD "bad-op")) () inp out; return 0
  | ["oracle", "C18", o, i] => oracleLoop oracleC18 {} o i
  | ["oracle", "C09", o, i] => oracleLoop (fun (_ : Unit) op obs => ((), oracleC09 op obs)) () o i
  | _ => IO.eprintln "usage: pvdriver model <engine> | oracle <name> <ops> <impl>"; return 2
