import ProfiVerif.Driver.Codec
import ProfiVerif.Driver.Gsd
open PV PV.Driver

/-
pvdriver model <engine>              : op lines on stdin → model observation lines on stdout
pvdriver oracle <name> <ops> <impl>  : property oracle over the implementation's observations
One line per engine / oracle below; each engine lives in its own `Driver/<Engine>.lean`.
-/
def main (args : List String) : IO UInt32 := do
  let inp ← IO.getStdin
  let out ← IO.getStdout
  match args with
  | ["model", "codec"] => engineLoop (fun (_ : Unit) l => ((), (stepCodec (splitWords l)).getD "bad-op")) () inp out; return 0
  | ["model", "gsd"] => engineLoop (fun (_ : Unit) l => ((), (stepGsd (splitWords l)).getD "bad-op")) () inp out; return 0
  | ["oracle", "C09", o, i] => oracleLoop (fun (_ : Unit) op obs => ((), oracleC09 op obs)) () o i
  | ["oracle", "C19", o, i] => oracleLoop (fun (_ : Unit) op obs => ((), oracleC19 op obs)) () o i
  | _ => IO.eprintln "usage: pvdriver model <engine> | oracle <name> <ops> <impl>"; return 2
