open List in
#check @List.find?_filter
#check @List.find?_range_eq_some
#check @List.find?_range_eq_none
#check @List.head?_filter
#check @List.find?_eq_none
#check @List.find?_eq_some_iff_append
#check @List.head?_range
#check @List.find?_eq_head?_filter
