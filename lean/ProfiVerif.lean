import ProfiVerif.Props.C09
import ProfiVerif.Props.C10
