import ProfiVerif.Model.Telegram
import ProfiVerif.Props.C19
