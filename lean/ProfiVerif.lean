import ProfiVerif.Model.Telegram
