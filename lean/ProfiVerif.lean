import ProfiVerif.Props.C09
import ProfiVerif.Props.C10
import ProfiVerif.Props.C16
import ProfiVerif.Props.C12
import ProfiVerif.Props.C17
import ProfiVerif.Props.C18
import ProfiVerif.Props.C20
