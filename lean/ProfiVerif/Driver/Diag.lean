/-
Driver glue for the `diag` engine and the executable oracle of C17.
Line protocol: see the header of `harness/src/diag.rs`.
-/
import ProfiVerif.Driver.Codec
import ProfiVerif.Model.Diag

namespace PV.Driver
open PV PV.Diag

def parseTelegram (w : List String) : Option Telegram :=
  match w with
  | ["data", da, sa, dsap, ssap, fc, pdu] =>
    match parseHeader da sa dsap ssap fc, hexToBytes pdu with
    | some h, some p => some (.data h p)
    | _, _ => none
  | ["token", da, sa] =>
    match u8? da, u8? sa with
    | some d, some s => some (.token d s)
    | _, _ => none
  | ["sc"] => some .sc
  | _ => none

def parseMode : String → Option Bool
  | "off" => some false
  | "dx" => some true
  | _ => none

def dtypeName : DataType → String
  | .bit => "bit" | .bit2 => "bit2" | .bit4 => "bit4" | .byte => "byte" | .word => "word"
  | .dword => "dword" | .invalid => "invalid"

def errorName : ChanError → String
  | .shortCircuit => "shortcircuit" | .underVoltage => "undervoltage" | .overVoltage => "overvoltage"
  | .overLoad => "overload" | .overTemperature => "overtemperature" | .lineBreak => "linebreak"
  | .upperLimitOvershoot => "upperlimit" | .lowerLimitUndershoot => "lowerlimit" | .error => "error"
  | .reserved r => s!"reserved({r.toNat})"
  | .vendor v => s!"vendor({v.toNat})"

/-- Canonical block rendering; `onesF` = how the set bits of an identifier block are enumerated
(the model's `ones` on the model side, `Spec.ones` in the oracle). -/
def showBlockWith (onesF : Bytes → List Nat) : Block → String
  | .identifier bits => s!"id({8 * bits.length})[{",".intercalate ((onesF bits).map toString)}]"
  | .channel c =>
    let io := match c.input, c.output with
      | false, false => "-" | true, false => "i" | false, true => "o" | true, true => "io"
    s!"ch:{c.module.toNat},{c.channel.toNat},{io},{dtypeName c.dtype},{errorName c.error}"
  | .device d => s!"dev:{bytesToHex d}"

def showBlocksWith (onesF : Bytes → List Nat) (bs : List Block) : String :=
  if bs.isEmpty then "-" else ";".intercalate (bs.map (showBlockWith onesF))

def showIter : Iter → String
  | .ok bs => showBlocksWith ones bs
  | .panic => "panic"
  | .hang => "hang"

def showRaw : Raw → String
  | .none => "none"
  | .some bs => bytesToHex bs
  | .panic => "panic"

def showState (s : PState) : String :=
  match s.info with
  | none => "last=-"
  | some d =>
    let blocks := showIter s.ext.blocks
    let dbg := if s.ext.debugFails then "panic" else "ok"
    s!"flags={d.flags.toNat} ident={d.ident.toNat} master={showOptU8 d.master} ext={showRaw s.ext.raw} blocks={blocks} dbg={dbg}"

def showScanEvent : Option ScanEvent → String
  | none => "none"
  | some (.found a i m) => s!"found {a.toNat} ident={i.toNat} master={showOptU8 m}"
  | some (.requery a i m) => s!"requery {a.toNat} ident={i.toNat} master={showOptU8 m}"

/-- Station address the harness uses for the peripheral / the scanned station. -/
def slaveAddr : UInt8 := 7

/-- One reply to a peripheral in state `s`: new state (`none` after a panic) and observation. -/
def replyObs (s : PState) (t : Telegram) : Option PState × String :=
  match handle s t with
  | .rejected => (some s, s!"rejected {showState s}")
  | .accepted s' => (some s', s!"accepted {showState s'}")
  | .panic => (none, "panic")

/-- Model side of the `diag` engine (stateful: the current case). -/
def stepDiag (st : Option PState) (w : List String) : Option PState × String :=
  match w with
  | "diag" :: n :: m :: tg =>
    match n.toNat?, parseMode m, parseTelegram tg with
    | some n, some dx, some t =>
      match PState.start n dx with
      | some s => (st, (replyObs s t).2)
      | none => (st, "bad-start")
    | _, _, _ => (st, "bad-op")
  | ["new", n, m] =>
    match n.toNat?, parseMode m with
    | some n, some dx =>
      match PState.start n dx with
      | some s => (some s, s!"ok {showState s}")
      | none => (none, "bad-start")
    | _, _ => (st, "bad-op")
  | "reply" :: tg =>
    match parseTelegram tg with
    | some t =>
      match st with
      | none => (none, "nocase")
      | some s => replyObs s t
    | none => (st, "bad-op")
  | "iter0" :: m :: tg =>
    match parseMode m, parseTelegram tg with
    | some dx, some t =>
      match PState.start 0 dx with
      | none => (st, "bad-start")
      | some s =>
        match handle s t with
        | .panic => (st, "panic")
        | r =>
          let (s', verdict) := match r with
            | .accepted s' => (s', "accepted")
            | _ => (s, "rejected")
          let it := match s'.last with
            | none => "nolast"
            | some l =>
              match next l.raw 0 with
              | .panic => "panic"
              | .done _ => "none"
              | .yield _ _ => "some"
          (st, s!"{verdict} iter={it}")
    | _, _ => (st, "bad-op")
  | "scan" :: tg =>
    match parseTelegram tg with
    | some t =>
      match scanReply false slaveAddr t with
      | .panic => (st, "panic")
      | .event e1 k =>
        match scanReply k slaveAddr t with
        | .panic => (st, "panic")
        | .event e2 _ => (st, s!"{showScanEvent e1} | {showScanEvent e2}")
    | none => (st, "bad-op")
  | _ => (st, "bad-op")

/-! ### Oracle C17 — the statements of `Props/C17.lean` evaluated on the implementation's output.
Uses only `Spec.*` (never `handle`, `next`, `collect`). -/

/-- Oracle state: buffer capacity of the current case and the state the implementation showed last. -/
structure OState where
  cap : Nat
  prev : String

/-- State of a fresh peripheral as the property demands it. -/
def expectedInit (cap : Nat) (dx : Bool) : String :=
  if !dx then "last=-"
  else s!"flags=0 ident=0 master=- ext={if cap = 0 then "none" else "-"} blocks=- dbg=ok"

def field (key : String) (w : String) : Option String :=
  if w.startsWith (key ++ "=") then some ((w.drop (key.length + 1)).toString) else none

/-- The `ext=` field of a state string (`none` buffer / nothing stored yet for `last=-`). -/
def extOfState (cap : Nat) (state : String) : String :=
  match (state.splitOn " ") with
  | [_, _, _, e, _, _] => (field "ext" e).getD "?"
  | _ => if cap = 0 then "none" else "-"

/-- Check one reply observation `obs` against the spec; returns the failure (if any) and the state
string the implementation now shows. -/
def checkReply (cap : Nat) (prev : String) (t : Telegram) (obs : String) :
    Option (String × String) × String :=
  if obs = "panic" then (some ("C17", "receive_reply panicked"), prev) else
  match obs.splitOn " " with
  | verdict :: rest =>
    let state := " ".intercalate rest
    let acc := Spec.accepts t
    if verdict ≠ "accepted" ∧ verdict ≠ "rejected" then (some ("C17", s!"unexpected observation `{obs}`"), prev)
    else if acc ∧ verdict = "rejected" then (some ("C17", "diag_rejects: a well-formed diagnostics reply was rejected"), state)
    else if !acc ∧ verdict = "accepted" then (some ("C17", "diag_rejects: a short / mis-addressed / non-data reply was accepted"), state)
    else if !acc then
      if state = prev then (none, state)
      else (some ("C17", s!"diag_rejects: rejected reply changed the diagnostics state (was `{prev}`)"), state)
    else
      match t, rest with
      | .data _ pdu, [f, i, m, e, b, d] =>
        let wantF := s!"flags={Spec.flagsNat pdu}"
        let wantI := s!"ident={Spec.identNat pdu}"
        let wantM := s!"master={showOptU8 (Spec.masterOf pdu)}"
        let prevExt := extOfState cap prev
        let ext := (field "ext" e).getD "?"
        -- stored iff flag + buffer + fit, then equal to pdu[6..]; otherwise nothing of this reply may
        -- be stored: the previous content is kept (what the code does and `handle_stores` proves) —
        -- clearing it instead would not contradict the property statement and is left to the
        -- correspondence check, a truncated or unflagged store is a violation.
        let extOk :=
          if cap = 0 then ext = "none"
          else if Spec.stores cap pdu then ext = bytesToHex (pdu.drop 6)
          else ext = prevExt ∨ ext = "-"
        let wantE := if cap = 0 then "none" else if Spec.stores cap pdu then bytesToHex (pdu.drop 6) else prevExt
        let wantB :=
          if ext = "none" then "-" else
          match hexToBytes ext with
          | some bs => showBlocksWith Spec.ones (Spec.parse bs)
          | none => "?"
        let r :=
          if f ≠ wantF then some ("C17", s!"diag_header: want {wantF}")
          else if i ≠ wantI then some ("C17", s!"diag_header: want {wantI}")
          else if m ≠ wantM then some ("C17", s!"diag_header: want {wantM}")
          else if !extOk then some ("C17", s!"fill_iff: want ext={wantE}")
          else if b ≠ s!"blocks={wantB}" then some ("C17", s!"blocks_spec: want blocks={wantB}")
          else if d ≠ "dbg=ok" then some ("C17", "blocks_total: Debug formatting panicked")
          else none
        (r, state)
      | _, _ => (some ("C17", s!"unexpected observation `{obs}`"), state)
  | [] => (some ("C17", "empty observation"), prev)

def oracleC17 (st : OState) (op obs : String) : OState × Option (String × String) :=
  match splitWords op with
  | "diag" :: n :: m :: tg =>
    match n.toNat?, parseMode m, parseTelegram tg with
    | some n, some dx, some t => (st, (checkReply n (expectedInit n dx) t obs).1)
    | _, _, _ => (st, none)
  | ["new", n, m] =>
    match n.toNat?, parseMode m with
    | some n, some dx =>
      let want := expectedInit n dx
      if obs = s!"ok {want}" then ({ cap := n, prev := want }, none)
      else ({ cap := n, prev := (obs.drop 3).toString }, some ("C17", s!"fresh peripheral: want `ok {want}`"))
    | _, _ => (st, none)
  | "reply" :: tg =>
    match parseTelegram tg with
    | some t =>
      if obs = "nocase" then (st, none) else
      let (r, state) := checkReply st.cap st.prev t obs
      ({ st with prev := state }, r)
    | none => (st, none)
  | "iter0" :: _ :: tg =>
    match parseTelegram tg with
    | some t =>
      let acc := Spec.accepts t
      match obs.splitOn " " with
      | [verdict, it] =>
        if (verdict = "accepted") ≠ acc then (st, some ("C17", "diag_rejects: wrong verdict"))
        else if it = "iter=panic" then
          (st, some ("C17", "blocks_total: iter_diag_blocks().next() panics when no diagnostics buffer is attached"))
        else if it = "iter=some" then
          (st, some ("C17", "blocks_total: a block was yielded although no diagnostics buffer is attached"))
        else (st, none)
      | _ => (st, some ("C17", s!"unexpected observation `{obs}`"))
    | none => (st, none)
  | "scan" :: tg =>
    match parseTelegram tg with
    | some t =>
      let want :=
        match t with
        | .data _ pdu =>
          if Spec.accepts t then
            let d := s!"{slaveAddr.toNat} ident={Spec.identNat pdu} master={showOptU8 (Spec.masterOf pdu)}"
            s!"found {d} | requery {d}"
          else "none | none"
        | _ => "none | none"
      if obs = want then (st, none) else (st, some ("C17", s!"scan: want `{want}`"))
    | none => (st, none)
  | _ => (st, none)

end PV.Driver
