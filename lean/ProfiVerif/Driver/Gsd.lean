/-
Driver glue for the `gsd` engine and the executable oracle of C19 (not part of any theorem).

Op lines:  `p <hex text>`  |  `r <hex text> <dump of the description the text was rendered from>`
Observation:  `ok <dump> w=<warnings>` | `err:<kind>` | `panic`
-/
import ProfiVerif.Driver.Codec
import ProfiVerif.Model.Gsd.Peg

namespace PV.Driver
open PV PV.Gsd

def strHex (s : Str) : String := bytesToHex (String.ofList s).toUTF8.toList

def optStrHex : Option Str → String
  | none => "~"
  | some s => strHex s

def b01 (b : Bool) : String := if b then "1" else "0"

def joinWith (sep : String) (xs : List String) : String := sep.intercalate xs

def strLe (a b : Str) : Bool := decide (a ≤ b)

def dumpType : DataType → String
  | .u8 => "u8" | .u16 => "u16" | .u32 => "u32" | .i8 => "i8" | .i16 => "i16" | .i32 => "i32"
  | .bit n => s!"b{n}"
  | .bitArea f l => s!"a{f}.{l}"

def dumpDef (d : PrmDef) : String :=
  let c := match d.constraint with
    | .unconstrained => "u"
    | .minMax a b => s!"r{a}:{b}"
    | .enum vs => "e" ++ joinWith ":" (vs.map toString)
  let t := match d.textRef with
    | none => "~"
    | some m =>
      let sorted := m.mergeSort fun a b => strLe a.1 b.1
      "[" ++ joinWith "/" (sorted.map fun (kv : Str × Int) => s!"{strHex kv.1}={kv.2}") ++ "]"
  s!"<{strHex d.name},{dumpType d.dataType},{d.defaultValue},{c},{t},{b01 d.changeable}{b01 d.visible}>"

def natsHex (bs : List Nat) : String := bytesToHex (bs.map UInt8.ofNat)

def dumpPrm (p : UserPrmData) : String :=
  let c := joinWith "," (p.dataConst.map fun (ov : Nat × List Nat) => s!"{ov.1}:{natsHex ov.2}")
  let r := joinWith "," (p.dataRef.map fun (od : Nat × PrmDef) => s!"{od.1}:{dumpDef od.2}")
  "{" ++ s!"{p.length};{c};{r}" ++ "}"

def dumpModule (m : Gsd.Module) : String :=
  let r := match m.reference with | none => "~" | some r => toString r
  s!"{strHex m.name},{optStrHex m.infoText},{natsHex m.config},{r},{dumpPrm m.prm}"

def dumpBits (bits : List (Nat × BitInfo)) : String :=
  let sorted := bits.mergeSort fun a b => decide (a.1 ≤ b.1)
  joinWith "," (sorted.map fun (kv : Nat × BitInfo) => s!"{kv.1}:{strHex kv.2.text}:{optStrHex kv.2.help}")

def speedBits (s : Speeds) : Nat :=
  (if s.b9600 then 2 else 0) + (if s.b19200 then 4 else 0) + (if s.b31250 then 8 else 0) +
  (if s.b45450 then 16 else 0) + (if s.b93750 then 32 else 0) + (if s.b187500 then 64 else 0) +
  (if s.b500000 then 128 else 0) + (if s.b1500000 then 256 else 0) + (if s.b3000000 then 512 else 0) +
  (if s.b6000000 then 1024 else 0) + (if s.b12000000 then 2048 else 0)

def dumpDesc (g : Desc) : String :=
  let t := g.maxTsdr
  let mods := if g.availableModules.isEmpty then "~" else joinWith "|" (g.availableModules.map dumpModule)
  let slots := if g.slots.isEmpty then "~" else joinWith "|" (g.slots.map fun s =>
    let a := if s.allowed.isEmpty then "~" else joinWith "." (s.allowed.map toString)
    s!"{s.number},{strHex s.name},{s.default},{a}")
  let areas := joinWith "," (g.diagAreas.map fun a =>
    let vs := a.values.mergeSort fun x y => decide (x.1 ≤ y.1)
    s!"{a.first}:{a.last}:" ++ joinWith "/" (vs.map fun (kv : Nat × Str) => s!"{kv.1}={strHex kv.2}"))
  s!"g={g.gsdRevision},{g.revisionNumber},{g.identNumber}" ++
  s!";s={strHex g.vendor},{strHex g.model},{strHex g.revision},{strHex g.hardwareRelease},{strHex g.softwareRelease},{strHex g.implementationType}" ++
  s!";f={b01 g.freezeModeSupported}{b01 g.syncModeSupported}{b01 g.autoBaudSupported}{b01 g.setSlaveAddrSupported}{b01 g.failSafe}{b01 g.modularStation}" ++
  s!";x={g.maxModules},{g.maxInputLength},{g.maxOutputLength},{g.maxDataLength},{g.maxDiagDataLength}" ++
  s!";b={speedBits g.speeds}" ++
  s!";t={t.b9600},{t.b19200},{t.b31250},{t.b45450},{t.b93750},{t.b187500},{t.b500000},{t.b1500000},{t.b3000000},{t.b6000000},{t.b12000000}" ++
  s!";M={mods};S={slots};P={dumpPrm g.userPrmData};U={dumpBits g.diagBits};{dumpBits g.diagNotBits};{areas}"

def warnName : Warn → String
  | .allowedMissing => "wa" | .defaultNotListed => "wd" | .compactMax => "wm" | .compactModules => "wn"

/-- Run-length encoded list of warning kinds; `-` if there are none. -/
def dumpWarnings (ws : List Warn) : String :=
  let rec go (fuel : Nat) (ws : List Warn) (acc : List String) : List String :=
    match fuel, ws with
    | _, [] => acc.reverse
    | 0, _ => acc.reverse
    | fuel + 1, w :: rest =>
      let n := (rest.takeWhile (· == w)).length
      let item := if n = 0 then warnName w else s!"{warnName w}*{n + 1}"
      go fuel (rest.drop n) (item :: acc)
  if ws.isEmpty then "-" else joinWith "," (go ws.length ws [])

def errName : ErrKind → String
  | .syntax => "syntax" | .num => "num" | .digit => "digit" | .sdigit => "sdigit" | .range => "range"
  | .list => "list" | .str => "str" | .dtype => "dtype" | .textref => "textref" | .dataref => "dataref"
  | .slotdefault => "slotdefault" | .prmlen => "prmlen" | .missing => "missing"

def showOutcome : Option (Res (Desc × List Warn)) → String
  | none => "fuel"
  | some (.ok (g, ws)) => s!"ok {dumpDesc g} w={dumpWarnings ws}"
  | some (.err e) => s!"err:{errName e}"
  | some .panic => "panic"

def hexToText (h : String) : Option Str := do
  let bs ← hexToBytes h
  let str ← String.fromUTF8? (ByteArray.mk bs.toArray)
  pure str.toList

/-- Model side of the `gsd` engine. -/
def stepGsd (w : List String) : Option String :=
  match w with
  | ["p", t] | ["r", t, _] =>
    match hexToText t with
    | some text => some (showOutcome (Gsd.parse text))
    | none => some "bad-op"
  | _ => none

/-! ### Oracle C19 -/

/-- C19 on one implementation observation:
* never `panic` (and `parse` / `parse_with_warnings` agree);
* for a text rendered from a description `d`: the result is exactly `d`. -/
def oracleC19 (op obs : String) : Option (String × String) :=
  let noPanic : Option (String × String) :=
    if obs = "panic" then some ("C19", "the parser panicked")
    else if obs = "mismatch" then some ("C19", "parse and parse_with_warnings disagree")
    else none
  match splitWords op with
  | ["p", _] => noPanic
  | ["r", _, want] =>
    match noPanic with
    | some f => some f
    | none =>
      if obs.startsWith s!"ok {want} w=" then none
      else some ("C19", "the description returned differs from the one the file was rendered from")
  | _ => none

end PV.Driver
