/-
System-level trace oracles over the `net` engine's observation stream (N real stations on the
harness bus): C01 (no overlapping transmissions, idle times), C02 (agreement reached within the bound
and stable afterwards), C06 (recovery after the last fault), C13 (bounded rotation).
They use only the bus trace (who transmitted what when) and the public ring views.
-/
import ProfiVerif.Driver.StationOracle
import ProfiVerif.Driver.Las

namespace PV.Driver
open PV

structure NStation where
  addr : Nat
  ttrBits : Nat
  gapWait : Nat
  online : Bool := false
  inring : Bool := false
  ns : Nat := 0
  ps : Nat := 0
  las : List Nat := []
  lastReceipt : Option Int := none
  fsm : String := "Offline"

structure ONet where
  rate : Nat := 1
  slotBits : Nat := 0
  hsa : Nat := 0
  sts : List NStation := []
  /-- end of the latest transmission on the bus and its kind (`true` = it was a request awaiting a reply) -/
  lastTxEnd : Option Int := none
  lastTxSender : Nat := 0
  faulty : Bool := false           -- a fault was injected in this case
  lastChange : Int := 0            -- time of the last online/offline/fault event
  agreed : Bool := false           -- C02: agreement was reached since the last change
  lastTime : Int := 0
  maxTtr : Nat := 0
  lastTxBytes : Bytes := []
  /-- previous transmission of each station (index → bytes) -/
  prevTx : List Bytes := []
  /-- the case ran into known finding K3 (a pass-supervision retry collided with the successor's late start):
  everything after it is a consequence of that collision and is not judged again -/
  tainted : Bool := false
  /-- token wrap-arounds (a token transmitted with DA ≤ SA) on the bus since the last change of the population / last fault -/
  wraps : Nat := 0
  /-- no telegram was corrupted or dropped in this case so far (only clean crashes / restarts) -/
  crashOnly : Bool := true
  /-- consecutive token rotations in which EVERY online station passed the token at least once -/
  wrapsAllIn : Nat := 0
  /-- stations that transmitted a token since the last wrap-around -/
  passedSince : List Nat := []

def bitsT (o : ONet) (b : Nat) : Int := (bitsToTime o.rate b : Nat)

def sortedOnline (o : ONet) : List Nat :=
  let l := (o.sts.filter (·.online)).map (·.addr)
  l.foldl (fun acc a => (acc.filter (· < a)) ++ [a] ++ (acc.filter (· > a))) []

/-- One station's view agrees with the set `S` of online stations. -/
def viewAgrees (s : NStation) (S : List Nat) : Bool :=
  s.inring && s.las == S && s.ns == nsSpec s.addr S && s.ps == psSpec s.addr S

def allAgree (o : ONet) : Bool :=
  let S := sortedOnline o
  !S.isEmpty && (o.sts.filter (·.online)).all fun s => viewAgrees s S

/-- Convergence / recovery bound of DESIGN 5.4 (µs). -/
def convBound (o : ONet) : Int :=
  let n := (o.sts.filter (·.online)).length
  let amax := ((o.sts.filter (·.online)).map (·.addr)).foldl max 0
  let g := (o.sts.map (·.gapWait)).foldl max 0
  let tto := bitsT o (o.slotBits * (6 + 2 * amax))
  let trot := (n : Int) * (bitsT o o.maxTtr + bitsT o o.slotBits + bitsT o 200)
  tto + (n : Int) * ((o.hsa + g + 5 : Nat) : Int) * trot

/-- Convergence bound in token rotations (DESIGN 5.4): each of the at most `n` stations still to be
admitted needs two rotations of listening plus one GAP sweep (≤ HSA polls, one per rotation) plus the
GAP wait of its predecessor, with slack. -/
def rotBound (o : ONet) : Nat :=
  let n := (o.sts.filter (·.online)).length
  let g := (o.sts.map (·.gapWait)).foldl max 0
  n * (o.hsa + g + 5) + 5

def oracleNet (want : String) (o : ONet) (op obs : String) : ONet × Option (String × String) :=
  match splitWords op with
  | "net.new" :: rate :: slot :: hsa :: _ :: specs =>
    let sts := specs.filterMap fun sp =>
      match sp.splitOn ":" with
      | [a, ttr, gw, _, _] => some ({ addr := a.toNat!, ttrBits := ttr.toNat!, gapWait := gw.toNat! } : NStation)
      | _ => none
    ({ rate := rate.toNat!, slotBits := slot.toNat!, hsa := hsa.toNat!, sts := sts,
       maxTtr := (sts.map (·.ttrBits)).foldl max 0, prevTx := sts.map fun _ => [] }, none)
  | ["net.online", i, now] =>
    let i := i.toNat!
    let f : NStation → NStation := fun s => { s with online := true, inring := false, las := [], fsm := "Offline" }
    ({ o with sts := o.sts.modify i f, lastChange := now.toInt!, agreed := false, wraps := 0, wrapsAllIn := 0, passedSince := [] }, none)
  | ["net.offline", i, now] =>
    let i := i.toNat!
    let f : NStation → NStation := fun s => { s with online := false, inring := false }
    ({ o with sts := o.sts.modify i f, lastChange := now.toInt!, agreed := false, faulty := true, wraps := 0, wrapsAllIn := 0 }, none)
  | ["net.corrupt", _, z] => ({ o with crashOnly := false, faulty := true, lastChange := max o.lastChange z.toInt!, agreed := false, wraps := 0 }, none)
  | ["net.drop", _] => ({ o with crashOnly := false, faulty := true, lastChange := o.lastTime, agreed := false, wraps := 0 }, none)
  | ["net.poll", iS, nowS] =>
    let i := iS.toNat!
    let now := nowS.toInt!
    -- strip the `in=<hex> ` prefix
    let body := " ".intercalate ((obs.splitOn " ").drop 1)
    if body = "panic" then (o, if want = "C05" then some ("C05", "poll() panicked in a multi-station run") else none) else
    if body = "dead" then (o, none) else
    match parsePollObs body with
    | none => (o, some (want, s!"unparsable observation {obs}"))
    | some r =>
      let sOld := o.sts.getD i { addr := 0, ttrBits := 0, gapWait := 0 }
      let inring := r.st != "Offline" && r.st != "ListenToken" && r.st != "PassiveIdle"
      let enteringUse := r.st == "UseToken" && sOld.fsm != "UseToken" && sOld.fsm != "AwaitDataResponse"
      let newReceipt : Option Int := if enteringUse then some now else sOld.lastReceipt
      let sNew : NStation :=
        { sOld with
          inring := inring
          ns := r.ns
          ps := r.ps
          las := r.las
          fsm := r.st
          lastReceipt := newReceipt }
      let o1 : ONet := { o with sts := o.sts.set i sNew, lastTime := now }
      -- ------------------------------------------------------------ C01 on the bus trace
      -- overlap with the transmission in progress?  Known finding K3: one of the two is a *repeated* token
      -- pass addressed to the other transmitter (the successor started later than one slot time).
      let overlap : Bool := match r.tx, o.lastTxEnd with
        | some _, some e => decide (now < e) && o.lastTxSender != i
        | _, _ => false
      let isK3 : Bool := match r.tx with
        | some b =>
          let other := o.sts.getD o.lastTxSender { addr := 0, ttrBits := 0, gapWait := 0 }
          let mine := (isTokenFrame b).isSome && o.prevTx.getD i [] == b && (isTokenFrame b).map (·.1) == some other.addr
          let theirs := (isTokenFrame o.lastTxBytes).isSome && (isTokenFrame o.lastTxBytes).map (·.1) == some sOld.addr
          overlap && (mine || theirs)
        | none => false
      let c01 : Option (String × String) :=
        if want ≠ "C01" ∨ o.faulty ∨ o.tainted then none else
        match r.tx with
        | none => none
        | some b =>
          match o.lastTxEnd with
          | none => none
          | some e =>
            let isReply : Bool := match decodeTx b with
              | some .sc => true
              | some (.data h _) => (match h.fc with | .response .. => true | _ => false)
              | _ => false
            if isK3 then
              some ("K3", s!"token-pass retry and the successor's first transmission overlap at {now} (successor started later than one slot time after the token)")
            else if overlap then
              some ("C01", s!"station #{sOld.addr} starts transmitting at {now} while a transmission is in progress until {e}")
            else if isReply ∧ now + 1 < e + bitsT o 11 then
              some ("C01", s!"reply starts {now - e} us after the request (min station delay {bitsT o 11} us)")
            else if ¬ isReply ∧ o.lastTxSender ≠ i ∧ now + 1 < e + bitsT o 33 then
              some ("C01", s!"telegram initiated {now - e} us after the end of the previous one (synchronisation pause {bitsT o 33} us)")
            else none
      -- ------------------------------------------------------------ C02 / C06 agreement
      let agreeNow := allAgree o1
      let o2 : ONet := { o1 with agreed := o1.agreed || agreeNow }
      let S := sortedOnline o1
      let c02 : Option (String × String) :=
        if want = "C02" ∧ ¬ o.faulty ∧ ¬ o.tainted ∧ ¬ isK3 then
          if o.agreed ∧ sNew.online ∧ ¬ viewAgrees sNew S then
            some ("C02", s!"agreement lost: station #{sNew.addr} now has inring={sNew.inring} LAS={sNew.las} NS={sNew.ns} PS={sNew.ps} while the online set is {S}")
          else if ¬ o2.agreed ∧ now - o.lastChange > convBound o1 then
            some ("C02", s!"no agreement on the ring {S} within the convergence bound ({convBound o1} us after the last change)")
          else if ¬ o2.agreed ∧ o.wraps > rotBound o1 then
            some ("C02", s!"no agreement on the ring {S} after {o.wraps} token rotations since the last change (bound {rotBound o1} rotations)")
          else none
        else if want = "C06" ∧ o.faulty ∧ ¬ o.tainted ∧ ¬ isK3 then
          if ¬ o2.agreed ∧ now - o.lastChange > convBound o1 then
            some ("C06", s!"ring {S} not re-established within the recovery bound ({convBound o1} us after the last disturbance)")
          else if ¬ o2.agreed ∧ o.wraps > rotBound o1 then
            some ("C06", s!"ring {S} not re-established after {o.wraps} token rotations since the last disturbance (bound {rotBound o1} rotations)")
          else if ¬ o2.agreed ∧ o.crashOnly ∧ o.wrapsAllIn > 8 then
            -- after clean crashes only: once every online station takes part in the rotation (passes the token in every
            -- rotation) everybody witnesses everybody's passes, so the views settle within a few rotations
            some ("C06", s!"every online station has passed the token in each of the last {o.wrapsAllIn} rotations but the views still disagree on {S} (station #{sNew.addr}: LAS={sNew.las} NS={sNew.ns} PS={sNew.ps})")
          else none
        else none
      -- ------------------------------------------------------------ C13 rotation bound
      let c13 : Option (String × String) :=
        if want ≠ "C13" ∨ o.faulty ∨ ¬ o.agreed ∨ o.tainted ∨ isK3 then none else
        match sOld.lastReceipt with
        | some t0 =>
          let n := S.length
          -- the target rotation time of the ring is the largest TTR configured (C13 assumes consistent bus
          -- parameters; with different TTRs a station with a larger one may legitimately hold the token longer)
          let bound : Int := bitsT o o.maxTtr + (n : Int) * (bitsT o (3 * o.slotBits) + bitsT o (11 * 600))
          if enteringUse ∧ now - t0 > bound then
            some ("C13", s!"station #{sOld.addr} got the token again only after {now - t0} us (bound {bound} us)")
          else none
        | none => none
      let isWrap : Bool := match r.tx with
        | some b => (match isTokenFrame b with | some (da, sa) => decide (da ≤ sa) && decide (now > o.lastChange) | none => false)
        | none => false
      let isTok : Bool := match r.tx with | some b => (isTokenFrame b).isSome | none => false
      let passed := if isTok ∧ ¬ o2.passedSince.contains sOld.addr then sOld.addr :: o2.passedSince else o2.passedSince
      let everybody : Bool := (o1.sts.filter (·.online)).all fun s => passed.contains s.addr
      let o2 : ONet := { o2 with wraps := if isWrap then o2.wraps + 1 else o2.wraps,
                                 passedSince := if isWrap then [] else passed,
                                 wrapsAllIn := if isWrap then (if everybody then o2.wrapsAllIn + 1 else 0) else o2.wrapsAllIn }
      let o3 : ONet := match r.tx with
        | some b => { o2 with lastTxEnd := some (now + ((11 * b.length * 1000000 + o.rate - 1) / o.rate : Nat)), lastTxSender := i,
                              lastTxBytes := b, prevTx := o2.prevTx.set i b, tainted := o2.tainted || isK3 }
        | none => o2
      (o3, first [c01, c02, c13])
  | _ => (o, none)

end PV.Driver
