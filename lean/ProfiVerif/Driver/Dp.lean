/-
Driver glue for the `dp` engine (`DpMaster` / `Peripheral` through the `FdlApplication` trait).
Line protocol: see the header of `harness/src/dp.rs`.  The oracles C03 / C04 / C08 / C14 are in
`Driver/DpOracle.lean`.
-/
import ProfiVerif.Driver.Diag
import ProfiVerif.Model.Dp.Master

namespace PV.Driver
open PV PV.Dp

/-! ### Parsing -/

def intOf? (s : String) : Option Int :=
  if s.startsWith "-" then (s.drop 1).toString.toNat?.map fun n => -(n : Int)
  else s.toNat?.map fun n => (n : Int)

/-- `n` = `None`, `-` = `Some(&[])`, hex otherwise. -/
def optBytes? (s : String) : Option (Option Bytes) :=
  if s = "n" then some none else (hexToBytes s).map some

def bool01? (c : Char) : Option Bool :=
  if c = '0' then some false else if c = '1' then some true else none

/-- `<addr>:<ident>:<sync><freeze>:<groups>:<prm>:<cfg>:<ilen>:<qlen>:<diagbuf>` -/
def parsePeriph (s : String) : Option Peripheral :=
  match s.splitOn ":" with
  | [addr, ident, sf, groups, prm, cfg, ilen, qlen, dbuf] => do
    let a ← u8? addr
    let id ← ident.toNat?
    if id ≥ 65536 then none
    let (sy, fr) ← (match sf.toList with
      | [x, y] => do
        let x ← bool01? x
        let y ← bool01? y
        pure (x, y)
      | _ => none)
    let g ← u8? groups
    let up ← optBytes? prm
    let cf ← optBytes? cfg
    let il ← ilen.toNat?
    let ql ← qlen.toNat?
    let db ← dbuf.toNat?
    pure (Peripheral.new a { ident := id, sync := sy, freeze := fr, groups := g, userPrm := up, config := cf }
      (List.replicate il 0) (List.replicate ql 0) db)
  | _ => none

def parseStorage (s : String) : Option (Nat × Bool) :=
  match s.toList with
  | 'a' :: r => (String.ofList r).toNat?.map fun k => (k, false)
  | 'v' :: r => (String.ofList r).toNat?.map fun k => (k, true)
  | _ => none

def optNat? (s : String) : Option (Option Nat) :=
  if s = "-" then some none else s.toNat?.map some

/-- `ParametersBuilder::new(own, baud).slot_bits(..).max_retry_limit(..).watchdog_timeout(..).min_tsdr(..).build()`:
`none` = one of the builder's assertions fails. -/
def buildParams (own baud : Nat) (slotBits retry wd minTsdr : Option Nat) : Option FdlParams :=
  match minSlotBits baud with
  | none => none
  | some minBits =>
    if own > 125 then none else
    let bits := slotBits.getD minBits
    if bits < minBits then none else
    let r := retry.getD 1
    if r < 1 ∨ r > 15 then none else
    let mt := minTsdr.getD 11
    if mt < 11 then none else
    match (match wd with
      | none => some none
      | some ms => (watchdogFactors ms).map some) with
    | none => none
    | some w =>
      some { address := UInt8.ofNat own, slotUs := bits * 1000000 / baud, maxRetry := r,
             minTsdr := UInt8.ofNat mt, watchdog := w }

/-! ### Printing -/

def eventName : PEvent → String
  | .online => "Online" | .configured => "Configured" | .configError => "ConfigError"
  | .parameterError => "ParameterError" | .dataExchanged => "DataExchanged"
  | .diagnostics => "Diagnostics" | .offline => "Offline"

def hex4 (n : Nat) : String :=
  String.ofList [hexDigit (n / 4096 % 16), hexDigit (n / 256 % 16), hexDigit (n / 16 % 16), hexDigit (n % 16)]

def showLastDiag (d : Diag.PState) : String :=
  match d.last with
  | none => "-"
  | some l =>
    let ext := match l.raw with
      | .none => "none"
      | .some bs => bytesToHex bs
      | .panic => "panic"
    s!"{hex4 l.info.flags.toNat}/{l.info.ident.toNat}/{showOptU8 l.info.master}/{ext}"

def dpB01 (b : Bool) : String := if b then "1" else "0"

def showPeriph (i : Nat) (p : Peripheral) : String :=
  s!" [{i} {p.address.toNat} {dpB01 p.isLive}{dpB01 p.isRunning} i={bytesToHex p.piI} q={bytesToHex p.piQ} d={showLastDiag p.diag}]"

def showSlots : List (Option Peripheral) → Nat → String
  | [], _ => ""
  | none :: r, i => showSlots r (i + 1)
  | some p :: r, i => showPeriph i p ++ showSlots r (i + 1)

def opName : OpState → String
  | .stop => "S" | .clear => "C" | .operate => "O"

def showSummary (m : Master) : String := s!"st={opName m.op}{showSlots m.slots 0}"

def showEvents (e : Events) : String :=
  let p := match e.peripheral with
    | none => "-"
    | some h => s!"{h.index}:{h.address.toNat}:{eventName h.ev}"
  s!"ev cc={dpB01 e.cycleCompleted} p={p}"

/-! ### Engine -/

structure DpCase where
  fp : FdlParams
  m : Master

def addAll (m : Master) : List Peripheral → Option Master
  | [] => some m
  | p :: r =>
    match m.add p with
    | .ok (m', _) => addAll m' r
    | .panic => none

def dpNew (args : List String) : Option (Option DpCase) :=
  match args with
  | own :: baud :: bits :: retry :: wd :: mt :: storage :: ps => do
    let own ← own.toNat?
    if own ≥ 256 then none
    let baud ← baud.toNat?
    let bits ← optNat? bits
    let retry ← optNat? retry
    let wd ← optNat? wd
    let mt ← optNat? mt
    let (k, grow) ← parseStorage storage
    let ps ← ps.mapM parsePeriph
    match buildParams own baud bits retry wd mt with
    | none => pure none
    | some fp =>
      match addAll (Master.new k grow) ps with
      | none => pure none
      | some m => pure (some { fp := fp, m := m })
  | _ => none

/-- One op on a live case: `none` = bad op; `some (none, o)` = the object is poisoned. -/
def stepDpCase (c : DpCase) (w : List String) : Option (Option DpCase × String) :=
  let okm := fun (m : Master) (o : String) => some (some { c with m := m }, s!"{o} ; {showSummary m}")
  match w with
  | ["dp.tx", now, hp] =>
    match intOf? now with
    | none => none
    | some now =>
      match Master.transmit c.fp now (hp == "1") c.m with
      | .panic => some (none, "panic")
      | .hang => some (none, "hang")
      | .none m => okm m "none"
      | .send m h pdu =>
        match h.serialize pdu with
        | .ok bs => okm m s!"tx exp={showOptU8 (expectsReplyOf h)} {bytesToHex bs}"
        | .panic => some (none, "panic")
  | "dp.reply" :: _now :: addr :: tg =>
    match u8? addr, parseTelegram tg with
    | some a, some t =>
      match Master.receiveReply c.m a t with
      | .ok m => okm m "ok"
      | .panic => some (none, "panic")
    | _, _ => none
  | ["dp.timeout", _now, addr] =>
    match u8? addr with
    | some a => okm (Master.handleTimeout c.m a) "ok"
    | none => none
  | ["dp.take"] =>
    let (m, e) := c.m.takeLastEvents
    okm m (showEvents e)
  | ["dp.piq", slot, hex] =>
    match slot.toNat?, hexToBytes hex with
    | some i, some bs =>
      match c.m.writePiQ i bs with
      | some m => okm m "ok"
      | none => okm c.m "err"
    | _, _ => none
  | ["dp.diagreq", slot] =>
    match slot.toNat? with
    | some i =>
      match c.m.requestDiagnostics i with
      | some m => okm m "ok"
      | none => okm c.m "err"
    | none => none
  | ["dp.resetaddr", slot, addr] =>
    match slot.toNat?, u8? addr with
    | some i, some a =>
      match c.m.resetAddress i a with
      | some m => okm m "ok"
      | none => okm c.m "err"
    | _, _ => none
  | ["dp.operate"] => okm c.m.enterOperate "ok"
  | ["dp.add", p] =>
    match parsePeriph p with
    | none => none
    | some p =>
      match c.m.add p with
      | .ok (m, i) => okm m s!"ok {i}"
      | .panic => some (none, "panic")
  | _ => none

def stepDp (st : Option DpCase) (w : List String) : Option DpCase × String :=
  match w with
  | ["dp.env", _] => (st, "env")
  | "dp.new" :: args =>
    match dpNew args with
    | none => (st, "bad-op")
    | some none => (none, "panic")
    | some (some c) => (some c, s!"ok ; {showSummary c.m}")
  | _ =>
    match st with
    | none =>
      if (w.headD "").startsWith "dp." then (none, "dead") else (none, "bad-op")
    | some c =>
      match stepDpCase c w with
      | none => (st, "bad-op")
      | some (c', o) => (c', o)

end PV.Driver
