/-
Driver glue for the `gap` engine and the executable oracle of the C12 core.
-/
import ProfiVerif.Driver.Util
import ProfiVerif.Model.Gap

namespace PV.Driver
open PV

def showGapNext : GapNext → String
  | .poll a => s!"poll {a}"
  | .waiting => "wait"
  | .panic => "panic"

def stepGap (line : String) : String :=
  match line.trimAscii.toString.splitOn " " with
  | ["gap", ts, ns, hsa, cur] =>
    match ts.toNat?, ns.toNat?, hsa.toNat?, cur.toNat? with
    | some ts, some ns, some hsa, some cur =>
      -- the hook builds a TokenRing with NS in the LAS: for NS > 125 the real `set_next_station`
      -- would index out of range only at 128+; the model mirrors the hook: NS is taken as given.
      -- `FdlActiveStation::new` asserts HSA ≤ 126 (`debug_assert_consistency`) before the function runs
      if hsa > 126 then "panic" else showGapNext (nextGapPoll ts ns hsa cur)
    | _, _, _, _ => "bad-op"
  | _ => "bad-op"

/-- Oracle: within the station's invariant (TS < HSA ≤ 126, current < HSA) a polled address must be
in the GAP and be the cyclic successor; the sweep must end exactly when the successor is outside. -/
def oracleGap (op obs : String) : Option (String × String) :=
  match op.trimAscii.toString.splitOn " " with
  | ["gap", ts, ns, hsa, cur] =>
    match ts.toNat?, ns.toNat?, hsa.toNat?, cur.toNat? with
    | some ts, some ns, some hsa, some cur =>
      if ts < hsa ∧ hsa ≤ 126 ∧ cur < hsa ∧ ns ≤ 125 then
        let nx := if cur + 1 = hsa then 0 else cur + 1
        match obs.splitOn " " with
        | ["poll", a] =>
          match a.toNat? with
          | some a =>
            if a = ts then some ("C12", "GAP poll targets the own address")
            else if ¬ InGap ts ns hsa a then some ("C12", s!"polled address {a} is outside the GAP")
            else if a ≠ nx then some ("C12", s!"polled {a}, expected the successor {nx}")
            else none
          | none => some ("C12", "unparsable")
        | ["wait"] => if InGap ts ns hsa nx then some ("C12", s!"sweep ended although {nx} is still in the GAP") else none
        | _ => some ("C12", s!"next_gap_poll: {obs}")
      else none
    | _, _, _, _ => none
  | _ => none

end PV.Driver
