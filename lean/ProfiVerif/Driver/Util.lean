/-
Parsing / printing glue of the line-protocol driver (not part of any theorem).
-/
import ProfiVerif.Model.Telegram

namespace PV.Driver
open PV

def hexDigit (n : Nat) : Char :=
  if n < 10 then Char.ofNat (48 + n) else Char.ofNat (87 + n)

def byteToHex (b : UInt8) : String :=
  String.ofList [hexDigit (b.toNat / 16), hexDigit (b.toNat % 16)]

/-- Bytes as lower-case hex; the empty list prints as `-`. -/
def bytesToHex (bs : Bytes) : String :=
  if bs.isEmpty then "-" else String.join (bs.map byteToHex)

def hexVal (c : Char) : Option Nat :=
  if '0' ≤ c ∧ c ≤ '9' then some (c.toNat - 48)
  else if 'a' ≤ c ∧ c ≤ 'f' then some (c.toNat - 87)
  else if 'A' ≤ c ∧ c ≤ 'F' then some (c.toNat - 55)
  else none

def hexToBytesAux : List Char → Bytes → Option Bytes
  | [], acc => some acc.reverse
  | [_], _ => none
  | a :: b :: rest, acc =>
    match hexVal a, hexVal b with
    | some x, some y => hexToBytesAux rest (UInt8.ofNat (x * 16 + y) :: acc)
    | _, _ => none

def hexToBytes (s : String) : Option Bytes :=
  if s = "-" then some [] else hexToBytesAux s.toList []

def optU8 (s : String) : Option (Option UInt8) :=
  if s = "-" then some none else
  match s.toNat? with
  | some n => if n < 256 then some (some (UInt8.ofNat n)) else none
  | none => none

def showOptU8 : Option UInt8 → String
  | none => "-"
  | some b => toString b.toNat

def u8? (s : String) : Option UInt8 :=
  match s.toNat? with
  | some n => if n < 256 then some (UInt8.ofNat n) else none
  | none => none

def fcbName : FrameCountBit → String
  | .first => "F" | .high => "H" | .low => "L" | .inactive => "I"
def fcbOfName : String → Option FrameCountBit
  | "F" => some .first | "H" => some .high | "L" => some .low | "I" => some .inactive | _ => none

/-- `q.<fcb>.<req u8>` / `r.<state u8>.<status u8>` -/
def showFc : FunctionCode → String
  | .request fcb req => s!"q.{fcbName fcb}.{req.toU8.toNat}"
  | .response st stat => s!"r.{st.toU8.toNat}.{stat.toU8.toNat}"

def parseFc (s : String) : Option FunctionCode :=
  match s.splitOn "." with
  | ["q", f, r] => do
      let fcb ← fcbOfName f
      let rb ← u8? r
      let req ← RequestType.fromU8 rb
      pure (.request fcb req)
  | ["r", a, b] => do
      let st ← (u8? a) >>= ResponseState.fromU8
      let stat ← (u8? b) >>= ResponseStatus.fromU8
      pure (.response st stat)
  | _ => none

def showTelegram : Telegram → String
  | .data h pdu =>
    s!"data {h.da.toNat} {h.sa.toNat} {showOptU8 h.dsap} {showOptU8 h.ssap} {showFc h.fc} {bytesToHex pdu}"
  | .token da sa => s!"token {da.toNat} {sa.toNat}"
  | .sc => "sc"

def showDecoded : Decoded → String
  | .needMore => "needmore"
  | .reject => "reject"
  | .accept t n => s!"accept {n} {showTelegram t}"
  | .panic => "panic"

def showTx : TxOutcome → String
  | .ok bs => s!"ok {bytesToHex bs}"
  | .panic => "panic"

def parseHeader (da sa dsap ssap fc : String) : Option Header := do
  let da ← u8? da
  let sa ← u8? sa
  let dsap ← optU8 dsap
  let ssap ← optU8 ssap
  let fc ← parseFc fc
  pure { da, sa, dsap, ssap, fc }

end PV.Driver

namespace PV.Driver

/-- Generic line loop of a (possibly stateful) engine: `f state line = (state', output line)`. -/
partial def engineLoop {σ : Type} (f : σ → String → σ × String) (s : σ)
    (inp out : IO.FS.Stream) : IO Unit := do
  let line ← inp.getLine
  if line.isEmpty then return ()
  let (s', o) := f s line
  out.putStrLn o
  engineLoop f s' inp out

/-- Generic oracle loop: `f state op obs = (state', failure?)`; failures are `(class, reason)`. -/
def oracleLoop {σ : Type} (f : σ → String → String → σ × Option (String × String)) (init : σ)
    (opsFile implFile : String) : IO UInt32 := do
  let ops ← IO.FS.lines opsFile
  let obs ← IO.FS.lines implFile
  let out ← IO.getStdout
  let mut st := init
  let mut failed := 0
  let mut checked := 0
  for i in [0:ops.size] do
    let (st', r) := f st (ops.getD i "") (obs.getD i "")
    st := st'
    checked := checked + 1
    match r with
    | none => pure ()
    | some (cls, why) =>
      failed := failed + 1
      if failed ≤ 200 then out.putStrLn s!"FAIL {i+1} {cls} {why}"
  out.putStrLn s!"ORACLE checked={checked} failed={failed}"
  return 0

end PV.Driver
