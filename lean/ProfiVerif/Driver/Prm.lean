/-
Driver glue for the `prm` engine (model side of the correspondence) and the oracle of C20.
Line protocol: see `harness/src/prm.rs`.
-/
import ProfiVerif.Driver.Codec
import ProfiVerif.Model.Gsd.PrmSpec

namespace PV.Driver
open PV PV.Prm

/-! ### Parsing -/

def parseType (s : String) : Option DataType :=
  match s.splitOn "." with
  | ["u8"] => some .u8 | ["u16"] => some .u16 | ["u32"] => some .u32
  | ["s8"] => some .s8 | ["s16"] => some .s16 | ["s32"] => some .s32
  | ["bit", b] => b.toNat?.map .bit
  | ["area", f, l] => do
      let f ← f.toNat?
      let l ← l.toNat?
      pure (.bitArea f l)
  | _ => none

def parseConstraint (s : String) : Option Constraint :=
  match s.splitOn "." with
  | ["n"] => some .unconstrained
  | ["m", a, b] => do
      let a ← a.toInt?
      let b ← b.toInt?
      pure (.minMax a b)
  | "e" :: vs => (vs.mapM String.toInt?).map .enum
  | _ => none

def parseTexts (s : String) : Option (Option (List (String × Int))) :=
  if s = "-" then some none else
  match s.splitOn "," with
  | "t" :: kvs =>
    (kvs.mapM fun (kv : String) =>
      match kv.splitOn "=" with
      | [k, v] => (String.toInt? v).map fun v => (k, v)
      | _ => none).map some
  | _ => none

def parseRef (s : String) : Option (Nat × PrmDef) :=
  match s.splitOn ":" with
  | [off, name, ty, dflt, cons, texts] => do
      let off ← off.toNat?
      let ty ← parseType ty
      let dflt ← dflt.toInt?
      let cons ← parseConstraint cons
      let texts ← parseTexts texts
      pure (off, { name := name, dataType := ty, default := dflt, constraint := cons, texts := texts })
  | _ => none

def parseConst (s : String) : Option (Nat × Bytes) :=
  match s.splitOn ":" with
  | [off, data] => do
      let off ← off.toNat?
      let data ← hexToBytes data
      pure (off, data)
  | _ => none

def parseLayout (len consts refs : String) : Option Layout := do
  let len ← len.toNat?
  let consts ← if consts = "-" then some [] else (consts.splitOn ";").mapM parseConst
  let refs ← if refs = "-" then some [] else (refs.splitOn ";").mapM parseRef
  pure { length := len, consts := consts, refs := refs }

def parseCall : List String → Option Call
  | ["set", name, v] => v.toInt?.map fun v => .set name v
  | ["settext", name, text] => some (.setText name text)
  | _ => none

/-! ### Model side of the `prm` engine -/

def showSet (old : Builder) : SetOutcome → String
  | .ok b => s!"ok {bytesToHex b.asBytes}"
  | .err e => s!"err:{e.kind} {bytesToHex old.asBytes}"
  | .panic => "panic"

def stepPrm (st : Option Builder) (line : String) : Option Builder × String :=
  let w := splitWords line
  match w with
  | ["new", len, consts, refs] =>
    match parseLayout len consts refs with
    | none => (none, "bad-op")
    | some L =>
      match Builder.new L with
      | .ok b => (some b, s!"ok {bytesToHex b.asBytes}")
      | .rangeErr => (none, "err:range")
      | .panic => (none, "panic")
  | ["write", ty, v, s] =>
    match parseType ty, v.toInt?, hexToBytes s with
    | some t, some v, some s =>
      match writeValue t v s with
      | .ok s' => (st, s!"ok {bytesToHex s'}")
      | .rangeErr => (st, s!"err:range {bytesToHex s}")
      | .panic => (st, "panic")
    | _, _, _ => (st, "bad-op")
  | _ =>
    match parseCall w with
    | none => (st, "bad-op")
    | some c =>
      match st with
      | none => (none, "nobuilder")
      | some b =>
        let r := b.call c
        ((b.after c).getD b |> some, showSet b r)

/-! ### Oracle C20 -/

def parseErrKind : String → Option SetErr
  | "notfound" => some .prmNotFound | "notexts" => some .prmWithoutTexts
  | "textnotfound" => some .prmTextNotFound | "constraint" => some .valueConstraint
  | "range" => some .valueRange | _ => none

def parseObs (obs : String) : Option Obs :=
  match splitWords obs with
  | ["panic"] => some .panic
  | ["ok", h] => (hexToBytes h).map .ok
  | [e, h] =>
    match e.splitOn ":" with
    | ["err", k] => do
        let k ← parseErrKind k
        let b ← hexToBytes h
        pure (.err k b)
    | _ => none
  | _ => none

def parseNewObs (obs : String) : Option NewObs :=
  match splitWords obs with
  | ["panic"] => some .panic
  | ["err:range"] => some .rangeErr
  | ["ok", h] => (hexToBytes h).map .ok
  | _ => none

def verdictOut : Verdict → Option (String × String)
  | .pass => none
  | .k2 => some ("K2", "BitArea write cleared the other bits of its byte")
  | .fail why => some ("C20", why)

/-- `write_value_to_slice` on a slice that is long enough: the field image at offset 0. -/
def judgeWrite (t : DataType) (v : Int) (s : Bytes) (obs : String) : Verdict :=
  if s.length < t.size then .pass else
  if t.holds v then
    if obs = s!"ok {bytesToHex (prmSpec s 0 t v)}" then .pass
    else if t.isBitArea && obs = s!"ok {bytesToHex (prmActual s 0 t v)}" then .k2
    else .fail "write_value_to_slice differs from prmSpec"
  else if obs = s!"err:range {bytesToHex s}" then .pass
  else .fail "value outside the data type not rejected (or slice changed)"

/-- State: the layout and the block the implementation showed last. -/
def oracleC20Core (st : Option (Layout × Bytes)) (op obs : String) :
    Option (Layout × Bytes) × Option (String × String) :=
  let w := splitWords op
  match w with
  | ["new", len, consts, refs] =>
    match parseLayout len consts refs, parseNewObs obs with
    | some L, some o =>
      let st' := match o with | .ok blk => some (L, blk) | _ => none
      (st', verdictOut (judgeNew L o))
    | _, _ => (none, some ("C20", "unreadable observation"))
  | ["write", ty, v, s] =>
    match parseType ty, v.toInt?, hexToBytes s with
    | some t, some v, some s => (st, verdictOut (judgeWrite t v s obs))
    | _, _, _ => (st, none)
  | _ =>
    match parseCall w, st with
    | some c, some (L, blk) =>
      match parseObs obs with
      | some o =>
        let blk' := match o with | .ok b => b | .err _ b => b | .panic => blk
        (some (L, blk'), verdictOut (judgeCall L blk c o))
      | none => (st, some ("C20", "unreadable observation"))
    | _, _ => (st, none)

/-- The known-finding class K2 is reported for its first 20 instances only, so that the generic
oracle loop's cap on printed failures can never hide a `C20` failure behind K2 lines. -/
def oracleC20 (st : Option (Layout × Bytes) × Nat) (op obs : String) :
    (Option (Layout × Bytes) × Nat) × Option (String × String) :=
  let (s', r) := oracleC20Core st.1 op obs
  match r with
  | some ("K2", why) => if st.2 < 20 then ((s', st.2 + 1), some ("K2", why)) else ((s', st.2), none)
  | r => ((s', st.2), r)

end PV.Driver
