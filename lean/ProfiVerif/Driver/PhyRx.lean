/-
Driver glue for the `phyrx` engine and the executable oracle of C16.
-/
import ProfiVerif.Driver.Codec
import ProfiVerif.Model.PhyRx
import ProfiVerif.Model.TelegramSpec
import ProfiVerif.Model.Simulator

namespace PV.Driver
open PV

def showCall (c : Telegram × Bool) : String :=
  s!"{(showTelegram c.1).replace " " ","}${if c.2 then 1 else 0}"

def showRx (r : RxResult) : Bytes × String :=
  match r with
  | .done b calls ret =>
    (b, s!"calls [{";".intercalate (calls.map showCall)}] ret={if ret then 1 else 0} pending={b.length}")
  | .panic => ([], "panic")
  | .hang => ([], "hang")

/-- Model state of the `phyrx` engine: the PHY's receive buffer and, for the `sim.*` ops, the simulator bus with
the receiver's cursor (bytes already handed to the receive buffer). -/
structure PhyRxState where
  buf : Bytes := []
  bus : Sim.Bus := {}
  cursor : Nat := 0

def stepPhyRx (st : PhyRxState) (line : String) : PhyRxState × String :=
  let onBuf (r : Bytes × String) : PhyRxState × String := ({ st with buf := r.1 }, r.2)
  match splitWords line with
  | ["rx.new", _] => ({}, "ok")
  | ["sim.new", m] =>
    let rate := ((m.splitOn "@").getD 1 "500000").toNat!
    ({ bus := { rate := rate } }, "ok")
  | ["rx.arrive", h] =>
    match hexToBytes h with
    | some c => ({ st with buf := st.buf ++ c }, s!"pending {(st.buf ++ c).length}")
    | none => (st, "bad-op")
  | ["sim.adv", us, _] =>
    -- the op's third word (the chunk the generator expects) is NOT used: the model computes the visible bytes itself
    match us.toNat? with
    | some us =>
      let bus := st.bus.advance us
      let fresh := (bus.visible.drop st.cursor)
      let buf := st.buf ++ fresh
      ({ buf := buf, bus := bus, cursor := bus.cursor }, s!"pending {buf.length}")
    | none => (st, "bad-op")
  | ["sim.send", h] =>
    match hexToBytes h with
    | some t => ({ st with bus := st.bus.send t }, "ok")
    | none => (st, "bad-op")
  | ["rx.all"] => onBuf (showRx (receiveAll st.buf))
  | ["sim.all"] => onBuf (showRx (receiveAll st.buf))
  | ["rx.one"] => onBuf (showRx (receiveTelegram st.buf))
  | ["sim.one"] => onBuf (showRx (receiveTelegram st.buf))
  | ["rx.end"] => (st, "end")
  | ["sim.end"] => (st, "end")
  | _ => (st, "bad-op")

/-! ### Oracle C16 -/

def parseTelegramWords : List String → Option Telegram
  | ["sc"] => some .sc
  | ["token", da, sa] => do pure (.token (← u8? da) (← u8? sa))
  | ["data", da, sa, dsap, ssap, fc, pdu] => do
      let h ← parseHeader da sa dsap ssap fc
      let p ← hexToBytes pdu
      pure (.data h p)
  | _ => none

/-- Parse `calls [t$f;t$f] ret=R pending=N`. -/
def parseRxObs (obs : String) : Option (List (Telegram × Bool) × Bool × Nat) :=
  match obs.splitOn " " with
  | ["calls", cs, ret, pend] =>
    let inner := (cs.drop 1).dropEnd 1 |>.toString
    let items := if inner.isEmpty then [] else inner.splitOn ";"
    let parsed := items.map fun it =>
      match it.splitOn "$" with
      | [t, f] => (parseTelegramWords (t.splitOn ",")).map fun tt => (tt, f == "1")
      | _ => none
    if parsed.any Option.isNone then none else
    match (pend.splitOn "=") with
    | [_, n] => n.toNat?.map fun n => (parsed.filterMap id, ret == "ret=1", n)
    | _ => none
  | _ => none

/-- Oracle state: mode of the case (`valid`/`garbage`), bytes arrived so far, telegrams delivered so
far, garbage phase finished? -/
structure O16 where
  mode : String := ""
  arrived : Bytes := []
  delivered : List Telegram := []
  pending : Nat := 0
  garbageDone : Bool := false
  /-- bytes of `arrived` already handed over as telegrams -/
  offset : Nat := 0

/-- Each delivered telegram must be what the frame at the current stream position denotes (as the flat
decoder specification reads it), consuming exactly that frame. -/
def walkDelivered (arrived : Bytes) : Nat → List Telegram → Option Nat
  | off, [] => some off
  | off, t :: rest =>
    match decodeSpec (arrived.drop off) with
    | .accept t' n => if t' = t ∧ n > 0 then walkDelivered arrived (off + n) rest else none
    | _ => none

def oracleC16 (s : O16) (op obs : String) : O16 × Option (String × String) :=
  let fail (why : String) := (s, some ("C16", why))
  match splitWords op with
  | ["rx.new", m] => ({ mode := m }, none)
  | ["sim.new", m] => ({ mode := m }, none)
  | [k, h] =>
    if k = "rx.arrive" then
      match hexToBytes h with
      | some c => ({ s with arrived := s.arrived ++ c, pending := s.pending + c.length }, none)
      | none => (s, none)
    else (s, none)
  | ["sim.adv", _, h] =>
    match hexToBytes h with
    | some c =>
      if obs = s!"pending {s.pending + c.length}" then
        ({ s with arrived := s.arrived ++ c, pending := s.pending + c.length }, none)
      else fail s!"simulator made {obs} visible, expected pending {s.pending + c.length}"
    | none => (s, none)
  | [k] =>
    if k = "rx.all" ∨ k = "rx.one" ∨ k = "sim.all" ∨ k = "sim.one" then
      if obs = "panic" ∨ obs = "hang" then fail s!"receive helper: {obs}" else
      match parseRxObs obs with
      | none => fail s!"unparsable observation {obs}"
      | some (calls, ret, pend) =>
        let s' := { s with delivered := s.delivered ++ calls.map Prod.fst, pending := pend }
        -- is_last: only the last callback may be flagged, and it is flagged iff nothing is pending
        let flagsOk := (calls.dropLast.all fun c => !c.2) &&
          (match calls.getLast? with | some c => c.2 == (pend == 0) | none => true)
        let retOk := if k = "rx.all" ∨ k = "sim.all" then ret == (calls.getLast?.map (·.2) == some true)
                     else ret == !calls.isEmpty
        if !flagsOk then (s', some ("C16", s!"is_last flags inconsistent with pending={pend}: {obs}"))
        else if !retOk then (s', some ("C16", s!"return value inconsistent: {obs}"))
        else if s.mode = "valid" then
          -- nothing lost, duplicated or reordered: the telegrams handed over are exactly the frames at the
          -- stream position, and consumed + still-buffered = arrived
          match walkDelivered s.arrived s.offset (calls.map Prod.fst) with
          | some off' =>
            if off' + pend = s.arrived.length then ({ s' with offset := off' }, none)
            else (s', some ("C16", s!"consumed {off'} + buffered {pend} ≠ arrived {s.arrived.length} bytes"))
          | none => (s', some ("C16", "a delivered telegram is not the frame at the stream position (lost, duplicated, reordered or mis-sized)"))
        else if s.mode = "garbage" ∧ !s.garbageDone then
          -- first receive call after the garbage: everything dropped, nothing delivered
          if calls.isEmpty ∧ pend = 0 then ({ s' with garbageDone := true, arrived := [], delivered := [], offset := 0 }, none)
          else (s', some ("C16", s!"undecodable data not discarded completely: {obs}"))
        else if s.mode = "garbage" then
          match walkDelivered s.arrived s.offset (calls.map Prod.fst) with
          | some off' =>
            if off' + pend = s.arrived.length then ({ s' with offset := off' }, none)
            else (s', some ("C16", "telegram after discarded garbage not received correctly (byte accounting)"))
          | none => (s', some ("C16", "telegram after discarded garbage not received correctly"))
        else (s', none)
    else if k = "rx.end" ∨ k = "sim.end" then
      -- all bytes have arrived and a final receive_all was made: everything must have been delivered
      if (s.mode = "valid" ∨ s.mode = "garbage") ∧ s.pending ≠ 0 then fail "bytes of complete telegrams left in the buffer at the end"
      else (s, none)
    else (s, none)
  | _ => (s, none)

end PV.Driver
