/-
Driver glue for the `las` engine (TokenRing through the verif-hooks re-export).
-/
import ProfiVerif.Driver.Util
import ProfiVerif.Model.TokenRing

namespace PV.Driver
open PV

def showRing (r : TokenRing) : String :=
  let las := r.activeList
  let lasS := if las.isEmpty then "-" else ",".intercalate (las.map toString)
  s!"las={lasS} ns={r.ns} ps={r.ps} ready={if r.readyForRing then 1 else 0}"

def stepLas (m : Option TokenRing) (line : String) : Option TokenRing × String :=
  match line.trimAscii.toString.splitOn " " with
  | ["tr.new", ts] =>
    match ts.toNat? with
    | some ts => if ts > 127 then (none, "panic") else let r := TokenRing.new ts; (some r, showRing r)
    | none => (m, "bad-op")
  | w =>
    match m with
    | none => (none, "dead")
    | some r =>
      let fin (o : Option TokenRing) : Option TokenRing × String :=
        match o with
        | some r' => (some r', showRing r')
        | none => (none, "panic")
      match w with
      | ["tr.w", sa, da] =>
        match sa.toNat?, da.toNat? with
        | some sa, some da => fin (some (r.witness sa da))
        | _, _ => (m, "bad-op")
      | ["tr.claim"] => fin (some r.claimToken)
      | ["tr.setns", a] => match a.toNat? with | some a => fin (r.setNextStation a) | none => (m, "bad-op")
      | ["tr.rm", a] => match a.toNat? with | some a => fin (r.removeStation a) | none => (m, "bad-op")
      | _ => (m, "bad-op")

end PV.Driver

namespace PV.Driver
open PV

/-- Oracle state for the LAS view: own address, previous observation, number of wrap-around passes
witnessed, whether `claim_token` was called, whether the view was ready. -/
structure OLas where
  ts : Nat := 0
  prev : String := ""
  wraps : Nat := 0
  claimed : Bool := false
  ready : Bool := false

def parseLasObs (obs : String) : Option (List Nat × Nat × Nat × Bool) :=
  match obs.splitOn " " with
  | [las, ns, ps, ready] =>
    let v (w : String) := ((w.splitOn "=").drop 1).headD ""
    let l := if v las = "-" then [] else ((v las).splitOn ",").filterMap String.toNat?
    match (v ns).toNat?, (v ps).toNat? with
    | some n, some p => some (l, n, p, v ready == "1")
    | _, _ => none
  | _ => none

/-- Cyclic neighbours of `ts` in the sorted list `l` (as `update_next_previous` must compute them). -/
def nsSpec (ts : Nat) (l : List Nat) : Nat :=
  match l.find? (· > ts) with | some a => a | none => l.headD ts
def psSpec (ts : Nat) (l : List Nat) : Nat :=
  match l.reverse.find? (· < ts) with | some a => a | none => l.getLastD ts

def oracleLas (o : OLas) (op obs : String) : OLas × Option (String × String) :=
  match op.trimAscii.toString.splitOn " " with
  | ["tr.new", ts] => ({ ts := ts.toNat!, prev := obs }, none)
  | w =>
    if obs = "panic" ∨ obs = "dead" then
      (o, if obs == "panic" && (match w with
            | ["tr.w", _, _] => true | ["tr.claim"] => true
            | ["tr.setns", a] => decide (a.toNat! < 128) | ["tr.rm", a] => decide (a.toNat! < 128) | _ => false)
          then some ("C02", "LAS operation panicked") else none) else
    match parseLasObs obs with
    | none => (o, some ("C02", s!"unparsable {obs}"))
    | some (las, ns, ps, ready) =>
      let isWrap : Bool := match w with
        | ["tr.w", sa, da] => decide (sa.toNat! ≤ 125 ∧ da.toNat! ≤ 125 ∧ da.toNat! ≤ sa.toNat!)
        | _ => false
      let invalid : Bool := match w with
        | ["tr.w", sa, da] => decide (sa.toNat! > 125 ∨ da.toNat! > 125)
        | _ => false
      let o' : OLas := { o with prev := obs, wraps := if isWrap then o.wraps + 1 else o.wraps,
                                claimed := o.claimed || w == ["tr.claim"], ready := ready }
      let f : Option (String × String) :=
        if invalid ∧ obs ≠ o.prev then some ("C02", "a token pass from/to an invalid address changed the ring view")
        else if ns ≠ nsSpec o.ts las ∧ ¬ (las.isEmpty) then some ("C02", s!"NS={ns} is not the cyclic successor of {o.ts} in {las}")
        else if ps ≠ psSpec o.ts las ∧ ¬ (las.isEmpty) then some ("C02", s!"PS={ps} is not the cyclic predecessor of {o.ts} in {las}")
        else if ready ∧ ¬ o'.claimed ∧ o'.wraps < 3 then some ("C02", "LAS declared valid before two identical rotations were witnessed")
        else if o.ready ∧ ¬ ready then some ("C02", "a valid LAS became invalid again")
        else if las.any (· > 127) then some ("C02", "address out of range in LAS")
        else none
      (o', f)

end PV.Driver
