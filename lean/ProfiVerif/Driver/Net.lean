/-
Driver glue for the `net` engine.
-/
import ProfiVerif.Driver.Station
import ProfiVerif.Model.Net

namespace PV.Driver
open PV

def stepNet (m : Option Net) (line : String) : Option Net × String :=
  match splitWords line with
  | "net.new" :: rate :: slot :: hsa :: n :: specs =>
    match rate.toNat?, slot.toNat?, hsa.toNat?, n.toNat? with
    | some rate, some slot, some hsa, some n =>
      let sts := specs.map fun sp =>
        match sp.splitOn ":" with
        | [a, ttr, gw, retry, napps] =>
          let p : Params := { address := a.toNat!, rate := rate, slotBits := slot, ttrBits := ttr.toNat!,
                              gapWait := gw.toNat!, hsa := hsa, maxRetry := retry.toNat!, minTsdrBits := 11 }
          some ({ s := Station.new p, apps := List.replicate napps.toNat! [] } : NetStation)
        | _ => none
      if sts.any Option.isNone ∨ sts.length ≠ n ∨ hsa > 126 then (none, "panic") else
      (some { bus := { rate := rate, seen := List.replicate n 0 }, stations := sts.filterMap id }, "ok")
    | _, _, _, _ => (m, "bad-op")
  | w =>
    match m with
    | none => (none, "dead")
    | some net =>
      match w with
      | ["net.online", i, now] =>
        match i.toNat?, now.toInt? with
        | some i, some now =>
          let (bus, _) := net.bus.deliver i now
          match net.stations[i]? with
          | some st => (some { bus := bus, stations := net.stations.set i { st with rx := [], s := st.s.setOnline, online := true } }, "ok")
          | none => (some net, "bad-op")
        | _, _ => (some net, "bad-op")
      | ["net.offline", i, _] =>
        match i.toNat? with
        | some i =>
          match net.stations[i]? with
          | some st => (some { net with stations := net.stations.set i { st with s := st.s.setOffline, online := false } }, "ok")
          | none => (some net, "bad-op")
        | none => (some net, "bad-op")
      | "net.script" :: i :: app :: answers =>
        match i.toNat?, app.toNat? with
        | some i, some a =>
          match net.stations[i]? with
          | some st =>
            let parsed := answers.map parseAnswer
            if parsed.any Option.isNone ∨ a ≥ st.apps.length then (some net, "bad-op") else
            let st' : NetStation := { st with apps := st.apps.set a ((st.apps.getD a []) ++ parsed.filterMap id) }
            (some { net with stations := net.stations.set i st' }, "ok")
          | none => (some net, "bad-op")
        | _, _ => (some net, "bad-op")
      | ["net.corrupt", a, z] =>
        match a.toInt?, z.toInt? with
        | some a, some z => (some { net with bus := { net.bus with corrupt := net.bus.corrupt ++ [(a, z)] } }, "ok")
        | _, _ => (some net, "bad-op")
      | ["net.drop", k] =>
        match k.toNat? with
        | some k => (some { net with bus := { net.bus with drops := net.bus.drops ++ [k] } }, "ok")
        | none => (some net, "bad-op")
      | ["net.poll", i, now] =>
        match i.toNat?, now.toInt? with
        | some i, some now =>
          let (net', incoming, r) := net.poll i now
          let body := match r with
            | none => "dead"
            | some (.panic _) => "panic"
            | some (.ok c) =>
              let txS := match c.tx with | some b => bytesToHex b | none => "-"
              let callsS := ";".intercalate (c.calls.map showCallSt)
              s!"tx={txS} rx={c.rx.length} calls=[{callsS}] {showView c.s}"
          (some net', s!"in={bytesToHex incoming} {body}")
        | _, _ => (some net, "bad-op")
      | _ => (some net, "bad-op")

end PV.Driver
