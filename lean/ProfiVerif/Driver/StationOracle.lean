/-
Executable property oracles over the observation stream of the `station` engine
(C01, C05, C11, C12, C13, C15 at station level).  They look only at what a user of the crate can
observe (bytes handed to the PHY, bytes consumed from it, application callbacks, the public ring
view, the state name from the verif-hooks view) and re-state the properties on that trace.
Every rule is written so that it can only fire on behaviour the property forbids.
-/
import ProfiVerif.Driver.Station
import ProfiVerif.Model.TelegramSpec

namespace PV.Driver
open PV

structure PollObs where
  tx : Option Bytes
  rxLeft : Nat
  calls : List String
  st : String
  ns : Nat
  ps : Nat
  ready : Bool
  las : List Nat

def kv (w : String) : String := ((w.splitOn "=").drop 1).headD ""

def parsePollObs (obs : String) : Option PollObs :=
  match obs.splitOn " " with
  | [tx, rx, calls, st, _inring, ns, ps, ready, las] => do
    let txb ← (if kv tx = "-" then some none else (hexToBytes (kv tx)).map some)
    let rxn ← (kv rx).toNat?
    let cs := ((kv calls).drop 1).dropEnd 1 |>.toString
    let nsn ← (kv ns).toNat?
    let psn ← (kv ps).toNat?
    let lasl := if kv las = "-" then [] else ((kv las).splitOn ",").filterMap String.toNat?
    pure { tx := txb, rxLeft := rxn, calls := if cs.isEmpty then [] else cs.splitOn ";", st := kv st,
           ns := nsn, ps := psn, ready := kv ready == "1", las := lasl }
  | _ => none

/-- Telegrams contained in a consumed byte string, as the receive helpers would deliver them
(undecodable data: nothing). -/
def telegramsOf (fuel : Nat) (bs : Bytes) : List Telegram :=
  match fuel with
  | 0 => []
  | f + 1 =>
    match decodeSpec bs with
    | .accept t n => if n = 0 then [] else t :: telegramsOf f (bs.drop n)
    | _ => []

structure OSt where
  p : Params := default
  napps : Nat := 0
  alive : Bool := false
  online : Bool := false
  buf : Bytes := []              -- PHY receive buffer before the next poll
  bufAtLastPoll : Nat := 0       -- its length right after the previous poll
  /-- mirror of the station's `pending_bytes` bookkeeping: RX bytes already accounted as bus activity
  (after undecodable data was discarded this can be stale — observation O1 of DESIGN section 7 — and
  arrivals below the stale count are *not registered*; the rules below speak about registered activity,
  which on fault-free traffic is the same as delivered activity) -/
  pb : Nat := 0
  phyTx : Bool := false
  st : String := "Offline"
  ns : Nat := 0
  ps : Nat := 0
  ready : Bool := false
  las : List Nat := []
  /-- latest instant at which the station must have registered bus activity (poll time with new
  bytes / with a decoded telegram) or the predicted end of its own last transmission -/
  lastActivity : Option Int := none
  lastPoll : Option Int := none
  /-- C11: stranger whose token offer was declined since entering ActiveIdle -/
  pendingStranger : Option Nat := none
  /-- C11/C12: a status request addressed to us was the last telegram of a batch → requester -/
  statusRequester : Option Nat := none
  /-- C11: number of consecutive transmissions of the same token without anything heard -/
  tokenRepeats : Nat := 0
  lastTokenTx : Option Bytes := none
  lastTokenTxTime : Int := 0
  heardSinceToken : Bool := false
  /-- C15: outstanding request (app, addr) -/
  outstanding : Option (Nat × Nat) := none
  /-- C13: time of the previous and current token receipt -/
  prevReceipt : Option Int := none
  curReceipt : Option Int := none
  hpUsedThisVisit : Bool := false
  gapPollsThisVisit : Nat := 0
  declinedThisVisit : List Nat := []
  /-- applications asked / whether one of them sent a telegram in the current token visit -/
  askedThisVisit : List Nat := []
  sentThisVisit : Bool := false
  /-- completed token visits (ended by passing the token) in a row without a GAP poll, and the NS they refer to -/
  pollFreeVisits : Nat := 0
  pollFreeNs : Nat := 0
  /-- C12: wrap-around token passes (DA ≤ SA, both ≤ 125) witnessed while listening since the station went online -/
  wraps : Nat := 0
  claimedSinceOnline : Bool := false
  /-- C12: GAP polls sent since the last claim token (none yet = `some 0` right after a claim) -/
  pollsSinceClaim : Option Nat := none

abbrev Fail := Option (String × String)

def first (fs : List Fail) : Fail := fs.foldl (fun acc f => match acc with | some x => some x | none => f) none

def isTokenFrame (b : Bytes) : Option (Nat × Nat) :=
  match b with
  | [sd, da, sa] => if sd = SD4 then some (da.toNat, sa.toNat) else none
  | _ => none

def decodeTx (b : Bytes) : Option Telegram :=
  match decodeSpec b with
  | .accept t n => if n = b.length then some t else none
  | _ => none

def inHolding (st : String) : Bool :=
  st == "UseToken" || st == "ClaimToken" || st == "AwaitDataResponse" || st == "AwaitStatusResponse"

/-- One (op, observation) pair.  `want` selects the property whose rules are evaluated. -/
def oracleStation (want : String) (o : OSt) (op obs : String) : OSt × Fail :=
  match splitWords op with
  | ["st.new", addr, rate, slot, ttr, gw, hsa, retry, napps] =>
    let p : Params := { address := addr.toNat!, rate := rate.toNat!, slotBits := slot.toNat!, ttrBits := ttr.toNat!,
                        gapWait := gw.toNat!, hsa := hsa.toNat!, maxRetry := retry.toNat!, minTsdrBits := 11 }
    ({ p := p, napps := napps.toNat!, alive := obs == "ok", ns := p.address, ps := p.address, las := [p.address] }, none)
  | ["st.online"] => ({ o with online := true }, none)
  | ["st.napps", k] => (if obs == "ok" then { o with napps := k.toNat! } else o, none)
  | ["st.offline"] =>
    ({ p := o.p, napps := o.napps, alive := o.alive, buf := o.buf, bufAtLastPoll := o.buf.length, phyTx := o.phyTx,
       ns := o.p.address, ps := o.p.address, las := [o.p.address] }, none)
  | ["st.rx", h] => ({ o with buf := o.buf ++ (hexToBytes h).getD [] }, none)
  | ["st.phytx", b] => ({ o with phyTx := b == "1" }, none)
  | ["st.poll", nowS] =>
    if !o.alive then (o, none) else
    if obs = "panic" then
      ({ o with alive := false }, if want = "C05" then some ("C05", "poll() panicked") else none)
    else if obs = "dead" then (o, none) else
    match nowS.toInt?, parsePollObs obs with
    | some now, some r =>
      -- an offline station returns at once: nothing is registered, consumed or transmitted
      if !o.online then ({ o with st := "Offline", lastPoll := some now }, none) else
      let ts := o.p.address
      let consumedLen := o.buf.length - r.rxLeft
      let consumed := o.buf.take consumedLen
      let delivered := telegramsOf (consumedLen + 1) consumed
      let early : Bool := o.phyTx || (match o.lastActivity with | some l => decide (now ≤ l) | none => false)
      let newBytes : Bool := !early && decide (o.buf.length > o.pb)
      let prevSt := o.st
      -- activity bookkeeping (what the station must have noticed by the end of this poll)
      let noticed := newBytes || !delivered.isEmpty
      let slotT : Int := (o.p.slotTime : Nat)
      let sync : Int := (o.p.bits 33 : Nat)
      -- ---------------------------------------------------------------- C01
      let c01 : Fail :=
        if want ≠ "C01" then none else
        match r.tx with
        | none => none
        | some b =>
          first [
            (if o.phyTx then some ("C01", "transmission started while the PHY reports an ongoing transmission") else none),
            (match o.lastActivity with
             | some l => if now ≤ l + sync ∧ ¬ noticed then
                 some ("C01", s!"transmission at {now} starts within 33 bit times of the last bus activity registered at {l}") else none
             | none => none),
            (if noticed ∧ prevSt ≠ "AwaitDataResponse" ∧ prevSt ≠ "AwaitStatusResponse" ∧ prevSt ≠ "ClaimToken" ∧ prevSt ≠ "CheckTokenPass" then
               some ("C01", "transmission in the very poll that noticed new bus activity") else none),
            (match isTokenFrame b with
             | some (da, sa) =>
               if sa ≠ ts then some ("C01", "token sent with a foreign source address")
               else if prevSt = "ListenToken" ∨ prevSt = "ActiveIdle" then
                 -- claim: only after the own silence time-out
                 (match o.lastActivity with
                  | some l => if (now - l).natAbs < o.p.tokenLostTimeout then
                      some ("C01", s!"token claimed after only {(now - l).natAbs} us of silence (time-out {o.p.tokenLostTimeout})") else none
                  | none => none)
               else if da ≠ ts ∧ da ≠ o.ns ∧ ¬ (prevSt = "CheckTokenPass") ∧ ¬ (prevSt = "AwaitStatusResponse") ∧ ¬ (prevSt = "PassToken") then
                 some ("C01", "token passed by a station that does not hold it") else none
             | none =>
               match decodeTx b with
               | some (.data h _) =>
                 (match h.fc with
                  | .response .. =>
                    if (prevSt = "ListenToken" ∨ prevSt = "ActiveIdle") ∧ o.statusRequester = some h.da.toNat then none
                    else some ("C01", "reply sent without a request addressed to this station")
                  | .request .. =>
                    if inHolding prevSt ∨ prevSt = "PassToken" ∨ prevSt = "CheckTokenPass" then none
                    else some ("C01", s!"request sent from state {prevSt} (no token)"))
               | _ => none)]
      -- ---------------------------------------------------------------- C11
      let lastDelivered := delivered.getLast?
      let tokenToUs : Option Nat := match lastDelivered with
        | some (.token da sa) => if da.toNat = ts ∧ r.rxLeft = 0 then some sa.toNat else none
        | _ => none
      let acceptedByRx : Bool := r.st == "UseToken" && (prevSt == "ActiveIdle" || prevSt == "CheckTokenPass" || prevSt == "ListenToken") && r.tx.isNone
      let strangerNow : Option Nat := if prevSt = "CheckTokenPass" then none else o.pendingStranger
      let c11 : Fail :=
        if want ≠ "C11" then none else
        first [
          (if acceptedByRx ∧ prevSt = "ListenToken" then some ("C11", "token accepted while merely listening") else none),
          (if acceptedByRx ∧ prevSt ≠ "ListenToken" then
             match tokenToUs with
             | none => some ("C11", "entered UseToken without a token addressed to this station as the last telegram")
             | some sa => if sa = o.ps ∨ strangerNow = some sa ∨ sa = r.ps then none
                          else some ("C11", s!"token from #{sa} accepted at once although the predecessor is #{o.ps}")
           else none),
          -- supervision: the same token is transmitted at most three times in a row without anything heard
          (match r.tx with
           | some b => if (isTokenFrame b).isSome ∧ o.lastTokenTx = some b ∧ ¬ o.heardSinceToken ∧ o.tokenRepeats ≥ 3 ∧ (isTokenFrame b).map (·.1) ≠ some ts then
               some ("C11", "token pass repeated more than twice") else none
           | none => none),
          (match r.tx with
           | some b => if (isTokenFrame b).isSome ∧ o.lastTokenTx = some b ∧ ¬ o.heardSinceToken ∧ prevSt = "CheckTokenPass"
                          ∧ now ≤ o.lastTokenTxTime + (o.p.bits (11 * 3) : Nat) + slotT then
               some ("C11", "token pass repeated before one slot time of silence had elapsed") else none
           | none => none),
          -- never remove a successor that was heard: NS is dropped from the LAS only at a poll that
          -- registers no activity, more than a slot time after the last registered activity, and only
          -- after the token has been transmitted three times
          (if prevSt = "CheckTokenPass" ∧ o.las.contains o.ns ∧ ¬ r.las.contains o.ns ∧ o.ns ≠ ts ∧ delivered.isEmpty then
             (if noticed then some ("C11", s!"successor #{o.ns} removed at a poll that registered bus activity")
              else if (match o.lastActivity with | some l => decide (now ≤ l + slotT) | none => false) then
                some ("C11", s!"successor #{o.ns} removed less than a slot time after bus activity was heard")
              else if o.tokenRepeats < 3 then some ("C11", s!"successor #{o.ns} removed after only {o.tokenRepeats} token transmissions")
              else none)
           else none)]
      -- ---------------------------------------------------------------- C12 (station level)
      let txT := r.tx.bind decodeTx
      let fromApp := r.calls.any fun c => c.startsWith "T" && (c.splitOn ".").getD 2 "" != "d"
      let c12 : Fail :=
        if want ≠ "C12" then none else
        match txT with
        | some (.data h _) =>
          (match h.fc with
           | .request _ .fdlStatus =>
             if fromApp then none else
             first [
               (if h.da.toNat = ts then some ("C12", "GAP poll addressed to the own address") else none),
               (if ¬ InGap ts o.ns o.p.hsa h.da.toNat ∧ ¬ InGap ts r.ns o.p.hsa h.da.toNat then
                  some ("C12", s!"GAP poll of #{h.da.toNat} outside the GAP (TS={ts}, NS={o.ns}, HSA={o.p.hsa})") else none),
               (if prevSt ≠ "ClaimToken" ∧ o.gapPollsThisVisit ≥ 1 then some ("C12", "second GAP poll within one token visit") else none),
               -- right after claiming a token the whole GAP is swept, starting behind the own address
               (if prevSt = "ClaimToken" ∧ o.pollsSinceClaim = some 0 ∧ h.da.toNat ≠ (if ts + 1 = o.p.hsa then 0 else ts + 1) then
                  some ("C12", s!"first GAP poll after a claim goes to #{h.da.toNat}, not to the address behind the own one") else none)]
           | .response state status =>
             if prevSt = "ListenToken" ∨ prevSt = "ActiveIdle" then
               first [
                 (if o.statusRequester ≠ some h.da.toNat then some ("C12", "status reply although no status request was addressed to this station") else none),
                 (if status ≠ .ok then some ("C12", "status reply with error status") else none),
                 (if prevSt = "ActiveIdle" ∧ state ≠ .masterInRing then some ("C12", "station in the ring does not report MasterInRing") else none),
                 (if prevSt = "ListenToken" ∧ state = .masterInRing then some ("C12", "listening station reports MasterInRing") else none),
                 (if prevSt = "ListenToken" ∧ state = .masterWithoutToken ∧ ¬ (o.ready ∧ h.da.toNat = o.ps) then
                    some ("C12", "reports 'ready' although the LAS is not valid or the requester is not the predecessor") else none),
                 (if prevSt = "ListenToken" ∧ state = .masterWithoutToken ∧ o.wraps < 3 ∧ ¬ o.claimedSinceOnline then
                    some ("C12", s!"reports 'ready' after only {o.wraps} witnessed wrap-arounds since going online (two identical rotations need three)") else none),
                 (if prevSt = "ListenToken" ∧ state = .masterNotReady ∧ (o.ready ∧ h.da.toNat = o.ps) then
                    some ("C12", "reports 'not ready' to the predecessor although two identical rotations were seen") else none)]
             else none
           | _ => none)
        | _ => none
      -- ---------------------------------------------------------------- C15 / C13
      let tCalls := r.calls.filter (·.startsWith "T")
      let rCalls := r.calls.filter fun c => c.startsWith "R" || c.startsWith "O"
      let appOf (c : String) : Nat := (((c.drop 1).toString.splitOn ".").headD "").toNat!
      -- a new token visit starts when UseToken is entered from outside UseToken/AwaitDataResponse; the calls of
      -- this poll belong to the visit that was running before the poll
      let enteringUseEarly : Bool := false
      let c15 : Fail :=
        if want ≠ "C15" then none else
        first [
          (if ¬ tCalls.isEmpty ∧ ¬ (prevSt = "UseToken" ∨ prevSt = "AwaitDataResponse" ∨
              ((prevSt = "ActiveIdle" ∨ prevSt = "PassToken") ∧ false)) then
             some ("C15", s!"application asked for a telegram in state {prevSt}") else none),
          (if ¬ tCalls.isEmpty ∧ o.outstanding.isSome ∧ rCalls.isEmpty then
             some ("C15", "application asked for a telegram while a reply is outstanding") else none),
          (if rCalls.length > 1 then some ("C15", "more than one reply/time-out delivered in one poll") else none),
          (match rCalls.head? with
           | some c =>
             (match o.outstanding with
              | none => some ("C15", "reply/time-out delivered although no request is outstanding")
              | some (app, addr) =>
                let parts := (c.drop 1).toString.splitOn "."
                if parts.headD "" ≠ toString app then some ("C15", "reply/time-out delivered to a different application")
                else if parts.getD 1 "" ≠ toString addr then some ("C15", "reply/time-out for a different address than the one addressed")
                else if c.startsWith "R" then
                  (match lastDelivered with
                   | some .sc => none
                   | some (.data h _) =>
                     (match h.fc with
                      | .response .. => if h.sa.toNat = addr ∧ h.da.toNat = ts then none
                                        else some ("C15", "reply with foreign source/destination delivered")
                      | _ => some ("C15", "a request was delivered as a reply"))
                   | _ => some ("C15", "something that is not a reply was delivered as a reply"))
                else none)
           | none => none),
          -- round robin: the applications asked in one poll are consecutive (cyclically), none twice
          (let asked := tCalls.map appOf
           let okSeq := (asked.zip (asked.drop 1)).all fun (a, b) => b == (a + 1) % (max o.napps 1)
           if ¬ okSeq then some ("C15", s!"applications asked out of round-robin order: {asked}") else
           if asked.length > o.napps then some ("C15", "an application was asked twice in one poll") else
           if asked.any (fun a => o.declinedThisVisit.contains a) ∧ ¬ enteringUseEarly then
             some ("C15", "an application that declined was asked again in the same token visit") else none)]
      let c13 : Fail :=
        if want ≠ "C13" then none else
        let hp0 := tCalls.any fun c => (c.splitOn ".").getD 1 "" == "0"
        let hp1 := tCalls.any fun c => (c.splitOn ".").getD 1 "" == "1"
        first [
          (match o.prevReceipt with
           | some t0 => if hp0 ∧ now ≥ t0 + (o.p.ttrTime : Nat) ∧ o.curReceipt.isSome then
               some ("C13", s!"new message cycle started at {now} although the target rotation time since the previous token receipt ({t0}) has elapsed") else none
           | none => none),
          (if hp1 ∧ o.hpUsedThisVisit then some ("C13", "more than one message cycle after the hold time was over") else none)]
      -- ---------------------------------------------------------------- C06 (station level)
      let c06 : Fail :=
        if want ≠ "C06" then none else
        first [
          -- claim_on_silence: silent for the own time-out while listening / idle ⇒ this poll claims
          (match o.lastActivity with
           | some l =>
             if (prevSt = "ListenToken" ∨ prevSt = "ActiveIdle") ∧ ¬ early ∧ ¬ noticed ∧
                (now - l).natAbs ≥ o.p.tokenLostTimeout ∧ r.st ≠ "ClaimToken" ∧ r.st ≠ "UseToken" ∧ r.st ≠ "PassToken" then
               some ("C06", s!"bus silent for {(now - l).natAbs} us ≥ time-out {o.p.tokenLostTimeout} but the station did not claim the token (state {r.st})")
             else none
           | none => none),
          -- undecodable data alone never changes the FDL state of a waiting station
          (if (prevSt = "ListenToken" ∨ prevSt = "ActiveIdle") ∧ consumedLen > 0 ∧ delivered.isEmpty ∧ r.tx.isNone ∧
              r.st ≠ prevSt ∧ r.st ≠ "ClaimToken" then
             some ("C06", s!"undecodable data changed the FDL state {prevSt} → {r.st}") else none),
          -- back-off: an unexpected telegram while waiting for a reply leads to ActiveIdle, silently
          (if (prevSt = "AwaitStatusResponse") ∧ ¬ delivered.isEmpty ∧ r.st ≠ "ActiveIdle" ∧ r.st ≠ "PassToken" ∧ r.st ≠ "CheckTokenPass" ∧ r.st ≠ "UseToken" ∧ r.st ≠ "AwaitStatusResponse" then
             some ("C06", s!"unexpected telegram while awaiting a status reply led to {r.st}") else none)]
      -- ---------------------------------------------------------------- visit-level rules (C12 sweep progress, C13/C15 fairness)
      let ownTokenTx : Bool := match r.tx with
        | some b => (match isTokenFrame b with | some (_, sa) => sa == ts | none => false)
        | none => false
      let isGapNow : Bool := match txT with
        | some (.data h _) => (match h.fc with | .request _ .fdlStatus => !fromApp | _ => false)
        | _ => false
      -- the token hold ends in this poll: the own token (first attempt) or the GAP poll of this visit goes out
      let visitEnds : Bool := (prevSt == "UseToken" || prevSt == "AwaitDataResponse" || prevSt == "PassToken" || prevSt == "AwaitStatusResponse")
        && ownTokenTx
      let askedNow := (o.askedThisVisit ++ tCalls.map appOf).eraseDups
      let sentNow := o.sentThisVisit || fromApp
      let holdEnds : Bool := (prevSt == "UseToken" || prevSt == "AwaitDataResponse") && (ownTokenTx || isGapNow)
      let c15b : Fail :=
        if want ≠ "C15" ∧ want ≠ "C13" then none else
        if holdEnds ∧ o.napps > 0 ∧ o.curReceipt.isSome ∧ ¬ sentNow ∧ askedNow.length < o.napps then
          some (want, s!"token hold ended although only the applications {askedNow} of {o.napps} were asked in this visit and none of them sent a telegram (an application is starved)")
        else if want = "C15" ∧ (tCalls.any fun c => (c.splitOn ".").getD 1 "" == "1") ∧ o.hpUsedThisVisit then
          some ("C15", "applications asked again although the hold time is over and the one guaranteed message cycle of this visit is done (the token must be passed)")
        else none
      let gapNonEmpty : Bool := (List.range o.p.hsa).any fun a => decide (InGap ts o.ns o.p.hsa a)
      let freeNow : Nat := if o.pollFreeNs == o.ns then o.pollFreeVisits else 0
      let c12b : Fail :=
        if want ≠ "C12" then none else
        if visitEnds ∧ o.gapPollsThisVisit = 0 ∧ ¬ isGapNow ∧ gapNonEmpty ∧ freeNow + 1 > o.p.gapWait + 3 then
          some ("C12", s!"{freeNow + 1} token visits in a row ended without a GAP poll although the GAP towards #{o.ns} is not empty (GAP wait is {o.p.gapWait} rotations)")
        else none
      -- ---------------------------------------------------------------- state update
      let txEnd : Option Int := r.tx.map fun b => now + (o.p.bits (11 * b.length) : Nat)
      let lastActivity :=
        match txEnd with
        | some e => some e
        | none =>
          let poked := noticed || o.phyTx || (match o.lastActivity with | some l => decide (now ≤ l) | none => false)
          if poked then some (match o.lastActivity with | some l => max l now | none => now)
          else match o.lastActivity with
            | some l => some l
            -- every handler initialises an unknown activity time to `now` (`get_or_insert(now)`)
            | none => if r.st != "Offline" then some now else none
      let isTokTx : Bool := match r.tx with | some b => (isTokenFrame b).isSome | none => false
      let sameTok : Bool := isTokTx && decide (o.lastTokenTx = r.tx) && !o.heardSinceToken
      -- a new token visit starts when UseToken is entered from another state, or when a station alone in its
      -- ring passes the token to itself and is in UseToken again at the end of the same poll
      let selfPass : Bool := match r.tx with | some b => (isTokenFrame b) == some (ts, ts) | none => false
      let enteringUse : Bool := r.st == "UseToken" && ((prevSt != "UseToken" && prevSt != "AwaitDataResponse") || selfPass)
      let statusReqNow : Option Nat :=
        match lastDelivered with
        | some (.data h _) =>
          (match h.fc with
           | .request _ .fdlStatus => if h.da.toNat = ts ∧ r.rxLeft = 0 ∧ (r.st = "ListenToken" ∨ r.st = "ActiveIdle") then some h.sa.toNat else none
           | _ => none)
        | _ => none
      let newOutstanding : Option (Nat × Nat) :=
        match r.tx.bind decodeTx, tCalls.getLast? with
        | some (.data h _), some c =>
          if (c.splitOn ".").getD 2 "" != "d" then
            (match expectsReplyOf h with
             | some a => some (appOf c, a.toNat)
             | none => none)
          else none
        | _, _ => none
      let o' : OSt := { o with
        buf := o.buf.drop consumedLen, bufAtLastPoll := r.rxLeft,
        pb := (if early then o.pb else if !delivered.isEmpty then 0 else if o.buf.length > o.pb then o.buf.length else o.pb),
        st := r.st, ns := r.ns, ps := r.ps, ready := r.ready, las := r.las,
        lastActivity := lastActivity, lastPoll := some now,
        pendingStranger :=
          if r.st ≠ "ActiveIdle" then none
          else match tokenToUs with
            | some sa => if sa ≠ o.ps ∧ ¬ acceptedByRx then some sa else (if prevSt = "ActiveIdle" then o.pendingStranger else none)
            | none => if prevSt = "ActiveIdle" then o.pendingStranger else none,
        statusRequester :=
          (match statusReqNow with
           | some a => some a
           | none => if r.tx.isSome then none else if r.st = prevSt then o.statusRequester else none),
        tokenRepeats := if isTokTx then (if isTokTx && decide (o.lastTokenTx = r.tx) then o.tokenRepeats + 1 else 1) else (if !delivered.isEmpty || r.tx.isSome then 0 else o.tokenRepeats),
        lastTokenTx := if isTokTx then r.tx else (if r.tx.isSome then none else o.lastTokenTx),
        lastTokenTxTime := if isTokTx then now else o.lastTokenTxTime,
        heardSinceToken := if isTokTx then false else (o.heardSinceToken || noticed),
        outstanding := (match newOutstanding with
          | some x => some x
          | none => if ¬ rCalls.isEmpty ∨ r.st = "ActiveIdle" ∨ r.st = "ListenToken" ∨ r.st = "Offline" then none else o.outstanding),
        prevReceipt := if enteringUse then o.curReceipt else o.prevReceipt,
        curReceipt := if enteringUse then some now else o.curReceipt,
        hpUsedThisVisit := if enteringUse then false else (o.hpUsedThisVisit || tCalls.any fun c => (c.splitOn ".").getD 1 "" == "1"),
        gapPollsThisVisit :=
          (let isGap := match txT with
            | some (.data h _) => (match h.fc with | .request _ .fdlStatus => !fromApp | _ => false)
            | _ => false
           if enteringUse then 0 else if isGap then o.gapPollsThisVisit + 1 else o.gapPollsThisVisit),
        askedThisVisit := if enteringUse then [] else askedNow,
        sentThisVisit := if enteringUse then false else sentNow,
        pollFreeVisits := (if visitEnds then (if o.gapPollsThisVisit = 0 ∧ ¬ isGapNow then freeNow + 1 else 0) else freeNow),
        pollFreeNs := o.ns,
        declinedThisVisit :=
          (let newDeclined := (tCalls.filter fun c => (c.splitOn ".").getD 2 "" == "d").map appOf
           if enteringUse then [] else if r.st == "UseToken" || r.st == "AwaitDataResponse" then o.declinedThisVisit ++ newDeclined else []),
        wraps :=
          (let w := delivered.filter fun t => match t with
             | .token da sa => decide (da.toNat ≤ 125 ∧ sa.toNat ≤ 125 ∧ da.toNat ≤ sa.toNat ∧ sa.toNat ≠ ts)
             | _ => false
           if prevSt == "ListenToken" || prevSt == "Offline" then o.wraps + w.length else o.wraps),
        claimedSinceOnline := o.claimedSinceOnline || r.st == "ClaimToken",
        pollsSinceClaim :=
          (let isClaimTok := match r.tx with | some b => (isTokenFrame b) == some (ts, ts) && prevSt == "ClaimToken" | none => false
           let isGapPoll := match txT with
             | some (.data h _) => (match h.fc with | .request _ .fdlStatus => !fromApp | _ => false)
             | _ => false
           if isClaimTok then some 0 else if r.st != "ClaimToken" then none
           else if isGapPoll then o.pollsSinceClaim.map (· + 1) else o.pollsSinceClaim) }
      -- the station took itself offline in this poll (address collision): same reset as `set_offline`
      let o'' : OSt := if r.st == "Offline" then
          { p := o.p, napps := o.napps, alive := o.alive, buf := o'.buf, bufAtLastPoll := o'.buf.length, phyTx := o.phyTx,
            ns := o.p.address, ps := o.p.address, las := [o.p.address], lastPoll := some now }
        else o'
      (o'', first [c01, c11, c12, c12b, c15, c15b, c13, c06])
    | _, _ => (o, some (want, s!"unparsable observation: {obs}"))
  | _ => (o, none)

end PV.Driver
