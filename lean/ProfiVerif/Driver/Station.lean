/-
Driver glue for the `station` engine (model side).
-/
import ProfiVerif.Driver.Codec
import ProfiVerif.Model.Station

namespace PV.Driver
open PV

def showAnswer : AppAnswer → String
  | .decline => "d"
  | .send h pdu =>
    s!"s:{h.da.toNat}:{h.sa.toNat}:{showOptU8 h.dsap}:{showOptU8 h.ssap}:{showFc h.fc}:{bytesToHex pdu}"

def parseAnswer (s : String) : Option AppAnswer :=
  if s = "d" then some .decline else
  match s.splitOn ":" with
  | ["s", da, sa, dsap, ssap, fc, pdu] => do
      let h ← parseHeader da sa dsap ssap fc
      let p ← hexToBytes pdu
      pure (.send h p)
  | _ => none

def showCallSt : AppCall → String
  | .transmit i hp a => s!"T{i}.{if hp then 1 else 0}.{showAnswer a}"
  | .reply i addr t => s!"R{i}.{addr}.{(showTelegram t).replace " " ","}"
  | .timeout i addr => s!"O{i}.{addr}"

def showView (s : Station) : String :=
  let las := s.ring.activeList
  let lasS := if las.isEmpty then "-" else ",".intercalate (las.map toString)
  s!"st={s.st.name} inring={if s.isInRing then 1 else 0} ns={s.ring.ns} ps={s.ring.ps} ready={if s.ring.readyForRing then 1 else 0} las={lasS}"

/-- Model state of the engine: the station with its application scripts and PHY (rx buffer,
transmitting flag); `none` = no station / dead after a panic. -/
structure StModel where
  s : Station
  apps : Apps
  rx : Bytes := []
  phyTx : Bool := false

def stepStation (m : Option StModel) (line : String) : Option StModel × String :=
  match splitWords line with
  | ["st.new", addr, rate, slot, ttr, gw, hsa, retry, napps] =>
    match addr.toNat?, rate.toNat?, slot.toNat?, ttr.toNat?, gw.toNat?, hsa.toNat?, retry.toNat?, napps.toNat? with
    | some addr, some rate, some slot, some ttr, some gw, some hsa, some retry, some napps =>
      -- `FdlActiveStation::new` asserts address ≤ 127 and HSA ≤ 126
      if addr > 127 ∨ hsa > 126 then (none, "panic") else
      let p : Params := { address := addr, rate := rate, slotBits := slot, ttrBits := ttr, gapWait := gw,
                          hsa := hsa, maxRetry := retry, minTsdrBits := 11 }
      (some { s := Station.new p, apps := List.replicate napps [] }, "ok")
    | _, _, _, _, _, _, _, _ => (m, "bad-op")
  | w =>
    match m with
    | none => (none, "dead")
    | some m =>
      match w with
      | ["st.online"] => (some { m with s := m.s.setOnline }, "ok")
      | ["st.offline"] => (some { m with s := m.s.setOffline }, "ok")
      | ["st.napps", k] =>
        -- the application list may be changed while the station is offline
        if m.s.online then (some m, "bad-op") else
        (match k.toNat? with
         | some k => (some { m with apps := (m.apps.take k) ++ List.replicate (k - m.apps.length) [] }, "ok")
         | none => (some m, "bad-op"))
      | "st.script" :: app :: answers =>
        match app.toNat? with
        | some i =>
          if i ≥ m.apps.length then (some m, "bad-op") else
          let parsed := answers.map parseAnswer
          if parsed.any Option.isNone then (some m, "bad-op") else
          (some { m with apps := m.apps.set i ((m.apps.getD i []) ++ parsed.filterMap id) }, "ok")
        | none => (some m, "bad-op")
      | ["st.rx", h] =>
        match hexToBytes h with
        | some b => (some { m with rx := m.rx ++ b }, s!"rx={(m.rx ++ b).length}")
        | none => (some m, "bad-op")
      | ["st.phytx", b] => (some { m with phyTx := b == "1" }, "ok")
      | ["st.poll", now] =>
        match now.toInt? with
        | some now =>
          match m.s.poll m.apps now m.phyTx m.rx with
          | .panic _ => (none, "panic")
          | .ok c =>
            let txS := match c.tx with | some b => bytesToHex b | none => "-"
            let callsS := ";".intercalate (c.calls.map showCallSt)
            (some { m with s := c.s, apps := c.apps, rx := c.rx },
             s!"tx={txS} rx={c.rx.length} calls=[{callsS}] {showView c.s}")
        | none => (some m, "bad-op")
      | _ => (some m, "bad-op")

end PV.Driver
