/-
Driver glue for the `apps` engine (LiveList / DpScanner through the `FdlApplication` trait) and the
executable oracle of C18.  Line protocol: see `harness/src/apps.rs`.
-/
import ProfiVerif.Driver.Codec
import ProfiVerif.Model.Scanner

namespace PV.Driver
open PV PV.Apps

/-! ### Model side -/

structure AppsState where
  ll : Option (UInt8 × LiveList) := none
  sc : Option (UInt8 × Scanner) := none

def parseTelegramApps : List String → Option Telegram
  | ["sc"] => some .sc
  | ["token", da, sa] => do
      let d ← u8? da
      let s ← u8? sa
      pure (.token d s)
  | ["data", da, sa, dsap, ssap, fc, pdu] => do
      let h ← parseHeader da sa dsap ssap fc
      let p ← hexToBytes pdu
      pure (.data h p)
  | _ => none

def showRequest : Option (Header × Bytes) → String
  | none => "none"
  | some (h, pdu) =>
    match h.serialize pdu with
    | .ok bs => s!"req exp={showOptU8 (expectsReplyOf h)} {bytesToHex bs} | {showDecoded (deserialize bs)}"
    | .panic => "panic"

def showNatList (l : List Nat) : String :=
  if l.isEmpty then "-" else ",".intercalate (l.map toString)

def showOptNat : Option Nat → String
  | none => "-"
  | some n => toString n

def showLlEvent : Option StationEvent → String
  | none => "none"
  | some (.discovered a st) => s!"discovered {a} {st.toU8.toNat}"
  | some (.lost a) => s!"lost {a}"

def showScEvent : Option DpScanEvent → String
  | none => "none"
  | some (.found d) => s!"found {d.address} {d.ident} {showOptNat d.master}"
  | some (.requery d) => s!"requery {d.address} {d.ident} {showOptNat d.master}"
  | some (.lost a) => s!"lost {a}"

/-- One op on the live list.  `none` result state = the object is poisoned (a panic happened). -/
def stepLl (own : UInt8) (s : LiveList) (w : List String) : Option (Option LiveList × String) :=
  match w with
  | ["tx", _] =>
    let (s', r) := LiveList.transmit own s
    let o := showRequest r
    if o = "panic" then some (none, o) else some (some s', o)
  | "reply" :: addr :: tg =>
    match u8? addr, parseTelegramApps tg with
    | some a, some t =>
      match LiveList.receiveReply s a.toNat t with
      | .ok s' => some (some s', "ok")
      | .panic => some (none, "panic")
    | _, _ => none
  | ["timeout", addr] =>
    match u8? addr with
    | some a =>
      match LiveList.handleTimeout s a.toNat with
      | .ok s' => some (some s', "ok")
      | .panic => some (none, "panic")
    | none => none
  | ["take"] =>
    let (s', e) := LiveList.takeLastEvent s
    some (some s', showLlEvent e)
  | ["stations"] => some (some s, s!"list {showNatList (LiveList.stations s)}")
  | _ => none

def stepSc (own : UInt8) (s : Scanner) (w : List String) : Option (Option Scanner × String) :=
  match w with
  | ["tx", _] =>
    let (s', r) := Scanner.transmit own s
    let o := showRequest r
    if o = "panic" then some (none, o) else some (some s', o)
  | "reply" :: addr :: tg =>
    match u8? addr, parseTelegramApps tg with
    | some a, some t =>
      match Scanner.receiveReply s a.toNat t with
      | .ok s' => some (some s', "ok")
      | .panic => some (none, "panic")
    | _, _ => none
  | ["timeout", addr] =>
    match u8? addr with
    | some a =>
      match Scanner.handleTimeout s a.toNat with
      | .ok s' => some (some s', "ok")
      | .panic => some (none, "panic")
    | none => none
  | ["take"] =>
    let (s', e) := Scanner.takeLastEvent s
    some (some s', showScEvent e)
  | _ => none

/-- `new`: `ParametersBuilder::new` asserts `address <= 125`. -/
def newOk (own : UInt8) : Bool := own.toNat ≤ 125

def stepApps (st : AppsState) (w : List String) : AppsState × String :=
  match w with
  | [] => (st, "bad-op")
  | head :: args =>
    match head.splitOn "." with
    | [app, op] =>
      if op = "env" then (st, "env") else
      if op = "new" then
        match args with
        | [own] =>
          match u8? own with
          | some o =>
            if app = "ll" then
              if newOk o then ({ st with ll := some (o, LiveList.init) }, "ok") else ({ st with ll := none }, "panic")
            else if app = "sc" then
              if newOk o then ({ st with sc := some (o, Scanner.init) }, "ok") else ({ st with sc := none }, "panic")
            else (st, "bad-op")
          | none => (st, "bad-op")
        | _ => (st, "bad-op")
      else if app = "ll" then
        match st.ll with
        | none => (st, "dead")
        | some (own, s) =>
          match stepLl own s (op :: args) with
          | some (some s', o) => ({ st with ll := some (own, s') }, o)
          | some (none, o) => ({ st with ll := none }, o)
          | none => (st, "bad-op")
      else if app = "sc" then
        match st.sc with
        | none => (st, "dead")
        | some (own, s) =>
          match stepSc own s (op :: args) with
          | some (some s', o) => ({ st with sc := some (own, s') }, o)
          | some (none, o) => ({ st with sc := none }, o)
          | none => (st, "bad-op")
      else (st, "bad-op")
    | _ => (st, "bad-op")

/-! ### Oracle C18 — the property evaluated on the implementation's observations

Independent of the model functions above (it uses the decoder of `Model/Telegram`, proved correct in
C09, to read the request the implementation wrote). -/

structure OCase where
  alive : Bool := false
  own : Nat := 0
  inContract : Bool := true
  /-- address the implementation said it expects a reply from -/
  outstanding : Option Nat := none
  lastProbe : Option Nat := none
  cbSince : Bool := false
  idle : Bool := true
  dirty : Bool := false
  collected : Bool := true
  lastCb : Option Nat := none
  /-- live list: addresses that answered with something that is not a response telegram -/
  taint : List Nat := []
  /-- stations according to the events taken: address ↦ (ident, master) -/
  view : List (Nat × Nat × Option Nat) := []
  /-- announced population: address ↦ good reply? -/
  env : List (Nat × Bool) := []
  /-- consecutive most recent callbacks that agree with `env` -/
  stable : Nat := 0
  /-- scanner: description carried by the last well-formed reply of each address -/
  lastGood : List (Nat × Nat × Option Nat) := []

structure AppsOState where
  ll : OCase := {}
  sc : OCase := {}
  /-- `apps.env fdl`: the history was produced by a real FdlActiveStation (engine `appsfdl`); a callback
  outside the FDL→application contract is then a failure of C18's hypothesis chain -/
  strict : Bool := false

def lookupA {β : Type} (l : List (Nat × β)) (a : Nat) : Option β := (l.find? fun x => x.1 == a).map (·.2)
def eraseA {β : Type} (l : List (Nat × β)) (a : Nat) : List (Nat × β) := l.filter fun x => x.1 != a
def insertA {β : Type} (l : List (Nat × β)) (a : Nat) (b : β) : List (Nat × β) := (a, b) :: eraseA l a

def insertSorted (a : Nat) : List Nat → List Nat
  | [] => [a]
  | b :: r => if a ≤ b then a :: b :: r else b :: insertSorted a r
def sortNat (l : List Nat) : List Nat := l.foldl (fun acc a => insertSorted a acc) []

def parseEnv (s : String) : List (Nat × Bool) :=
  if s = "-" then [] else
  (s.splitOn ",").filterMap fun it =>
    match it.splitOn ":" with
    | [a, c] => a.toNat?.map fun n => (n, c == "g")
    | _ => none

def parseNatList (s : String) : List Nat :=
  if s = "-" then [] else (s.splitOn ",").filterMap String.toNat?

def parseOptNat (s : String) : Option (Option Nat) :=
  if s = "-" then some none else s.toNat?.map some

/-- What the FDL station may deliver as reply from `a` (C15 contract). -/
def allowedReply (own a : Nat) : Telegram → Bool
  | .sc => true
  | .data h _ => h.sa.toNat == a && h.da.toNat == own &&
      (match h.fc with | .response _ _ => true | .request _ _ => false)
  | .token _ _ => false

def isResponseTg : Telegram → Bool
  | .data h _ => (match h.fc with | .response _ _ => true | .request _ _ => false)
  | _ => false

/-- Well-formed diagnostics response, and what it says: ident = BE16(pdu[4..6]), master = pdu[3] (255 = none). -/
def diagSpec : Telegram → Option (Nat × Option Nat)
  | .data h pdu =>
    if h.dsap = some 62 ∧ h.ssap = some 60 ∧ 6 ≤ pdu.length then
      let m := (pdu.getD 3 0).toNat
      some ((pdu.getD 4 0).toNat * 256 + (pdu.getD 5 0).toNat, if m = 255 then none else some m)
    else none
  | _ => none

def failC18 (c : OCase) (why : String) : OCase × Option (String × String) := (c, some ("C18", why))

/-- Check of the convergence clause against the event-derived view (both applications). -/
def checkView (scanner : Bool) (c : OCase) : OCase × Option (String × String) :=
  if c.stable < 252 then (c, none) else
  let clean := fun (a : Nat) => !c.taint.contains a
  let expected := sortNat ((c.env.filter fun x => (x.2 || !scanner) && x.1 != c.own && clean x.1).map (·.1))
  let actual := sortNat ((c.view.map (·.1)).filter clean)
  let missing := expected.filter fun a => !actual.contains a
  let extra := actual.filter fun a => !expected.contains a
  if missing.isEmpty && extra.isEmpty then
    if scanner then
      match expected.find? fun a => lookupA c.view a != lookupA c.lastGood a with
      | some a => failC18 c s!"list_tracks: ident/master known for #{a} differ from its last diagnostics reply"
      | none => (c, none)
    else (c, none)
  else failC18 c s!"list_tracks: after two stable sweeps events say {showNatList actual}, population is {showNatList expected}"

def oracleCase (scanner : Bool) (strict : Bool) (c : OCase) (w : List String) (obs : String) : OCase × Option (String × String) :=
  -- leaving the contract: the case is no longer judged; in the composed engine it is reported
  let leave := fun (c : OCase) (why : String) =>
    if strict then
      ({ c with inContract := false },
       some ("C18", s!"fdl_contract (C15, hypothesis of every C18 clause): the FDL layer {why}"))
    else ({ c with inContract := false }, (none : Option (String × String)))
  match w with
  | ["new", own] =>
    match own.toNat? with
    | some o => if obs = "ok" then ({ alive := true, own := o }, none) else ({}, none)
    | none => (c, none)
  | ["env", items] => ({ c with env := parseEnv items, stable := 0 }, none)
  | _ =>
  if !c.alive || !c.inContract then (c, none) else
  match w with
  | ["tx", _] =>
    if obs = "panic" then failC18 { c with alive := false } "no_panic: transmit_telegram panicked" else
    if obs = "none" then
      if c.cbSince && !c.idle then ({ c with idle := true, outstanding := none }, none)
      else failC18 { c with idle := true, outstanding := none }
        "one_probe_per_visit: transmit_telegram declined although the last probe has not been answered or timed out"
    else
      match splitWords obs with
      | "req" :: exp :: hex :: _ =>
        match hexToBytes hex with
        | none => failC18 c "request not readable"
        | some bs =>
          match deserialize bs with
          | .accept (.data h pdu) n =>
            let da := h.da.toNat
            let want : Header :=
              if scanner then { da := h.da, sa := UInt8.ofNat c.own, dsap := some 60, ssap := some 62, fc := .request .first .srdLow }
              else { da := h.da, sa := UInt8.ofNat c.own, dsap := none, ssap := none, fc := .request .inactive .fdlStatus }
            let c' := { c with lastProbe := some da, cbSince := false, idle := false,
                               outstanding := (exp.drop 4).toString.toNat? }
            if n ≠ bs.length ∨ h ≠ want ∨ !pdu.isEmpty then failC18 c' "request is not the status/diagnostics request from the own address"
            else if exp ≠ s!"exp={da}" then failC18 c' "request does not expect a reply from its destination"
            else if da > 125 then failC18 c' s!"probe_range: address {da} probed"
            else
              -- the successor modulo 126; an implementation that skips its own address is tolerated
              -- (the property only speaks of the addresses "other than the scanning station")
              let next := fun (p : Nat) => if (p + 1) % 126 = c.own then [(p + 1) % 126, (p + 2) % 126] else [(p + 1) % 126]
              match c.lastProbe with
              | none => if (next 125).contains da then (c', none) else failC18 c' s!"probe_range: first probe is {da}, not 0"
              | some p =>
                if c.cbSince then
                  if !c.idle then failC18 c' "one_probe_per_visit: second probe in the same visit"
                  else if (next p).contains da then (c', none)
                  else failC18 c' s!"probe_range: probe {da} follows completed probe {p}"
                else if da = p then (c', none)
                else failC18 c' s!"probe_range: probe {da} follows unanswered probe {p}"
          | _ => failC18 c "request is not a decodable data telegram"
      | _ => failC18 c "unreadable observation"
  | "reply" :: addr :: tg =>
    match addr.toNat?, parseTelegramApps tg with
    | some a, some t =>
      if c.outstanding ≠ some a then leave c s!"delivered a reply for #{a} although no reply from it is outstanding" else
      if !allowedReply c.own a t then
        leave c s!"delivered a telegram for #{a} that is no reply from it (wrong source / destination, request or token): {showTelegram t}" else
      if obs ≠ "ok" then failC18 { c with alive := false } "no_panic: receive_reply panicked" else
      let wf := diagSpec t
      let cls : Bool := if scanner then wf.isSome else true
      let ec := lookupA c.env a
      let agrees : Bool :=
        a != c.own && (if scanner then (if cls then ec == some true else ec == some false) else ec.isSome)
      ({ c with outstanding := none, cbSince := true, collected := c.collected && !c.dirty, dirty := true,
                lastCb := some a, stable := if agrees then c.stable + 1 else 0,
                taint := if !scanner && !isResponseTg t && !c.taint.contains a then a :: c.taint else c.taint,
                lastGood := match wf with
                  | some d => if scanner then insertA c.lastGood a d else c.lastGood
                  | none => c.lastGood }, none)
    | _, _ => (c, none)
  | ["timeout", addr] =>
    match addr.toNat? with
    | some a =>
      if c.outstanding ≠ some a then leave c s!"reported a time-out for #{a} although no reply from it is outstanding" else
      if obs ≠ "ok" then failC18 { c with alive := false } "no_panic: handle_timeout panicked" else
      let agrees : Bool := a == c.own || (lookupA c.env a).isNone
      ({ c with outstanding := none, cbSince := true, collected := c.collected && !c.dirty, dirty := true,
                lastCb := some a, stable := if agrees then c.stable + 1 else 0 }, none)
    | none => (c, none)
  | ["take"] =>
    let c1 := { c with dirty := false }
    if obs = "panic" then failC18 { c with alive := false } "no_panic: take_last_event panicked" else
    if !c.collected then (c1, none) else
    match splitWords obs with
    | ["none"] => checkView scanner c1
    | "lost" :: a :: _ =>
      match a.toNat? with
      | some a =>
        if c.taint.contains a then (c1, none) else
        if c.lastCb ≠ some a then failC18 c1 s!"event for #{a}, which is not the address just probed" else
        if (lookupA c.view a).isNone then failC18 c1 s!"events_alternate: Lost #{a} without a preceding Discovered/Found"
        else checkView scanner { c1 with view := eraseA c.view a }
      | none => failC18 c1 "unreadable event"
    | kind :: a :: rest =>
      match a.toNat? with
      | some a =>
        if c.taint.contains a then (c1, none) else
        if c.lastCb ≠ some a then failC18 c1 s!"event for #{a}, which is not the address just probed" else
        let desc : Option (Nat × Option Nat) :=
          match rest with
          | [id, m] => match id.toNat?, parseOptNat m with
            | some i, some m => some (i, m)
            | _, _ => none
          | [st] => st.toNat?.map fun s => (s, none)
          | _ => none
        match desc with
        | none => failC18 c1 "unreadable event"
        | some d =>
          if scanner && lookupA c.lastGood a ≠ some d then
            failC18 c1 s!"event for #{a} does not carry ident = BE16(pdu[4..6]) / master = pdu[3] of its reply"
          else if kind = "requery" then
            checkView scanner { c1 with view := if (lookupA c.view a).isSome then insertA c.view a d else c.view }
          else if (lookupA c.view a).isSome then
            failC18 c1 s!"events_alternate: Discovered/Found #{a} twice without Lost in between"
          else checkView scanner { c1 with view := insertA c.view a d }
      | none => failC18 c1 "unreadable event"
    | _ => failC18 c1 "unreadable event"
  | ["stations"] =>
    if obs = "panic" then failC18 { c with alive := false } "no_panic: iter_stations panicked" else
    let l := parseNatList ((splitWords obs).getD 1 "-")
    let expected := sortNat ((c.env.filter fun x => x.1 != c.own).map (·.1))
    if c.stable ≥ 252 ∧ l ≠ expected then
      failC18 c s!"list_tracks: after two stable sweeps the live list is {showNatList l}, population is {showNatList expected}"
    else if c.collected && !c.dirty then
      let clean := fun (a : Nat) => !c.taint.contains a
      let byEvents := sortNat ((c.view.map (·.1)).filter clean)
      if l.filter clean ≠ byEvents then
        failC18 c s!"events_alternate: live list {showNatList l} but Discovered/Lost events account for {showNatList byEvents} (one event per change)"
      else (c, none)
    else (c, none)
  | _ => (c, none)

def oracleC18 (st : AppsOState) (op obs : String) : AppsOState × Option (String × String) :=
  match splitWords op with
  | head :: args =>
    match head.splitOn "." with
    | ["ll", o] =>
      let strict := if o = "new" then false else st.strict
      let (c, r) := oracleCase false strict st.ll (o :: args) obs; ({ st with ll := c, strict := strict }, r)
    | ["sc", o] =>
      let (c, r) := oracleCase true st.strict st.sc (o :: args) obs; ({ st with sc := c }, r)
    | ["apps", "env"] => ({ st with strict := args == ["fdl"] }, none)
    | _ => (st, none)
  | [] => (st, none)

/-- C05 on the `apps` engine: the `no_panic` clause of the C18 oracle (which knows which histories
are inside the FDL contract; the engine also generates addresses up to 255 and foreign telegrams,
whose panics are outside it), reported under class C05. -/
def oracleC05apps (st : AppsOState) (op obs : String) : AppsOState × Option (String × String) :=
  let (st', r) := oracleC18 st op obs
  match r with
  | some (_, why) => if why.startsWith "no_panic" then (st', some ("C05", why)) else (st', none)
  | none => (st', none)

/-- Generic C05 oracle for the composed engines (every history is produced by a real FDL station, so
every panic / hang is one inside `poll()`): any observation `panic…` / `hang`, except on the
constructor ops (`X.new`, `dp.add`), whose assertions are documented (`ParametersBuilder`,
"panics if the storage is full"). -/
def oracleC05any (op obs : String) : Option (String × String) :=
  let head := (splitWords op).headD ""
  if head.endsWith ".new" || head == "dp.add" then none
  else if obs.startsWith "panic" || obs == "hang" then
    some ("C05", s!"a panic / non-returning call inside an application attached to the FDL station: {head} -> {obs}")
  else none

end PV.Driver
