/-
Driver glue for the `codec` / `decoder` engines, and the executable oracles of C09 / C10.
-/
import ProfiVerif.Driver.Util

namespace PV.Driver
open PV

def splitWords (line : String) : List String := line.trimAscii.toString.splitOn " "

/-- Model side of the `codec` engine: one op line → one observation line. -/
def stepCodec (w : List String) : Option String :=
  match w with
  | ["enc", da, sa, dsap, ssap, fc, pdu, rest] =>
    match parseHeader da sa dsap ssap fc, hexToBytes pdu, hexToBytes rest with
    | some h, some p, some r =>
      let tail := s!"exp={showOptU8 (expectsReplyOf h)} len={h.telegramLen p.length}"
      match h.serialize p with
      | .ok bs => some s!"ok {bytesToHex bs} {tail} | {showDecoded (deserialize (bs ++ r))}"
      | .panic => some s!"panic {tail}"
    | _, _, _ => some "bad-op"
  | ["tok", da, sa, rest] =>
    match u8? da, u8? sa, hexToBytes rest with
    | some d, some s, some r =>
      let bs := sendToken d s
      some s!"ok {bytesToHex bs} | {showDecoded (deserialize (bs ++ r))}"
    | _, _, _ => some "bad-op"
  | ["sc", rest] =>
    match hexToBytes rest with
    | some r => some s!"ok {bytesToHex sendSc} | {showDecoded (deserialize (sendSc ++ r))}"
    | none => some "bad-op"
  | ["dec", hex] =>
    match hexToBytes hex with
    | some bs => some (showDecoded (deserialize bs))
    | none => some "bad-op"
  | ["fcb", b] =>
    match u8? b with
    | some b =>
      match FunctionCode.fromByte b with
      | .ok fc => some s!"ok {showFc fc} {fc.toByte.toNat}"
      | .error .invalidRequestType => some "err req"
      | .error .invalidResponseState => some "err state"
      | .error .invalidResponseStatus => some "err status"
    | none => some "bad-op"
  | _ => none

/-! ### Oracle C09 — the statements of `Props/C09.lean`, evaluated on the implementation's output -/

def allFcs : List FunctionCode :=
  ([FrameCountBit.first, .high, .low, .inactive].flatMap fun f =>
    [RequestType.clockValue, .timeEvent, .sdaLow, .sdnLow, .sdaHigh, .sdnHigh, .multicastSrd,
     .fdlStatus, .srdLow, .srdHigh, .ident, .lsapStatus].map fun r => FunctionCode.request f r) ++
  ([ResponseState.slave, .masterNotReady, .masterWithoutToken, .masterInRing].flatMap fun s =>
    [ResponseStatus.ok, .userError, .noResources, .sapNotEnabled, .dataLow, .noDataReady, .dataHigh,
     .notReceivedDataLow, .notReceivedDataHigh].map fun t => FunctionCode.response s t)

/-- Independent spec of `from_byte`: table lookup over the 84 function codes. -/
def fcSpec (b : UInt8) : Option FunctionCode :=
  let key := if b &&& 0x40 ≠ 0 then b else b &&& 0x7F
  allFcs.find? fun fc => fc.toByte == key

/-- `none` = line satisfies the property (or the property says nothing about it);
`some (class, reason)` = the implementation's observation violates C09. -/
def oracleC09 (op obs : String) : Option (String × String) :=
  match splitWords op with
  | ["enc", da, sa, dsap, ssap, fc, pdu, rest] =>
    match parseHeader da sa dsap ssap fc, hexToBytes pdu, hexToBytes rest with
    | some h, some p, some _ =>
      if h.lengthByte p.length > 249 then
        if obs.startsWith "panic" then none else some ("C09", "frame above the limit (LE > 249) was not refused")
      else if h.da < 128 ∧ h.sa < 128 then
        let f := frameSpec h p
        let want := s!"ok {bytesToHex f} exp={showOptU8 (expectsReplyOf h)} len={f.length} | accept {f.length} {showTelegram (.data h p)}"
        if obs = want then none else some ("C09", s!"round-trip/layout: want `{want}`")
      else none
    | _, _, _ => none
  | ["tok", da, sa, _] =>
    match u8? da, u8? sa with
    | some d, some s =>
      let want := s!"ok {bytesToHex [SD4, d, s]} | accept 3 token {d.toNat} {s.toNat}"
      if obs = want then none else some ("C09", s!"token round-trip: want `{want}`")
    | _, _ => none
  | ["sc", _] =>
    if obs = "ok e5 | accept 1 sc" then none else some ("C09", "short confirmation round-trip")
  | ["fcb", b] =>
    match u8? b with
    | some b =>
      match fcSpec b with
      | some fc =>
        let want := s!"ok {showFc fc} {fc.toByte.toNat}"
        if obs = want then none else some ("C09", s!"function code byte: want `{want}`")
      | none => if obs.startsWith "err" then none else some ("C09", "invalid function code byte accepted")
    | none => none
  | _ => none

end PV.Driver
