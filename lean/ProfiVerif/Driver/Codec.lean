/-
Driver glue for the `codec` / `decoder` engines, and the executable oracles of C09 / C10.
-/
import ProfiVerif.Driver.Util
import ProfiVerif.Model.TelegramSpec

namespace PV.Driver
open PV

def splitWords (line : String) : List String := line.trimAscii.toString.splitOn " "

/-- Model side of the `codec` engine: one op line → one observation line. -/
def stepCodec (w : List String) : Option String :=
  match w with
  | ["enc", da, sa, dsap, ssap, fc, pdu, rest] =>
    match parseHeader da sa dsap ssap fc, hexToBytes pdu, hexToBytes rest with
    | some h, some p, some r =>
      let tail := s!"exp={showOptU8 (expectsReplyOf h)} len={h.telegramLen p.length}"
      match h.serialize p with
      | .ok bs => some s!"ok {bytesToHex bs} {tail} | {showDecoded (deserialize (bs ++ r))}"
      | .panic => some s!"panic {tail}"
    | _, _, _ => some "bad-op"
  | ["tok", da, sa, rest] =>
    match u8? da, u8? sa, hexToBytes rest with
    | some d, some s, some r =>
      let bs := sendToken d s
      some s!"ok {bytesToHex bs} | {showDecoded (deserialize (bs ++ r))}"
    | _, _, _ => some "bad-op"
  | ["sc", rest] =>
    match hexToBytes rest with
    | some r => some s!"ok {bytesToHex sendSc} | {showDecoded (deserialize (sendSc ++ r))}"
    | none => some "bad-op"
  | ["dec", hex] =>
    match hexToBytes hex with
    | some bs => some (showDecoded (deserialize bs))
    | none => some "bad-op"
  | ["fcb", b] =>
    match u8? b with
    | some b =>
      match FunctionCode.fromByte b with
      | .ok fc => some s!"ok {showFc fc} {fc.toByte.toNat}"
      | .error .invalidRequestType => some "err req"
      | .error .invalidResponseState => some "err state"
      | .error .invalidResponseStatus => some "err status"
    | none => some "bad-op"
  | _ => none

/-! ### Oracle C09 — the statements of `Props/C09.lean`, evaluated on the implementation's output -/

def allFcs : List FunctionCode :=
  ([FrameCountBit.first, .high, .low, .inactive].flatMap fun f =>
    [RequestType.clockValue, .timeEvent, .sdaLow, .sdnLow, .sdaHigh, .sdnHigh, .multicastSrd,
     .fdlStatus, .srdLow, .srdHigh, .ident, .lsapStatus].map fun r => FunctionCode.request f r) ++
  ([ResponseState.slave, .masterNotReady, .masterWithoutToken, .masterInRing].flatMap fun s =>
    [ResponseStatus.ok, .userError, .noResources, .sapNotEnabled, .dataLow, .noDataReady, .dataHigh,
     .notReceivedDataLow, .notReceivedDataHigh].map fun t => FunctionCode.response s t)

/-- Independent spec of `from_byte`: table lookup over the 84 function codes. -/
def fcSpec (b : UInt8) : Option FunctionCode :=
  let key := if b &&& 0x40 ≠ 0 then b else b &&& 0x7F
  allFcs.find? fun fc => fc.toByte == key

/-- `none` = line satisfies the property (or the property says nothing about it);
`some (class, reason)` = the implementation's observation violates C09. -/
def oracleC09 (op obs : String) : Option (String × String) :=
  match splitWords op with
  | ["enc", da, sa, dsap, ssap, fc, pdu, rest] =>
    match parseHeader da sa dsap ssap fc, hexToBytes pdu, hexToBytes rest with
    | some h, some p, some _ =>
      if h.lengthByte p.length > 249 then
        if obs.startsWith "panic" then none else some ("C09", "frame above the limit (LE > 249) was not refused")
      else if h.da < 128 ∧ h.sa < 128 then
        let f := frameSpec h p
        let want := s!"ok {bytesToHex f} exp={showOptU8 (expectsReplyOf h)} len={f.length} | accept {f.length} {showTelegram (.data h p)}"
        if obs = want then none else some ("C09", s!"round-trip/layout: want `{want}`")
      else none
    | _, _, _ => none
  | ["tok", da, sa, _] =>
    match u8? da, u8? sa with
    | some d, some s =>
      let want := s!"ok {bytesToHex [SD4, d, s]} | accept 3 token {d.toNat} {s.toNat}"
      if obs = want then none else some ("C09", s!"token round-trip: want `{want}`")
    | _, _ => none
  | ["sc", _] =>
    if obs = "ok e5 | accept 1 sc" then none else some ("C09", "short confirmation round-trip")
  | ["fcb", b] =>
    match u8? b with
    | some b =>
      match fcSpec b with
      | some fc =>
        let want := s!"ok {showFc fc} {fc.toByte.toNat}"
        if obs = want then none else some ("C09", s!"function code byte: want `{want}`")
      | none => if obs.startsWith "err" then none else some ("C09", "invalid function code byte accepted")
    | none => none
  | _ => none

end PV.Driver

namespace PV.Driver
open PV

/-- Model side of the `decoder` engine (ops `dec`, `decx`, `sub`). -/
def stepDecoder (w : List String) : Option String :=
  match w with
  | ["dec", hex] => (hexToBytes hex).map fun bs => showDecoded (deserialize bs)
  | ["decx", hex, ext] =>
    match hexToBytes hex, hexToBytes ext with
    | some bs, some e => some s!"{showDecoded (deserialize bs)} | {showDecoded (deserialize (bs ++ e))}"
    | _, _ => some "bad-op"
  | ["sub", hex, i, v, ext] =>
    match hexToBytes hex, i.toNat?, u8? v, hexToBytes ext with
    | some f, some i, some v, some e =>
      some s!"{showDecoded (deserialize f)} | {showDecoded (deserialize (f.set i v ++ e))}"
    | _, _, _, _ => some "bad-op"
  | _ => none

/-! ### Oracle C10 — `Props/C10.lean` evaluated on the implementation's verdicts -/

/-- Independent re-validation of an `accept n <telegram>` verdict against the raw bytes: the first `n`
bytes must be a well-formed frame (`decodeSpec` is the proven-equal flat spec; here we only use the
*wire-format* facts: start code, lengths, checksum, end delimiter) and denote that telegram. -/
def acceptOk (bs : Bytes) (obs : String) : Bool :=
  match decodeSpec bs with
  | .accept t n => obs == s!"accept {n} {showTelegram t}" && 1 ≤ n && n ≤ bs.length
  | _ => false

def verdictKind (obs : String) : String := (obs.splitOn " ").headD ""

def oracleVerdict (bs : Bytes) (obs : String) : Option (String × String) :=
  let k := verdictKind obs
  if k = "panic" then some ("C10", "decoder panicked")
  else if k = "needmore" then
    match announced bs with
    | some n => if bs.length < n then none else some ("C10", s!"asks for more although {bs.length} ≥ announced {n}")
    | none => some ("C10", "asks for more although the input announces no frame")
  else if k = "reject" then
    -- a reject is wrong only if the bytes are a complete well-formed frame
    match decodeSpec bs with
    | .accept _ _ => some ("C10", "well-formed frame rejected")
    | .needMore => some ("C10", "proper prefix rejected")
    | _ => none
  else if k = "accept" then
    if acceptOk bs obs then none else some ("C10", "accepted something that is not a well-formed frame / wrong telegram or length")
  else some ("C10", s!"unknown verdict {obs}")

def isStartCode (v : UInt8) : Bool := v == SC || v == SD4 || v == SD1 || v == SD2 || v == SD3

def oracleC10 (op obs : String) : Option (String × String) :=
  match splitWords op with
  | ["dec", hex] =>
    match hexToBytes hex with
    | some bs => oracleVerdict bs obs
    | none => none
  | ["decx", hex, ext] =>
    match hexToBytes hex, hexToBytes ext, obs.splitOn " | " with
    | some bs, some e, [o1, o2] =>
      match oracleVerdict bs o1, oracleVerdict (bs ++ e) o2 with
      | some f, _ => some f
      | _, some f => some f
      | none, none =>
        if verdictKind o1 ≠ "needmore" ∧ o1 ≠ o2 then some ("C10", s!"verdict on a longer input contradicts the verdict on its prefix: {o1} vs {o2}")
        else none
    | _, _, _ => some ("C10", "malformed observation")
  | ["sub", hex, i, v, ext] =>
    match hexToBytes hex, i.toNat?, u8? v, hexToBytes ext, obs.splitOn " | " with
    | some f, some i, some v, some e, [o1, o2] =>
      let valid := (match decodeSpec f with
        | .accept (.data _ _) n => n == f.length
        | .accept .sc n => n == f.length
        | _ => false)
      if !valid ∨ i ≥ f.length ∨ v = f.getD i 0 then oracleVerdict (f.set i v ++ e) o2
      else if verdictKind o1 ≠ "accept" then some ("C10", "valid frame not accepted")
      else if verdictKind o2 = "accept" ∧ o2 ≠ o1 then
        if i = 0 ∧ isStartCode v then some ("K1", "first byte replaced by another start code decodes as a different telegram")
        else some ("C10", s!"single corrupted byte decoded as a different telegram: {o2}")
      else if verdictKind o2 = "accept" ∧ ¬ (i = 0 ∧ isStartCode v) then
        some ("C10", "frame with one corrupted byte accepted")
      else if verdictKind o2 = "panic" then some ("C10", "decoder panicked")
      else none
    | _, _, _, _, _ => some ("C10", "malformed observation")
  | _ => none

end PV.Driver
