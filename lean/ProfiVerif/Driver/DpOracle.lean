/-
Executable oracles of C03 / C04 / C08 / C14: each evaluates the *property itself* on the
implementation's observation stream of the `dp` engine (op line + observation line), with its own
small state.  None of them calls the model functions of `Model/Dp`: they read the wire bytes with the
decoder of `Model/Telegram` (C09), the configuration from the `dp.new` / `dp.add` lines, the replies
from the `dp.reply` lines, and `is_live` / `is_running` / `pi_i` / `pi_q` / events from the
observations.

Shared front end (`Base`): the configuration, the contract automaton of the FDL station (which reply
is outstanding; a history that leaves the contract is no longer judged), the last request on the
wire, and the parsed summaries before / after the current op.
-/
import ProfiVerif.Driver.Dp

namespace PV.Driver
open PV PV.Dp

/-! ### Configuration and observations -/

structure OPeriph where
  addr : Nat
  ident : Nat
  sync : Bool
  freeze : Bool
  groups : Nat
  prm : Option Bytes
  cfg : Option Bytes
  ilen : Nat
  qlen : Nat
  deriving Repr, Inhabited

structure OCfg where
  own : Nat := 0
  limit : Nat := 1
  wdMs : Option Nat := none
  minTsdr : Nat := 11
  slotUs : Nat := 0
  ps : List OPeriph := []
  deriving Repr, Inhabited

/-- One peripheral as the summary shows it. -/
structure PView where
  slot : Nat
  addr : Nat
  live : Bool
  running : Bool
  piI : Bytes
  piQ : Bytes
  diag : String
  deriving Repr, Inhabited, BEq

def oParsePeriph (s : String) : Option OPeriph :=
  (parsePeriph s).map fun p =>
    { addr := p.address.toNat, ident := p.opts.ident, sync := p.opts.sync, freeze := p.opts.freeze,
      groups := p.opts.groups.toNat, prm := p.opts.userPrm, cfg := p.opts.config,
      ilen := p.piI.length, qlen := p.piQ.length }

/-- ` [<slot> <addr> <LR> i=<hex> q=<hex> d=<diag>]` -/
def parseView (s : String) : Option PView :=
  match ((s.dropEndWhile (· == ']')).toString.splitOn " ") with
  | [slot, addr, lr, i, q, d] => do
    let slot ← slot.toNat?
    let addr ← addr.toNat?
    let (l, r) ← (match lr.toList with
      | [x, y] => some (x == '1', y == '1')
      | _ => none)
    let pi ← hexToBytes (i.drop 2).toString
    let pq ← hexToBytes (q.drop 2).toString
    pure { slot, addr, live := l, running := r, piI := pi, piQ := pq, diag := (d.drop 2).toString }
  | _ => none

/-- `st=<S|C|O> [..] [..]` → operating state letter and the views. -/
def parseSummary (s : String) : Option (String × List PView) :=
  match s.splitOn " [" with
  | st :: vs => (vs.mapM parseView).map fun l => ((st.drop 3).toString, l)
  | [] => none

/-- Observation line = `<head> ; <summary>` (or a bare `panic` / `hang` / `dead`). -/
def splitObs (obs : String) : String × Option (String × List PView) :=
  match obs.splitOn " ; " with
  | [h, s] => (h, parseSummary s)
  | _ => (obs, none)

inductive RKind
  | diag | setPrm | chkCfg | dx | other
  deriving DecidableEq, Repr, Inhabited

/-- A request of the master as decoded from the wire. -/
structure OReq where
  da : Nat
  h : Header
  pdu : Bytes
  kind : RKind
  deriving Repr, Inhabited

def reqKind (h : Header) (pdu : Bytes) : RKind :=
  match h.fc with
  | .request _ .srdLow =>
    if h.dsap = some 60 ∧ h.ssap = some 62 ∧ pdu.isEmpty then .diag
    else if h.dsap = some 61 ∧ h.ssap = some 62 then .setPrm
    else if h.dsap = some 62 ∧ h.ssap = some 62 then .chkCfg
    else .other
  | .request _ .srdHigh => if h.dsap = none ∧ h.ssap = none then .dx else .other
  | _ => .other

def reqFcb (r : OReq) : FrameCountBit :=
  match r.h.fc with
  | .request f _ => f
  | .response _ _ => .inactive

/-- What went out with a `dp.tx`. -/
inductive TxSeen
  | none
  | gc (h : Header) (pdu : Bytes)
  | req (r : OReq)
  | garbage (why : String)
  | gone (what : String)
  deriving Repr, Inhabited

def isGcShape (h : Header) : Bool := h.da == 127

def parseTxObs (head : String) : TxSeen × Option Nat :=
  match head.splitOn " " with
  | ["none"] => (.none, none)
  | ["tx", exp, hex] =>
    let e := (exp.drop 4).toString.toNat?
    match hexToBytes hex with
    | none => (.garbage "unreadable bytes", e)
    | some bs =>
      match deserialize bs with
      | .accept (.data h pdu) n =>
        if n ≠ bs.length then (.garbage "trailing bytes behind the telegram", e)
        else if isGcShape h then (.gc h pdu, e)
        else (.req { da := h.da.toNat, h := h, pdu := pdu, kind := reqKind h pdu }, e)
      | _ => (.garbage "not a decodable data telegram", e)
  | _ => (.gone head, none)

/-! ### Shared front end -/

structure Base where
  alive : Bool := false
  inContract : Bool := true
  /-- the history was produced by a real FdlActiveStation (`dp.env fdl`, engine `dpfdl`): leaving the
  contract is then a failure of the composition, not a reason to stop judging -/
  strict : Bool := false
  /-- why the history left the contract -/
  why : String := ""
  /-- `reset_address()` hit the peripheral whose request is in flight or whose event is uncollected:
  the DP properties C03 / C08 / C14 do not speak about what follows (C04 and C05 still do) -/
  tainted : Bool := false
  cfg : OCfg := {}
  operate : Bool := false
  /-- number of `enter_operate()` calls so far (a repeated call is inside the contract: it only makes
  a global-control broadcast due at once; seed C14-m6) -/
  opCount : Nat := 0
  /-- address a reply is outstanding from, with the request -/
  outstanding : Option (Nat × Option OReq) := none
  now : Option Int := none
  /-- summary after the previous op -/
  prev : List PView := []
  /-- a callback produced events that have not been taken; sticky `collected` = never overwritten -/
  dirty : Bool := false
  collected : Bool := true
  deriving Inhabited

/-- What the op did, for the property-specific parts. -/
inductive Seen
  | start
  | tx (now : Int) (hp : Bool) (t : TxSeen)
  | reply (a : Nat) (t : Telegram) (req : Option OReq)
  | timeout (a : Nat)
  | take (cc : Bool) (ev : Option (Nat × Nat × String))
  | piq (slot : Nat) (bs : Bytes) (ok : Bool)
  | diagreq (slot : Nat)
  | resetaddr (slot : Nat) (addr : Nat)
  | user
  | broken (what : String)
  | skip
  deriving Inhabited

/-- Configurations the properties quantify over: distinct station addresses ≤ 126 other than the
master's, user parameters ≤ 237 bytes, configuration and process images ≤ 244 bytes (what fits a
PROFIBUS telegram). -/
def addrOk (c : OCfg) : Bool :=
  let as := c.ps.map (·.addr)
  as.all (fun a => a ≤ 126 && a != c.own) && as.eraseDups.length == as.length &&
  c.ps.all (fun p => (p.prm.getD []).length ≤ 237 && (p.cfg.getD []).length ≤ 244 && p.ilen ≤ 244 && p.qlen ≤ 244)

/-- What the FDL station may deliver as reply from `a` (C15 contract). -/
def allowedReplyDp (own a : Nat) : Telegram → Bool
  | .sc => true
  | .data h _ => h.sa.toNat == a && h.da.toNat == own &&
      (match h.fc with | .response _ _ => true | .request _ _ => false)
  | .token _ _ => false

def slotOfAddr (c : OCfg) (a : Nat) : Option Nat := c.ps.findIdx? (·.addr == a)

def parseEvent (s : String) : Option (Option (Nat × Nat × String)) :=
  if s = "p=-" then some none else
  match (s.drop 2).toString.splitOn ":" with
  | [slot, addr, name] => do
    let slot ← slot.toNat?
    let addr ← addr.toNat?
    pure (some (slot, addr, name))
  | _ => none

/-- Advance the shared state over one (op, observation) pair. -/
def baseStep (b : Base) (w : List String) (obs : String) : Base × Seen × List PView :=
  let (head, sm) := splitObs obs
  let views := match sm with | some (_, v) => v | none => []
  match w with
  | "dp.new" :: own :: baud :: bits :: retry :: wd :: mt :: _storage :: ps =>
    if !head.startsWith "ok" then ({}, .skip, []) else
    match own.toNat?, baud.toNat?, optNat? bits, optNat? retry, optNat? wd, optNat? mt, ps.mapM oParsePeriph with
    | some own, some baud, some bits, some retry, some wd, some mt, some ps =>
      let bitsV := bits.getD ((minSlotBits baud).getD 100)
      let c : OCfg := { own := own, limit := retry.getD 1, wdMs := wd, minTsdr := mt.getD 11,
                        slotUs := bitsV * 1000000 / baud, ps := ps }
      ({ alive := true, inContract := addrOk c, cfg := c, prev := views }, .start, views)
    | _, _, _, _, _, _, _ => ({}, .skip, [])
  | _ =>
  if !b.alive then (b, .skip, views) else
  if head = "dead" then ({ b with alive := false }, .skip, views) else
  match w with
  | ["dp.env", kind] => ({ b with strict := kind == "fdl" }, .skip, b.prev)
  | _ =>
  let b1 := { b with prev := views }
  match w with
  | ["dp.add", p] =>
    match oParsePeriph p with
    | some p =>
      if head.startsWith "ok" then
        let c := { b.cfg with ps := b.cfg.ps ++ [p] }
        -- adding while online is outside the documented use
        ({ b1 with cfg := c, inContract := b.inContract && addrOk c && !b.operate }, .user, views)
      else ({ b1 with alive := false }, .skip, views)
    | none => (b1, .skip, views)
  | ["dp.operate"] =>
    ({ b1 with operate := true, opCount := b.opCount + 1 }, .user, views)
  | ["dp.tx", now, hp] =>
    match intOf? now with
    | none => (b1, .skip, views)
    | some t =>
      let mono := match b.now with | some t0 => decide (t0 ≤ t) | none => true
      let sane := decide (-(2:Int)^62 < t ∧ t < (2:Int)^62)
      let (seen, exp) := parseTxObs head
      let outReq := match seen with | .req r => some r | _ => none
      let b2 := { b1 with now := some t, inContract := b.inContract && mono && sane,
                          why := if mono && sane then b.why else "transmit_telegram called with a time that runs backwards",
                          outstanding := exp.map fun a => (a, outReq),
                          collected := b.collected && !b.dirty, dirty := true }
      match seen with
      | .gone what => ({ b2 with alive := false }, .broken what, views)
      | _ => (b2, .tx t (hp == "1") seen, views)
  | "dp.reply" :: now :: addr :: tg =>
    match intOf? now, addr.toNat?, parseTelegram tg with
    | some t, some a, some tel =>
      let mono := match b.now with | some t0 => decide (t0 ≤ t) | none => true
      let allowed := (match b.outstanding with | some (o, _) => o == a | none => false) && allowedReplyDp b.cfg.own a tel
      let req := match b.outstanding with | some (_, r) => r | none => none
      let why := if !mono then "receive_reply with a time that runs backwards"
        else if (match b.outstanding with | some (o, _) => o != a | none => true) then
          s!"receive_reply for #{a} although no reply from it is outstanding"
        else s!"receive_reply for #{a} with a telegram that is no reply from it (wrong source / destination, request or token): {showTelegram tel}"
      let b2 := { b1 with now := some t, inContract := b.inContract && mono && allowed, outstanding := none,
                          why := if mono && allowed then b.why else why,
                          collected := b.collected && !b.dirty, dirty := true }
      if head = "panic" then ({ b2 with alive := false }, .broken "panic", views)
      else (b2, .reply a tel req, views)
    | _, _, _ => (b1, .skip, views)
  | ["dp.timeout", now, addr] =>
    match intOf? now, addr.toNat? with
    | some t, some a =>
      let mono := match b.now with | some t0 => decide (t0 ≤ t) | none => true
      let allowed := match b.outstanding with | some (o, _) => o == a | none => false
      let b2 := { b1 with now := some t, inContract := b.inContract && mono && allowed, outstanding := none,
                          why := if mono && allowed then b.why else s!"handle_timeout for #{a} although no reply from it is outstanding (or time runs backwards)" }
      if head = "panic" then ({ b2 with alive := false }, .broken "panic", views)
      else (b2, .timeout a, views)
    | _, _ => (b1, .skip, views)
  | ["dp.take"] =>
    match head.splitOn " " with
    | ["ev", cc, p] =>
      match parseEvent p with
      | some ev => ({ b1 with dirty := false }, .take (cc == "cc=1") ev, views)
      | none => (b1, .broken "unreadable events", views)
    | _ => ({ b1 with alive := false }, .broken head, views)
  | ["dp.piq", slot, hex] =>
    match slot.toNat?, hexToBytes hex with
    | some i, some bs => (b1, .piq i bs (head == "ok"), views)
    | _, _ => (b1, .skip, views)
  | ["dp.resetaddr", slot, addr] =>
    match slot.toNat?, addr.toNat? with
    | some i, some a =>
      if head != "ok" then (b1, .user, views) else
      let ps' := (List.range b.cfg.ps.length).map fun j =>
        let p := b.cfg.ps.getD j default
        if j = i then { p with addr := a } else p
      let c := { b.cfg with ps := ps' }
      let inFlight := match b.outstanding with
        | some (o, _) => (b.cfg.ps.getD i default).addr == o
        | none => false
      -- the request in flight no longer belongs to the (freshly reset) peripheral
      let out' := if inFlight then b.outstanding.map fun (o, _) => (o, none) else b.outstanding
      ({ b1 with cfg := c, inContract := b.inContract && addrOk c, outstanding := out',
                 -- a reset to a fresh, distinct address leaves a clean situation (the reply in flight is simply stale);
                 -- a reset to the old address or onto another peripheral's address does not
                 tainted := b.tainted || ((inFlight || b.dirty) &&
                   ((List.range b.cfg.ps.length).any fun j => (b.cfg.ps.getD j default).addr == a)) },
       .resetaddr i a, views)
    | _, _ => (b1, .skip, views)
  | ["dp.diagreq", slot] =>
    match slot.toNat? with
    | some i => (b1, if head == "ok" then .diagreq i else .user, views)
    | none => (b1, .skip, views)
  | _ => (b1, .skip, views)

def viewOf (vs : List PView) (slot : Nat) : Option PView := vs.find? (·.slot == slot)
def liveOf (vs : List PView) (slot : Nat) : Bool := match viewOf vs slot with | some v => v.live | none => false

/-- Reply that is *acceptable* for the request `r` to a peripheral with `ilen` input bytes:
diagnostics request — a well-formed diagnostics response; Set_Prm / Chk_Cfg — a short
confirmation; data exchange — a response without SAPs, status OK / DL / DH, exactly `ilen` bytes
(or a short confirmation when there are no inputs). -/
def acceptable (r : OReq) (ilen : Nat) (t : Telegram) : Bool :=
  match r.kind with
  | .diag => Diag.Spec.accepts t
  | .setPrm | .chkCfg => t == .sc
  | .dx =>
    match t with
    | .sc => ilen == 0
    | .data h pdu =>
      (match h.fc with
       | .response _ st => st == .ok || st == .dataLow || st == .dataHigh
       | _ => false) && h.dsap == none && h.ssap == none && pdu.length == ilen
    | _ => false
  | .other => false

abbrev Verdict := Option (String × String)

/-- Generic wrapper: run the shared front end, then the property-specific part (only while the
history is inside the contract). -/
def withBase {σ : Type} (pid clause : String) (tolerant : Bool := false) (f : Base → Base → Seen → List PView → σ → σ × Verdict)
    (reset : σ → σ) (st : Base × σ) (op obs : String) : (Base × σ) × Verdict :=
  let w := splitWords op
  let (b, s) := st
  let (b', seen, views) := baseStep b w obs
  match seen with
  | .start => ((b', reset s), none)
  | .skip => ((b', s), none)
  | _ =>
    -- composed engine: the real FDL layer itself left the contract the property rests on
    if b.strict && b.inContract && !b'.inContract && addrOk b'.cfg then
      ((b', s), some (pid, s!"{clause}: the FDL layer broke the callback contract: {b'.why}")) else
    if !b.inContract || !b'.inContract then ((b', s), none) else
    if b'.tainted && !tolerant then ((b', s), none) else
    let (s', v) := f b b' seen views s
    ((b', s'), v)

/-! ### C03 — data exchange only after a complete, correct bring-up -/

structure O3 where
  /-- ghost bring-up state per slot: 0..4 -/
  g : List Nat := []
  deriving Inhabited

def ghostOf (o : O3) (slot : Nat) : Nat := o.g.getD slot 0
def setGhost (o : O3) (slot n : Nat) : O3 :=
  { g := (List.range (max o.g.length (slot + 1))).map fun i => if i = slot then n else o.g.getD i 0 }

/-- The Set_Prm PDU the configuration demands (arithmetic, not bit operations). -/
def wantSetPrm (c : OCfg) (p : OPeriph) (up : Bytes) (pdu : Bytes) : Option String :=
  if pdu.length ≠ 7 + up.length then some "Set_Prm length" else
  let b0 := (pdu.getD 0 0).toNat
  let f1 := (pdu.getD 1 0).toNat
  let f2 := (pdu.getD 2 0).toNat
  let wantB0 := 128 + (if p.sync then 32 else 0) + (if p.freeze then 16 else 0) + (if c.wdMs.isSome then 8 else 0)
  if b0 ≠ wantB0 then some s!"Set_Prm station status byte {b0}, want {wantB0} (lock/sync/freeze/WD_On)" else
  if (match c.wdMs with
      | none => f1 != 0 || f2 != 0
      | some ms => !(decide (1 ≤ f1) && decide (1 ≤ f2) && decide (ms / 10 ≤ f1 * f2) && decide (f1 * f2 < ms / 10 + f1))) then
    some s!"Set_Prm watchdog factors {f1},{f2} do not realise the configured timeout" else
  if (pdu.getD 3 0).toNat ≠ c.minTsdr then some "Set_Prm min Tsdr" else
  if (pdu.getD 4 0).toNat * 256 + (pdu.getD 5 0).toNat ≠ p.ident then some "Set_Prm ident number" else
  if (pdu.getD 6 0).toNat ≠ p.groups then some "Set_Prm group mask" else
  if pdu.drop 7 ≠ up then some "Set_Prm user parameters" else none

def flagsReady (pdu : Bytes) : Bool :=
  let b0 := (pdu.getD 0 0).toNat
  let b1 := (pdu.getD 1 0).toNat
  -- no PRM_FAULT (0x40), no CFG_FAULT (0x04), not STATION_NOT_READY (0x02), no PRM_REQ (byte 1, 0x01)
  b0 / 64 % 2 == 0 && b0 / 4 % 2 == 0 && b0 / 2 % 2 == 0 && b1 % 2 == 0

def resetDead (o : O3) (views : List PView) : O3 :=
  views.foldl (fun o v => if v.live then o else setGhost o v.slot 0) o

def oracle3 (_b b' : Base) (seen : Seen) (views : List PView) (o : O3) : O3 × Verdict :=
  let c := b'.cfg
  let fail := fun (o : O3) (why : String) => (resetDead o views, some ("C03", why))
  match seen with
  | .tx _ _ (.garbage why) => fail o s!"request on the wire: {why}"
  | .tx _ _ (.req r) =>
    match slotOfAddr c r.da, c.ps.find? (·.addr == r.da) with
    | some slot, some p =>
      if r.h.sa.toNat ≠ c.own then fail o "request does not carry the master's address as SA" else
      match r.kind with
      | .dx =>
        if ghostOf o slot ≠ 4 then
          fail o s!"dx_only_when_ready: Data_Exchange request to #{r.da} in bring-up state S{ghostOf o slot}"
        else (resetDead o views, none)
      | .setPrm =>
        let o1 := setGhost o slot (if ghostOf o slot ≥ 1 then 1 else 0)
        match p.prm with
        | none => fail o1 "Set_Prm sent although no user parameters are configured"
        | some up =>
          match wantSetPrm c p up r.pdu with
          | some why => fail o1 s!"set_prm_bytes: {why}"
          | none => (resetDead o1 views, none)
      | .chkCfg =>
        match p.cfg with
        | none => fail o "Chk_Cfg sent although no configuration is configured"
        | some cf => if r.pdu ≠ cf then fail o "chk_cfg_bytes: PDU differs from the configured bytes" else (resetDead o views, none)
      | .diag => (resetDead o views, none)
      | .other => fail o s!"request to #{r.da} is not addressed to the standard service access points"
    | _, _ => fail o s!"request to #{r.da}, which is no configured peripheral"
  | .reply a t (some r) =>
    match slotOfAddr c a, c.ps.find? (·.addr == a) with
    | some slot, some p =>
      let g := ghostOf o slot
      let o1 :=
        if r.da ≠ a ∨ !acceptable r p.ilen t then o else
        match r.kind, t with
        | .diag, .data _ pdu => if g = 0 then setGhost o slot 1 else if g = 3 ∧ flagsReady pdu then setGhost o slot 4 else o
        | .setPrm, _ => if g = 1 then setGhost o slot 2 else o
        | .chkCfg, _ => if g = 2 then setGhost o slot 3 else o
        | _, _ => o
      (resetDead o1 views, none)
    | _, _ => (resetDead o views, none)
  | _ => (resetDead o views, none)

def oracleC03 := withBase "C03" "dx_only_when_ready (bring-up is judged on replies of the addressed peripheral)" false oracle3 (fun _ => ({} : O3))

/-! ### C04 — process images -/

structure O4 where
  /-- the output images as the user wrote them, per slot -/
  q : List Bytes := []
  /-- set by a reply: (slot, a DataExchanged event is due) — checked by the `take` that follows -/
  pend : Option (Nat × Bool) := none
  init : Bool := false
  deriving Inhabited

def o4Init (c : OCfg) : O4 := { q := c.ps.map fun p => List.replicate p.qlen 0, init := true }

def oracle4 (b b' : Base) (seen : Seen) (views : List PView) (o0 : O4) : O4 × Verdict :=
  let c := b'.cfg
  -- (re)build the tracked images when peripherals were added
  let o : O4 := if o0.q.length < c.ps.length then
      { o0 with q := o0.q ++ (c.ps.drop o0.q.length).map fun p => List.replicate p.qlen 0 } else o0
  let fail := fun (o : O4) (why : String) => ({ o with pend := none }, some ("C04", why))
  -- user write
  let o := match seen with
    | .piq slot bs true => { o with q := o.q.set slot bs }
    | _ => o
  -- the library never writes pi_q
  match views.find? (fun v => o.q.getD v.slot [] != v.piQ) with
  | some v => fail o s!"pi_q of slot {v.slot} changed without a user write"
  | none =>
  -- pi_i changes only on a qualifying reply
  let qualifying : Option (Nat × Bytes) :=
    match seen with
    | .reply a (.data h pdu) (some r) =>
      match slotOfAddr c a, c.ps.find? (·.addr == a) with
      | some slot, some p => if r.da = a ∧ r.kind = .dx ∧ acceptable r p.ilen (.data h pdu) then some (slot, pdu) else none
      | _, _ => none
    | _ => none
  let changed := views.filter fun v => (match viewOf b.prev v.slot with | some u => u.piI != v.piI | none => false)
  match changed.find? (fun v => match qualifying with | some (s, pdu) => !(v.slot == s && v.piI == pdu) | none => true) with
  | some v => fail o s!"pi_i_changes_only: pi_i of slot {v.slot} changed to {bytesToHex v.piI} without a well-formed Data_Exchange reply of the configured length from it"
  | none =>
  match qualifying with
  | some (s, pdu) =>
    if (viewOf views s).map (·.piI) ≠ some pdu then fail o s!"pi_i of slot {s} does not equal the payload of the accepted reply"
    else ({ o with pend := some (s, true) }, none)
  | none =>
  match seen with
  | .tx _ _ (.req r) =>
    if r.kind = .dx then
      match slotOfAddr c r.da with
      | some slot =>
        if r.pdu ≠ o.q.getD slot [] then fail o s!"dx_request_carries_pi_q: request to #{r.da} carries {bytesToHex r.pdu}, pi_q is {bytesToHex (o.q.getD slot [])}"
        else ({ o with pend := none }, none)
      | none => ({ o with pend := none }, none)
    else ({ o with pend := none }, none)
  | .reply a t (some r) =>
    match slotOfAddr c a, c.ps.find? (·.addr == a) with
    | some slot, some p =>
      let due : Bool := r.da == a && r.kind == .dx && t == .sc && p.ilen == 0
      ({ o with pend := some (slot, due) }, none)
    | _, _ => ({ o with pend := none }, none)
  | .take _ ev =>
    let o1 := { o with pend := none }
    let isDx := match ev with | some (_, _, n) => n == "DataExchanged" | none => false
    match o.pend, ev with
    | some (slot, true), some (s, _, n) =>
      if s = slot ∧ n = "DataExchanged" then (o1, none) else fail o s!"event_iff: expected DataExchanged for slot {slot}, got {n} for slot {s}"
    | some (slot, true), none => fail o s!"event_iff: the update of slot {slot} was not reported as DataExchanged"
    | _, _ => if isDx then fail o "event_iff: DataExchanged reported without a process-image update" else (o1, none)
  | .broken what => fail o s!"never_panics: {what}"
  | .tx _ _ _ => ({ o with pend := none }, none)
  | .reply _ _ none => ({ o with pend := none }, none)
  | _ => (o, none)

def oracleC04 := withBase "C04" "no_cross_talk / wrong source" true oracle4 (fun _ => ({} : O4))

/-! ### C08 — frame count bit and retries -/

structure A8 where
  last : Option (RKind × FrameCountBit) := none
  /-- an acceptable reply to `last` arrived -/
  accepted : Bool := false
  /-- some reply callback arrived since the first transmission of `last` -/
  anyReply : Bool := false
  /-- transmissions of `last` without any reply -/
  count : Nat := 0
  /-- transmissions since the last acceptable reply / since the peripheral became live -/
  sinceOk : Nat := 0
  /-- start-up, or declared offline since the last request -/
  expectFirst : Bool := true
  /-- the user called `request_diagnostics()` since the last request went out -/
  diagReq : Bool := false
  deriving Inhabited

structure O8 where
  a : List A8 := []
  /-- slot declared offline by the last `dp.tx` (live → not live): its Offline event is due -/
  due : Option Nat := none
  deriving Inhabited

def a8Of (o : O8) (slot : Nat) : A8 := o.a.getD slot {}
def setA8 (o : O8) (slot : Nat) (x : A8) : O8 :=
  { o with a := (List.range (max o.a.length (slot + 1))).map fun i => if i = slot then x else o.a.getD i {} }

def oracle8 (b b' : Base) (seen : Seen) (views : List PView) (o : O8) : O8 × Verdict :=
  let c := b'.cfg
  let fail := fun (o : O8) (why : String) => (o, some ("C08", why))
  match seen with
  | .tx _ _ t =>
    -- a peripheral that was live before this poll and is not afterwards has been declared offline
    let dropped := views.filter fun v => liveOf b.prev v.slot && !v.live
    let o1 := dropped.foldl (fun o v =>
      let x := a8Of o v.slot
      setA8 o v.slot { x with expectFirst := true, count := 0, anyReply := false }) { o with due := none }
    let o1 := { o1 with due := dropped.head?.map (·.slot) }
    let early := dropped.find? fun v => (a8Of o v.slot).sinceOk < 1 + c.limit
    match early with
    | some v => fail o1 s!"retry_bound: #{v.addr} declared offline after {(a8Of o v.slot).sinceOk} transmissions, limit is 1+{c.limit}"
    | none =>
    if dropped.length > 1 then fail o1 "retry_bound: two peripherals declared offline in one poll (one Offline event would be lost)" else
    -- an exhausted request must end in the Offline declaration, not in silence
    let exhausted := views.find? fun v =>
      let x := a8Of o v.slot
      liveOf b.prev v.slot && v.live && !x.anyReply && x.count == 1 + c.limit
    match t, exhausted with
    | .gc _ _, _ => (o1, none)
    | .req r, some v =>
      if r.da = v.addr then fail o1 s!"retry_bound: request to #{v.addr} transmitted more than 1+{c.limit} times without any reply"
      else fail o1 s!"retry_bound: #{v.addr} was not declared offline after 1+{c.limit} unanswered transmissions"
    | .none, some v => fail o1 s!"retry_bound: #{v.addr} was not declared offline after 1+{c.limit} unanswered transmissions"
    | .req r, none =>
      match slotOfAddr c r.da with
      | none => (o1, none)
      | some slot =>
        let x := a8Of o1 slot
        let f := reqFcb r
        let same := x.last == some (r.kind, f) && !x.anyReply
        let x' : A8 := { x with last := some (r.kind, f), accepted := false, anyReply := false,
                                count := if same then x.count + 1 else 1, sinceOk := x.sinceOk + 1,
                                expectFirst := false, diagReq := false }
        let o2 := setA8 o1 slot x'
        if f = .inactive then fail o2 s!"fcb_never_inactive: acknowledged request to #{r.da} without frame count bit" else
        if !liveOf b.prev slot ∧ r.kind ≠ .diag then fail o2 s!"retry_bound: #{r.da} is offline and must only be probed with diagnostics requests" else
        if x.expectFirst then
          if f ≠ .first then fail o2 s!"first_is_first: first request to #{r.da} after start-up / Offline carries FCV={dpB01 f.fcv} FCB={dpB01 f.fcb}" else (o2, none)
        else
          match x.last with
          | none => (o2, none)
          | some (k0, f0) =>
            if x.accepted then
              if f.fcv ∧ f.fcb ≠ f0.fcb then (o2, none)
              else fail o2 s!"toggle_after_accept: request to #{r.da} after an accepted reply carries FCV={dpB01 f.fcv} FCB={dpB01 f.fcb}, previous FCB={dpB01 f0.fcb}"
            else if f = f0 ∧ k0 ≠ r.kind then
              fail o2 s!"same_fcb_only_retransmit: request to #{r.da} repeats the frame count bit of an unanswered request of another service"
            else (o2, none)
    | _, _ => (o1, none)
  | .reply a t (some r) =>
    match slotOfAddr c a, c.ps.find? (·.addr == a) with
    | some slot, some p =>
      let x := a8Of o slot
      let acc : Bool := r.da == a && acceptable r p.ilen t
      let becameLive := !liveOf b.prev slot && liveOf views slot
      let x' : A8 := { x with anyReply := true, accepted := x.accepted || acc,
                              sinceOk := if acc || becameLive then 0 else x.sinceOk }
      (setA8 { o with due := none } slot x', none)
    | _, _ => ({ o with due := none }, none)
  | .take _ ev =>
    let o1 := { o with due := none }
    if !b.collected then (o1, none) else
    match o.due, ev with
    | some slot, some (s, _, n) =>
      if s = slot ∧ n = "Offline" then (o1, none) else fail o1 s!"retry_bound: slot {slot} was declared offline but the event is {n} for slot {s}"
    | some slot, none => fail o1 s!"retry_bound: slot {slot} was declared offline without an Offline event"
    | none, some (s, _, n) => if n = "Offline" then fail o1 s!"retry_bound: Offline event for slot {s}, which was not live / was already reported" else (o1, none)
    | none, none => (o1, none)
  | .broken what => fail o s!"fcb_never_inactive / no panic: {what}"
  | .diagreq slot => (setA8 o slot { a8Of o slot with diagReq := true }, none)
  -- a peripheral that was reset starts up again
  | .resetaddr slot _ => (setA8 { o with due := if o.due = some slot then none else o.due } slot {}, none)
  | _ => (o, none)

def oracleC08 := withBase "C08" "retry discipline (one reply or time-out per request)" false oracle8 (fun _ => ({} : O8))

/-! ### C14 — cycles and events -/

structure O14 where
  /-- slot whose turn is in progress in this pass, and whether its request was answered -/
  pos : Option Nat := none
  replied : Bool := false
  /-- slots that had a request or an event in this pass -/
  visited : List Nat := []
  /-- life-cycle automaton per slot: 0 = off, 1 = online, 2 = configured -/
  lc : List Nat := []
  lastGc : Option Int := none
  /-- the previous op was a `take` (a second one must come back empty) -/
  justTaken : Bool := false
  /-- per slot: completed cycles in a row without a request to it or an event from it -/
  idle : List Nat := []
  deriving Inhabited

def lcOf (o : O14) (slot : Nat) : Nat := o.lc.getD slot 0
def setLc (o : O14) (slot n : Nat) : O14 :=
  { o with lc := (List.range (max o.lc.length (slot + 1))).map fun i => if i = slot then n else o.lc.getD i 0 }

def lcStep (st : Nat) (ev : String) : Option Nat :=
  -- 0 offline, 1 online, 2 configured (data exchange not yet confirmed), 3 running (a DataExchanged event was reported)
  match st, ev with
  | 0, "Online" => some 1
  | 1, "Configured" => some 2
  | 1, "Offline" => some 0
  | 1, "ParameterError" => some 0
  | 1, "ConfigError" => some 0
  | 2, "Configured" => some 2
  | 2, "DataExchanged" => some 3
  | 2, "Diagnostics" => some 2
  | 2, "Offline" => some 0
  | 2, "ParameterError" => some 0
  | 2, "ConfigError" => some 0
  | 3, "Configured" => some 2
  | 3, "DataExchanged" => some 3
  | 3, "Diagnostics" => some 3
  | 3, "Offline" => some 0
  | 3, "ParameterError" => some 0
  | 3, "ConfigError" => some 0
  | _, _ => none

def wantGc (c : OCfg) : Header :=
  { da := 127, sa := UInt8.ofNat c.own, dsap := some 58, ssap := some 62, fc := .request .inactive .sdnLow }

def oracle14 (b b' : Base) (seen : Seen) (views : List PView) (o : O14) : O14 × Verdict :=
  let c := b'.cfg
  let fail := fun (o : O14) (why : String) => ({ o with justTaken := false }, some ("C14", why))
  -- `enter_operate()` again: `last_global_control = None`, the broadcast is due at the next poll
  let o := if b'.opCount != b.opCount then { o with lastGc := none } else o
  match seen with
  | .tx now hp t =>
    let o := { o with justTaken := false }
    if !b.operate then
      (match t with
       | .none => (o, none)
       | _ => fail o "a master that was never put into Operate transmitted")
    else
    let due := !hp && (match o.lastGc with | none => true | some t0 => decide ((now - t0).natAbs ≥ 50 * c.slotUs))
    match t with
    | .gc h pdu =>
      let o1 := { o with lastGc := some now }
      if !due then fail o1 "global_control: sent although less than 50 Tsl elapsed / high-priority only"
      else if h ≠ wantGc c ∨ pdu ≠ [0, 0] then fail o1 "global_control: not the Operate broadcast (127, DSAP 58, SSAP 62, SDN low, 00 00)"
      else if b'.outstanding.isSome then fail o1 "global_control: expects a reply"
      else (o1, none)
    | .garbage why => fail o why
    | .gone what => fail o s!"turn_ends: {what}"
    | .none => if due then fail o "global_control: due but not sent" else (o, none)
    | .req r =>
      if due then fail o "global_control: due but not sent" else
      match slotOfAddr c r.da with
      | none => fail o s!"turn_order: request to #{r.da}, which is no configured peripheral"
      | some s =>
        let o1 := { o with visited := if o.visited.contains s then o.visited else s :: o.visited }
        -- this poll overwrote uncollected events (possibly a `cycle_completed` report): resynchronise
        if !b'.collected then ({ o1 with pos := some s, replied := false }, none) else
        match o.pos with
        | none => ({ o1 with pos := some s, replied := false }, none)
        | some p =>
          if s < p then fail { o1 with pos := some s, replied := false } s!"turn_order: slot {s} polled after slot {p} without a completed cycle in between"
          else if s = p then
            if o.replied then fail o1 s!"turn_order: slot {s} gets a second request in one cycle"
            else (o1, none)
          else ({ o1 with pos := some s, replied := false }, none)
  | .reply a _ _ =>
    let o := { o with justTaken := false }
    match slotOfAddr c a with
    | some s => if o.pos = some s then ({ o with replied := true }, none) else (o, none)
    | none => (o, none)
  | .take cc ev =>
    if o.justTaken ∧ (cc ∨ ev.isSome) then fail o "events_exact: a second take_last_events returned events again" else
    let o := { o with justTaken := true }
    if !b.collected then
      -- events may have been overwritten: only resynchronise
      let lc' := (List.range c.ps.length).map fun i =>
        if liveOf views i then (if (viewOf views i).map (·.running) == some true then 3 else max 1 (min 2 (lcOf o i))) else 0
      ({ o with pos := none, visited := [], lc := lc', idle := [] }, none)
    else
    -- the event
    let r1 : O14 × Verdict :=
      match ev with
      | none => (o, none)
      | some (s, a, n) =>
        if (c.ps.getD s default).addr ≠ a ∨ s ≥ c.ps.length then fail o s!"events_exact: event handle {s}:{a} does not name a configured peripheral"
        else match lcStep (lcOf o s) n with
          | none => fail (setLc o s (if liveOf views s then 1 else 0)) s!"lifecycle: event {n} for slot {s} in life-cycle state {lcOf o s}"
          | some st => ({ setLc o s st with visited := if o.visited.contains s then o.visited else s :: o.visited }, none)
    match r1 with
    | (o1, some v) => (o1, some v)
    | (o1, none) =>
    -- life-cycle state against is_live / is_running
    -- a peripheral may stop running without an event (it is re-validated after "SAP not enabled"): 3 falls back to 2
    let o1 := views.foldl (fun (o : O14) v => if !v.running && lcOf o v.slot == 3 then setLc o v.slot 2 else o) o1
    match views.find? (fun v => (lcOf o1 v.slot == 0) == v.live || (v.running && lcOf o1 v.slot != 3)) with
    | some v =>
      fail (setLc o1 v.slot (if v.live then (if v.running then 3 else 1) else 0))
        s!"lifecycle / events_exact: slot {v.slot} is_live={dpB01 v.live} is_running={dpB01 v.running} but its events say state {lcOf o1 v.slot} (an event was lost or duplicated)"
    | none =>
    if cc then
      let idle' := (List.range c.ps.length).map fun i => if o1.visited.contains i then 0 else o1.idle.getD i 0 + 1
      let o2 := { o1 with pos := none, replied := false, visited := [], idle := idle' }
      let complete := fun (slot : Nat) => match c.ps[slot]? with | some p => p.prm.isSome && p.cfg.isSome | none => false
      match views.find? (fun v => v.live && !o1.visited.contains v.slot && complete v.slot) with
      | some v => fail o2 s!"cycle_completed_once / turn_order: cycle reported complete but live slot {v.slot} had no turn"
      | none =>
        -- an offline peripheral is probed (an unanswered probe is not repeated in the same cycle, so
        -- every second cycle at the latest); only a live peripheral lacking parameters / configuration waits
        match views.find? (fun v => idle'.getD v.slot 0 ≥ 2 && !(v.live && !complete v.slot)) with
        | some v => fail { o2 with idle := idle'.set v.slot 0 } s!"turn_order: slot {v.slot} had no turn (no request, no event) in two consecutive cycles"
        | none => (o2, none)
    else (o1, none)
  | .broken what => fail o s!"turn_ends: {what}"
  -- the user reset the peripheral: it is offline again, silently
  | .resetaddr slot _ => ({ setLc o slot 0 with justTaken := false, idle := o.idle.set slot 0 }, none)
  | _ => ({ o with justTaken := false }, none)

def oracleC14 := withBase "C14" "turn_order (a turn ends with the reply of the addressed peripheral)" false oracle14 (fun _ => ({} : O14))

/-! ### C05 on the `dp` engine: no panic, no non-returning call on any history inside the contract

The `dp` engine also generates histories *outside* the FDL contract (a token handed to
`receive_reply`, callbacks nobody waits for, over-long user parameters the encoder asserts on,
`add` beyond the capacity) whose panics are documented; those are filtered by the shared front end
exactly as for C04. -/
def oracle5 (_b _b' : Base) (seen : Seen) (_views : List PView) (o : Unit) : Unit × Verdict :=
  match seen with
  | .broken what => (o, some ("C05", s!"a panic / non-returning call inside the DP master attached to the FDL station: {what}"))
  | _ => (o, none)

def oracleC05dp := withBase "C05" "poll() is total with the DP master attached" true oracle5 (fun _ => ())

end PV.Driver
