/-
Driver glue for the `dplive` engine (property C07): the model master of `Model/Dp/Master` against the
reference slave of `Model/Dp/Slave`, through `Joint.turn` of `Model/Dp/Live`.  Line protocol: see the
header of `harness/src/dplive.rs`.  Oracle `C07` at the end.
-/
import ProfiVerif.Driver.Dp
import ProfiVerif.Model.Dp.Live

namespace PV.Driver
open PV PV.Dp PV.Live

/-! ### Parsing / printing -/

/-- `<addr>:<ident>:<prmlen>:<cfg>:<inlen>:<outlen>:<inputs>` -/
def dlParseSlave (s : String) : Option Slave :=
  match s.splitOn ":" with
  | [addr, ident, prmlen, cfg, inlen, outlen, inputs] => do
    let a ← u8? addr
    let id ← ident.toNat?
    let pl ← prmlen.toNat?
    let cf ← hexToBytes cfg
    let il ← inlen.toNat?
    let ol ← outlen.toNat?
    let inp ← hexToBytes inputs
    pure (Slave.init { address := a, ident := id, prmLen := pl, config := cf, inLen := il, outLen := ol } inp)
  | _ => none

def dlShowReply : SReply → String
  | .silent => "silent"
  | .sc => "sc"
  | .data h pdu => showTelegram (.data h pdu)

def dlBit (b : Bool) : String := if b then "1" else "0"

def dlShowSlave (s : Slave) : String :=
  let st := match s.state with | .waitPrm => "P" | .waitCfg => "C" | .dataExch => "D"
  let f := match s.stored with | none => "-" | some false => "0" | some true => "1"
  s!"s={st} m={s.master.toNat} f={f} p={dlBit s.prmFault}{dlBit s.cfgFault}{dlBit s.diagPending} o={bytesToHex s.outputs}"

def dlSummary (j : Joint) : String :=
  match j.m.peripheral? j.slot with
  | some p =>
    s!"run={dlBit p.isRunning} live={dlBit p.isLive} i={bytesToHex p.piI} q={bytesToHex p.piQ} d={showLastDiag p.diag} | {dlShowSlave j.s}"
  | none => s!"run=? | {dlShowSlave j.s}"

def dlParseDelivery : List String → Option Delivery
  | ["ok"] => some .ok
  | ["lossreq"] => some .lossReq
  | ["lossrep"] => some .lossRep
  | "sub" :: tg =>
    match parseTelegram tg with
    | some (.token _ _) => none
    | some t => some (.sub t)
    | none => none
  | _ => none

/-! ### Engine -/

def dlNew (args : List String) : Option (Option Joint) :=
  match args with
  | [own, baud, retry, wd, nslots, periph, slave] => do
    let own ← own.toNat?
    if own ≥ 256 then none
    let baud ← baud.toNat?
    let retry ← retry.toNat?
    if retry ≥ 256 then none
    let wd ← optNat? wd
    let k ← nslots.toNat?
    let p ← parsePeriph periph
    let s ← dlParseSlave slave
    match buildParams own baud none (some retry) wd none with
    | none => pure none
    | some fp =>
      match (Master.new k false).add p with
      | .panic => pure none
      | .ok (m, i) => pure (some { fp := fp, m := m.enterOperate, s := s, slot := i })
  | _ => none

/-- One op on a live case: `none` = bad op; `some (none, o)` = the object is gone. -/
def dlStepCase (j : Joint) (w : List String) : Option (Option Joint × String) :=
  let ok := fun (j : Joint) (o : String) => some (some j, s!"{o} ; {dlSummary j}")
  match w with
  | "dl.turn" :: now :: mid :: d =>
    match intOf? now, dlParseDelivery d with
    | some now, some del =>
      if mid ≠ "0" ∧ mid ≠ "1" then none else
      match j.turn now (mid == "1") del with
      | .panic => some (none, "panic")
      | .hang => some (none, "hang")
      | .ok j' o =>
        let (m', e) := j'.m.takeLastEvents
        let ev := match e.peripheral with
          | none => "-"
          | some h => eventName h.ev
        let tx := match o.tx with | some bs => bytesToHex bs | none => "-"
        let got := match o.delivered with | some t => showTelegram t | none => "-"
        ok { j' with m := m' }
          s!"tx={tx} exp={showOptU8 o.expect} seen={dlBit o.seen} rep={dlShowReply o.reply} got={got} ev={dlBit e.cycleCompleted}:{ev}"
    | _, _ => none
  | ["dl.power"] => ok { j with s := j.s.power } "ok"
  | ["dl.fault", hex] =>
    match hexToBytes hex with
    | some ext => ok { j with s := j.s.reportFault ext } "ok"
    | none => none
  | ["dl.diagreq"] => ok { j with m := (j.m.requestDiagnostics j.slot).getD j.m } "ok"
  | ["dl.piq", hex] =>
    match hexToBytes hex with
    | some bs => ok { j with m := (j.m.writePiQ j.slot bs).getD j.m } "ok"
    | none => none
  | ["dl.inputs", hex] =>
    match hexToBytes hex with
    | some bs => ok { j with s := j.s.setInputs bs } "ok"
    | none => none
  | _ => none

def stepDpLive (st : Option Joint) (w : List String) : Option Joint × String :=
  match w with
  | "dl.new" :: args =>
    match dlNew args with
    | none => (st, "bad-op")
    | some none => (none, "panic")
    | some (some j) => (some j, s!"ok ; {dlSummary j}")
  | _ =>
    match st with
    | none => if (w.headD "").startsWith "dl." then (none, "dead") else (none, "bad-op")
    | some j =>
      match dlStepCase j w with
      | none => (st, "bad-op")
      | some (j', o) => (j', o)

/-! ### Oracle C07

Evaluated on the *implementation's* observations, without running the model:

* `live`: once the history is fault-free (only `dl.turn … 0 ok` lines), after at most
  `2 (max_retry_limit + 8) + 2` turns that are not global-control broadcasts `is_running()` is true, and
  stays true (`Joint`-level form of `C07.live_from_everywhere`: every visit of the peripheral is
  followed by at most one turn that only closes the cycle);
* `order`: the peripheral events follow `Online → Configured → … → Offline / ParameterError /
  ConfigError → Online …`, `is_live()` / `is_running()` agree with it;
* `offline`: more than `max_retry_limit + 1` consecutive unanswered requests are only possible to a
  peripheral that is reported offline.
-/

structure O7 where
  limit : Nat := 1
  addr : Nat := 0
  /-- the configuration of master and slave match (the liveness clause applies) -/
  matched : Bool := false
  /-- non-broadcast turns since the last fault / outside interference -/
  quiet : Nat := 0
  /-- life cycle according to the events: 0 offline, 1 online, 2 configured -/
  lc : Nat := 0
  /-- consecutive requests to the slave without a delivered reply -/
  unanswered : Nat := 0
  dead : Bool := true
  deriving Repr, Inhabited

def o7Field (key : String) (obs : String) : Option String :=
  (obs.splitOn " ").findSome? fun w => if w.startsWith key then some (w.drop key.length).toString else none

def o7Matched (periph slave : String) : Bool :=
  match periph.splitOn ":", slave.splitOn ":" with
  | [pa, pid, _, _, prm, cfg, il, ql, _], [sa, sid, spl, scfg, sil, sol, sinp] =>
    pa == sa && pid == sid && prm != "n" && cfg != "n" &&
    (match hexToBytes prm, spl.toNat? with | some b, some n => b.length == n | _, _ => false) &&
    cfg == scfg && il == sil && ql == sol &&
    (match hexToBytes sinp, sil.toNat? with | some b, some n => b.length == n | _, _ => false)
  | _, _ => false

def oracleC07 (st : O7) (op obs : String) : O7 × Option (String × String) :=
  let w := splitWords op
  match w with
  | ["dl.new", _, _, retry, _, _, periph, slave] =>
    if obs.startsWith "ok" then
      ({ limit := (retry.toNat?).getD 1, addr := ((periph.splitOn ":").headD "").toNat?.getD 0,
         matched := o7Matched periph slave, dead := false }, none)
    else ({ dead := true }, none)
  | _ =>
    if st.dead then (st, none) else
    if !(obs.startsWith "tx=" || obs.startsWith "ok") then ({ st with dead := true }, none) else
    let run := o7Field "run=" obs == some "1"
    let live := o7Field "live=" obs == some "1"
    match w with
    | "dl.turn" :: _ :: mid :: d =>
      let tx := (o7Field "tx=" obs).getD "-"
      let exp := (o7Field "exp=" obs).getD "-"
      let got := (o7Field "got=" obs).getD "-"
      let ev := match (o7Field "ev=" obs).map (·.splitOn ":") with
        | some [_, e] => e
        | _ => "-"
      let isGc := tx != "-" && exp == "-"
      let faultFree := mid == "0" && d == ["ok"]
      let quiet := if !faultFree then 0 else if isGc then st.quiet else st.quiet + 1
      let unanswered := if exp == "-" then st.unanswered else if got == "-" then st.unanswered + 1 else 0
      -- life cycle
      let lc' : Option Nat :=
        match st.lc, ev with
        | n, "-" => some n
        | 0, "Online" => some 1
        | 1, "Configured" => some 2
        | 1, "Offline" => some 0
        | 1, "ParameterError" => some 0
        | 1, "ConfigError" => some 0
        | 2, "Configured" => some 2
        | 2, "DataExchanged" => some 2
        | 2, "Diagnostics" => some 2
        | 2, "Offline" => some 0
        | 2, "ParameterError" => some 0
        | 2, "ConfigError" => some 0
        | _, _ => none
      let st' := { st with quiet := quiet, unanswered := unanswered, lc := lc'.getD st.lc }
      match lc' with
      | none => (st', some ("C07", s!"order: event {ev} in life-cycle state {st.lc}"))
      | some n =>
        if live != (n != 0) then (st', some ("C07", s!"order: is_live={live} in life-cycle state {n}"))
        else if run && n != 2 then (st', some ("C07", s!"order: is_running in life-cycle state {n}"))
        else if unanswered > st.limit + 1 && live then
          (st', some ("C07", s!"offline: {unanswered} unanswered requests but still reported live"))
        else if st.matched && quiet ≥ 2 * (st.limit + 8) + 2 && !run then
          (st', some ("C07", s!"live: not running after {quiet} fault-free turns"))
        else (st', none)
    | _ => ({ st with quiet := 0 }, none)

end PV.Driver
