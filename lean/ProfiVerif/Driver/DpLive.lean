/-
Driver glue for the `dplive` engine (property C07): the model master of `Model/Dp/Master` against the
reference slave of `Model/Dp/Slave`, through `Joint.turn` of `Model/Dp/Live`.  Line protocol: see the
header of `harness/src/dplive.rs`.  Oracle `C07` at the end.
-/
import ProfiVerif.Driver.Dp
import ProfiVerif.Model.Dp.Live
import ProfiVerif.Model.Dp.LiveN

namespace PV.Driver
open PV PV.Dp PV.Live

/-! ### Parsing / printing -/

/-- `<addr>:<ident>:<prmlen>:<cfg>:<inlen>:<outlen>:<inputs>` -/
def dlParseSlave (s : String) : Option Slave :=
  match s.splitOn ":" with
  | [addr, ident, prmlen, cfg, inlen, outlen, inputs] => do
    let a ← u8? addr
    let id ← ident.toNat?
    let pl ← prmlen.toNat?
    let cf ← hexToBytes cfg
    let il ← inlen.toNat?
    let ol ← outlen.toNat?
    let inp ← hexToBytes inputs
    pure (Slave.init { address := a, ident := id, prmLen := pl, config := cf, inLen := il, outLen := ol } inp)
  | _ => none

def dlShowReply : SReply → String
  | .silent => "silent"
  | .sc => "sc"
  | .data h pdu => showTelegram (.data h pdu)

def dlBit (b : Bool) : String := if b then "1" else "0"

def dlShowSlave (s : Slave) : String :=
  let st := match s.state with | .waitPrm => "P" | .waitCfg => "C" | .dataExch => "D"
  let f := match s.stored with | none => "-" | some false => "0" | some true => "1"
  s!"s={st} m={s.master.toNat} f={f} p={dlBit s.prmFault}{dlBit s.cfgFault}{dlBit s.diagPending} o={bytesToHex s.outputs}"

def dlSummary (j : Joint) : String :=
  match j.m.peripheral? j.slot with
  | some p =>
    s!"run={dlBit p.isRunning} live={dlBit p.isLive} i={bytesToHex p.piI} q={bytesToHex p.piQ} d={showLastDiag p.diag} | {dlShowSlave j.s}"
  | none => s!"run=? | {dlShowSlave j.s}"

def dlParseDelivery : List String → Option Delivery
  | ["ok"] => some .ok
  | ["lossreq"] => some .lossReq
  | ["lossrep"] => some .lossRep
  | "sub" :: tg =>
    match parseTelegram tg with
    | some (.token _ _) => none
    | some t => some (.sub t)
    | none => none
  | _ => none

/-! ### Engine -/

def dlNew (args : List String) : Option (Option Joint) :=
  match args with
  | [own, baud, retry, wd, nslots, periph, slave] => do
    let own ← own.toNat?
    if own ≥ 256 then none
    let baud ← baud.toNat?
    let retry ← retry.toNat?
    if retry ≥ 256 then none
    let wd ← optNat? wd
    let k ← nslots.toNat?
    let p ← parsePeriph periph
    let s ← dlParseSlave slave
    match buildParams own baud none (some retry) wd none with
    | none => pure none
    | some fp =>
      match (Master.new k false).add p with
      | .panic => pure none
      | .ok (m, i) => pure (some { fp := fp, m := m.enterOperate, s := s, slot := i })
  | _ => none

/-- One op on a live case: `none` = bad op; `some (none, o)` = the object is gone. -/
def dlStepCase (j : Joint) (w : List String) : Option (Option Joint × String) :=
  let ok := fun (j : Joint) (o : String) => some (some j, s!"{o} ; {dlSummary j}")
  match w with
  | "dl.turn" :: now :: mid :: d =>
    match intOf? now, dlParseDelivery d with
    | some now, some del =>
      if mid ≠ "0" ∧ mid ≠ "1" then none else
      match j.turn now (mid == "1") del with
      | .panic => some (none, "panic")
      | .hang => some (none, "hang")
      | .ok j' o =>
        let (m', e) := j'.m.takeLastEvents
        let ev := match e.peripheral with
          | none => "-"
          | some h => eventName h.ev
        let tx := match o.tx with | some bs => bytesToHex bs | none => "-"
        let got := match o.delivered with | some t => showTelegram t | none => "-"
        ok { j' with m := m' }
          s!"tx={tx} exp={showOptU8 o.expect} seen={dlBit o.seen} rep={dlShowReply o.reply} got={got} ev={dlBit e.cycleCompleted}:{ev}"
    | _, _ => none
  | ["dl.power"] => ok { j with s := j.s.power } "ok"
  | ["dl.fault", hex] =>
    match hexToBytes hex with
    | some ext => ok { j with s := j.s.reportFault ext } "ok"
    | none => none
  | ["dl.diagreq"] => ok { j with m := (j.m.requestDiagnostics j.slot).getD j.m } "ok"
  | ["dl.piq", hex] =>
    match hexToBytes hex with
    | some bs => ok { j with m := (j.m.writePiQ j.slot bs).getD j.m } "ok"
    | none => none
  | ["dl.inputs", hex] =>
    match hexToBytes hex with
    | some bs => ok { j with s := j.s.setInputs bs } "ok"
    | none => none
  | _ => none

def stepDpLive1 (st : Option Joint) (w : List String) : Option Joint × String :=
  match w with
  | "dl.new" :: args =>
    match dlNew args with
    | none => (st, "bad-op")
    | some none => (none, "panic")
    | some (some j) => (some j, s!"ok ; {dlSummary j}")
  | _ =>
    match st with
    | none => if (w.headD "").startsWith "dl." then (none, "dead") else (none, "bad-op")
    | some j =>
      match dlStepCase j w with
      | none => (st, "bad-op")
      | some (j', o) => (j', o)

/-! ### Several peripherals (`dn.*`) -/

def dnSummary (j : JointN) : String :=
  let rec go (i : Nat) : List Slave → String
    | [] => ""
    | s :: rest =>
      (match j.m.peripheral? i with
       | some p =>
         s!" [{i} run={dlBit p.isRunning} live={dlBit p.isLive} i={bytesToHex p.piI} q={bytesToHex p.piQ} d={showLastDiag p.diag} | {dlShowSlave s}]"
       | none => s!" [{i} ?]") ++ go (i + 1) rest
  go 0 j.ss

def dnPairs : List String → Option (List (Peripheral × Slave))
  | [] => some []
  | p :: s :: rest => do
    let p ← parsePeriph p
    let s ← dlParseSlave s
    let r ← dnPairs rest
    pure ((p, s) :: r)
  | _ => none

def dnAddAll (m : Master) : List Peripheral → Option Master
  | [] => some m
  | p :: r =>
    match m.add p with
    | .ok (m', _) => dnAddAll m' r
    | .panic => none

def dnNew (args : List String) : Option (Option JointN) :=
  match args with
  | own :: baud :: retry :: wd :: nslots :: rest => do
    let own ← own.toNat?
    if own ≥ 256 then none
    let baud ← baud.toNat?
    let retry ← retry.toNat?
    if retry ≥ 256 then none
    let wd ← optNat? wd
    let k ← nslots.toNat?
    let pairs ← dnPairs rest
    if pairs.isEmpty then none
    match buildParams own baud none (some retry) wd none with
    | none => pure none
    | some fp =>
      match dnAddAll (Master.new k false) (pairs.map (·.1)) with
      | none => pure none
      | some m => pure (some { fp := fp, m := m.enterOperate, ss := pairs.map (·.2) })
  | _ => none

def dnSlot? (j : JointN) (s : String) : Option Nat :=
  match s.toNat? with
  | some i => if i < j.ss.length then some i else none
  | none => none

def dnSetSlave (j : JointN) (i : Nat) (f : Slave → Slave) : JointN :=
  { j with ss := j.ss.set i (f (j.ss.getD i default)) }

def dnStepCase (j : JointN) (w : List String) : Option (Option JointN × String) :=
  let ok := fun (j : JointN) (o : String) => some (some j, s!"{o} ;{dnSummary j}")
  match w with
  | "dn.turn" :: now :: mid :: d =>
    let mid? : Option (Option Nat) := if mid = "-" then some none else (dnSlot? j mid).map some
    match intOf? now, mid?, dlParseDelivery d with
    | some now, some mid, some del =>
      match j.turn now mid del with
      | .panic => some (none, "panic")
      | .hang => some (none, "hang")
      | .ok j' o =>
        let (m', e) := j'.m.takeLastEvents
        let ev := match e.peripheral with
          | none => "-"
          | some h => s!"{h.index}:{eventName h.ev}"
        let tx := match o.tx with | some bs => bytesToHex bs | none => "-"
        let got := match o.delivered with | some t => showTelegram t | none => "-"
        ok { j' with m := m' }
          s!"tx={tx} exp={showOptU8 o.expect} seen={dlBit o.seen} rep={dlShowReply o.reply} got={got} ev={dlBit e.cycleCompleted}:{ev}"
    | _, _, _ => none
  | ["dn.power", i] => (dnSlot? j i).bind fun i => ok (dnSetSlave j i Slave.power) "ok"
  | ["dn.fault", i, hex] =>
    match dnSlot? j i, hexToBytes hex with
    | some i, some ext => ok (dnSetSlave j i (·.reportFault ext)) "ok"
    | _, _ => none
  | ["dn.diagreq", i] => (dnSlot? j i).bind fun i => ok { j with m := (j.m.requestDiagnostics i).getD j.m } "ok"
  | ["dn.piq", i, hex] =>
    match dnSlot? j i, hexToBytes hex with
    | some i, some bs => ok { j with m := (j.m.writePiQ i bs).getD j.m } "ok"
    | _, _ => none
  | ["dn.inputs", i, hex] =>
    match dnSlot? j i, hexToBytes hex with
    | some i, some bs => ok (dnSetSlave j i (·.setInputs bs)) "ok"
    | _, _ => none
  | _ => none

def stepDpLiveN (st : Option JointN) (w : List String) : Option JointN × String :=
  match w with
  | "dn.new" :: args =>
    match dnNew args with
    | none => (st, "bad-op")
    | some none => (none, "panic")
    | some (some j) => (some j, s!"ok ;{dnSummary j}")
  | _ =>
    match st with
    | none => (none, "dead")
    | some j =>
      match dnStepCase j w with
      | none => (st, "bad-op")
      | some (j', o) => (j', o)

/-- State of the `dplive` model driver: the single-peripheral case and the multi-peripheral case. -/
structure DlState where
  one : Option Joint := none
  many : Option JointN := none

def stepDpLive (st : DlState) (w : List String) : DlState × String :=
  if (w.headD "").startsWith "dn." then
    let r := stepDpLiveN st.many w
    ({ st with many := r.1 }, r.2)
  else
    let r := stepDpLive1 st.one w
    ({ st with one := r.1 }, r.2)

/-! ### Oracle C07

Evaluated on the *implementation's* observations, without running the model:

* `live`: once the history is fault-free (only `dl.turn … 0 ok` lines), after at most
  `2 (max_retry_limit + 8) + 2` turns that are not global-control broadcasts `is_running()` is true, and
  stays true (`Joint`-level form of `C07.live_from_everywhere`: every visit of the peripheral is
  followed by at most one turn that only closes the cycle);
* `order`: the peripheral events follow `Online → Configured → … → Offline / ParameterError /
  ConfigError → Online …`, `is_live()` / `is_running()` agree with it;
* `offline`: more than `max_retry_limit + 1` consecutive unanswered requests are only possible to a
  peripheral that is reported offline.
-/

structure O7 where
  limit : Nat := 1
  addr : Nat := 0
  /-- the configuration of master and slave match (the liveness clause applies) -/
  matched : Bool := false
  /-- non-broadcast turns since the last fault / outside interference -/
  quiet : Nat := 0
  /-- life cycle according to the events: 0 offline, 1 online, 2 configured -/
  lc : Nat := 0
  /-- consecutive requests to the slave without a delivered reply -/
  unanswered : Nat := 0
  dead : Bool := true
  /-- several peripherals (`dn.*`): their number and the life cycle per slot -/
  n : Nat := 1
  lcs : List Nat := []
  deadN : Bool := true
  quietN : Nat := 0
  limitN : Nat := 1
  matchedN : Bool := false
  deriving Repr, Inhabited

def o7Field (key : String) (obs : String) : Option String :=
  (obs.splitOn " ").findSome? fun w => if w.startsWith key then some (w.drop key.length).toString else none

def o7Matched (periph slave : String) : Bool :=
  match periph.splitOn ":", slave.splitOn ":" with
  | [pa, pid, _, _, prm, cfg, il, ql, _], [sa, sid, spl, scfg, sil, sol, sinp] =>
    pa == sa && pid == sid && prm != "n" && cfg != "n" &&
    (match hexToBytes prm, spl.toNat? with | some b, some n => b.length == n | _, _ => false) &&
    cfg == scfg && il == sil && ql == sol &&
    (match hexToBytes sinp, sil.toNat? with | some b, some n => b.length == n | _, _ => false)
  | _, _ => false

def o7LcStep (lc : Nat) (ev : String) : Option Nat :=
  match lc, ev with
  | 0, "Online" => some 1
  | 1, "Configured" => some 2
  | 1, "Offline" => some 0
  | 1, "ParameterError" => some 0
  | 1, "ConfigError" => some 0
  | 2, "Configured" => some 2
  | 2, "DataExchanged" => some 2
  | 2, "Diagnostics" => some 2
  | 2, "Offline" => some 0
  | 2, "ParameterError" => some 0
  | 2, "ConfigError" => some 0
  | _, _ => none

def o7Pairs : List String → Bool
  | [] => true
  | p :: s :: rest => o7Matched p s && o7Pairs rest
  | _ => false

/-- The `dn.*` half of the oracle: `live` — all peripherals running after
`(max_retry_limit + 8)(n + 1) + n` fault-free non-broadcast turns (`C07.multi_live_from_everywhere`) and
ever after; `order` — per slot life cycle. -/
def oracleC07N (st : O7) (w : List String) (obs : String) : O7 × Option (String × String) :=
  match w with
  | "dn.new" :: _ :: _ :: retry :: _ :: _ :: rest =>
    if obs.startsWith "ok" then
      let n := rest.length / 2
      ({ st with n := n, lcs := List.replicate n 0, deadN := false, quietN := 0,
                 limitN := (retry.toNat?).getD 1, matchedN := o7Pairs rest }, none)
    else ({ st with deadN := true }, none)
  | _ =>
    if st.deadN then (st, none) else
    if !(obs.startsWith "tx=" || obs.startsWith "ok") then ({ st with deadN := true }, none) else
    let segs := (obs.splitOn " [").drop 1
    let runs := segs.map fun sg => o7Field "run=" sg == some "1"
    let lives := segs.map fun sg => o7Field "live=" sg == some "1"
    match w with
    | "dn.turn" :: _ :: mid :: d =>
      let tx := (o7Field "tx=" obs).getD "-"
      let exp := (o7Field "exp=" obs).getD "-"
      let isGc := tx != "-" && exp == "-"
      let faultFree := mid == "-" && d == ["ok"]
      let quiet := if !faultFree then 0 else if isGc then st.quietN else st.quietN + 1
      let evw := match (o7Field "ev=" obs).map (·.splitOn ":") with
        | some [_, slot, e] => some (slot.toNat?.getD 0, e)
        | _ => none
      let (lcs', bad) := match evw with
        | none => (st.lcs, none)
        | some (slot, e) =>
          match o7LcStep (st.lcs.getD slot 0) e with
          | some v => (st.lcs.set slot v, none)
          | none => (st.lcs, some s!"order: event {e} of slot {slot} in life-cycle state {st.lcs.getD slot 0}")
      let st' := { st with quietN := quiet, lcs := lcs' }
      match bad with
      | some why => (st', some ("C07", why))
      | none =>
        let okLive := (List.range st.n).all fun i => (lives.getD i false) == (lcs'.getD i 0 != 0)
        let okRun := (List.range st.n).all fun i => !(runs.getD i false) || lcs'.getD i 0 == 2
        if !okLive then (st', some ("C07", "order: is_live disagrees with the life cycle of a slot"))
        else if !okRun then (st', some ("C07", "order: is_running outside the configured life-cycle state"))
        else if st.matchedN && quiet ≥ (st.limitN + 8) * (st.n + 1) + st.n && !(runs.all id && runs.length == st.n) then
          (st', some ("C07", s!"live: not all peripherals running after {quiet} fault-free turns"))
        else (st', none)
    | _ => ({ st with quietN := 0 }, none)

def oracleC07 (st : O7) (op obs : String) : O7 × Option (String × String) :=
  let w := splitWords op
  if (w.headD "").startsWith "dn." then oracleC07N st w obs else
  match w with
  | ["dl.new", _, _, retry, _, _, periph, slave] =>
    if obs.startsWith "ok" then
      ({ limit := (retry.toNat?).getD 1, addr := ((periph.splitOn ":").headD "").toNat?.getD 0,
         matched := o7Matched periph slave, dead := false }, none)
    else ({ dead := true }, none)
  | _ =>
    if st.dead then (st, none) else
    if !(obs.startsWith "tx=" || obs.startsWith "ok") then ({ st with dead := true }, none) else
    let run := o7Field "run=" obs == some "1"
    let live := o7Field "live=" obs == some "1"
    match w with
    | "dl.turn" :: _ :: mid :: d =>
      let tx := (o7Field "tx=" obs).getD "-"
      let exp := (o7Field "exp=" obs).getD "-"
      let got := (o7Field "got=" obs).getD "-"
      let ev := match (o7Field "ev=" obs).map (·.splitOn ":") with
        | some [_, e] => e
        | _ => "-"
      let isGc := tx != "-" && exp == "-"
      let faultFree := mid == "0" && d == ["ok"]
      let quiet := if !faultFree then 0 else if isGc then st.quiet else st.quiet + 1
      let unanswered := if exp == "-" then st.unanswered else if got == "-" then st.unanswered + 1 else 0
      -- life cycle
      let lc' : Option Nat :=
        match st.lc, ev with
        | n, "-" => some n
        | 0, "Online" => some 1
        | 1, "Configured" => some 2
        | 1, "Offline" => some 0
        | 1, "ParameterError" => some 0
        | 1, "ConfigError" => some 0
        | 2, "Configured" => some 2
        | 2, "DataExchanged" => some 2
        | 2, "Diagnostics" => some 2
        | 2, "Offline" => some 0
        | 2, "ParameterError" => some 0
        | 2, "ConfigError" => some 0
        | _, _ => none
      let st' := { st with quiet := quiet, unanswered := unanswered, lc := lc'.getD st.lc }
      match lc' with
      | none => (st', some ("C07", s!"order: event {ev} in life-cycle state {st.lc}"))
      | some n =>
        if live != (n != 0) then (st', some ("C07", s!"order: is_live={live} in life-cycle state {n}"))
        else if run && n != 2 then (st', some ("C07", s!"order: is_running in life-cycle state {n}"))
        else if unanswered > st.limit + 1 && live then
          (st', some ("C07", s!"offline: {unanswered} unanswered requests but still reported live"))
        else if st.matched && quiet ≥ 2 * (st.limit + 8) + 2 && !run then
          (st', some ("C07", s!"live: not running after {quiet} fault-free turns"))
        else (st', none)
    | _ => ({ st with quiet := 0 }, none)

end PV.Driver
