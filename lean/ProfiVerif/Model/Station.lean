/-
Model of `src/fdl/active.rs` (FdlActiveStation) and the timing functions of `src/fdl/parameters.rs`.

One `poll` is a pure function of (station, applications, now, PHY-transmitting flag, PHY receive
buffer) returning the new station/applications, the PHY buffer after consumption, the bytes handed to
the PHY for transmission (at most one telegram per poll) and the callbacks made into applications.
Every `debug_assert_state!`, accessor `unreachable!()`, `debug_assert_ne!`, index and `unwrap` that
is reachable from `poll` is an explicit `.panic` outcome.  Import-free.
-/
import ProfiVerif.Model.Telegram
import ProfiVerif.Model.PhyRx
import ProfiVerif.Model.TokenRing
import ProfiVerif.Model.Gap

namespace PV

/-! ## Parameters and time -/

structure Params where
  address : Nat
  rate : Nat            -- bit/s
  slotBits : Nat
  ttrBits : Nat
  gapWait : Nat
  hsa : Nat
  maxRetry : Nat
  minTsdrBits : Nat
  deriving DecidableEq, Repr, Inhabited

/-- `Baudrate::bits_to_time`: floor(bits · 10⁶ / rate) µs. -/
def bitsToTime (rate bits : Nat) : Nat := bits * 1000000 / rate

def Params.bits (p : Params) (b : Nat) : Nat := bitsToTime p.rate b
def Params.slotTime (p : Params) : Nat := p.bits p.slotBits
def Params.tokenLostTimeout (p : Params) : Nat := p.bits (p.slotBits * (6 + 2 * p.address))
def Params.ttrTime (p : Params) : Nat := p.bits p.ttrBits

/-! ## State -/

inductive GapState
  | waiting (rot : Nat)
  | doPoll (a : Nat)
  deriving DecidableEq, Repr, Inhabited

inductive Attempt | first | second | third
  deriving DecidableEq, Repr, Inhabited

inductive ClaimStep
  | firstToken | secondToken | scan | scanAwait (a : Nat)
  deriving DecidableEq, Repr, Inhabited

structure UseData where
  tokenTime : Int
  firstApp : Option Nat
  deriving DecidableEq, Repr, Inhabited

inductive FState
  | offline
  | passiveIdle
  | listenToken (statusReq : Option Nat) (coll : Nat)
  | activeIdle (statusReq : Option Nat) (newPs : Option Nat) (coll : Nat)
  | useToken (d : UseData) (firstCycleDone : Bool)
  | claimToken (step : ClaimStep)
  | awaitData (addr : Nat) (d : UseData)
  | passToken (doGap : Bool) (att : Attempt)
  | checkTokenPass (att : Attempt)
  | awaitStatus (addr : Nat)
  deriving DecidableEq, Repr, Inhabited

def FState.name : FState → String
  | .offline => "Offline" | .passiveIdle => "PassiveIdle" | .listenToken .. => "ListenToken"
  | .activeIdle .. => "ActiveIdle" | .useToken .. => "UseToken" | .claimToken .. => "ClaimToken"
  | .awaitData .. => "AwaitDataResponse" | .passToken .. => "PassToken"
  | .checkTokenPass .. => "CheckTokenPass" | .awaitStatus .. => "AwaitStatusResponse"

def FState.haveToken : FState → Bool
  | .claimToken .. | .useToken .. | .awaitData .. | .awaitStatus .. => true
  | _ => false

structure Station where
  p : Params
  ring : TokenRing
  online : Bool
  gap : GapState
  st : FState
  lastBusActivity : Option Int
  pendingBytes : Nat
  lastTokenTime : Int
  endTokenHoldTime : Int
  nextApp : Nat

/-- `FdlActiveStation::new` (connectivity Offline). -/
def Station.new (p : Params) : Station :=
  { p := p, ring := TokenRing.new p.address, online := false, gap := .doPoll p.address, st := .offline,
    lastBusActivity := none, pendingBytes := 0, lastTokenTime := 0, endTokenHoldTime := 0, nextApp := 0 }

def Station.setOnline (s : Station) : Station := { s with online := true }
/-- `set_offline`: `*self = Self::new(parameters)`. -/
def Station.setOffline (s : Station) : Station := Station.new s.p

def Station.isInRing (s : Station) : Bool :=
  match s.st with
  | .useToken .. | .passToken .. | .activeIdle .. | .claimToken .. | .checkTokenPass ..
  | .awaitData .. | .awaitStatus .. => true
  | _ => false

/-! ## Applications (scripted): the `k`-th `transmit_telegram` call of an application is answered by
the `k`-th entry of its script; an exhausted script declines.  Theorems quantify over all scripts. -/

inductive AppAnswer
  | decline
  | send (h : Header) (pdu : Bytes)
  deriving DecidableEq, Repr, Inhabited

inductive AppCall
  | transmit (app : Nat) (highPrioOnly : Bool) (ans : AppAnswer)
  | reply (app : Nat) (addr : Nat) (t : Telegram)
  | timeout (app : Nat) (addr : Nat)
  deriving DecidableEq, Repr

abbrev Apps := List (List AppAnswer)

/-! ## Poll machinery -/

/-- Everything a poll threads through: station, application scripts, PHY rx buffer, what was
transmitted, callbacks made. -/
structure Ctx where
  s : Station
  apps : Apps
  rx : Bytes
  tx : Option Bytes := none
  calls : List AppCall := []

/-- Result of a poll step: continue with a context, or the Rust code panicked at `site`. -/
inductive Res
  | ok (c : Ctx)
  | panic (site : String)

@[inline] def Res.bind (r : Res) (f : Ctx → Res) : Res :=
  match r with
  | .ok c => f c
  | .panic s => .panic s

def upd (c : Ctx) (f : Station → Station) : Ctx := { c with s := f c.s }

/-- `mark_bus_activity`. -/
def markBusActivity (s : Station) (now : Int) : Station :=
  let last := s.lastBusActivity.getD now
  { s with lastBusActivity := some (max last now) }

/-- `mark_tx`. -/
def markTx (s : Station) (now : Int) (bytes : Nat) : Station :=
  { s with lastBusActivity := some (now + (s.p.bits (11 * bytes) : Nat)) }

/-- `mark_rx`. -/
def markRx (s : Station) (now : Int) : Station :=
  markBusActivity { s with pendingBytes := 0 } now

/-- `check_for_bus_activity`. -/
def checkBusActivity (s : Station) (now : Int) (pending : Nat) : Station :=
  if pending > s.pendingBytes then { (markBusActivity s now) with pendingBytes := pending } else s

/-- `self.last_bus_activity.get_or_insert(now)`. -/
def getOrInsertLast (s : Station) (now : Int) : Station × Int :=
  match s.lastBusActivity with
  | some l => (s, l)
  | none => ({ s with lastBusActivity := some now }, now)

/-- `wait_synchronization_pause`: `true` = still waiting. -/
def waitSyncPause (s : Station) (now : Int) : Station × Bool :=
  let (s', l) := getOrInsertLast s now
  (s', decide (now ≤ l + (s.p.bits 33 : Nat)))

/-- `check_slot_expired`. -/
def checkSlotExpired (s : Station) (now : Int) : Station × Bool :=
  let (s', l) := getOrInsertLast s now
  (s', decide (now > l + (s.p.slotTime : Nat)))

/-- Hand a telegram to the PHY (`transmit_telegram` + `mark_tx`).  A second transmission within one
poll would make the real PHYs panic. -/
def transmit (c : Ctx) (now : Int) (bytes : Bytes) : Res :=
  match c.tx with
  | some _ => .panic "second transmission in one poll"
  | none => .ok { c with tx := some bytes, s := markTx c.s now bytes.length }

/-! ### State transitions with their `debug_assert_state!` -/

def toOffline (s : Station) : Option Station :=
  match s.st with
  | .offline | .passiveIdle | .listenToken .. | .passToken .. => some { s with st := .offline }
  | _ => none

def toListenToken (s : Station) : Option Station :=
  match s.st with
  | .listenToken .. | .offline | .activeIdle .. => some { s with st := .listenToken none 0 }
  | _ => none

def toActiveIdle (s : Station) : Option Station :=
  match s.st with
  | .activeIdle .. | .listenToken .. | .useToken .. | .awaitData .. | .checkTokenPass ..
  | .awaitStatus .. | .claimToken .. => some { s with st := .activeIdle none none 0 }
  | _ => none

def toUseToken (s : Station) (d : UseData) : Option Station :=
  match s.st with
  | .useToken .. | .claimToken .. | .passToken .. | .awaitData .. | .activeIdle .. =>
    some { s with st := .useToken d false }
  | _ => none

def toClaimToken (s : Station) : Option Station :=
  match s.st with
  | .claimToken .. | .listenToken .. | .activeIdle .. => some { s with st := .claimToken .firstToken }
  | _ => none

def toAwaitData (s : Station) (addr : Nat) (d : UseData) : Option Station :=
  match s.st with
  | .awaitData .. | .useToken .. => some { s with st := .awaitData addr d }
  | _ => none

def toPassToken (s : Station) (doGap : Bool) (att : Attempt) : Option Station :=
  match s.st with
  | .passToken .. | .useToken .. | .claimToken .. | .checkTokenPass .. | .awaitStatus .. =>
    some { s with st := .passToken doGap att }
  | _ => none

def toCheckTokenPass (s : Station) (att : Attempt) : Option Station :=
  match s.st with
  | .checkTokenPass .. | .passToken .. => some { s with st := .checkTokenPass att }
  | _ => none

def toAwaitStatus (s : Station) (addr : Nat) : Option Station :=
  match s.st with
  | .awaitStatus .. | .passToken .. => some { s with st := .awaitStatus addr }
  | _ => none

def tr (c : Ctx) (f : Station → Option Station) (site : String) : Res :=
  match f c.s with
  | some s' => .ok { c with s := s' }
  | none => .panic site

/-! ### GAP -/

/-- `next_gap_poll` as a `GapState` (`Model/Gap.lean`). -/
def nextGap (s : Station) (cur : Nat) : Option GapState :=
  match nextGapPoll s.p.address s.ring.ns s.p.hsa cur with
  | .poll a => some (.doPoll a)
  | .waiting => some (.waiting 0)
  | .panic => none

/-- `transmit_gap_poll_if_pending`: returns the polled address if a request was sent. -/
def transmitGapPoll (c : Ctx) (now : Int) : Res × Option Nat :=
  match c.s.gap with
  | .doPoll cur =>
    if cur = c.s.p.address then (.panic "debug_assert_ne!(current_address, self.p.address)", none) else
    match (fdlStatusRequestHeader (UInt8.ofNat cur) (UInt8.ofNat c.s.p.address)).serialize [] with
    | .ok bytes => (transmit c now bytes, some cur)
    | .panic => (.panic "serialize", none)
  | .waiting _ => (.ok c, none)

inductive GapPollResponse | noResponse | responded | unexpected | waitingForBus

/-- `await_gap_poll_response`. -/
def awaitGapPollResponse (c : Ctx) (now : Int) (addr : Nat) : Res × GapPollResponse :=
  if addr = c.s.p.address then (.panic "debug_assert_ne!(poll_address, self.p.address)", .waitingForBus) else
  if c.s.gap ≠ .doPoll addr then (.panic "debug_assert!(gap_state == DoPoll{poll_address})", .waitingForBus) else
  match receiveTelegram c.rx with
  | .panic => (.panic "receive_telegram", .waitingForBus)
  | .hang => (.panic "receive_telegram hang", .waitingForBus)
  | .done rx' [] _ =>
    let c := { c with rx := rx' }
    let (s', expired) := checkSlotExpired c.s now
    ({ c with s := s' } |> .ok, if expired then .noResponse else .waitingForBus)
  | .done rx' ((t, _) :: _) _ =>
    let c := { c with rx := rx', s := markRx c.s now }
    match t with
    | .data h _ =>
      if h.sa.toNat = addr ∧ h.da.toNat = c.s.p.address then
        match h.fc with
        | .response state status =>
          if status = .ok ∧ (state = .masterWithoutToken ∨ state = .masterInRing) then
            match c.s.ring.setNextStation addr with
            | some r => (.ok (upd c fun s => { s with ring := r }), .responded)
            | none => (.panic "set_next_station index", .waitingForBus)
          else (.ok c, .responded)
        | _ => (.ok c, .unexpected)
      else (.ok c, .unexpected)
    | _ => (.ok c, .unexpected)

/-! ### Telegram handling in `ActiveIdle` (`handle_telegram`) -/

def handleTelegram (c : Ctx) (now : Int) (t : Telegram) (isLast : Bool) : Res :=
  match c.s.st with
  | .listenToken .. => .ok c
  | .activeIdle statusReq newPs coll =>
    let ts := c.s.p.address
    match t with
    | .token da sa =>
      if sa.toNat = ts then
        let coll' := coll + 1
        if coll' = 1 then .ok (upd c fun s => { s with st := .activeIdle statusReq newPs coll' })
        else tr (upd c fun s => { s with st := .activeIdle statusReq newPs coll' }) toListenToken "transition_listen_token"
      else
        let c := upd c fun s => { s with st := .activeIdle statusReq newPs 0 }
        if da.toNat ≠ ts ∨ !isLast then
          .ok (upd c fun s => { s with ring := s.ring.witness sa.toNat da.toNat })
        else if sa.toNat = c.s.ring.ps then
          tr c (fun s => toUseToken s ⟨now, none⟩) "transition_use_token"
        else if newPs = some sa.toNat then
          tr (upd c fun s => { s with ring := s.ring.witness sa.toNat da.toNat })
            (fun s => toUseToken s ⟨now, none⟩) "transition_use_token"
        else .ok (upd c fun s => { s with st := .activeIdle statusReq (some sa.toNat) 0 })
    | .data h _ =>
      match h.fc with
      | .request _ .fdlStatus =>
        if h.da.toNat = ts ∧ isLast then
          .ok (upd c fun s => { s with st := .activeIdle (some h.sa.toNat) newPs coll })
        else .ok c
      | _ => .ok c
    | .sc => .ok c
  | _ => .panic "debug_assert_state!(ActiveIdle) in handle_telegram"

/-! ### The state handlers -/

/-- Encode a data telegram with empty PDU (status request / response). -/
def encodeOrPanic (c : Ctx) (now : Int) (h : Header) (pdu : Bytes) : Res :=
  match h.serialize pdu with
  | .ok bytes => transmit c now bytes
  | .panic => .panic "serialize assert"

mutual

/-- `do_claim_token`; `fuel` bounds the one self-call (`NoResponse → Scan`). -/
def doClaimToken (c : Ctx) (now : Int) : Nat → Res
  | 0 => .panic "recursion"
  | fuel + 1 =>
    match c.s.st with
    | .claimToken step =>
      match step with
      | .firstToken | .secondToken =>
        let (s', waiting) := waitSyncPause c.s now
        let c := { c with s := s' }
        if waiting then .ok c else
        (transmit c now (sendToken (UInt8.ofNat c.s.p.address) (UInt8.ofNat c.s.p.address))).bind fun c =>
        .ok (upd c fun s => { s with
          ring := s.ring.claimToken,
          st := .claimToken (if step = .firstToken then .secondToken else .scan),
          gap := .doPoll s.p.address })
      | .scan =>
        let (s', waiting) := waitSyncPause c.s now
        let c := { c with s := s' }
        if waiting then .ok c else
        match c.s.gap with
        | .waiting _ => tr c (fun s => toPassToken s false .first) "transition_pass_token"
        | .doPoll cur =>
          match nextGap c.s cur with
          | none => .panic "next_gap_poll overflow"
          | some g =>
            let c := upd c fun s => { s with gap := g }
            match transmitGapPoll c now with
            | (.panic s, _) => .panic s
            | (.ok c, some addr) => .ok (upd c fun s => { s with st := .claimToken (.scanAwait addr) })
            | (.ok c, none) => .ok c
      | .scanAwait addr =>
        match awaitGapPollResponse c now addr with
        | (.panic s, _) => .panic s
        | (.ok c, .waitingForBus) => .ok c
        | (.ok c, .responded) => .ok (upd c fun s => { s with st := .claimToken .scan })
        | (.ok c, .noResponse) => doClaimToken (upd c fun s => { s with st := .claimToken .scan }) now fuel
        | (.ok c, .unexpected) => tr c toActiveIdle "transition_active_idle"
    | _ => .panic "debug_assert_state!(ClaimToken)"

end

/-- `handle_lost_token`: `some r` = the poll is done with result `r`. -/
def handleLostToken (c : Ctx) (now : Int) : Ctx × Option Res :=
  let (s', l) := getOrInsertLast c.s now
  let c := { c with s := s' }
  if (now - l).natAbs ≥ c.s.p.tokenLostTimeout then
    match toClaimToken c.s with
    | none => (c, some (.panic "transition_claim_token"))
    | some s'' => (c, some (doClaimToken { c with s := s'' } now 2))
  else (c, none)

/-- Fold a batch of received telegrams through a per-telegram callback. -/
def foldTelegrams (f : Ctx → Telegram → Bool → Res) : Ctx → List (Telegram × Bool) → Res
  | c, [] => .ok c
  | c, (t, l) :: rest => (f c t l).bind fun c' => foldTelegrams f c' rest

/-- Per-telegram callback of `do_listen_token`'s `receive_all_telegrams`, after `mark_rx`. -/
def listenTelegramCore (c : Ctx) (t : Telegram) (isLast : Bool) : Res :=
  if !c.s.online then .ok c else
  match c.s.st with
  | .listenToken statusReq coll =>
    let ts := c.s.p.address
    if t.sourceAddress.map UInt8.toNat = some ts then
      let coll' := coll + 1
      if coll' = 1 then .ok (upd c fun s => { s with st := .listenToken statusReq coll' })
      else .ok (upd c fun s => s.setOffline)
    else
      match t with
      | .token da sa => .ok (upd c fun s => { s with ring := s.ring.witness sa.toNat da.toNat })
      | .data h _ =>
        match h.fc with
        | .request _ .fdlStatus =>
          if h.da.toNat = ts ∧ isLast then
            .ok (upd c fun s => { s with st := .listenToken (some h.sa.toNat) coll })
          else .ok c
        | _ => .ok c
      | .sc => .ok c
  | _ => .panic "get_listen_token_collision_count unreachable"

/-- Per-telegram callback of `do_listen_token`'s `receive_all_telegrams`. -/
def listenTelegram (now : Int) (c : Ctx) (t : Telegram) (isLast : Bool) : Res :=
  listenTelegramCore (upd c fun s => markRx s now) t isLast

/-- `do_listen_token`. -/
def doListenToken (c : Ctx) (now : Int) : Res :=
  match c.s.st with
  | .listenToken .. =>
    match handleLostToken c now with
    | (_, some r) => r
    | (c, none) =>
    match c.s.st with
    | .listenToken (some src) coll =>
      let (s', waiting) := waitSyncPause c.s now
      let c := { c with s := s' }
      if waiting then .ok c else
      let ready := c.s.ring.readyForRing
      let state : ResponseState :=
        if ready ∧ src = c.s.ring.ps then .masterWithoutToken else .masterNotReady
      (encodeOrPanic c now (fdlStatusResponseHeader (UInt8.ofNat src) (UInt8.ofNat c.s.p.address) state .ok) []).bind fun c =>
      -- note: `mark_tx` happens last in the code; the state change does not touch `last_bus_activity`
      if ready then tr c toActiveIdle "transition_active_idle"
      else .ok (upd c fun s => { s with st := .listenToken none coll })
    | .listenToken none _ =>
      match receiveAll c.rx with
      | .panic => .panic "receive_all_telegrams"
      | .hang => .panic "receive_all_telegrams hang"
      | .done rx' calls _ => foldTelegrams (listenTelegram now) { c with rx := rx' } calls
    | _ => .panic "unreachable"
  | _ => .panic "debug_assert_state!(ListenToken)"

/-- `do_active_idle`. -/
def doActiveIdle (c : Ctx) (now : Int) : Res :=
  match c.s.st with
  | .activeIdle .. =>
    match handleLostToken c now with
    | (_, some r) => r
    | (c, none) =>
    match c.s.st with
    | .activeIdle (some src) newPs coll =>
      let (s', waiting) := waitSyncPause c.s now
      let c := { c with s := s' }
      if waiting then .ok c else
      (encodeOrPanic c now (fdlStatusResponseHeader (UInt8.ofNat src) (UInt8.ofNat c.s.p.address) .masterInRing .ok) []).bind fun c =>
      .ok (upd c fun s => { s with st := .activeIdle none newPs coll })
    | .activeIdle none _ _ =>
      match receiveAll c.rx with
      | .panic => .panic "receive_all_telegrams"
      | .hang => .panic "receive_all_telegrams hang"
      | .done rx' calls _ =>
        foldTelegrams (fun c t isLast => handleTelegram (upd c fun s => markRx s now) now t isLast)
          { c with rx := rx' } calls
    | _ => .panic "unreachable"
  | _ => .panic "debug_assert_state!(ActiveIdle)"

/-- Ask application `i` (its script) for a telegram: `app_transmit_telegram`.
Returns the context and whether something was transmitted. -/
def appTransmit (c : Ctx) (now : Int) (hp : Bool) : Res × Bool :=
  let i := c.s.nextApp
  match c.apps[i]? with
  | none => (.panic "apps[self.next_application] out of bounds", false)
  | some script =>
    let ans := script.headD .decline
    let c := { c with apps := c.apps.set i script.tail, calls := c.calls ++ [.transmit i hp ans] }
    match ans with
    | .decline => (.ok c, false)
    | .send h pdu =>
      match h.serialize pdu with
      | .panic => (.panic "application: serialize assert", false)
      | .ok bytes =>
        match expectsReplyOf h with
        | some addr =>
          match c.s.st with
          | .useToken d _ =>
            match toAwaitData c.s addr.toNat d with
            | some s' => (transmit { c with s := s' } now bytes, true)
            | none => (.panic "transition_await_data_response", false)
          | _ => (.panic "get_use_token_data unreachable", false)
        | none => (transmit c now bytes, true)

/-- `apps_transmit_telegram` + `schedule_next_application`: `k` = remaining loop iterations. -/
def appsTransmit (now : Int) (hp : Bool) : Nat → Ctx → Res × Bool
  | 0, c => (.ok c, false)
  | k + 1, c =>
    match appTransmit c now hp with
    | (.panic s, _) => (.panic s, false)
    | (.ok c, true) => (.ok c, true)
    | (.ok c, false) =>
      -- schedule_next_application
      match c.s.st with
      | .useToken d fcd =>
        let n := c.apps.length
        let first := d.firstApp.getD c.s.nextApp
        let next := (c.s.nextApp + 1) % n
        let c := upd c fun s => { s with st := .useToken { d with firstApp := some first } fcd, nextApp := next }
        if next = first then (.ok c, false) else appsTransmit now hp k c
      | _ => (.panic "get_use_token_data unreachable", false)

/-- Tail of `do_pass_token`: transmit the token to NS, record the own pass in the LAS, then supervise
the pass (or keep the token when alone). -/
def passTokenOn (c : Ctx) (now : Int) (att : Attempt) : Res :=
  let ns := c.s.ring.ns
  let ts := c.s.p.address
  (transmit c now (sendToken (UInt8.ofNat ns) (UInt8.ofNat ts))).bind fun c =>
  let c := upd c fun s => { s with ring := s.ring.witness ts ns }
  -- note: `mark_tx` is applied last in the code and uses only `now`; order is immaterial
  if c.s.ring.ns = ts then tr c (fun s => toUseToken s ⟨now, none⟩) "transition_use_token"
  else tr c (fun s => toCheckTokenPass s att) "transition_check_token_pass"

/-- GAP bookkeeping of `do_pass_token` (`do_gap == Yes`): count rotations while waiting, start a new
sweep behind the own address when the wait is over, otherwise advance the running sweep. -/
def gapAdvance (s : Station) : Option GapState :=
  match s.gap with
  | .waiting rot => if rot > s.p.gapWait then nextGap s s.p.address else some (.waiting (rot + 1))
  | .doPoll cur => nextGap s cur

/-- `do_pass_token`. -/
def doPassToken (c : Ctx) (now : Int) : Res :=
  match c.s.st with
  | .passToken doGap att =>
    let sw := waitSyncPause c.s now
    let c := { c with s := sw.1 }
    if sw.2 then .ok c else
    if doGap then
      match gapAdvance c.s with
      | none => .panic "next_gap_poll overflow"
      | some g =>
        let c := upd c fun s => { s with gap := g }
        match transmitGapPoll c now with
        | (.panic s, _) => .panic s
        | (.ok c, some addr) => tr c (fun s => toAwaitStatus s addr) "transition_await_status_response"
        | (.ok c, none) => passTokenOn c now att
    else passTokenOn c now att
  | _ => .panic "debug_assert_state!(PassToken)"

/-- The hold-time bookkeeping `do_use_token` performs when it sees a new token receipt:
`end_token_hold_time = last_token_time + TTR` (minus `Tsl + 100 bit` when a GAP poll is pending). -/
def holdUpdate (s : Station) (d : UseData) : Station :=
  if s.lastTokenTime ≠ d.tokenTime then
    let e : Int := s.lastTokenTime + (s.p.ttrTime : Nat)
    let e := match s.gap with
      | .doPoll _ => e - (s.p.bits (s.p.slotBits + 100) : Nat)
      | .waiting _ => e
    { s with endTokenHoldTime := e, lastTokenTime := d.tokenTime }
  else s

/-- End of a token hold in `do_use_token`: `transition_pass_token(DoGap::Yes, First)` and, in the same
poll, `do_pass_token` (repair of finding K3: the token is passed on right away). -/
def passNow (c : Ctx) (now : Int) : Res :=
  (tr c (fun s => toPassToken s true .first) "transition_pass_token").bind fun c => doPassToken c now

/-- One message cycle attempt of `do_use_token` (`first_cycle_done = true`, then ask the applications;
pass the token if nobody transmits). -/
def useTokenGo (c : Ctx) (now : Int) (d : UseData) (hp : Bool) : Res :=
  let c := upd c fun s => { s with st := .useToken d true }
  match appsTransmit now hp c.apps.length c with
  | (.panic s, _) => .panic s
  | (.ok c, true) => .ok c
  | (.ok c, false) => passNow c now

/-- `do_use_token`. -/
def doUseToken (c : Ctx) (now : Int) : Res :=
  match c.s.st with
  | .useToken d fcd =>
    let s1 := holdUpdate c.s d
    let sw := waitSyncPause s1 now
    let c := { c with s := sw.1 }
    if sw.2 then .ok c else
    if now < c.s.endTokenHoldTime then useTokenGo c now d false
    else if !fcd then useTokenGo c now d true
    else passNow c now
  | _ => .panic "debug_assert_state!(UseToken)"

/-- `do_await_data_response`. -/
def doAwaitDataResponse (c : Ctx) (now : Int) : Res :=
  match c.s.st with
  | .awaitData address d =>
    let i := c.s.nextApp
    if c.apps.length ≤ i then .panic "apps[self.next_application] out of bounds" else
    let backToUse (c : Ctx) : Res :=
      (tr c (fun s => toUseToken s d) "transition_use_token").bind fun c =>
        .ok (upd c fun s => { s with st := .useToken d true })
    match receiveTelegram c.rx with
    | .panic => .panic "receive_telegram"
    | .hang => .panic "receive_telegram hang"
    | .done rx' ((t, _) :: _) _ =>
      let c := { c with rx := rx', s := markRx c.s now }
      let valid : Bool := match t with
        | .token .. => false
        | .sc => true
        | .data h _ => decide (h.sa.toNat = address) && decide (h.da.toNat = c.s.p.address) &&
            (match h.fc with | .response .. => true | _ => false)
      if valid then backToUse { c with calls := c.calls ++ [.reply i address t] }
      else tr c toActiveIdle "transition_active_idle"
    | .done rx' [] _ =>
      let c := { c with rx := rx' }
      let (s', expired) := checkSlotExpired c.s now
      let c := { c with s := s' }
      if expired then
        (backToUse { c with calls := c.calls ++ [.timeout i address] }).bind fun c => doUseToken c now
      else .ok c
  | _ => .panic "debug_assert_state!(AwaitDataResponse)"

/-- `do_await_status_response`. -/
def doAwaitStatusResponse (c : Ctx) (now : Int) : Res :=
  match c.s.st with
  | .awaitStatus addr =>
    match awaitGapPollResponse c now addr with
    | (.panic s, _) => .panic s
    | (.ok c, .waitingForBus) => .ok c
    | (.ok c, .responded) => tr c (fun s => toPassToken s false .first) "transition_pass_token"
    | (.ok c, .noResponse) =>
      (tr c (fun s => toPassToken s false .first) "transition_pass_token").bind fun c => doPassToken c now
    | (.ok c, .unexpected) => tr c toActiveIdle "transition_active_idle"
  | _ => .panic "debug_assert_state!(AwaitStatusResponse)"

/-- `do_check_token_pass`. -/
def doCheckTokenPass (c : Ctx) (now : Int) : Res :=
  match c.s.st with
  | .checkTokenPass att =>
    let (s', expired) := checkSlotExpired c.s now
    let c := { c with s := s' }
    if expired then
      let r : Res := match att with
        | .first => tr c (fun s => toPassToken s false .second) "transition_pass_token"
        | .second => tr c (fun s => toPassToken s false .third) "transition_pass_token"
        | .third =>
          match c.s.ring.removeStation c.s.ring.ns with
          | none => .panic "remove_station index"
          | some r => tr (upd c fun s => { s with ring := r }) (fun s => toPassToken s false .first) "transition_pass_token"
      r.bind fun c => doPassToken c now
    else
      match receiveAll c.rx with
      | .panic => .panic "receive_all_telegrams"
      | .hang => .panic "receive_all_telegrams hang"
      | .done rx' calls _ =>
        match calls with
        | [] => .ok { c with rx := rx' }
        | (t, l) :: rest =>
          let c := { c with rx := rx', s := markRx c.s now }
          (tr c toActiveIdle "transition_active_idle").bind fun c =>
          (handleTelegram c now t l).bind fun c =>
          foldTelegrams (fun c t isLast => handleTelegram (upd c fun s => markRx s now) now t isLast) c rest
  | _ => .panic "debug_assert_state!(CheckTokenPass)"

/-- Going online: `Offline | PassiveIdle → ListenToken` at the first poll. -/
def pollStart (c : Ctx) : Res :=
  match c.s.st with
  | .offline | .passiveIdle => tr c toListenToken "transition_listen_token"
  | _ => .ok c

/-- The state dispatch of `poll_inner`. -/
def dispatch (c : Ctx) (now : Int) : Res :=
  match c.s.st with
  | .offline => .panic "unreachable!()"
  | .passiveIdle => .panic "todo!()"
  | .listenToken .. => doListenToken c now
  | .claimToken .. => doClaimToken c now 2
  | .useToken .. => doUseToken c now
  | .awaitData .. => doAwaitDataResponse c now
  | .passToken .. => doPassToken c now
  | .checkTokenPass .. => doCheckTokenPass c now
  | .activeIdle .. => doActiveIdle c now
  | .awaitStatus .. => doAwaitStatusResponse c now

/-- `check_for_ongoing_transmision`: the PHY still transmits, or the predicted end of the own last
transmission has not passed. -/
def ongoing (c : Ctx) (now : Int) (phyTransmitting : Bool) : Bool :=
  phyTransmitting || (match c.s.lastBusActivity with | some l => decide (now ≤ l) | none => false)

/-- `poll_inner`. -/
def pollInner (c : Ctx) (now : Int) (phyTransmitting : Bool) : Res :=
  if !c.s.online then
    (match c.s.st with
     | .offline => .ok c
     | _ => .panic "debug_assert!(state == Offline) while connectivity is Offline")
  else
    (pollStart c).bind fun c =>
    if ongoing c now phyTransmitting then
      .ok (upd c fun s => markBusActivity s now)
    else
      dispatch (upd c fun s => checkBusActivity s now c.rx.length) now

/-- One `poll` / `poll_multi` call. -/
def Station.poll (s : Station) (apps : Apps) (now : Int) (phyTransmitting : Bool) (rx : Bytes) : Res :=
  pollInner { s := s, apps := apps, rx := rx } now phyTransmitting

end PV
