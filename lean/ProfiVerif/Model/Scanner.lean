/-
Model of `src/dp/scan.rs` (`DpScanner` as an `FdlApplication`).

Shares `Apps.Sweep` (fields, `transmit_telegram` control flow, `handle_timeout`, `take_last_event`)
with `Model/LiveList.lean`; `receive_reply` and `parse_diag_response` are written out here.
`DpScanner` has no accessor for its station set — the only observation is `take_last_event()`.

Panic sites made explicit: `self.stations.get(usize::from(address)).unwrap()` (index ≥ 128), and the
indexing `t.pdu[3]`, `t.pdu[0..2]`, `t.pdu[4..6]`, `&t.pdu[6..]` (all behind the `len < 6` return).
The diagnostic *flags* only feed log statements (`contains` / `remove` / `{:?}` of a `bitflags`
value cannot panic) and are not part of any observation, so they are not modelled.
-/
import ProfiVerif.Model.LiveList

namespace PV
open PV.Apps

/-- `DpPeripheralDescription`. -/
structure DpDesc where
  address : Nat
  ident : Nat
  master : Option Nat
  deriving DecidableEq, Repr

/-- `DpScanEvent`. -/
inductive DpScanEvent
  | found (d : DpDesc)
  | requery (d : DpDesc)
  | lost (address : Nat)
  deriving DecidableEq, Repr

/-- The two fields of `DiagnosticsInfo` the scanner uses. -/
structure DiagId where
  ident : Nat
  master : Option Nat
  deriving DecidableEq, Repr

/-- `DpScanner::parse_diag_response`: `.ok none` = the `return None` / `else None` branches. -/
def parseDiagResponse (t : Telegram) : Outcome (Option DiagId) :=
  match t with
  | .data h pdu =>
    if h.dsap ≠ SAP_MASTER_MS0 then .ok none
    else if h.ssap ≠ SAP_SLAVE_DIAGNOSIS then .ok none
    else if pdu.length < 6 then .ok none
    -- `t.pdu[3]`, `t.pdu[0..2]`, `t.pdu[4..6]`, `&t.pdu[6..]`: all need `len ≥ 6`
    else if pdu.length ≤ 3 ∨ pdu.length < 2 ∨ pdu.length < 6 then .panic
    else
      let m := pdu.getD 3 0
      let master : Option Nat := if m = 255 then none else some m.toNat
      -- `u16::from_be_bytes(t.pdu[4..6])`
      let ident : Nat := (pdu.getD 4 0).toNat * 256 + (pdu.getD 5 0).toNat
      .ok (some { ident := ident, master := master })
  | .token _ _ => .ok none
  | .sc => .ok none

abbrev Scanner := Sweep DpScanEvent

namespace Scanner

def init : Scanner := Sweep.init

/-- The diagnostics request header: SRD low, FCB `First`, DSAP 60, SSAP 62, no PDU. -/
def diagRequestHeader (da sa : UInt8) : Header :=
  { da := da, sa := sa, dsap := SAP_SLAVE_DIAGNOSIS, ssap := SAP_MASTER_MS0, fc := .request .first .srdLow }

/-- `transmit_telegram`: the diagnostics request to the cursor address, or `None`. -/
def transmit (own : UInt8) (s : Scanner) : Scanner × Option (Header × Bytes) :=
  match Sweep.transmit s with
  | (s', some a) => (s', some (diagRequestHeader (UInt8.ofNat a) own, []))
  | (s', none) => (s', none)

/-- `receive_reply` (as of /repo commit c0f8a92).  A reply that does not parse as a diagnostics
response produces no event for an unknown address; for a *known* peripheral it clears the station
bit and the pending event becomes `PeripheralLost(address)` ("something answers at this address, but
it is no longer a DP peripheral"). -/
def receiveReply (s : Scanner) (addr : Nat) (t : Telegram) : Outcome Scanner :=
  match s.stations[addr]? with
  | none => .panic
  | some known =>
    match parseDiagResponse t with
    | .panic => .panic
    | .ok none =>
      if known then
        .ok { s with done := true, pending := some (.lost addr), stations := s.stations.set addr false }
      else
        .ok { s with done := true, pending := none }
    | .ok (some d) =>
      let desc : DpDesc := { address := addr, ident := d.ident, master := d.master }
      if known then
        .ok { s with done := true, pending := some (.requery desc) }
      else
        .ok { s with done := true, pending := some (.found desc), stations := s.stations.set addr true }

def handleTimeout (s : Scanner) (addr : Nat) : Outcome Scanner := Sweep.handleTimeout .lost s addr
def takeLastEvent (s : Scanner) : Scanner × Option DpScanEvent := Sweep.takeLastEvent s
/-- Not observable on the real type (no accessor); used by the theorems. -/
def stations (s : Scanner) : List Nat := Sweep.stationList s

end Scanner
end PV
