/-
The composed system FDL ∘ DP: the station model (`Model/Station.lean`, `FdlActiveStation`) with ONE
application, whose answers are not a script but what the DP-master model (`Model/Dp/Master.lean`,
`DpMaster as FdlApplication`) answers in its current state.

`Station.poll` takes the applications as answer scripts.  One composed poll therefore

1. computes the answer the master WOULD give if it were asked in this poll (`answer`): the station
   asks its single application at most once per poll, with `high_prio_only` as `Station.askHp`
   predicts, and `handle_timeout` — the only callback that can precede the question in the same poll —
   does not change the master;
2. runs `Station.poll` with that one-element script;
3. replays the callbacks the station logged (`Ctx.calls`) through the master, in order: every
   `transmit_telegram` callback is given to `Master.transmit` with the logged `high_prio_only` and the
   answer the station used is CHECKED against what the master returns at that moment (`.mismatch`
   otherwise — proved unreachable in `Lemmas/StackTotal.lean`), every `receive_reply` to
   `Master.receiveReply`, every `handle_timeout` to `Master.handleTimeout`.

So a composed poll that returns `.ok` is, by construction, a poll of the station whose application is
the master.  Between polls the user may call the station API (`set_online` / `set_offline`) and the
master API (`take_last_events`, `pi_q_mut` writes, `request_diagnostics`, `reset_address`).

The run records the sequence of master calls (`MCall`): callbacks and user calls in order.
Import-free apart from other `Model/` files.
-/
import ProfiVerif.Model.Station
import ProfiVerif.Model.Dp.Master

namespace PV.Stack
open PV PV.Dp

/-- Station, master, and the bytes pending in the PHY receive buffer. -/
structure State where
  s : Station
  m : Master
  rx : Bytes

/-- A call into the DP master: the three `FdlApplication` callbacks and the user API. -/
inductive MCall
  | tx (now : Int) (hp : Bool)
  | reply (a : UInt8) (t : Telegram)
  | timeout (a : UInt8)
  | take
  | writeQ (slot : Nat) (bs : Bytes)
  | diagReq (slot : Nat)
  | resetAddr (slot : Nat) (a : UInt8)
  deriving DecidableEq, Repr

inductive Res (α : Type)
  | ok (a : α)
  /-- the station model hit one of its panic sites -/
  | stationPanic (site : String)
  /-- the master model hit one of its panic sites -/
  | masterPanic
  /-- `transmit_telegram` of the master did not return -/
  | masterHang
  /-- the answer the station used differs from what the master returns when asked (artefact of the
  script interface; unreachable) -/
  | mismatch
  /-- a user call outside its documented precondition: no peripheral in that slot, `pi_q` write of the
  wrong length, station address ≥ 128 -/
  | userError
  deriving Repr

@[inline] def Res.bind {α β : Type} (r : Res α) (f : α → Res β) : Res β :=
  match r with
  | .ok a => f a
  | .stationPanic s => .stationPanic s
  | .masterPanic => .masterPanic
  | .masterHang => .masterHang
  | .mismatch => .mismatch
  | .userError => .userError

/-- What the master answers to `transmit_telegram(now, …, high_prio_only = hp)`, in the station's
vocabulary. -/
def answer (fp : FdlParams) (now : Int) (hp : Bool) (m : Master) : AppAnswer :=
  match Master.transmit fp now hp m with
  | .send _ h pdu => .send h pdu
  | _ => .decline

/-- `high_prio_only` of the `transmit_telegram` callback, should the station ask in a poll at `now`
starting in state `s`: `do_use_token` asks with `false` while the token hold time lasts
(`now < end_token_hold_time`, after the update at a new token receipt), otherwise — if no message
cycle was done in this token visit yet — with `true`. -/
def _root_.PV.Station.askHp (s : Station) (now : Int) : Bool :=
  match s.st with
  | .useToken d _ => !decide (now < (holdUpdate s d).endTokenHoldTime)
  | .awaitData _ d => !decide (now < (holdUpdate s d).endTokenHoldTime)
  | _ => false

/-- Hand one logged callback to the master. -/
def callback (fp : FdlParams) (now : Int) (m : Master) : AppCall → Res (Master × MCall)
  | .transmit _ hp ans =>
    match Master.transmit fp now hp m with
    | .send m' h pdu => if ans = .send h pdu then .ok (m', .tx now hp) else .mismatch
    | .none m' => if ans = .decline then .ok (m', .tx now hp) else .mismatch
    | .panic => .masterPanic
    | .hang => .masterHang
  | .reply _ a t =>
    match m.receiveReply (UInt8.ofNat a) t with
    | .ok m' => .ok (m', .reply (UInt8.ofNat a) t)
    | .panic => .masterPanic
  | .timeout _ a => .ok (m.handleTimeout (UInt8.ofNat a), .timeout (UInt8.ofNat a))

/-- The callbacks of one poll, in order. -/
def replay (fp : FdlParams) (now : Int) : Master → List AppCall → Res (Master × List MCall)
  | m, [] => .ok (m, [])
  | m, c :: rest =>
    (callback fp now m c).bind fun r1 =>
    (replay fp now r1.1 rest).bind fun r2 => .ok (r2.1, r1.2 :: r2.2)

/-- One composed `poll`. -/
def poll (fp : FdlParams) (k : State) (now : Int) (phy : Bool) (arrived : Bytes) : Res (State × List MCall) :=
  let ans := answer fp now (k.s.askHp now) k.m
  match k.s.poll [[ans]] now phy (k.rx ++ arrived) with
  | .panic site => .stationPanic site
  | .ok c => (replay fp now k.m c.calls).bind fun r => .ok ({ s := c.s, m := r.1, rx := c.rx }, r.2)

/-- The API of the composed system. -/
inductive Call
  | poll (now : Int) (phy : Bool) (arrived : Bytes)
  | setOnline
  | setOffline
  | take
  | writeQ (slot : Nat) (bs : Bytes)
  | diagReq (slot : Nat)
  | resetAddr (slot : Nat) (a : UInt8)
  deriving Repr

def userCall (k : State) (r : Option Master) (x : MCall) : Res (State × List MCall) :=
  match r with
  | some m' => .ok ({ k with m := m' }, [x])
  | none => .userError

def step (fp : FdlParams) (k : State) : Call → Res (State × List MCall)
  | .poll now phy arrived => poll fp k now phy arrived
  | .setOnline => .ok ({ k with s := k.s.setOnline }, [])
  | .setOffline => .ok ({ k with s := k.s.setOffline }, [])
  | .take => .ok ({ k with m := k.m.takeLastEvents.1 }, [.take])
  | .writeQ slot bs => userCall k (k.m.writePiQ slot bs) (.writeQ slot bs)
  | .diagReq slot => userCall k (k.m.requestDiagnostics slot) (.diagReq slot)
  | .resetAddr slot a => if a ≥ 128 then .userError else userCall k (k.m.resetAddress slot a) (.resetAddr slot a)

/-- A call sequence, with the master calls of all steps concatenated. -/
def run (fp : FdlParams) (k : State) : List Call → Res (State × List MCall)
  | [] => .ok (k, [])
  | c :: rest =>
    (step fp k c).bind fun r1 => (run fp r1.1 rest).bind fun r2 => .ok (r2.1, r1.2 ++ r2.2)

/-- A fresh station (offline) and a master in Operate with the given slots. -/
def init (p : Params) (slots : List (Option Peripheral)) (growable : Bool) : State :=
  { s := Station.new p,
    m := { slots := slots, growable := growable, op := .operate, lastGc := none, cycle := .dx 0, lastEvents := {} },
    rx := [] }

end PV.Stack
