/-
Model of `src/fdl/live_list.rs` (`LiveList` as an `FdlApplication`).

`LiveList` and `DpScanner` (`src/dp/scan.rs`, modelled in `Model/Scanner.lean`) have literally the
same fields and the same `transmit_telegram` / `handle_timeout` / `take_last_event` bodies (apart
from the telegram that is built and the constructor of the "lost" event), so the shared part is the
generic structure `Apps.Sweep ε` (ε = event type).  Only `receive_reply` differs and is written out
per application.

Import-free apart from `Model/Telegram` (this file is linked into the compiled driver).
Addresses are `Nat` (the driver only ever passes values < 256 = `u8`).  Every Rust
index / `unwrap` is an explicit `.panic` outcome:

* `self.stations.get(usize::from(addr)).unwrap()` — the bit array is `BitArr!(for 128)`, i.e. 128
  bits; `get` returns `None` for an index ≥ 128 and the `unwrap` panics.  `stations` is a
  `List Bool` (of length 128 in every reachable state) and the lookup is `stations[addr]?`.
* `self.cursor += 1` is guarded by `self.cursor < 125` in the code, so it cannot overflow.
* `u8::try_from(a).unwrap()` in `iter_stations` cannot fail for an index < 128.
-/
import ProfiVerif.Model.Telegram

namespace PV.Apps

/-- Result of a callback that may panic. -/
inductive Outcome (σ : Type)
  | ok (s : σ)
  | panic

/-- The state shared by `LiveList` and `DpScanner`:
`stations: BitArr!(for 128)`, `cursor: Address`, `pending_event: Option<_>`, `current_address_done: bool`. -/
structure Sweep (ε : Type) where
  stations : List Bool
  cursor : Nat
  pending : Option ε
  done : Bool

namespace Sweep
variable {ε : Type}

/-- `new()`: all bits clear, cursor 0, no event, `current_address_done = false`. -/
def init : Sweep ε := { stations := List.replicate 128 false, cursor := 0, pending := none, done := false }

/-- The control flow of `transmit_telegram` (identical in both applications): returns the address
to send the request to (`address = self.cursor`, read *before* the cursor is advanced), or `none`
after advancing the cursor when the current address is done. -/
def transmit (s : Sweep ε) : Sweep ε × Option Nat :=
  if s.done then
    ({ s with done := false, cursor := if s.cursor < 125 then s.cursor + 1 else 0 }, none)
  else
    (s, some s.cursor)

/-- `handle_timeout` (identical in both applications up to the event constructor `lost`). -/
def handleTimeout (lost : Nat → ε) (s : Sweep ε) (addr : Nat) : Outcome (Sweep ε) :=
  -- `self.current_address_done = true;` happens first, then `.get(addr).unwrap()`
  match s.stations[addr]? with
  | none => .panic
  | some true => .ok { s with done := true, pending := some (lost addr), stations := s.stations.set addr false }
  | some false => .ok { s with done := true }

/-- `take_last_event`: `self.pending_event.take()`. -/
def takeLastEvent (s : Sweep ε) : Sweep ε × Option ε := ({ s with pending := none }, s.pending)

/-- `iter_stations`: indices of the set bits, ascending. -/
def stationList (s : Sweep ε) : List Nat :=
  (List.range s.stations.length).filter fun a => s.stations.getD a false

end Sweep
end PV.Apps

namespace PV
open PV.Apps

/-- `StationEvent` (`StationDescription` inlined). -/
inductive StationEvent
  | discovered (address : Nat) (state : ResponseState)
  | lost (address : Nat)
  deriving DecidableEq, Repr

abbrev LiveList := Sweep StationEvent

namespace LiveList

def init : LiveList := Sweep.init

/-- `transmit_telegram`: `Some(tx.send_fdl_status_request(address, this_station))` or `None`.
The request is returned as header + (empty) PDU; the driver serialises it with
`Header.serialize` (which cannot panic here: length byte 3, see `C18.request_serializes`). -/
def transmit (own : UInt8) (s : LiveList) : LiveList × Option (Header × Bytes) :=
  match Sweep.transmit s with
  | (s', some a) => (s', some (fdlStatusRequestHeader (UInt8.ofNat a) own, []))
  | (s', none) => (s', none)

/-- `receive_reply`.  The address is the one handed in by the FDL layer (`addr`), *not* the cursor
and not the telegram's SA.  A station that was unknown is marked known whatever the telegram is;
the `Discovered` event is only produced when the telegram is a data telegram with a *response*
function code — for a short confirmation (or anything else) the bit is set without an event. -/
def receiveReply (s : LiveList) (addr : Nat) (t : Telegram) : Outcome LiveList :=
  match s.stations[addr]? with
  | none => .panic
  | some false =>
    let ev : Option StationEvent :=
      match t with
      | .data h _ =>
        match h.fc with
        | .response state _ => some (.discovered addr state)
        | .request _ _ => none
      | .token _ _ => none
      | .sc => none
    .ok { s with done := true, stations := s.stations.set addr true, pending := ev }
  | some true =>
    -- "We know this station already, so no event." — `self.pending_event = None`
    .ok { s with done := true, pending := none }

def handleTimeout (s : LiveList) (addr : Nat) : Outcome LiveList := Sweep.handleTimeout .lost s addr
def takeLastEvent (s : LiveList) : LiveList × Option StationEvent := Sweep.takeLastEvent s
def stations (s : LiveList) : List Nat := Sweep.stationList s

end LiveList
end PV
