/-
Flat, slice-free, panic-free *specification* of the telegram decoder (import-free; used by the
theorems of C10/C16 and by the executable oracles).  `Lemmas/Decoder.lean` proves
`deserialize = decodeSpec`.
-/
import ProfiVerif.Model.Telegram

namespace PV

def hasDsapBit (b : Bytes) : Bool := decide (b.getD 1 0 &&& 0x80 ≠ 0)
def hasSsapBit (b : Bytes) : Bool := decide (b.getD 2 0 &&& 0x80 ≠ 0)
/-- Number of SAP bytes announced by the address extension bits. -/
def sapCount (b : Bytes) : Nat :=
  (if hasDsapBit b then 1 else 0) + (if hasSsapBit b then 1 else 0)

/-- The header a data frame in buffer `b` (starting at its last start delimiter) denotes. -/
def headerOf (b : Bytes) (fc : FunctionCode) : Header :=
  { da := if hasDsapBit b then b.getD 1 0 &&& ~~~0x80 else b.getD 1 0
    sa := if hasSsapBit b then b.getD 2 0 &&& ~~~0x80 else b.getD 2 0
    dsap := if hasDsapBit b then some (b.getD 4 0) else none
    ssap := if hasSsapBit b then some (b.getD (if hasDsapBit b then 5 else 4) 0) else none
    fc := fc }

/-- Flat specification of the decoder body: no slicing, no panics — absolute indices only. -/
def bodySpec (b : Bytes) (len total : Nat) : Decoded :=
  if b.length < len + 6 then .needMore else
  match FunctionCode.fromByte (b.getD 3 0) with
  | .error _ => .reject
  | .ok fc =>
    if len < sapCount b then .reject
    else if b.getD (len + 4) 0 ≠ checksum ((b.drop 1).take (len + 3)) then .reject
    else if b.getD (len + 5) 0 ≠ ED then .reject
    else .accept (.data (headerOf b fc) ((b.drop (4 + sapCount b)).take (len - sapCount b))) total

/-- Flat specification of `DataTelegram::deserialize`. -/
def dataSpec (bs : Bytes) : Decoded :=
  if bs.length < 6 then .needMore else
  let sd := bs.getD 0 0
  if sd = SD1 then bodySpec bs 0 6
  else if sd = SD2 then
    if bs.getD 1 0 ≠ bs.getD 2 0 then .reject
    else if bs.getD 1 0 < 3 then .reject
    else if bs.getD 3 0 ≠ SD2 then .reject
    else bodySpec (bs.drop 3) ((bs.getD 1 0).toNat - 3) ((bs.getD 1 0).toNat + 6)
  else if sd = SD3 then bodySpec bs 8 14
  else .reject

/-- Flat specification of `Telegram::deserialize`. -/
def decodeSpec (bs : Bytes) : Decoded :=
  if bs.length = 0 then .needMore else
  let sd := bs.getD 0 0
  if sd = SC then .accept .sc 1
  else if sd = SD4 then
    if bs.length < 3 then .needMore else .accept (.token (bs.getD 1 0) (bs.getD 2 0)) 3
  else if sd = SD1 ∨ sd = SD2 ∨ sd = SD3 then dataSpec bs
  else .reject

/-- Shape of the header of a data frame: `off` bytes in front of the (repeated) start delimiter,
`len` payload bytes (incl. SAPs) announced. -/
def Shape (bs : Bytes) (off len : Nat) : Prop :=
  (bs.getD 0 0 = SD1 ∧ off = 0 ∧ len = 0) ∨
  (bs.getD 0 0 = SD3 ∧ off = 0 ∧ len = 8) ∨
  (bs.getD 0 0 = SD2 ∧ off = 3 ∧ bs.getD 1 0 = bs.getD 2 0 ∧ ¬ (bs.getD 1 0 < 3) ∧ bs.getD 3 0 = SD2 ∧
    len = (bs.getD 1 0).toNat - 3)

/-- `v` is none of the five start codes. -/
def NotStartCode (v : UInt8) : Prop := v ≠ SC ∧ v ≠ SD4 ∧ v ≠ SD1 ∧ v ≠ SD2 ∧ v ≠ SD3

/-- The eight bit positions of a byte. -/
def bits : List UInt8 := [0, 1, 2, 3, 4, 5, 6, 7]

instance : DecidablePred NotStartCode := fun v => by unfold NotStartCode; infer_instance

/-- Length of the frame the first bytes of `bs` announce (`none`: they announce no frame).  For SD2
the length is only known once 6 bytes are there (the code waits for them). -/
def announced (bs : Bytes) : Option Nat :=
  if bs.length = 0 then some 1 else
  let sd := bs.getD 0 0
  if sd = SC then some 1
  else if sd = SD4 then some 3
  else if sd = SD1 then some 6
  else if sd = SD2 then
    if bs.length < 6 then some 6
    else if bs.getD 1 0 = bs.getD 2 0 ∧ ¬ (bs.getD 1 0 < 3) ∧ bs.getD 3 0 = SD2
      then some ((bs.getD 1 0).toNat + 6) else none
  else if sd = SD3 then some 14
  else none

end PV
