/-
Model of `FdlActiveStation::next_gap_poll` (`src/fdl/active.rs`), a pure function of
(TS, NS, HSA, current address).  Import-free.
-/
namespace PV

inductive GapNext
  | poll (a : Nat)      -- `GapState::DoPoll { current_address: a }`
  | waiting             -- `GapState::Waiting { rotation_count: 0 }`
  | panic               -- u8 overflow: `HSA - 1` with HSA = 0, or `current + 1` with current = 255
  deriving DecidableEq, Repr

/-- `next_gap_poll(current)`; all arguments are `u8` in the code (the caller guarantees `< 256`). -/
def nextGapPoll (ts ns hsa cur : Nat) : GapNext :=
  if hsa = 0 then .panic else
  if cur ≠ hsa - 1 ∧ cur ≥ 255 then .panic else
  let next := if cur = hsa - 1 then 0 else cur + 1
  let inGap : Bool :=
    if ns > ts then decide (next > ts ∧ next < ns)
    else if ns < ts then decide (next > ts ∨ next < ns)
    else decide (next ≠ ts)
  if inGap then .poll next else .waiting

/-- Specification: address `a` lies in the GAP of station `ts` with successor `ns` below `hsa`:
strictly between TS and NS going upwards cyclically; everything but TS when NS = TS. -/
def InGap (ts ns hsa a : Nat) : Prop :=
  a < hsa ∧ a ≠ ts ∧
    (if ts < ns then ts < a ∧ a < ns else if ns < ts then ts < a ∨ a < ns else True)

instance (ts ns hsa a : Nat) : Decidable (InGap ts ns hsa a) := by unfold InGap; infer_instance

/-- One whole GAP sweep as the station performs it: start at `cur`, poll until `waiting`. -/
def sweepFrom (ts ns hsa : Nat) : Nat → Nat → List Nat
  | 0, _ => []
  | fuel + 1, cur =>
    match nextGapPoll ts ns hsa cur with
    | .poll a => a :: sweepFrom ts ns hsa fuel a
    | _ => []

end PV
