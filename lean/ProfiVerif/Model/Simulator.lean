/-
Timed byte availability of `SimulatorBus` (src/phy/simulator.rs `current_cursor`): the characters of
the telegram in flight become visible to the receivers one by one, after every full 11 bit times
(`time_to_bits(elapsed) / 11`, both integer divisions).  Import-free.
-/
namespace PV.Sim

/-- `Baudrate::time_to_bits`: ⌊µs · rate / 10⁶⌋. -/
def timeToBits (rate us : Nat) : Nat := us * rate / 1000000

/-- Characters of the telegram in flight (length `len`) that are visible `elapsed` µs after its start. -/
def visibleChars (rate elapsed len : Nat) : Nat := min (timeToBits rate elapsed / 11) len

/-- The part of the simulator bus the receive path depends on: everything sent before the telegram in
flight is fully visible (`done`), the telegram in flight is visible up to `visibleChars`. -/
structure Bus where
  rate : Nat := 500000
  done : List UInt8 := []
  cur : List UInt8 := []
  elapsed : Nat := 0

/-- `current_cursor` (as the number of bytes of the stream visible to a receiver). -/
def Bus.cursor (b : Bus) : Nat := b.done.length + visibleChars b.rate b.elapsed b.cur.length

/-- The visible prefix of the stream. -/
def Bus.visible (b : Bus) : List UInt8 := b.done ++ b.cur.take (visibleChars b.rate b.elapsed b.cur.length)

/-- `enqueue_telegram`: a new telegram starts now (the simulator asserts that the previous one is over). -/
def Bus.send (b : Bus) (t : List UInt8) : Bus := { b with done := b.done ++ b.cur, cur := t, elapsed := 0 }

/-- `advance_bus_time`. -/
def Bus.advance (b : Bus) (us : Nat) : Bus := { b with elapsed := b.elapsed + us }

end PV.Sim
