/-
Model of `src/dp/master.rs` (`DpMaster` as an `FdlApplication`) and `src/dp/peripheral_set.rs`
(`PeripheralSet`: slot storage, `add`, `get_at_index_mut`, `get_next_index`).

Import-free apart from other `Model/` files.  Slots are a `List (Option Peripheral)` (a fixed array /
slice, or a `Vec` when `growable`).  Time is `Int` µs.  Explicit panic sites:

* `u8::try_from(i).unwrap()` in `add`, `get_at_index_mut`, `get_next_index` (slot index ≥ 256)
* `panic!("Adding peripheral to full PeripheralSet")`
* `Instant - Instant` (`i64` subtraction, overflow checks on) and `slot_time() * 50` (`u64`) in the
  global-control test
* `unreachable!()` for `OperatingState::Stop` in the global-control PDU closure (not reachable: the
  function returns before in Stop — kept as a `.panic` arm)
* the `unreachable!` of `receive_reply` for a completed cycle (the other one — no peripheral or another
  address at the cycle index — became "ignore the stale reply" with /repo 954a153, F14)
* everything `Peripheral.transmit` / `Peripheral.receiveReply` can panic with.

The `loop` of `transmit_telegram` is a recursion on fuel with an explicit `.hang` outcome (fuel
exhausted).  With the guard of /repo 9c8a1a7 (F4) every iteration either returns or moves the cycle
index to a strictly later occupied slot, so `slots.length + 1` iterations always suffice (theorem
`C14.turn_ends`); before that repair an empty set made the loop spin without changing anything.
-/
import ProfiVerif.Model.Dp.Peripheral

namespace PV.Dp
open PV

/-- `CycleState`. -/
inductive Cycle
  | dx (index : Nat)
  | completed
  deriving DecidableEq, Repr, Inhabited

/-- `PeripheralHandle` + `PeripheralEvent`. -/
structure HEvent where
  index : Nat
  address : UInt8
  ev : PEvent
  deriving DecidableEq, Repr, Inhabited

/-- `DpEvents`. -/
structure Events where
  cycleCompleted : Bool := false
  peripheral : Option HEvent := none
  deriving DecidableEq, Repr, Inhabited

structure Master where
  slots : List (Option Peripheral)
  /-- `ManagedSlice::Owned` (a `Vec`) as opposed to a borrowed fixed slice -/
  growable : Bool
  op : OpState
  lastGc : Option Int
  cycle : Cycle
  lastEvents : Events
  deriving DecidableEq, Repr, Inhabited

/-- `DpMaster::new(storage)`: `n` empty slots. -/
def Master.new (n : Nat) (growable : Bool) : Master :=
  { slots := List.replicate n none, growable := growable, op := .stop, lastGc := none,
    cycle := .dx 0, lastEvents := {} }

/-! ## `PeripheralSet` -/

inductive Res (α : Type)
  | ok (a : α)
  | panic
  deriving Repr

/-- `slots.iter().enumerate().skip(index).find_map(occupied)`: the first occupied slot at or behind
`index`; `i` is the slot index of the head of `l`. -/
def firstFrom : List (Option Peripheral) → Nat → Nat → Option (Nat × Peripheral)
  | [], _, _ => none
  | x :: r, i, index =>
    if i < index then firstFrom r (i + 1) index
    else
      match x with
      | some p => some (i, p)
      | none => firstFrom r (i + 1) index

/-- First free slot of `l`, whose head has slot index `i`. -/
def firstNone : List (Option Peripheral) → Nat → Option Nat
  | [], _ => none
  | none :: _, i => some i
  | some _ :: r, i => firstNone r (i + 1)

/-- `get_at_index_mut(index)`: the first occupied slot at or behind `index`, with the
`u8::try_from(i).unwrap()` of the handle. -/
def getAtIndex (slots : List (Option Peripheral)) (index : Nat) : Res (Option (Nat × Peripheral)) :=
  match firstFrom slots 0 index with
  | none => .ok none
  | some (i, p) => if i ≥ 256 then .panic else .ok (some (i, p))

/-- `get_next_index(index)`: the *second* occupied slot at or behind `index`
(`.skip(index).filter(occupied).nth(1)`). -/
def getNextIndex (slots : List (Option Peripheral)) (index : Nat) : Res (Option Nat) :=
  match firstFrom slots 0 index with
  | none => .ok none
  | some (i, _) =>
    match firstFrom slots 0 (i + 1) with
    | none => .ok none
    | some (j, _) => if j ≥ 256 then .panic else .ok (some j)

/-- `DpMaster::add`: first free slot, else push (Vec) or panic (fixed storage). -/
def Master.add (m : Master) (p : Peripheral) : Res (Master × Nat) :=
  match firstNone m.slots 0 with
  | some i => if i ≥ 256 then .panic else .ok ({ m with slots := m.slots.set i (some p) }, i)
  | none =>
    if m.growable then
      -- `(peripherals.len() - 1).try_into().unwrap()` after the push
      if m.slots.length ≥ 256 then .panic
      else .ok ({ m with slots := m.slots ++ [some p] }, m.slots.length)
    else .panic

/-- `DpMaster::enter_operate()`. -/
def Master.enterOperate (m : Master) : Master := { m with op := .operate, lastGc := none }

/-- `take_last_events()`. -/
def Master.takeLastEvents (m : Master) : Master × Events := ({ m with lastEvents := {} }, m.lastEvents)

/-- `get_mut(handle)` for user calls: the peripheral in slot `i`. -/
def Master.peripheral? (m : Master) (i : Nat) : Option Peripheral := (m.slots.getD i none)

/-- User write through `pi_q_mut()` (`copy_from_slice` of exactly the image length). -/
def Master.writePiQ (m : Master) (i : Nat) (bs : Bytes) : Option Master :=
  match m.peripheral? i with
  | some p => if bs.length = p.piQ.length then some { m with slots := m.slots.set i (some { p with piQ := bs }) } else none
  | none => none

/-- `get_mut(handle).request_diagnostics()`. -/
def Master.requestDiagnostics (m : Master) (i : Nat) : Option Master :=
  match m.peripheral? i with
  | some p => some { m with slots := m.slots.set i (some { p with diagNeeded := true }) }
  | none => none

/-- `get_mut(handle).reset_address(new_address)`. -/
def Master.resetAddress (m : Master) (i : Nat) (a : UInt8) : Option Master :=
  match m.peripheral? i with
  | some p => some { m with slots := m.slots.set i (some (p.resetAddress a)) }
  | none => none

/-! ## `FdlApplication for DpMaster` -/

/-- Result of `transmit_telegram`. -/
inductive MTx
  | send (m : Master) (h : Header) (pdu : Bytes)
  | none (m : Master)
  | panic
  | hang
  deriving DecidableEq, Repr

/-- The global-control telegram. -/
def gcHeader (fp : FdlParams) : Header :=
  { da := 0x7f, sa := fp.address, dsap := SAP_SLAVE_GLOBAL_CONTROL, ssap := SAP_MASTER_MS0,
    fc := .request .inactive .sdnLow }

def gcPdu (op : OpState) : Option Bytes :=
  match op with
  | .clear => some [0x02, 0x00]
  | .operate => some [0x00, 0x00]
  | .stop => none

def i64Ok (x : Int) : Bool := decide (-(2:Int)^63 ≤ x ∧ x < (2:Int)^63)

/-- `last_global_control.map(|t| now - t >= slot_time * 50).unwrap_or(true)`; `none` = arithmetic panic. -/
def gcDue (fp : FdlParams) (now : Int) (last : Option Int) : Option Bool :=
  match last with
  | none => some true
  | some t =>
    if !i64Ok (now - t) then none
    else if fp.slotUs * 50 ≥ 2 ^ 64 then none
    else some (decide ((now - t).natAbs ≥ fp.slotUs * 50))

/-- `increment_cycle_state(index)`: the new cycle state and the returned `bool`. -/
def nextCycle (slots : List (Option Peripheral)) (index : Nat) : Res (Cycle × Bool) :=
  match getNextIndex slots index with
  | .panic => .panic
  | .ok (some n) => .ok (.dx n, false)
  | .ok none => .ok (.completed, true)

/-- One iteration of the `loop` of `transmit_telegram` with `cycle_state = DataExchange(index)`. -/
inductive Visit
  /-- no peripheral at or behind `index` (F4 guard): cycle completed, turn ends -/
  | empty (m : Master)
  /-- the peripheral in slot `i` transmits -/
  | send (i : Nat) (m : Master) (h : Header) (pdu : Bytes)
  /-- the peripheral in slot `i` declines with an event (Offline): turn ends (F11) -/
  | event (i : Nat) (m : Master)
  /-- the peripheral in slot `i` declines and was the last one: cycle completed, turn ends -/
  | last (i : Nat) (m : Master)
  /-- the peripheral in slot `i` declines: on to the next one -/
  | next (i : Nat) (m : Master)
  | panic
  deriving DecidableEq, Repr

def Master.visit (fp : FdlParams) (m : Master) (index : Nat) : Visit :=
  match getAtIndex m.slots index with
  | .panic => .panic
  | .ok none => .empty { m with cycle := .dx 0, lastEvents := { cycleCompleted := true } }
  | .ok (some (i, p)) =>
    match p.transmit fp m.op with
    | .panic => .panic
    | .send p' h pdu =>
      .send i { m with slots := m.slots.set i (some p'), lastEvents := {} } h pdu
    | .decline p' (some ev) =>
      let slots' := m.slots.set i (some p')
      match nextCycle slots' index with
      | .panic => .panic
      | .ok (c, done) =>
        .event i { m with slots := slots', cycle := if done then .dx 0 else c,
                          lastEvents := { cycleCompleted := done,
                                          peripheral := some { index := i, address := p.address, ev := ev } } }
    | .decline p' none =>
      let slots' := m.slots.set i (some p')
      match nextCycle slots' index with
      | .panic => .panic
      | .ok (c, done) =>
        if done then
          .last i { m with slots := slots', cycle := .dx 0, lastEvents := { cycleCompleted := true } }
        else .next i { m with slots := slots', cycle := c }

/-- The `loop` of `transmit_telegram` (`peripheral_event` is `None` throughout since c1ddc01). -/
def Master.txLoop (fp : FdlParams) : Nat → Master → MTx
  | 0, _ => .hang
  | fuel + 1, m =>
    match m.cycle with
    | .completed => .none { m with cycle := .dx 0, lastEvents := {} }
    | .dx index =>
      match m.visit fp index with
      | .panic => .panic
      | .empty m' => .none m'
      | .send _ m' h pdu => .send m' h pdu
      | .event _ m' => .none m'
      | .last _ m' => .none m'
      | .next _ m' => Master.txLoop fp fuel m'

/-- `transmit_telegram(now, fdl, tx, high_prio_only)`. -/
def Master.transmit (fp : FdlParams) (now : Int) (hp : Bool) (m : Master) : MTx :=
  if m.op = .stop then .none { m with lastEvents := {} } else
  match (if hp then some false else gcDue fp now m.lastGc) with
  | none => .panic
  | some true =>
    match gcPdu m.op with
    | none => .panic
    | some pdu =>
      match (gcHeader fp).serialize pdu 256 with
      | .panic => .panic
      | .ok _ => .send { m with lastGc := some now, lastEvents := {} } (gcHeader fp) pdu
  | some false => Master.txLoop fp (m.slots.length + 1) m

/-- `receive_reply(now, fdl, addr, telegram)`. -/
def Master.receiveReply (m : Master) (addr : UInt8) (t : Telegram) : Res Master :=
  match m.cycle with
  | .completed => .panic
  | .dx index =>
    match getAtIndex m.slots index with
    | .panic => .panic
    -- since /repo 954a153 (F14) a reply that does not belong to the peripheral at the cycle index —
    -- its address was changed by `reset_address()` while the request was in flight — is ignored:
    -- neither the cycle state nor the events are touched
    | .ok none => .ok m
    | .ok (some (i, p)) =>
      if addr ≠ p.address then .ok m else
      match p.receiveReply t with
      | .panic => .panic
      | .ok p' ev =>
        let slots' := m.slots.set i (some p')
        match nextCycle slots' index with
        | .panic => .panic
        | .ok (c, done) =>
          .ok { m with slots := slots', cycle := c,
                       lastEvents := { cycleCompleted := done,
                                       peripheral := ev.map fun e => { index := i, address := p.address, ev := e } } }

/-- `handle_timeout`: no action. -/
def Master.handleTimeout (m : Master) (_addr : UInt8) : Master := m

end PV.Dp
