/-
Joint model for property C07: the DP master of `Model/Dp/{Peripheral,Master}` (used as they are, not
re-modelled) against the reference slave of `Model/Dp/Slave`, with an environment that loses or
corrupts telegrams, power-cycles the slave, lets the device report faults and lets the user call
`request_diagnostics()` / write outputs at any point.

Two levels, related by `Lemmas/DpLive.lean`:

* `PJ` — one `Peripheral` and the slave; one step = one *visit* of the peripheral by the master
  (`Peripheral::transmit_telegram`, delivery, `Peripheral::receive_reply` or nothing on a time-out).
  The theorems of C07 are about this level.
* `Joint` — the whole `DpMaster` (any slot layout, global-control broadcasts, cycle bookkeeping,
  `take_last_events`) and the slave; one step = one `transmit_telegram` call of the `FdlApplication`
  and what the bus makes of it.  This is what the correspondence engine `dplive` runs against the real
  `DpMaster`.

Faults per visit (`Delivery`):
  `ok`        the request reaches the slave, the reply reaches the master (the fault-free continuation
              uses only this one and is deterministic);
  `lossReq`   the request is lost or corrupted (the slave's FDL rejects it): the slave sees nothing,
              the master gets a time-out;
  `lossRep`   the slave acts and replies, the reply is lost or corrupted beyond recognition (rejected
              by the master's FDL, C10): time-out;
  `sub t`     the slave acts and replies, the master receives the well-formed telegram `t` instead
              (corruption that still decodes; any response telegram / short confirmation).
`mid = true`: the user calls `request_diagnostics()` between the request and its reply (cf. F10).
Between visits: slave power cycle, fault report by the device, `request_diagnostics()`, new outputs,
new inputs.

Import-free apart from other `Model/` files.
-/
import ProfiVerif.Model.Dp.Master
import ProfiVerif.Model.Dp.Slave

namespace PV.Live
open PV PV.Dp

inductive Delivery
  | ok
  | lossReq
  | lossRep
  | sub (t : Telegram)
  deriving DecidableEq, Repr, Inhabited

/-- What the master's application gets back for a request the slave reacted to with `r`:
`none` = time-out. -/
def Delivery.deliver (d : Delivery) (r : SReply) : Option Telegram :=
  match d with
  | .ok => r.telegram
  | .lossReq => none
  | .lossRep => none
  | .sub t => match r with
    | .silent => none
    | _ => some t

/-! ## Peripheral level -/

structure PJ where
  fp : FdlParams
  op : OpState
  p : Peripheral
  s : Slave
  deriving DecidableEq, Repr, Inhabited

inductive PEnv
  | visit (mid : Bool) (d : Delivery)
  | power
  | fault (ext : Bytes)
  | diagReq
  | piq (bs : Bytes)
  | inputs (bs : Bytes)
  deriving DecidableEq, Repr, Inhabited

/-- `request_diagnostics()`. -/
def reqDiag (p : Peripheral) : Peripheral := { p with diagNeeded := true }

/-- One visit.  Result: the new joint state and the peripheral event of the visit; `none` = the
master panicked. -/
def PJ.visit (j : PJ) (mid : Bool) (d : Delivery) : Option (PJ × Option PEvent) :=
  match j.p.transmit j.fp j.op with
  | .panic => none
  | .decline p' ev => some ({ j with p := p' }, ev)
  | .send p' h pdu =>
    let p1 := if mid then reqDiag p' else p'
    match d with
    | .lossReq => some ({ j with p := p1 }, none)
    | _ =>
      let r := j.s.receive h pdu
      match d.deliver r.2 with
      | none => some ({ j with p := p1, s := r.1 }, none)
      | some t =>
        match p1.receiveReply t with
        | .panic => none
        | .ok p2 ev => some ({ j with p := p2, s := r.1 }, ev)

def PJ.step (j : PJ) : PEnv → Option (PJ × Option PEvent)
  | .visit mid d => j.visit mid d
  | .power => some ({ j with s := j.s.power }, none)
  | .fault ext => some ({ j with s := j.s.reportFault ext }, none)
  | .diagReq => some ({ j with p := reqDiag j.p }, none)
  | .piq bs => some ({ j with p := if bs.length = j.p.piQ.length then { j.p with piQ := bs } else j.p }, none)
  | .inputs bs => some ({ j with s := j.s.setInputs bs }, none)

/-- A history: the final state and the events in order. -/
def PJ.run (j : PJ) : List PEnv → Option (PJ × List PEvent)
  | [] => some (j, [])
  | e :: es =>
    match j.step e with
    | none => none
    | some (j', ev) =>
      match j'.run es with
      | none => none
      | some (j'', evs) => some (j'', ev.toList ++ evs)

/-- The fault-free continuation: `n` visits with nothing lost and no outside interference. -/
def PJ.quiet (j : PJ) : Nat → Option (PJ × List PEvent)
  | 0 => some (j, [])
  | n + 1 =>
    match j.visit false .ok with
    | none => none
    | some (j', ev) =>
      match j'.quiet n with
      | none => none
      | some (j'', evs) => some (j'', ev.toList ++ evs)

/-! ## Master level -/

structure Joint where
  fp : FdlParams
  m : Master
  s : Slave
  /-- slot of the peripheral (for the user calls) -/
  slot : Nat
  deriving DecidableEq, Repr, Inhabited

/-- What one `transmit_telegram` call put on the bus and what came back. -/
structure TurnObs where
  /-- the request as encoded on the wire (`none`: the call returned `None`) -/
  tx : Option Bytes := none
  /-- address a reply is expected from -/
  expect : Option UInt8 := none
  /-- the telegram reached the slave -/
  seen : Bool := false
  /-- the slave's reaction -/
  reply : SReply := .silent
  /-- what the master's application received (`none`: nothing / time-out) -/
  delivered : Option Telegram := none
  deriving DecidableEq, Repr, Inhabited

inductive TurnRes
  | ok (j : Joint) (o : TurnObs)
  | panic
  | hang
  deriving DecidableEq, Repr

/-- One `transmit_telegram(now, …, HighPrioOnly::No)` and the delivery according to `d`. -/
def Joint.turn (j : Joint) (now : Int) (mid : Bool) (d : Delivery) : TurnRes :=
  match Master.transmit j.fp now false j.m with
  | .panic => .panic
  | .hang => .hang
  | .none m' => .ok { j with m := m' } {}
  | .send m' h pdu =>
    match h.serialize pdu with
    | .panic => .panic
    | .ok bytes =>
      let exp := expectsReplyOf h
      let m1 := if mid then (m'.requestDiagnostics j.slot).getD m' else m'
      match d with
      | .lossReq =>
        -- nothing arrives; the master's FDL reports a time-out if it waits for a reply
        .ok { j with m := match exp with | some a => m1.handleTimeout a | none => m1 }
            { tx := some bytes, expect := exp }
      | _ =>
        let r := j.s.receive h pdu
        match exp with
        | none => .ok { j with m := m1, s := r.1 } { tx := some bytes, expect := exp, seen := true, reply := r.2 }
        | some a =>
          match d.deliver r.2 with
          | none =>
            .ok { j with m := m1.handleTimeout a, s := r.1 }
                { tx := some bytes, expect := exp, seen := true, reply := r.2 }
          | some t =>
            match m1.receiveReply a t with
            | .panic => .panic
            | .ok m2 =>
              .ok { j with m := m2, s := r.1 }
                  { tx := some bytes, expect := exp, seen := true, reply := r.2, delivered := some t }

end PV.Live
