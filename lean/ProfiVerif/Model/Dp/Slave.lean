/-
Reference DP-V0 slave (environment of property C07, not subject): the PROFIBUS-DP slave state machine
`Power_On → Wait_Prm → Wait_Cfg → Data_Exch` with

* diagnostics replies (`Slave_Diag`, DSAP 60 → reply DSAP 62 / SSAP 60, 6 header bytes + extended
  diagnostics) whose station-status bits are derived from the state: `Station_Not_Ready` (byte 1 bit 1)
  outside `Data_Exch`, `Cfg_Fault` (bit 2), `Ext_Diag` (bit 3), `Prm_Fault` (bit 6); `Prm_Req` (byte 2
  bit 0) in `Wait_Prm`, byte 2 bit 2 always one, `WD_On` / `Freeze` / `Sync` as parameterised; master
  address (255 while not parameterised); ident number,
* `Set_Prm` (DSAP 61) and `Chk_Cfg` (DSAP 62) acknowledged by a short confirmation (`SC`), the verdict
  being reported by the next diagnostics reply; services that are not enabled in the current state are
  answered `RS` ("SAP not enabled", no data),
* `Data_Exchange` (no SAPs): outputs taken from the request, inputs returned (`DL`; `DH` while a
  diagnostic report is pending; `SC` when there are no inputs and nothing is pending),
* retry detection by the frame count bit: a request with `FCV = 1` whose `FCB` equals the stored one is
  a retransmission and is answered by repeating the previous reply *without acting*; any other request
  is new: it is served, the reply is stored and the stored bit becomes the request's `FCB`
  (`FCB = 1, FCV = 0` — "first request" — stores 1; `FCB = 0, FCV = 0` clears the stored bit),
* power cycle (also: watchdog expiry): everything back to `Wait_Prm`, nothing stored.

Small, total, computable.  The same machine is written in Rust in `harness/src/dplive.rs`; the
correspondence run of engine `dplive` compares them reply by reply.

Import-free apart from `Model/Telegram` (linked into the compiled driver).
-/
import ProfiVerif.Model.Telegram

namespace PV.Live
open PV

inductive SState
  | waitPrm | waitCfg | dataExch
  deriving DecidableEq, Repr, Inhabited

/-- What the slave is (its GSD, so to speak): station address, ident number, length of the
user parameters it expects behind the 7 standard `Set_Prm` bytes, the configuration bytes it accepts,
input / output lengths. -/
structure SlaveCfg where
  address : UInt8
  ident : Nat
  prmLen : Nat
  config : Bytes
  inLen : Nat
  outLen : Nat
  deriving DecidableEq, Repr, Inhabited

/-- What the slave puts on the bus in reaction to a telegram. -/
inductive SReply
  | silent
  | sc
  | data (h : Header) (pdu : Bytes)
  deriving DecidableEq, Repr, Inhabited

structure Slave where
  cfg : SlaveCfg
  state : SState
  /-- address of the master that parameterised the slave (255 = none) -/
  master : UInt8
  /-- `WD_On | Freeze | Sync` bits (0x08 | 0x10 | 0x20) of the accepted `Set_Prm` -/
  prmFlags : UInt8
  /-- frame count bit of the last request that was served -/
  stored : Option Bool
  /-- the reply to it (repeated on a retransmission) -/
  last : SReply
  prmFault : Bool
  cfgFault : Bool
  /-- a diagnostic report is waiting to be fetched -/
  diagPending : Bool
  extDiag : Bytes
  inputs : Bytes
  outputs : Bytes
  deriving DecidableEq, Repr, Inhabited

/-- `Power_On`. -/
def Slave.init (cfg : SlaveCfg) (inputs : Bytes) : Slave :=
  { cfg := cfg, state := .waitPrm, master := 255, prmFlags := 0, stored := none, last := .silent,
    prmFault := false, cfgFault := false, diagPending := false, extDiag := [],
    inputs := inputs, outputs := List.replicate cfg.outLen 0 }

/-- Power cycle / watchdog expiry: the process inputs are the plant's and survive. -/
def Slave.power (s : Slave) : Slave := Slave.init s.cfg s.inputs

/-- The device detects a (transient) fault: a report with this extended-diagnostics data waits. -/
def Slave.reportFault (s : Slave) (ext : Bytes) : Slave :=
  { s with diagPending := true, extDiag := ext }

/-- The plant changes the inputs (ignored unless the length is the slave's input length). -/
def Slave.setInputs (s : Slave) (bs : Bytes) : Slave :=
  if bs.length = s.cfg.inLen then { s with inputs := bs } else s

def bit (b : Bool) (v : UInt8) : UInt8 := if b then v else 0

/-- The six standard diagnostics bytes followed by the pending extended diagnostics. -/
def Slave.diagPdu (s : Slave) : Bytes :=
  let b0 : UInt8 := bit (s.state != .dataExch) 0x02 ||| bit s.cfgFault 0x04 ||| bit s.diagPending 0x08
                    ||| bit s.prmFault 0x40
  let b1 : UInt8 := bit (s.state == .waitPrm) 0x01 ||| 0x04 ||| (if s.state == .waitPrm then 0 else s.prmFlags &&& 0x38)
  [b0, b1, 0, if s.state == .waitPrm then 255 else s.master,
   UInt8.ofNat (s.cfg.ident / 256), UInt8.ofNat (s.cfg.ident % 256)]
  ++ (if s.diagPending then s.extDiag else [])

def replyHeader (s : Slave) (req : Header) (dsap ssap : Option UInt8) (st : ResponseStatus) : Header :=
  { da := req.sa, sa := s.cfg.address, dsap := dsap, ssap := ssap, fc := .response .slave st }

/-- `RS`: service not activated. -/
def Slave.rs (s : Slave) (req : Header) : SReply := .data (replyHeader s req none none .sapNotEnabled) []

/-- Serve a *new* request (no frame count bit handling here). -/
def Slave.serve (s : Slave) (h : Header) (pdu : Bytes) : Slave × SReply :=
  if h.dsap = some 60 ∧ h.ssap = some 62 then
    -- Slave_Diag: report, then the report is delivered
    ({ s with diagPending := false, extDiag := [] },
     .data (replyHeader s h (some 62) (some 60) .dataLow) s.diagPdu)
  else if h.dsap = some 61 ∧ h.ssap = some 62 then
    -- Set_Prm
    if pdu.length = 7 + s.cfg.prmLen ∧ (pdu.getD 4 0).toNat * 256 + (pdu.getD 5 0).toNat = s.cfg.ident then
      ({ s with prmFault := false, master := h.sa, prmFlags := pdu.getD 0 0 &&& 0x38,
                state := if s.state = .dataExch then .dataExch else .waitCfg }, .sc)
    else ({ s with prmFault := true, state := .waitPrm }, .sc)
  else if h.dsap = some 62 ∧ h.ssap = some 62 then
    -- Chk_Cfg
    if s.state = .waitPrm then (s, s.rs h)
    else if pdu = s.cfg.config then ({ s with cfgFault := false, state := .dataExch }, .sc)
    else ({ s with cfgFault := true, state := .waitPrm }, .sc)
  else if h.dsap = none ∧ h.ssap = none then
    -- Data_Exchange
    if s.state = .dataExch then
      if pdu.length = s.cfg.outLen then
        let s' := { s with outputs := pdu }
        if s.diagPending then (s', .data (replyHeader s h none none .dataHigh) s.inputs)
        else if s.cfg.inLen = 0 then (s', .sc)
        else (s', .data (replyHeader s h none none .dataLow) s.inputs)
      else ({ s with state := .waitPrm }, s.rs h)
    else (s, s.rs h)
  else (s, s.rs h)

/-- The stored frame count bit after serving a request with this `FCB/FCV`. -/
def storedAfter (f : FrameCountBit) : Option Bool :=
  if f.fcv then some f.fcb else if f.fcb then some true else none

/-- Is a request with this `FCB/FCV` a retransmission of the last served one? -/
def isRetransmission (stored : Option Bool) (f : FrameCountBit) : Bool :=
  f.fcv && stored == some f.fcb

/-- A decoded telegram arrives at the slave.  Telegrams for other stations (incl. the global-control
broadcast to 127), responses and unacknowledged services produce no reply and no change. -/
def Slave.receive (s : Slave) (h : Header) (pdu : Bytes) : Slave × SReply :=
  if h.da ≠ s.cfg.address then (s, .silent) else
  match h.fc with
  | .response _ _ => (s, .silent)
  | .request f req =>
    if req = .srdLow ∨ req = .srdHigh then
      if isRetransmission s.stored f then (s, s.last)
      else
        let r := s.serve h pdu
        ({ r.1 with stored := storedAfter f, last := r.2 }, r.2)
    else (s, .silent)

/-- The reply as the telegram the FDL layer of the master hands to the application. -/
def SReply.telegram : SReply → Option Telegram
  | .silent => none
  | .sc => some .sc
  | .data h pdu => some (.data h pdu)

end PV.Live
