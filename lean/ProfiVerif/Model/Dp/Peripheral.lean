/-
Model of `src/dp/peripheral.rs` (`Peripheral`: the per-slave state machine of the DP master) and of
the part of `src/fdl/parameters.rs` the DP layer reads (`Parameters::{address, slot_time(),
max_retry_limit, min_tsdr_bits, watchdog_factors}` and the builder's `watchdog_factors` search).

Import-free apart from other `Model/` files (linked into the compiled driver).  `&mut self` methods
return the new value.  Every Rust panic site reachable from the modelled entry points is an explicit
`.panic` outcome:

* `debug_assert!(dp.operating_state.is_operate() || is_clear())` at the top of `transmit_telegram`
* `assert!(length_byte <= 249)` / buffer indexing of `DataTelegramHeader::serialize` (through
  `Header.serialize` of `Model/Telegram`, 256-byte `TelegramTx` buffer) — reachable with
  `user_parameters` longer than 237 bytes or `config` / `pi_q` longer than 244 bytes
* `self.retry_count += 1` on a `u8` (overflow checks on)
* `FrameCountBit::cycle()` on `Inactive`
* `t.is_response().unwrap()` (a data telegram with a *request* function code handed to `receive_reply`)
* `Telegram::Token(_) => unreachable!()`
* the indexing inside `handle_diagnostics_response` (through `Diag.handle` of `Model/Diag`, C17)

The slice copies (`buf[4..6].copy_from_slice`, `buf[7..].copy_from_slice(user_parameters)`,
`buf.copy_from_slice(config)`, `buf.copy_from_slice(&self.pi_q)`) have equal lengths by construction
of `pdu_len`; `self.pi_i.copy_from_slice(t.pdu)` is guarded by the length comparison in front of it.
Log statements format `{telegram:?}` / `{t:?}` with derived `Debug` impls and cannot panic; the one
that can (`{:?}` of `ext_diag`) is part of `Diag.handle`.
-/
import ProfiVerif.Model.Diag

namespace PV.Dp
open PV

/-! ## FDL parameters as far as the DP layer reads them -/

/-- `fdl.parameters()`: own address, `slot_time()` in µs, `max_retry_limit`, `min_tsdr_bits`,
`watchdog_factors`. -/
structure FdlParams where
  address : UInt8
  slotUs : Nat
  maxRetry : Nat
  minTsdr : UInt8
  watchdog : Option (UInt8 × UInt8)
  deriving DecidableEq, Repr, Inhabited

/-- The `for f1 in 1..256` loop of `watchdog_factors`, started at `f1` with `fuel` iterations left:
the first `f1` whose `f2 = timeout_10ms.div_ceil(f1)` is below 256. -/
def wdSearch (t : Nat) : Nat → Nat → Option (Nat × Nat)
  | 0, _ => none
  | fuel + 1, f1 =>
    let f2 := (t + f1 - 1) / f1
    if f2 < 256 then some (f1, f2) else wdSearch t fuel (f1 + 1)

/-- Outcome of `ParametersBuilder::watchdog_timeout(Duration::from_millis(ms))`:
`none` = one of the two `assert!`s or the `.unwrap()` of the `Err(())` ("still too big") panics. -/
def watchdogFactors (ms : Nat) : Option (UInt8 × UInt8) :=
  if ms < 10 ∨ 650000 < ms then none else
  -- `timeout_10ms: u32 = (dur.total_millis() / 10).try_into()` cannot fail below 650 s
  match wdSearch (ms / 10) 255 1 with
  | some (f1, f2) => some (UInt8.ofNat f1, UInt8.ofNat f2)
  | none => none

/-- `min_slot_bits` (table of `parameters.rs`, checked against the source by `tools/extract_consts.py`). -/
def minSlotBits (baud : Nat) : Option Nat :=
  if baud = 9600 ∨ baud = 19200 ∨ baud = 31250 ∨ baud = 45450 ∨ baud = 93750 ∨ baud = 187500 then some 100
  else if baud = 500000 then some 200
  else if baud = 1500000 then some 300
  else if baud = 3000000 then some 400
  else if baud = 6000000 then some 600
  else if baud = 12000000 then some 1000
  else none

/-! ## Peripheral -/

inductive PState
  | offline | waitForParam | waitForConfig | validateConfig | preDataExchange | dataExchange
  deriving DecidableEq, Repr, Inhabited

inductive PEvent
  | online | configured | configError | parameterError | dataExchanged | diagnostics | offline
  deriving DecidableEq, Repr, Inhabited

inductive OpState
  | stop | clear | operate
  deriving DecidableEq, Repr, Inhabited

/-- `PeripheralOptions` (the fields the code reads; `max_tsdr`, `fail_safe` are never read by the
master). -/
structure Options where
  ident : Nat
  sync : Bool
  freeze : Bool
  groups : UInt8
  userPrm : Option Bytes
  config : Option Bytes
  deriving DecidableEq, Repr, Inhabited

structure Peripheral where
  address : UInt8
  state : PState
  retry : Nat
  fcb : FrameCountBit
  piI : Bytes
  piQ : Bytes
  /-- `diag` + `ext_diag` (model of C17) -/
  diag : Diag.PState
  diagNeeded : Bool
  diagInFlight : Bool
  opts : Options
  deriving DecidableEq, Repr, Inhabited

/-- `Peripheral::new(address, options, pi_i, pi_q).with_diag_buffer(buf)`; `FrameCountBit::default()`
is `First`. -/
def Peripheral.new (address : UInt8) (opts : Options) (piI piQ : Bytes) (diagBuf : Nat) : Peripheral :=
  { address := address, state := .offline, retry := 0, fcb := .first, piI := piI, piQ := piQ,
    diag := Diag.PState.init diagBuf, diagNeeded := false, diagInFlight := false, opts := opts }

/-- `Peripheral::reset_address(new_address)`: `*self = Self::new(new_address, options, pi_i, pi_q)
.with_diag_buffer(diag_buffer)` — a fresh peripheral (Offline, retry 0, FCB First, no diagnostics,
flags clear) that keeps the options, both process images and the diagnostics buffer (its content
stays, `length = 0`; `take_buffer` + `from_buffer`). -/
def Peripheral.resetAddress (p : Peripheral) (a : UInt8) : Peripheral :=
  { address := a, state := .offline, retry := 0, fcb := .first, piI := p.piI, piQ := p.piQ,
    diag := { info := none, ext := { buf := p.diag.ext.buf, length := 0 } },
    diagNeeded := false, diagInFlight := false, opts := p.opts }

def Peripheral.isLive (p : Peripheral) : Bool := p.state != .offline
def Peripheral.isRunning (p : Peripheral) : Bool := p.state == .dataExchange

/-! ### Diagnostic flags the state machine looks at -/
def STATION_NOT_READY : UInt16 := 0x0002
def CONFIGURATION_FAULT : UInt16 := 0x0004
def PARAMETER_FAULT : UInt16 := 0x0040
def PARAMETER_REQUIRED : UInt16 := 0x0100

/-! ### Requests -/

def SAP_DATA_EXCHANGE : Option UInt8 := none

/-- Header of `send_diagnostics_request`. -/
def Peripheral.diagHeader (fp : FdlParams) (p : Peripheral) : Header :=
  { da := p.address, sa := fp.address, dsap := SAP_SLAVE_DIAGNOSIS, ssap := SAP_MASTER_MS0,
    fc := .request p.fcb .srdLow }

def Peripheral.setPrmHeader (fp : FdlParams) (p : Peripheral) : Header :=
  { da := p.address, sa := fp.address, dsap := SAP_SLAVE_SET_PRM, ssap := SAP_MASTER_MS0,
    fc := .request p.fcb .srdLow }

def Peripheral.chkCfgHeader (fp : FdlParams) (p : Peripheral) : Header :=
  { da := p.address, sa := fp.address, dsap := SAP_SLAVE_CHK_CFG, ssap := SAP_MASTER_MS0,
    fc := .request p.fcb .srdLow }

def Peripheral.dxHeader (fp : FdlParams) (p : Peripheral) : Header :=
  { da := p.address, sa := fp.address, dsap := SAP_DATA_EXCHANGE, ssap := SAP_DATA_EXCHANGE,
    fc := .request p.fcb .srdHigh }

/-- The closure writing the Set_Prm PDU into the zero-filled buffer of `7 + user_parameters.len()`
bytes. -/
def setPrmPdu (fp : FdlParams) (o : Options) (up : Bytes) : Bytes :=
  let b0 : UInt8 := (0 : UInt8) ||| 0x80
  let b0 := if o.sync then b0 ||| 0x20 else b0
  let b0 := if o.freeze then b0 ||| 0x10 else b0
  let b0 := if fp.watchdog.isSome then b0 ||| 0x08 else b0
  let f1 : UInt8 := match fp.watchdog with | some (f1, _) => f1 | none => 0
  let f2 : UInt8 := match fp.watchdog with | some (_, f2) => f2 | none => 0
  [b0, f1, f2, fp.minTsdr, UInt8.ofNat (o.ident / 256), UInt8.ofNat (o.ident % 256), o.groups] ++ up

/-- Data-exchange PDU: `pi_q` in Operate, the zero-filled buffer otherwise (Clear). -/
def dxPdu (op : OpState) (piQ : Bytes) : Bytes :=
  if op = .operate then piQ else List.replicate piQ.length 0

/-- Result of `Peripheral::transmit_telegram`: `Ok(tx_res)` with the telegram written, or
`Err((tx, event))`. -/
inductive PTx
  | send (p : Peripheral) (h : Header) (pdu : Bytes)
  | decline (p : Peripheral) (ev : Option PEvent)
  | panic
  deriving DecidableEq, Repr

/-- `Ok(tx.send_data_telegram(h, pdu.len(), …))` followed by `self.retry_count += 1`. -/
def Peripheral.sent (p : Peripheral) (h : Header) (pdu : Bytes) : PTx :=
  match h.serialize pdu 256 with
  | .panic => .panic
  | .ok _ => if p.retry + 1 > 255 then .panic else .send { p with retry := p.retry + 1 } h pdu

/-- `Err((tx, ev))` followed by `self.retry_count = 0`. -/
def Peripheral.declined (p : Peripheral) (ev : Option PEvent) : PTx :=
  .decline { p with retry := 0 } ev

/-- Which service the next request in `PreDataExchange` / `DataExchange` uses (`diag_in_flight` after
the `if` of /repo c18fdc1): a new request (`retry_count == 0`) follows `diag_needed`, a
retransmission repeats the service that went unanswered. -/
def Peripheral.serviceIsDiag (p : Peripheral) : Bool :=
  if p.retry = 0 then p.diagNeeded else p.diagInFlight

/-- `Peripheral::transmit_telegram`. -/
def Peripheral.transmit (fp : FdlParams) (op : OpState) (p : Peripheral) : PTx :=
  if op = .stop then .panic else
  if p.retry > fp.maxRetry then
    -- declared offline; `self.fcb.reset()` (F6)
    Peripheral.declined { p with state := .offline, fcb := .first } (some .offline)
  else
    match p.state with
    | .offline =>
      if p.retry = 0 then p.sent (p.diagHeader fp) [] else p.declined none
    | .waitForParam =>
      match p.opts.userPrm with
      | some up => p.sent (p.setPrmHeader fp) (setPrmPdu fp p.opts up)
      | none => p.declined none
    | .waitForConfig =>
      match p.opts.config with
      | some cfg => p.sent (p.chkCfgHeader fp) cfg
      | none => p.declined none
    | .validateConfig => p.sent (p.diagHeader fp) []
    | .preDataExchange | .dataExchange =>
      -- `if self.retry_count == 0 { self.diag_in_flight = self.diag_needed; }` (F10, c18fdc1)
      let p1 := { p with diagInFlight := p.serviceIsDiag }
      if p.serviceIsDiag then p1.sent (p1.diagHeader fp) []
      else p1.sent (p1.dxHeader fp) (dxPdu op p.piQ)

/-- Result of `handle_diagnostics_response`: `None`, or `Some(&diag)` (its flags) with the updated
peripheral (`diag`, `ext_diag`, cycled `fcb`). -/
inductive HDiag
  | rejected
  | accepted (p : Peripheral) (flags : UInt16)
  | panic
  deriving DecidableEq, Repr

/-- Flags of the stored `DiagnosticsInfo` (`Diag.handle` always stores one when it accepts —
lemma `handle_accepted_info`; the `none` arm is never taken). -/
def diagFlags (d : Diag.PState) : UInt16 :=
  match d.info with
  | some i => i.flags
  | none => 0

def Peripheral.handleDiag (p : Peripheral) (t : Telegram) : HDiag :=
  match Diag.handle p.diag t with
  | .rejected => .rejected
  | .panic => .panic
  | .accepted d =>
    -- `self.fcb.cycle();`
    match p.fcb.cycle with
    | none => .panic
    | some f => .accepted { p with diag := d, fcb := f } (diagFlags d)

/-- Result of `Peripheral::receive_reply`. -/
inductive PRx
  | ok (p : Peripheral) (ev : Option PEvent)
  | panic
  deriving DecidableEq, Repr

/-- Tail of the data-exchange branch: `self.retry_count = 0; self.fcb.cycle(); event`. -/
def Peripheral.dxDone (p : Peripheral) (ev : Option PEvent) : PRx :=
  match p.fcb.cycle with
  | none => .panic
  | some f => .ok { p with retry := 0, fcb := f } ev

/-- `Peripheral::receive_reply`. -/
def Peripheral.receiveReply (p : Peripheral) (t : Telegram) : PRx :=
  match p.state with
  | .offline =>
    match p.handleDiag t with
    | .panic => .panic
    | .accepted p' _ => .ok { p' with retry := 0, state := .waitForParam } (some .online)
    | .rejected => .ok p none
  | .waitForParam =>
    match t with
    | .sc =>
      match p.fcb.cycle with
      | none => .panic
      | some f => .ok { p with fcb := f, state := .waitForConfig, retry := 0 } none
    | _ => .ok p none
  | .waitForConfig =>
    match t with
    | .sc =>
      match p.fcb.cycle with
      | none => .panic
      | some f => .ok { p with fcb := f, state := .validateConfig, retry := 0 } none
    | _ => .ok p none
  | .validateConfig =>
    let p0 := { p with retry := 0 }
    match p0.handleDiag t with
    | .panic => .panic
    | .rejected => .ok p0 none
    | .accepted p' flags =>
      if flags &&& PARAMETER_FAULT ≠ 0 then .ok { p' with state := .offline } (some .parameterError)
      else if flags &&& CONFIGURATION_FAULT ≠ 0 then .ok { p' with state := .offline } (some .configError)
      else if flags &&& PARAMETER_REQUIRED ≠ 0 then .ok { p' with state := .waitForParam } none
      else if flags &&& STATION_NOT_READY = 0 then .ok { p' with state := .preDataExchange } (some .configured)
      else .ok p' none
  | .preDataExchange | .dataExchange =>
    if p.diagInFlight then
      match p.handleDiag t with
      | .panic => .panic
      | .accepted p' _ => .ok { p' with retry := 0, diagNeeded := false } (some .diagnostics)
      | .rejected => .ok p none
    else
      match t with
      | .token _ _ => .panic
      | .sc =>
        if p.piI.length ≠ 0 then p.dxDone none
        else Peripheral.dxDone { p with state := .dataExchange } (some .dataExchanged)
      | .data h pdu =>
        match h.fc with
        | .request _ _ => .panic
        | .response _ status =>
          let p1 : Peripheral :=
            match status with
            | .sapNotEnabled => { p with state := .validateConfig }
            | .dataHigh => { p with diagNeeded := true }
            | _ => p
          let dataOk : Bool :=
            match status with
            | .ok | .dataLow | .dataHigh => true
            | _ => false
          if dataOk && (h.dsap != SAP_DATA_EXCHANGE || h.ssap != SAP_DATA_EXCHANGE) then p1.dxDone none
          else if dataOk then
            if pdu.length = p.piI.length then
              Peripheral.dxDone { p1 with piI := pdu, state := .dataExchange } (some .dataExchanged)
            else p1.dxDone none
          else p1.dxDone none

end PV.Dp
