/-
Joint model with SEVERAL peripherals (property C07): the `DpMaster` of `Model/Dp/Master` with its
peripherals in slots `0 … n-1` and one reference slave (`Model/Dp/Slave`) per peripheral on the same bus.
Every slave hears every telegram; a slave reacts only to telegrams addressed to it, so with distinct
station addresses at most one of them answers (collisions are not modelled: the first non-silent reply
counts).  One step = one `transmit_telegram` call and what the bus makes of it (cf. `Joint.turn`).

Import-free apart from other `Model/` files.
-/
import ProfiVerif.Model.Dp.Live

namespace PV.Live
open PV PV.Dp

structure JointN where
  fp : FdlParams
  m : Master
  /-- slave `i` is the station the peripheral in slot `i` talks to -/
  ss : List Slave
  deriving DecidableEq, Repr, Inhabited

/-- A telegram on the bus: every slave hears it. -/
def busReceive : List Slave → Header → Bytes → List Slave × SReply
  | [], _, _ => ([], .silent)
  | s :: rest, h, pdu =>
    let r := s.receive h pdu
    let r2 := busReceive rest h pdu
    (r.1 :: r2.1, match r.2 with | .silent => r2.2 | x => x)

inductive TurnResN
  | ok (j : JointN) (o : TurnObs)
  | panic
  | hang
  deriving DecidableEq, Repr

/-- `request_diagnostics()` on the peripheral in slot `i` (`none`: no user call). -/
def midDiag (m : Master) : Option Nat → Master
  | some i => (m.requestDiagnostics i).getD m
  | none => m

/-- One `transmit_telegram(now, …, HighPrioOnly::No)` and the delivery according to `d`; `mid = some i`:
`request_diagnostics()` on the peripheral in slot `i` between the request and its reply. -/
def JointN.turn (j : JointN) (now : Int) (mid : Option Nat) (d : Delivery) : TurnResN :=
  match Master.transmit j.fp now false j.m with
  | .panic => .panic
  | .hang => .hang
  | .none m' => .ok { j with m := m' } {}
  | .send m' h pdu =>
    match h.serialize pdu with
    | .panic => .panic
    | .ok bytes =>
      let exp := expectsReplyOf h
      let m1 := midDiag m' mid
      match d with
      | .lossReq =>
        .ok { j with m := match exp with | some a => m1.handleTimeout a | none => m1 }
            { tx := some bytes, expect := exp }
      | _ =>
        let r := busReceive j.ss h pdu
        match exp with
        | none => .ok { j with m := m1, ss := r.1 } { tx := some bytes, expect := exp, seen := true, reply := r.2 }
        | some a =>
          match d.deliver r.2 with
          | none =>
            .ok { j with m := m1.handleTimeout a, ss := r.1 }
                { tx := some bytes, expect := exp, seen := true, reply := r.2 }
          | some t =>
            match m1.receiveReply a t with
            | .panic => .panic
            | .ok m2 =>
              .ok { j with m := m2, ss := r.1 }
                  { tx := some bytes, expect := exp, seen := true, reply := r.2, delivered := some t }

/-- Fault-free turns at the given times. -/
def JointN.quietTurns (J : JointN) : List Int → Option (JointN × List TurnObs)
  | [] => some (J, [])
  | now :: rest =>
    match J.turn now none .ok with
    | .ok J' o =>
      match J'.quietTurns rest with
      | some (J'', os) => some (J'', o :: os)
      | none => none
    | _ => none

end PV.Live
