/-
Abstract ring (DESIGN 5.5): N active stations exchanging the token, *untimed* and at message level.

NOT a model of code that exists as such.  It is an idealisation of how N `FdlActiveStation`s interact
on a fault-free bus: every transmitted telegram is one atomic step that all online stations see, and
there are no clocks (so "slot expired" / "bus silent" appear only as step guards).  It is *not* tied
to the implementation by a correspondence run — the tie of the N-station behaviour to the code is
the `net` engine (differential simulation of N real stations against N Lean `Station` models).

What IS shared with the code-level models: every station's ring view is a real `TokenRing`
(`Model/TokenRing.lean`) and is only ever changed through the modelled API functions
`TokenRing.witness` / `setNextStation` / `removeStation` / `claimToken` / `new`, and the GAP cursor
advances through the real `nextGapPoll` (`Model/Gap.lean`), at the places where `active.rs` calls them:

* `do_pass_token`: send token to NS, `witness_token_pass(TS, NS)` on the own view; stay holder if NS = TS.
* `handle_telegram` (ActiveIdle): a token telegram for somebody else is witnessed; a token telegram
  for this station from PS is accepted *without* witnessing; from another station it is remembered
  (`new_previous_station`) and accepted — with witnessing — when repeated.
* `do_listen_token`: every token telegram is witnessed; a status request is answered "ready" iff
  `ready_for_ring()` and the requester is PS; a ready listener enters ActiveIdle after any reply.
* `do_pass_token` GAP part + `await_gap_poll_response`: `gap_state = next_gap_poll(current)`, and a
  reply MasterWithoutToken / MasterInRing makes the polled address the successor (`set_next_station`).
* `do_check_token_pass`, third failed attempt: `remove_station(NS)`.
* `do_claim_token`: `claim_token()`, GAP scan restarts behind TS.
Import-free apart from the two models.
-/
import ProfiVerif.Model.TokenRing
import ProfiVerif.Model.Gap

namespace PV
namespace AbstractRing

/-- Station state, coarsely: `ListenToken`, `ActiveIdle`, or any of the token-holding states
(`UseToken`, `PassToken`, `AwaitStatusResponse`, `CheckTokenPass` before the successor took over, `ClaimToken`). -/
inductive Mode
  | listen | idle | hold
  deriving DecidableEq, Repr

structure Node where
  mode : Mode
  ring : TokenRing
  /-- `some c` = `GapState::DoPoll { current_address: c }`, `none` = `GapState::Waiting`. -/
  gap : Option Nat
  /-- `ActiveIdle.new_previous_station`. -/
  pend : Option Nat

/-- The population: the online active stations by address (`none` = no such station / offline). -/
structure Net where
  hsa : Nat
  node : Nat → Option Node

/-- Does station `x` take the token that `h` sends to `n`?  Only an ActiveIdle station, only its own
address, only from its PS or from the station that already tried once. -/
def accepts (h n x : Nat) (nx : Node) : Bool :=
  decide (x = n) && decide (x ≠ h) && decide (nx.mode = .idle) &&
    (decide (nx.ring.ps = h) || decide (nx.pend = some h))

def accepted (s : Net) (h n : Nat) : Bool :=
  match s.node n with
  | some nn => accepts h n n nn
  | none => false

/-- Effect of the token telegram `h → n` on station `x` (`acc` = the addressee took it). -/
def passNode (h n : Nat) (acc : Bool) (x : Nat) (nx : Node) : Node :=
  if x = h then
    -- the sender witnesses its own pass; it is relieved once the successor is active
    { nx with ring := nx.ring.witness h n, mode := if acc then .idle else nx.mode }
  else if x = n then
    match nx.mode with
    | .idle =>
      if nx.ring.ps = h then { nx with mode := .hold, pend := none }
      else if nx.pend = some h then { nx with mode := .hold, ring := nx.ring.witness h n, pend := none }
      else { nx with pend := some h }
    | .listen => { nx with ring := nx.ring.witness h n }
    | .hold => nx
  else { nx with ring := nx.ring.witness h n }

/-- The telegram `h → n` on the bus. -/
def passTo (s : Net) (h n : Nat) : Net :=
  { s with node := fun x => (s.node x).map (passNode h n (accepted s h n) x) }

/-- NS of station `h` (its own address if there is no such station). -/
def nsOf (s : Net) (h : Nat) : Nat :=
  match s.node h with
  | some nh => nh.ring.ns
  | none => h

/-- Step: the holder `h` passes the token to its NS (a retry is the same step again). -/
def pass (s : Net) (h : Nat) : Net :=
  match s.node h with
  | some nh => if nh.mode = .hold then passTo s h nh.ring.ns else s
  | none => s

/-- Would `a` answer a status request from `h` with a state that makes `h` adopt it as NS? -/
def responds (s : Net) (h a : Nat) : Bool :=
  match s.node a with
  | some na =>
    match na.mode with
    | .idle => true                                                    -- MasterInRing
    | .listen => na.ring.readyForRing && decide (na.ring.ps = h)       -- MasterWithoutToken
    | .hold => false
  | none => false

def gapPollNode (h a : Nat) (resp : Bool) (x : Nat) (nx : Node) : Node :=
  if x = h then
    { nx with gap := some a,
              ring := if resp then (match nx.ring.setNextStation a with | some r => r | none => nx.ring)
                      else nx.ring }
  else if x = a ∧ nx.mode = .listen ∧ nx.ring.readyForRing = true then
    { nx with mode := .idle, pend := none }
  else nx

/-- Step: the holder `h` advances its GAP cursor with the real `next_gap_poll` and polls that address. -/
def gapPoll (s : Net) (h : Nat) : Net :=
  match s.node h with
  | some nh =>
    if nh.mode = .hold then
      match nextGapPoll h nh.ring.ns s.hsa (nh.gap.getD h) with
      | .poll a => { s with node := fun x => (s.node x).map (gapPollNode h a (responds s h a) x) }
      | .waiting =>
        let nh' : Node := { nh with gap := none }
        { s with node := fun x => if x = h then some nh' else s.node x }
      | .panic => s
    else s
  | none => s

/-- Step: the holder gives up on a successor that does not take the token (third failed attempt). -/
def dropNs (s : Net) (h : Nat) : Net :=
  match s.node h with
  | some nh =>
    if nh.mode = .hold then
      let r' : TokenRing := match nh.ring.removeStation nh.ring.ns with
        | some r => r
        | none => nh.ring
      let nh' : Node := { nh with ring := r' }
      { s with node := fun x => if x = h then some nh' else s.node x }
    else s
  | none => s

/-- Step: a station that does not hold the token goes offline. -/
def leave (s : Net) (a : Nat) : Net := { s with node := fun x => if x = a then none else s.node x }

/-- Step: a station comes online and starts listening. -/
def join (s : Net) (a : Nat) : Net :=
  let na : Node := { mode := .listen, ring := TokenRing.new a, gap := none, pend := none }
  { s with node := fun x => if x = a then some na else s.node x }

/-- Step: a station claims the token (guarded below by "nobody holds one": the silence time-out). -/
def claim (s : Net) (a : Nat) : Net :=
  match s.node a with
  | some na =>
    let na' : Node := { na with mode := .hold, ring := na.ring.claimToken, gap := some a }
    { s with node := fun x => if x = a then some na' else s.node x }
  | none => s

/-- One step of the abstract ring. -/
inductive Step : Net → Net → Prop
  | pass (s : Net) (h : Nat) (nh : Node) : s.node h = some nh → nh.mode = .hold → Step s (pass s h)
  | gapPoll (s : Net) (h : Nat) (nh : Node) : s.node h = some nh → nh.mode = .hold → Step s (gapPoll s h)
  | dropNs (s : Net) (h : Nat) (nh : Node) : s.node h = some nh → nh.mode = .hold → nh.ring.ns ≠ h →
      (∀ nn, s.node nh.ring.ns = some nn → nn.mode = .listen) → Step s (dropNs s h)
  | leave (s : Net) (a : Nat) (na : Node) : s.node a = some na → na.mode ≠ .hold → Step s (leave s a)
  | join (s : Net) (a : Nat) : s.node a = none → Step s (join s a)
  | claim (s : Net) (a : Nat) (na : Node) : s.node a = some na →
      (∀ x nx, s.node x = some nx → nx.mode ≠ .hold) → Step s (claim s a)

inductive Reach (s0 : Net) : Net → Prop
  | refl : Reach s0 s0
  | step (s s' : Net) : Reach s0 s → Step s s' → Reach s0 s'

/-- `k` consecutive token passes, the token following the NS pointers from `h`: resulting state,
final addressee and the token telegrams `(SA, DA)` seen on the bus. -/
def rotate (s : Net) (h : Nat) : Nat → Net × Nat × List (Nat × Nat)
  | 0 => (s, h, [])
  | k + 1 =>
    let r := rotate (pass s h) (nsOf s h) k
    (r.1, r.2.1, (h, nsOf s h) :: r.2.2)

end AbstractRing
end PV
