/-
Model of the user-parameter packing of `gsd-parser/src/lib.rs`:
`UserPrmDataType::{size, write_value_to_slice}`, `PrmValueConstraint::assert_valid`,
`UserPrmDataDefinition::{get_value_from_text, write_constrained_value_to_slice}`,
`UserPrmData::get_prm`, `PrmBuilder::{new, set_prm, set_prm_from_text, as_bytes}`.

Import-free on purpose (linked into the compiled driver).  Values are `Int` (the harness only
feeds `i64` values; every theorem holds for all integers), offsets are `Nat` with the `usize`
overflow of `offset + size` as an explicit panic.  Every Rust index / slice is an explicit
`.panic` outcome, in the evaluation order of the Rust expression (e.g. `s[..2]` is evaluated
before the `?` of `u16::try_from(value)?`).

The model describes the code *as it is*, including the open finding K2: a `BitArea(first,last)`
write stores `value << first` into the byte, clearing every other bit of it.
-/
import ProfiVerif.Model.Telegram

namespace PV.Prm
open PV

/-- `usize::MAX + 1` on the 64-bit targets the harness runs on. -/
def usizeLimit : Nat := 2 ^ 64

/-! ## `UserPrmDataType` -/

inductive DataType
  | u8 | u16 | u32 | s8 | s16 | s32
  | bit (b : Nat)
  | bitArea (first last : Nat)
  deriving DecidableEq, Repr, Inhabited

/-- `UserPrmDataType::size`. -/
def DataType.size : DataType → Nat
  | .u8 => 1 | .u16 => 2 | .u32 => 4
  | .s8 => 1 | .s16 => 2 | .s32 => 4
  | .bit _ => 1 | .bitArea _ _ => 1

/-- `Result<(), PrmValueRangeError>` of a write into a slice, plus the panic outcome;
`ok s` carries the slice contents after the write. -/
inductive WriteOutcome
  | ok (s : Bytes)
  | rangeErr
  | panic
  deriving DecidableEq, Repr

/-- `uN::try_from(value)` : the value as a natural number, or `none` (= `TryFromIntError`). -/
def tryFromU (bits : Nat) (v : Int) : Option Nat :=
  if 0 ≤ v ∧ v < 2 ^ bits then some v.toNat else none

/-- `iN::try_from(value)`, returned as the bit pattern of the `iN` (what `to_be_bytes` serialises):
non-negative values as they are, negative ones reinterpreted as `value + 2^N`. -/
def tryFromS (bits : Nat) (v : Int) : Option Nat :=
  if -(2 ^ (bits - 1)) ≤ v ∧ v < 2 ^ (bits - 1) then
    some (if v < 0 then (v + 2 ^ bits).toNat else v.toNat)
  else none

/-- `to_be_bytes` of an 8/16/32-bit pattern. -/
def be1 (u : Nat) : Bytes := [UInt8.ofNat u]
def be2 (u : Nat) : Bytes := [UInt8.ofNat (u / 256), UInt8.ofNat u]
def be4 (u : Nat) : Bytes :=
  [UInt8.ofNat (u / 16777216), UInt8.ofNat (u / 65536), UInt8.ofNat (u / 256), UInt8.ofNat u]

/-- `s[..n].copy_from_slice(&X::try_from(value)?.to_be_bytes())`.
The receiver `s[..n]` is evaluated first (panics when the slice is too short), then the `?`. -/
def copyPrefix (s : Bytes) (n : Nat) (src : Option Bytes) : WriteOutcome :=
  if s.length < n then .panic else
  match src with
  | none => .rangeErr
  | some bs => .ok (bs ++ s.drop n)

/-- `UserPrmDataType::write_value_to_slice(self, value, s)`. -/
def writeValue (t : DataType) (v : Int) (s : Bytes) : WriteOutcome :=
  match t with
  | .u8 => copyPrefix s 1 ((tryFromU 8 v).map be1)
  | .u16 => copyPrefix s 2 ((tryFromU 16 v).map be2)
  | .u32 => copyPrefix s 4 ((tryFromU 32 v).map be4)
  | .s8 => copyPrefix s 1 ((tryFromS 8 v).map be1)
  | .s16 => copyPrefix s 2 ((tryFromS 16 v).map be2)
  | .s32 => copyPrefix s 4 ((tryFromS 32 v).map be4)
  | .bit b =>
    if (v ≠ 0 ∧ v ≠ 1) ∨ b > 7 then .rangeErr else
    -- `s[0]`
    if s.length = 0 then .panic else
    let old := s.getD 0 0
    .ok (((old &&& ~~~((1 : UInt8) <<< UInt8.ofNat b)) ||| (UInt8.ofNat v.toNat <<< UInt8.ofNat b)) :: s.drop 1)
  | .bitArea first last =>
    if last < first ∨ last > 7 then .rangeErr else
    -- `last - first + 1` (no underflow: `first ≤ last`), `2i64.pow(bit_size)` (`bit_size ≤ 8`)
    let bitSize := last - first + 1
    if v < 0 ∨ v ≥ 2 ^ bitSize then .rangeErr else
    -- `s[0] = u8::try_from(value)? << first`  (value < 256: the `?` never fires; `first ≤ 7`: the
    -- shift never overflows).  K2: the other bits of `s[0]` are overwritten with 0.
    if s.length = 0 then .panic else
    .ok ((UInt8.ofNat v.toNat <<< UInt8.ofNat first) :: s.drop 1)

/-! ## Constraints, definitions, layouts -/

inductive Constraint
  | minMax (min max : Int)
  | enum (values : List Int)
  | unconstrained
  deriving DecidableEq, Repr, Inhabited

/-- `PrmValueConstraint::assert_valid(value).is_ok()`. -/
def Constraint.valid : Constraint → Int → Bool
  | .minMax min max, v => !(decide (min > v) || decide (v > max))
  | .enum values, v => values.contains v
  | .unconstrained, _ => true

/-- `UserPrmDataDefinition` (`changeable` / `visible` are not consulted by the builder). -/
structure PrmDef where
  name : String
  dataType : DataType
  default : Int
  constraint : Constraint
  /-- `text_ref: Option<Arc<BTreeMap<String, i64>>>` as an association list with distinct keys. -/
  texts : Option (List (String × Int))
  deriving DecidableEq, Repr, Inhabited

/-- `UserPrmData`.  `length` is carried along but never read by `PrmBuilder`. -/
structure Layout where
  length : Nat
  consts : List (Nat × Bytes)
  refs : List (Nat × PrmDef)
  deriving DecidableEq, Repr, Inhabited

/-- `UserPrmData::get_prm`: the first reference with that name. -/
def Layout.getPrm (L : Layout) (name : String) : Option (Nat × PrmDef) :=
  L.refs.find? (fun r => r.2.name == name)

inductive SetErr
  | prmNotFound | prmWithoutTexts | prmTextNotFound | valueConstraint | valueRange
  deriving DecidableEq, Repr

def SetErr.kind : SetErr → String
  | .prmNotFound => "notfound" | .prmWithoutTexts => "notexts" | .prmTextNotFound => "textnotfound"
  | .valueConstraint => "constraint" | .valueRange => "range"

/-- `get_value_from_text`. -/
def PrmDef.valueFromText (d : PrmDef) (text : String) : Except SetErr Int :=
  match d.texts with
  | none => .error .prmWithoutTexts
  | some m =>
    match m.lookup text with
    | none => .error .prmTextNotFound
    | some v => .ok v

/-! ## `PrmBuilder` -/

structure Builder where
  desc : Layout
  prm : Bytes
  deriving DecidableEq, Repr, Inhabited

/-- `PrmBuilder::as_bytes`. -/
def Builder.asBytes (b : Builder) : Bytes := b.prm

/-- `update_prm_data_len`; `none` = the `usize` overflow panic of `offset + size`. -/
def updateLen (prm : Bytes) (offset size : Nat) : Option Bytes :=
  if offset + size ≥ usizeLimit then none
  else some (prm ++ List.replicate (offset + size - prm.length) 0)

/-- `write_const_prm_data`; `none` = panic. -/
def writeConsts : List (Nat × Bytes) → Bytes → Option Bytes
  | [], prm => some prm
  | (offset, data) :: rest, prm =>
    match updateLen prm offset data.length with
    | none => none
    | some prm1 =>
      -- `self.prm[*offset..(offset + data_const.len())]`
      if prm1.length < offset + data.length then none else
      writeConsts rest (prm1.take offset ++ data ++ prm1.drop (offset + data.length))

inductive NewOutcome
  | ok (b : Bytes)
  | rangeErr
  | panic
  deriving DecidableEq, Repr

/-- `write_default_prm_data`. -/
def writeDefaults : List (Nat × PrmDef) → Bytes → NewOutcome
  | [], prm => .ok prm
  | (offset, d) :: rest, prm =>
    match updateLen prm offset d.dataType.size with
    | none => .panic
    | some prm1 =>
      -- `&mut self.prm[(*offset)..]`
      if offset > prm1.length then .panic else
      match writeValue d.dataType d.default (prm1.drop offset) with
      | .panic => .panic
      | .rangeErr => .rangeErr
      | .ok s => writeDefaults rest (prm1.take offset ++ s)

inductive BuildOutcome
  | ok (b : Builder)
  | rangeErr
  | panic
  deriving DecidableEq, Repr

/-- `PrmBuilder::new`. -/
def Builder.new (L : Layout) : BuildOutcome :=
  match writeConsts L.consts [] with
  | none => .panic
  | some prm =>
    match writeDefaults L.refs prm with
    | .panic => .panic
    | .rangeErr => .rangeErr
    | .ok prm => .ok { desc := L, prm := prm }

inductive SetOutcome
  | ok (b : Builder)
  | err (e : SetErr)
  | panic
  deriving DecidableEq, Repr

/-- `data_ref.write_constrained_value_to_slice(&mut self.prm[offset..], value)`. -/
def writeConstrained (b : Builder) (offset : Nat) (d : PrmDef) (v : Int) : SetOutcome :=
  -- `&mut self.prm[offset..]` (argument, evaluated before the call)
  if offset > b.prm.length then .panic else
  if !d.constraint.valid v then .err .valueConstraint else
  match writeValue d.dataType v (b.prm.drop offset) with
  | .panic => .panic
  | .rangeErr => .err .valueRange
  | .ok s => .ok { b with prm := b.prm.take offset ++ s }

/-- `PrmBuilder::set_prm`. -/
def Builder.setPrm (b : Builder) (name : String) (v : Int) : SetOutcome :=
  match b.desc.getPrm name with
  | none => .err .prmNotFound
  | some (offset, d) => writeConstrained b offset d v

/-- `PrmBuilder::set_prm_from_text`. -/
def Builder.setPrmFromText (b : Builder) (name text : String) : SetOutcome :=
  match b.desc.getPrm name with
  | none => .err .prmNotFound
  | some (offset, d) =>
    match d.valueFromText text with
    | .error e => .err e
    | .ok v => writeConstrained b offset d v

/-! ## Call sequences -/

inductive Call
  | set (name : String) (v : Int)
  | setText (name text : String)
  deriving DecidableEq, Repr

def Builder.call (b : Builder) : Call → SetOutcome
  | .set name v => b.setPrm name v
  | .setText name text => b.setPrmFromText name text

/-- The builder after a call: `Err` leaves `self` as it is; `none` = panic. -/
def Builder.after (b : Builder) (c : Call) : Option Builder :=
  match b.call c with
  | .ok b' => some b'
  | .err _ => some b
  | .panic => none

/-- Run a list of calls; `none` as soon as one panics. -/
def Builder.run (b : Builder) : List Call → Option Builder
  | [] => some b
  | c :: cs =>
    match b.after c with
    | none => none
    | some b' => b'.run cs

end PV.Prm
