/-
`astOf`: the typed AST a canonical GSD pretty-printer writes for a station description — the
right-hand side of `interp_faithful`.  Import-free (not linked into the driver's hot path, but kept
executable so that the statement can be tested).

Every parameter definition referenced by the description gets its own `ExtUserPrmData` block (and
its own `PrmText` block if it has texts), numbered by its position in `allDefs`; the blocks precede
everything that refers to them.
-/
import ProfiVerif.Model.Gsd.Interp

namespace PV.Gsd

/-! ### Number and string tokens -/

def digitChar (d : Nat) : Char := Char.ofNat (48 + d)

/-- Decimal digits, most significant first, no leading zeros. -/
def natText (n : Nat) : Str :=
  if n < 10 then [digitChar n] else natText (n / 10) ++ [digitChar (n % 10)]
termination_by n
decreasing_by omega

def hexChar (d : Nat) : Char := if d < 10 then Char.ofNat (48 + d) else Char.ofNat (87 + d)

def hexDigits (n : Nat) : Str :=
  if n < 16 then [hexChar n] else hexDigits (n / 16) ++ [hexChar (n % 16)]
termination_by n
decreasing_by omega

/-- `0x…` -/
def hexText (n : Nat) : Str := '0' :: 'x' :: hexDigits n

def intText (z : Int) : Str := if z < 0 then '-' :: natText z.natAbs else natText z.toNat

def decTok (n : Nat) : NumTok := .dec (natText n)
def intTok (z : Int) : NumTok := .dec (intText z)
def boolTok (b : Bool) : NumTok := decTok (if b then 1 else 0)

/-- String literal as it stands in the file. -/
def quote (s : Str) : Str := '"' :: (s ++ ['"'])

/-! ### Statements -/

def setNum (key : String) (n : Nat) : Stmt :=
  .setting { key := key.toList, index := none, value := .num (decTok n) }
def setStr (key : String) (s : Str) : Stmt :=
  .setting { key := key.toList, index := none, value := .str (quote s) }
def setBool (key : String) (b : Bool) : Stmt :=
  .setting { key := key.toList, index := none, value := .num (boolTok b) }

/-- Identification data, sizes, feature flags, speeds and response times. -/
def scalarStmts (d : Desc) : Ast :=
  [ setNum "GSD_Revision" d.gsdRevision,
    setStr "Vendor_Name" d.vendor,
    setStr "Model_Name" d.model,
    setStr "Revision" d.revision,
    setNum "Revision_Number" d.revisionNumber,
    setNum "Ident_Number" d.identNumber,
    setStr "Hardware_Release" d.hardwareRelease,
    setStr "Software_Release" d.softwareRelease,
    setStr "Implementation_Type" d.implementationType,
    setBool "Freeze_Mode_supp" d.freezeModeSupported,
    setBool "Sync_Mode_supp" d.syncModeSupported,
    setBool "Auto_Baud_supp" d.autoBaudSupported,
    setBool "Set_Slave_Add_supp" d.setSlaveAddrSupported,
    setBool "Fail_Safe" d.failSafe,
    setNum "Max_Diag_Data_Len" d.maxDiagDataLength,
    setBool "Modular_Station" d.modularStation,
    setNum "Max_Module" d.maxModules,
    setNum "Max_Input_Len" d.maxInputLength,
    setNum "Max_Output_Len" d.maxOutputLength,
    setNum "Max_Data_Len" d.maxDataLength,
    setBool "9.6_supp" d.speeds.b9600,
    setBool "19.2_supp" d.speeds.b19200,
    setBool "31.25_supp" d.speeds.b31250,
    setBool "45.45_supp" d.speeds.b45450,
    setBool "93.75_supp" d.speeds.b93750,
    setBool "187.5_supp" d.speeds.b187500,
    setBool "500_supp" d.speeds.b500000,
    setBool "1.5M_supp" d.speeds.b1500000,
    setBool "3M_supp" d.speeds.b3000000,
    setBool "6M_supp" d.speeds.b6000000,
    setBool "12M_supp" d.speeds.b12000000,
    setNum "MaxTsdr_9.6" d.maxTsdr.b9600,
    setNum "MaxTsdr_19.2" d.maxTsdr.b19200,
    setNum "MaxTsdr_31.25" d.maxTsdr.b31250,
    setNum "MaxTsdr_45.45" d.maxTsdr.b45450,
    setNum "MaxTsdr_93.75" d.maxTsdr.b93750,
    setNum "MaxTsdr_187.5" d.maxTsdr.b187500,
    setNum "MaxTsdr_500" d.maxTsdr.b500000,
    setNum "MaxTsdr_1.5M" d.maxTsdr.b1500000,
    setNum "MaxTsdr_3M" d.maxTsdr.b3000000,
    setNum "MaxTsdr_6M" d.maxTsdr.b6000000,
    setNum "MaxTsdr_12M" d.maxTsdr.b12000000 ]

/-- `Text(n)="…"` / `Value(n)="…"` lines. -/
def textLines (m : TextMap) : List (NumTok × Str) := m.map fun kv => (intTok kv.2, quote kv.1)
def areaLines (vs : List (Nat × Str)) : List (NumTok × Str) := vs.map fun kv => (decTok kv.1, quote kv.2)

def typeNameOf : DataType → TypeName
  | .u8 => .ident "Unsigned8".toList
  | .u16 => .ident "Unsigned16".toList
  | .u32 => .ident "Unsigned32".toList
  | .i8 => .ident "Signed8".toList
  | .i16 => .ident "Signed16".toList
  | .i32 => .ident "Signed32".toList
  | .bit n => .bit (decTok n)
  | .bitArea f l => .bitArea (decTok f) (decTok l)

def constraintOf : Constraint → Option PrmConstraintAst
  | .unconstrained => none
  | .minMax a b => some (.range (intTok a) (intTok b))
  | .enum vs => some (.set (vs.map intTok))

/-- `PrmText=<id>` block (if the definition has texts) followed by the `ExtUserPrmData=<id>` block. -/
def defStmts (id : Nat) (f : PrmDef) : Ast :=
  (match f.textRef with
   | some m => [Stmt.prmText { id := decTok id, values := textLines m }]
   | none => []) ++
  [Stmt.extPrm {
    id := decTok id, name := quote f.name, typ := typeNameOf f.dataType, default := intTok f.defaultValue,
    constraint := constraintOf f.constraint,
    textRef := f.textRef.map fun _ => decTok id,
    changeable := some (boolTok f.changeable), visible := some (boolTok f.visible) }]

def defsFrom : Nat → List PrmDef → Ast
  | _, [] => []
  | id, f :: rest => defStmts id f ++ defsFrom (id + 1) rest

/-- Every definition the description refers to: station-wide references first, then module by module. -/
def moduleDefs (ms : List Module) : List PrmDef := ms.flatMap fun m => m.prm.dataRef.map (·.2)
def allDefs (d : Desc) : List PrmDef := d.userPrmData.dataRef.map (·.2) ++ moduleDefs d.availableModules

def constSettings (cs : List (Nat × List Nat)) : List Setting :=
  cs.map fun c => { key := "Ext_User_Prm_Data_Const".toList, index := some (decTok c.1), value := .list (c.2.map decTok) }

/-- `Ext_User_Prm_Data_Ref(offset)=id` for consecutive ids starting at `id`. -/
def refSettings : Nat → List (Nat × PrmDef) → List Setting
  | _, [] => []
  | id, r :: rest =>
    { key := "Ext_User_Prm_Data_Ref".toList, index := some (decTok r.1), value := .num (decTok id) } ::
      refSettings (id + 1) rest

/-- Does the station-wide parameter block have the legacy (`User_Prm_Data`) shape? -/
def isLegacy (p : UserPrmData) : Bool := p.dataRef.isEmpty && p.dataConst.all fun c => c.1 == 0

def userPrmStmts (p : UserPrmData) : Ast :=
  if isLegacy p then
    setNum "User_Prm_Data_Len" p.length ::
      p.dataConst.map fun c => Stmt.setting
        { key := "User_Prm_Data".toList, index := none, value := .list (c.2.map decTok) }
  else
    -- "The presence of this keyword means `User_Prm_Data` and `User_Prm_Data_Len` should be ignored."
    setNum "Max_User_Prm_Data_Len" 237 ::
      (constSettings p.dataConst ++ refSettings 0 p.dataRef).map Stmt.setting

def moduleStmt (firstId : Nat) (m : Module) : Stmt :=
  .module {
    name := quote m.name
    config := m.config.map decTok
    items :=
      (match m.reference with | some r => [ModItem.reference (decTok r)] | none => []) ++
      (match m.infoText with
       | some t => [ModItem.setting { key := "Info_Text".toList, index := none, value := .str (quote t) }]
       | none => []) ++
      [ModItem.setting { key := "Ext_Module_Prm_Data_Len".toList, index := none, value := .num (decTok m.prm.length) }] ++
      (constSettings m.prm.dataConst ++ refSettings firstId m.prm.dataRef).map ModItem.setting }

def moduleStmtsFrom : Nat → List Module → Ast
  | _, [] => []
  | id, m :: rest => moduleStmt id m :: moduleStmtsFrom (id + m.prm.dataRef.length) rest

/-- Reference number of the module at index `i` (0 if there is none — outside the domain). -/
def refOf (mods : List Module) (i : Nat) : Nat :=
  match mods[i]? with
  | some m => m.reference.getD 0
  | none => 0

def slotStmt (mods : List Module) (s : Slot) : SlotStmt :=
  { number := decTok s.number, name := quote s.name, default := decTok (refOf mods s.default),
    allowed := .set (s.allowed.map fun i => decTok (refOf mods i)) }

def bitStmts (key helpKey : String) (bits : List (Nat × BitInfo)) : Ast :=
  bits.flatMap fun b =>
    Stmt.setting { key := key.toList, index := some (decTok b.1), value := .str (quote b.2.text) } ::
    (match b.2.help with
     | some h => [Stmt.setting { key := helpKey.toList, index := some (decTok b.1), value := .str (quote h) }]
     | none => [])

def areaStmt (a : Area) : Stmt :=
  .area { first := decTok a.first, last := decTok a.last, values := areaLines a.values }

/-- The canonical AST of a description. -/
def astOf (d : Desc) : Ast :=
  scalarStmts d ++
  defsFrom 0 (allDefs d) ++
  userPrmStmts d.userPrmData ++
  moduleStmtsFrom d.userPrmData.dataRef.length d.availableModules ++
  [Stmt.slots (d.slots.map (slotStmt d.availableModules))] ++
  bitStmts "Unit_Diag_Bit" "Unit_Diag_Bit_Help" d.diagBits ++
  bitStmts "Unit_Diag_Not_Bit" "Unit_Diag_Not_Bit_Help" d.diagNotBits ++
  d.diagAreas.map areaStmt

end PV.Gsd
