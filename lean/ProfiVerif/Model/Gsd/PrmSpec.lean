/-
C20 — the *specification* of bit-exact parameter packing (`prmSpec`) and the executable judgement
the oracle applies to the implementation's observations.

Stated independently of the model of the code (`Model/Gsd/Prm.lean`): no slices, no `try_from`,
no shifts — a field image is defined arithmetically (base-256 digits of the value under floor
division = big-endian two's complement; masks as `(2^(l+1-f) - 1) * 2^f`) and laid over the block
with `take ++ image ++ drop` / `List.set`.  Import-free: the driver links it.
`Props/C20.lean` proves the model equal to it (up to the open finding K2).
-/
import ProfiVerif.Model.Gsd.Prm

namespace PV.Prm
open PV

/-! ## What a data type can hold -/

/-- Exactly the values of the data type: the unsigned / signed (two's complement) range of its
width, one bit, or `last - first + 1` bits.  Bit positions outside `0..7` hold nothing. -/
def DataType.holds : DataType → Int → Bool
  | .u8, v => decide (0 ≤ v ∧ v ≤ 255)
  | .u16, v => decide (0 ≤ v ∧ v ≤ 65535)
  | .u32, v => decide (0 ≤ v ∧ v ≤ 4294967295)
  | .s8, v => decide (-128 ≤ v ∧ v ≤ 127)
  | .s16, v => decide (-32768 ≤ v ∧ v ≤ 32767)
  | .s32, v => decide (-2147483648 ≤ v ∧ v ≤ 2147483647)
  | .bit b, v => decide (b ≤ 7 ∧ (v = 0 ∨ v = 1))
  | .bitArea f l, v => decide (f ≤ l ∧ l ≤ 7 ∧ 0 ≤ v ∧ v < 2 ^ (l - f + 1))

def DataType.isBitArea : DataType → Bool
  | .bitArea _ _ => true
  | _ => false

/-- Declared range / enumeration. -/
def Constraint.holds : Constraint → Int → Bool
  | .minMax min max, v => decide (min ≤ v ∧ v ≤ max)
  | .enum values, v => decide (v ∈ values)
  | .unconstrained, _ => true

/-! ## Field images -/

/-- Bit `i` of a byte. -/
def bitOf (x : UInt8) (i : Nat) : Bool := x.toNat.testBit i

/-- Bit `k` of the (infinite) two's complement representation of an integer. -/
def intBit (v : Int) (k : Nat) : Bool :=
  match v with
  | .ofNat n => n.testBit k
  | .negSucc n => !n.testBit k

/-- Byte `j` (0 = first = most significant) of the `n`-byte big-endian two's complement image of
`v`: the base-256 digit of weight `256^(n-1-j)` under floor division (`Int` `/`, `%` are the
Euclidean ones, so negative values yield their two's complement digits). -/
def beByte (n j : Nat) (v : Int) : UInt8 := UInt8.ofNat ((v / 256 ^ (n - 1 - j)) % 256).toNat

def beImage (n : Nat) (v : Int) : Bytes := (List.range n).map (fun j => beByte n j v)

/-- The byte with exactly the bits `f..l` set. -/
def fieldMask (f l : Nat) : UInt8 := UInt8.ofNat ((2 ^ (l + 1 - f) - 1) * 2 ^ f)

/-- `v` placed at bit `f`. -/
def placed (f : Nat) (v : Int) : UInt8 := UInt8.ofNat (v.toNat * 2 ^ f)

/-- Masked bit-field write: bits `f..l` of the byte become `v`, every other bit keeps its value. -/
def maskedWrite (old : UInt8) (f l : Nat) (v : Int) : UInt8 :=
  (old &&& ~~~ fieldMask f l) ||| (placed f v &&& fieldMask f l)

/-- Lay `data` over the block at `off`. -/
def overlay (blk : Bytes) (off : Nat) (data : Bytes) : Bytes :=
  blk.take off ++ data ++ blk.drop (off + data.length)

/-- One field written into a block.  `clobber = false` is the specification;
`clobber = true` differs only for `BitArea`: the byte becomes the placed value and every other
bit of it is cleared (what the code does — open finding K2). -/
def prmWrite (clobber : Bool) (blk : Bytes) (off : Nat) (t : DataType) (v : Int) : Bytes :=
  match t with
  | .u8 | .s8 => overlay blk off (beImage 1 v)
  | .u16 | .s16 => overlay blk off (beImage 2 v)
  | .u32 | .s32 => overlay blk off (beImage 4 v)
  | .bit b => blk.set off (maskedWrite (blk.getD off 0) b b v)
  | .bitArea f l =>
    blk.set off (if clobber then placed f v else maskedWrite (blk.getD off 0) f l v)

/-- **The specification**: the block after parameter `(off, t)` has been given the value `v`. -/
def prmSpec (blk : Bytes) (off : Nat) (t : DataType) (v : Int) : Bytes := prmWrite false blk off t v

/-- What the code really does (K2). -/
def prmActual (blk : Bytes) (off : Nat) (t : DataType) (v : Int) : Bytes := prmWrite true blk off t v

/-! ## The initial block -/

/-- Length of the block: it covers every constant and every referenced parameter
(`UserPrmData::length` is not consulted). -/
def blockLen (L : Layout) : Nat :=
  ((L.consts.map fun c => c.1 + c.2.length) ++ (L.refs.map fun r => r.1 + r.2.dataType.size)).foldl max 0

def overlayConsts (blk : Bytes) : List (Nat × Bytes) → Bytes
  | [] => blk
  | (off, data) :: rest => overlayConsts (overlay blk off data) rest

/-- Defaults written in order; `none` when a default is not a value of its data type. -/
def overlayDefaults (clobber : Bool) (blk : Bytes) : List (Nat × PrmDef) → Option Bytes
  | [] => some blk
  | (off, d) :: rest =>
    if d.dataType.holds d.default then
      overlayDefaults clobber (prmWrite clobber blk off d.dataType d.default) rest
    else none

/-- Zeros, overlaid with the constants, overlaid field by field with the defaults. -/
def initWith (clobber : Bool) (L : Layout) : Option Bytes :=
  overlayDefaults clobber (overlayConsts (List.replicate (blockLen L) 0) L.consts) L.refs

def specInit (L : Layout) : Option Bytes := initWith false L
def actualInit (L : Layout) : Option Bytes := initWith true L

/-- Layouts the builder can be constructed for: no `offset + size` leaves the `usize` range. -/
def wellFormed (L : Layout) : Bool :=
  L.consts.all (fun c => decide (c.1 + c.2.length < usizeLimit)) &&
  L.refs.all (fun r => decide (r.1 + r.2.dataType.size < usizeLimit))

/-! ## One call -/

/-- What a call addresses: offset, definition and the value to be written, or the error of the
name / text lookup. -/
def target (L : Layout) : Call → Except SetErr (Nat × PrmDef × Int)
  | .set name v =>
    match L.getPrm name with
    | none => .error .prmNotFound
    | some (off, d) => .ok (off, d, v)
  | .setText name text =>
    match L.getPrm name with
    | none => .error .prmNotFound
    | some (off, d) =>
      match d.texts with
      | none => .error .prmWithoutTexts
      | some m =>
        match m.find? (fun kv => kv.1 == text) with
        | none => .error .prmTextNotFound
        | some kv => .ok (off, d, kv.2)

/-- Result of a call as the property demands it: the new block, or the specific error
(the block is then unchanged). -/
def callWith (clobber : Bool) (L : Layout) (blk : Bytes) (c : Call) : Except SetErr Bytes :=
  match target L c with
  | .error e => .error e
  | .ok (off, d, v) =>
    if !d.constraint.holds v then .error .valueConstraint
    else if !d.dataType.holds v then .error .valueRange
    else .ok (prmWrite clobber blk off d.dataType v)

def specCall (L : Layout) (blk : Bytes) (c : Call) : Except SetErr Bytes := callWith false L blk c

/-- Block after a call (errors leave it unchanged). -/
def blockAfter (clobber : Bool) (L : Layout) (blk : Bytes) (c : Call) : Bytes :=
  match callWith clobber L blk c with
  | .ok blk' => blk'
  | .error _ => blk

def runWith (clobber : Bool) (L : Layout) (blk : Bytes) (cs : List Call) : Bytes :=
  cs.foldl (blockAfter clobber L) blk

/-- Specification of a whole history of calls. -/
def specRun (L : Layout) (blk : Bytes) (cs : List Call) : Bytes := runWith false L blk cs

/-! ## Judging observations (the oracle's core) -/

/-- Observation of one `set_prm` / `set_prm_from_text` call: result kind and `as_bytes()` after it. -/
inductive Obs
  | ok (blk : Bytes)
  | err (e : SetErr) (blk : Bytes)
  | panic
  deriving DecidableEq, Repr

/-- Observation of `PrmBuilder::new`. -/
inductive NewObs
  | ok (blk : Bytes)
  | rangeErr
  | panic
  deriving DecidableEq, Repr

inductive Verdict
  | pass
  /-- deviation whose cause is exactly the `BitArea` clobber (known finding K2) -/
  | k2
  | fail (why : String)
  deriving DecidableEq, Repr

/-- The byte has a bit set outside the `BitArea` field (which the specification preserves and the
code clears). -/
def k2Type (t : DataType) (old : UInt8) : Bool :=
  match t with
  | .bitArea f l => old &&& ~~~ fieldMask f l != 0
  | _ => false

/-- The K2 class of a call: an accepted `BitArea(f,l)` write onto a byte that has a bit set outside
`f..l`. -/
def k2Call (L : Layout) (blk : Bytes) (c : Call) : Bool :=
  match target L c with
  | .ok (off, d, v) =>
    d.constraint.holds v && d.dataType.holds v && k2Type d.dataType (blk.getD off 0)
  | .error _ => false

def okIs (r : Except SetErr Bytes) (b : Bytes) : Bool :=
  match r with
  | .ok x => decide (x = b)
  | .error _ => false

/-- C20 evaluated on one observed call, given the block observed before it. -/
def judgeCall (L : Layout) (blk : Bytes) (c : Call) (o : Obs) : Verdict :=
  match o with
  | .panic => .fail "panic"
  | .err e blk' =>
    match specCall L blk c with
    | .error e' =>
      if e ≠ e' then .fail s!"wrong error: want err:{e'.kind}"
      else if blk' ≠ blk then .fail "rejected call changed the block"
      else .pass
    | .ok _ => .fail "valid call rejected"
  | .ok blk' =>
    match specCall L blk c with
    | .error e' => .fail s!"invalid call accepted: want err:{e'.kind}"
    | .ok want =>
      if blk' = want then .pass
      else if k2Call L blk c && okIs (callWith true L blk c) blk' then .k2
      else .fail "block differs from prmSpec"

def Layout.hasBitArea (L : Layout) : Bool := L.refs.any (fun r => r.2.dataType.isBitArea)

/-- C20 evaluated on an observed `new` (nothing is demanded of layouts that are not `wellFormed`). -/
def judgeNew (L : Layout) (o : NewObs) : Verdict :=
  if !wellFormed L then .pass else
  match o with
  | .panic => .fail "panic"
  | .rangeErr =>
    match specInit L with
    | none => .pass
    | some _ => .fail "valid defaults rejected"
  | .ok blk =>
    match specInit L with
    | none => .fail "default outside its data type accepted"
    | some want =>
      if blk = want then .pass
      else if L.hasBitArea && decide (actualInit L = some blk) then .k2
      else .fail "initial block differs from prmSpec"

end PV.Prm
