/-
Typed AST of a GSD file (what `gsd.pest` hands to `gsd-parser/src/parser.rs`) and the station
description the interpretation produces (`gsd-parser/src/lib.rs`).  Import-free.

The AST is *structurally* typed by the grammar (a `prm_text` has an id token and a list of
`Text(n)="…"` lines, a `setting` has a key, an optional `(n)` and a value, …) but every place where
parser.rs inspects the *kind* of a pair at run time stays untyped here (`Value`): a setting's value
may be a string literal, a number list, a family identifier or a number token, whatever the key is;
number tokens are kept as text (`-12`, `1.5`, `0x1F`), data type names as identifiers.

Texts are `List Char` throughout (code points; Rust `String`s are compared after UTF-8 encoding,
which preserves equality and order).
-/
namespace PV.Gsd

abbrev Str := List Char

/-- `dec_number` / `hex_number` pair with its source text (hex including the `0x`). -/
inductive NumTok where
  | dec (text : Str)
  | hex (text : Str)
  deriving Repr, DecidableEq, Inhabited

/-- What can stand right of `=` in a `setting` (rule `setting_value`), as pest pair kinds. -/
inductive Value where
  | str (raw : Str)          -- `string_literal`, text including both quotation marks
  | list (ns : List NumTok)  -- `number_list`
  | family (raw : Str)       -- `family_ident`
  | num (n : NumTok)         -- `dec_number` / `hex_number`
  deriving Repr, DecidableEq, Inhabited

/-- `identifier ( "(" number ")" )? "=" setting_value` -/
structure Setting where
  key : Str
  index : Option NumTok
  value : Value
  deriving Repr, DecidableEq, Inhabited

/-- `prm_data_type_name = { bit | bit_area | identifier }` -/
inductive TypeName where
  | bit (n : NumTok)
  | bitArea (first last : NumTok)
  | ident (name : Str)
  deriving Repr, DecidableEq, Inhabited

inductive PrmConstraintAst where
  | range (min max : NumTok)
  | set (vs : List NumTok)
  deriving Repr, DecidableEq, Inhabited

/-- `PrmText=<id>` … `Text(<n>)="<raw>"` … `EndPrmText`; `raw` includes the quotation marks. -/
structure PrmTextStmt where
  id : NumTok
  values : List (NumTok × Str)
  deriving Repr, DecidableEq, Inhabited

structure ExtPrmStmt where
  id : NumTok
  name : Str                 -- raw string literal
  typ : TypeName
  default : NumTok
  constraint : Option PrmConstraintAst
  textRef : Option NumTok
  changeable : Option NumTok
  visible : Option NumTok
  deriving Repr, DecidableEq, Inhabited

inductive ModItem where
  | reference (n : NumTok)   -- `module_reference`
  | setting (s : Setting)
  | dataArea                 -- `Data_Area_Beg … Data_Area_End` (ignored by parser.rs)
  deriving Repr, DecidableEq, Inhabited

structure ModuleStmt where
  name : Str                 -- raw string literal
  config : List NumTok       -- children of the `number_list`
  items : List ModItem
  deriving Repr, DecidableEq, Inhabited

inductive AllowedAst where
  | range (first last : NumTok)
  | set (vs : List NumTok)
  deriving Repr, DecidableEq, Inhabited

structure SlotStmt where
  number : NumTok
  name : Str                 -- raw string literal
  default : NumTok
  allowed : AllowedAst
  deriving Repr, DecidableEq, Inhabited

structure AreaStmt where
  first : NumTok
  last : NumTok
  values : List (NumTok × Str)
  deriving Repr, DecidableEq, Inhabited

inductive Stmt where
  | prmText (p : PrmTextStmt)
  | extPrm (e : ExtPrmStmt)
  | module (m : ModuleStmt)
  | slots (ss : List SlotStmt)
  | area (a : AreaStmt)
  | setting (s : Setting)
  | ignored                  -- unit_diag_type, version_dl_definition, physical_interface, jokerblock_type
  deriving Repr, DecidableEq, Inhabited

abbrev Ast := List Stmt

/-! ### The station description (`GenericStationDescription`) -/

inductive DataType where
  | u8 | u16 | u32 | i8 | i16 | i32
  | bit (n : Nat)
  | bitArea (first last : Nat)
  deriving Repr, DecidableEq, Inhabited

inductive Constraint where
  | minMax (min max : Int)
  | enum (vs : List Int)
  | unconstrained
  deriving Repr, DecidableEq, Inhabited

/-- `BTreeMap<String, i64>`: association list, later insertions of the same key replace earlier ones
(`assocInsert`); the canonical dump sorts by key. -/
abbrev TextMap := List (Str × Int)

structure PrmDef where
  name : Str
  dataType : DataType
  defaultValue : Int
  constraint : Constraint
  textRef : Option TextMap
  changeable : Bool
  visible : Bool
  deriving Repr, DecidableEq, Inhabited

structure UserPrmData where
  length : Nat := 0
  dataConst : List (Nat × List Nat) := []
  dataRef : List (Nat × PrmDef) := []
  deriving Repr, DecidableEq, Inhabited

structure Module where
  name : Str
  infoText : Option Str
  config : List Nat
  reference : Option Nat
  prm : UserPrmData
  deriving Repr, DecidableEq, Inhabited

/-- `default` / `allowed` are indices into `availableModules` (the `Arc<Module>` clones of the
implementation point into that vector). -/
structure Slot where
  name : Str
  number : Nat
  default : Nat
  allowed : List Nat
  deriving Repr, DecidableEq, Inhabited

structure BitInfo where
  text : Str := []
  help : Option Str := none
  deriving Repr, DecidableEq, Inhabited

structure Area where
  first : Nat
  last : Nat
  values : List (Nat × Str)
  deriving Repr, DecidableEq, Inhabited

structure Speeds where
  b9600 : Bool := false
  b19200 : Bool := false
  b31250 : Bool := false
  b45450 : Bool := false
  b93750 : Bool := false
  b187500 : Bool := false
  b500000 : Bool := false
  b1500000 : Bool := false
  b3000000 : Bool := false
  b6000000 : Bool := false
  b12000000 : Bool := false
  deriving Repr, DecidableEq, Inhabited

structure MaxTsdr where
  b9600 : Nat := 60
  b19200 : Nat := 60
  b31250 : Nat := 60
  b45450 : Nat := 60
  b93750 : Nat := 60
  b187500 : Nat := 60
  b500000 : Nat := 100
  b1500000 : Nat := 150
  b3000000 : Nat := 250
  b6000000 : Nat := 450
  b12000000 : Nat := 800
  deriving Repr, DecidableEq, Inhabited

structure Desc where
  gsdRevision : Nat := 0
  vendor : Str := []
  model : Str := []
  revision : Str := []
  revisionNumber : Nat := 0
  identNumber : Nat := 0
  hardwareRelease : Str := []
  softwareRelease : Str := []
  implementationType : Str := []
  freezeModeSupported : Bool := false
  syncModeSupported : Bool := false
  autoBaudSupported : Bool := false
  setSlaveAddrSupported : Bool := false
  failSafe : Bool := false
  maxDiagDataLength : Nat := 0
  modularStation : Bool := false
  maxModules : Nat := 0
  maxInputLength : Nat := 0
  maxOutputLength : Nat := 0
  maxDataLength : Nat := 0
  speeds : Speeds := {}
  maxTsdr : MaxTsdr := {}
  availableModules : List Module := []
  slots : List Slot := []
  userPrmData : UserPrmData := {}
  diagBits : List (Nat × BitInfo) := []
  diagNotBits : List (Nat × BitInfo) := []
  diagAreas : List Area := []
  deriving Repr, DecidableEq, Inhabited

end PV.Gsd
