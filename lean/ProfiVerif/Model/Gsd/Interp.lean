/-
Model of the interpretation loop of `gsd-parser/src/parser.rs` (`parse_inner` after the pest call):
typed AST → station description | error | panic.  Import-free.

Panic sites of parser.rs and where they live in this model
----------------------------------------------------------
* `….next().unwrap()`, `assert!(… == Rule::…)`, `assert!(iter.next().is_none())`, `unreachable!()`
  on the *shape* of the pair tree (first child of `prm_text` is a number, a `prm_text_value` has
  exactly a number and a string literal, `prm_data_type_name` has one child, a `setting` has an
  identifier and at least one more pair, …): unreachable because `gsd.pest` only produces such
  trees.  They are discharged by the *typing* of `Ast` (grammar layer, validated differentially:
  `Peg.toAst` answers `none` — reported as `panic` — on any other tree).
* the *second* argument of `Ext_User_Prm_Data_Ref`, `Ext_User_Prm_Data_Const` (top level and inside
  `Module`), `Unit_Diag_Bit`, `Unit_Diag_Bit_Help`, `Unit_Diag_Not_Bit`, `Unit_Diag_Not_Bit_Help`: the
  grammar makes the `(n)` of a setting optional, so `Unit_Diag_Bit=1` has only one pair after the key.
  These eight sites used to `unwrap()` (finding F13-gsd-unindexed, fixed by 1c3df29); they now return
  the error "missing value after the index in parentheses".  Explicit here: `Setting.second`.
* `max_modules_span.or(modular_station_span).unwrap()` in the compact-station post-processing:
  explicit here (`finish`), proved unreachable (`interp_no_panic…`).
* arithmetic: `offset + values.len()` (legacy prm; offset is always 0), `u16` range iteration,
  `try_into` (returns an error) — no overflow possible; `as` conversions are denied crate-wide.
* everything that became an error value with the F8 fix (kind checks in `parse_number`,
  `parse_number_list`, `parse_string_literal`, unknown data type, dangling references) is an `err`.
-/
import ProfiVerif.Model.Gsd.Ast

namespace PV.Gsd

inductive ErrKind where
  | syntax       -- pest refused the text (grammar layer)
  | num          -- "expected a number"
  | digit        -- "invalid digit found while parsing integer" (also overflow of u32, sign, float)
  | sdigit       -- "invalid digit found while parsing signed integer"
  | range        -- value does not fit the target integer type
  | list         -- "expected a list of numbers"
  | str          -- "expected a string literal"
  | dtype        -- unknown data type
  | textref      -- PrmText … was not found
  | dataref      -- ExtUserPrmData … was not found
  | slotdefault  -- default module of a slot is not available
  | prmlen       -- User_Prm_Data longer than User_Prm_Data_Len
  | missing      -- "missing value after the index in parentheses" (setting without its `(n)`)
  deriving Repr, DecidableEq, Inhabited

inductive Warn where
  | allowedMissing   -- "Allowed module … does not exist?"
  | defaultNotListed -- "Default module … is not listed in allowed range?"
  | compactMax       -- "Is a compact station but Max_Module is …"
  | compactModules   -- "Is a compact station but there are … modules available"
  deriving Repr, DecidableEq, Inhabited

/-- Result of a step: value, error value (`Err(ParseError)`), or panic. -/
inductive Res (α : Type) where
  | ok (a : α)
  | err (e : ErrKind)
  | panic
  deriving Repr, Inhabited

namespace Res
@[inline] def bind {α β : Type} (x : Res α) (f : α → Res β) : Res β :=
  match x with
  | .ok a => f a
  | .err e => .err e
  | .panic => .panic
instance : Monad Res where
  pure := .ok
  bind := bind
end Res

/-! ### Lexical layer -/

/-- ASCII lower case (identifiers are ASCII by the grammar, where it agrees with `str::to_lowercase`). -/
def lowerChar (c : Char) : Char :=
  if 65 ≤ c.toNat ∧ c.toNat ≤ 90 then Char.ofNat (c.toNat + 32) else c

def lower (s : Str) : Str := s.map lowerChar

/-- `char::to_digit(radix)` for radix 10 / 16. -/
def digitVal (radix : Nat) (c : Char) : Option Nat :=
  let n := c.toNat
  if 48 ≤ n ∧ n ≤ 57 then some (n - 48)
  else if radix = 16 ∧ 97 ≤ n ∧ n ≤ 102 then some (n - 87)
  else if radix = 16 ∧ 65 ≤ n ∧ n ≤ 70 then some (n - 55)
  else none

/-- Value of a digit string (most significant first), `none` on a non-digit. -/
def digitsVal (radix : Nat) : Str → Nat → Option Nat
  | [], acc => some acc
  | c :: rest, acc =>
    match digitVal radix c with
    | some d => digitsVal radix rest (acc * radix + d)
    | none => none

/-- `u32::from_str_radix` / `str::parse::<u32>`: optional `+`, at least one digit, no `-`,
value at most `u32::MAX`; every failure is the same error. -/
def parseU32Text (radix : Nat) (s : Str) : Option Nat :=
  match s with
  | [] => none
  | c :: rest =>
    let ds := if c = '+' then rest else s
    if ds.isEmpty then none else
    match digitsVal radix ds 0 with
    | some n => if n < 4294967296 then some n else none
    | none => none

/-- `i64::from_str_radix` / `str::parse::<i64>`. -/
def parseI64Text (radix : Nat) (s : Str) : Option Int :=
  match s with
  | [] => none
  | c :: rest =>
    if c = '-' then
      if rest.isEmpty then none else
      match digitsVal radix rest 0 with
      | some n => if n ≤ 9223372036854775808 then some (-(n : Int)) else none
      | none => none
    else
      let ds := if c = '+' then rest else s
      if ds.isEmpty then none else
      match digitsVal radix ds 0 with
      | some n => if n < 9223372036854775808 then some (n : Int) else none
      | none => none

/-- `str::trim_start_matches("0x")`: strips *every* leading `0x`. -/
def trimHex : Str → Str
  | a :: b :: rest => if a = '0' ∧ b = 'x' then trimHex rest else a :: b :: rest
  | s => s

def NumTok.u32 : NumTok → Option Nat
  | .dec t => parseU32Text 10 t
  | .hex t => parseU32Text 16 (trimHex t)

def NumTok.i64 : NumTok → Option Int
  | .dec t => parseI64Text 10 t
  | .hex t => parseI64Text 16 (trimHex t)

def u8Max : Nat := 255
def u16Max : Nat := 65535
def u32Max : Nat := 4294967295
def usizeMax : Nat := 18446744073709551615

/-- `parse_number::<T>` on a pair that the grammar guarantees to be a number token. -/
def parseTok (max : Nat) (t : NumTok) : Res Nat :=
  match t.u32 with
  | none => .err .digit
  | some n => if n ≤ max then .ok n else .err .range

/-- `parse_signed_number` on a number token. -/
def parseSignedTok (t : NumTok) : Res Int :=
  match t.i64 with
  | none => .err .sdigit
  | some n => .ok n

/-- `parse_number::<T>` on an arbitrary value pair. -/
def parseNumber (max : Nat) : Value → Res Nat
  | .num t => parseTok max t
  | _ => .err .num

def parseToks (max : Nat) : List NumTok → Res (List Nat)
  | [] => .ok []
  | t :: rest => do
    let n ← parseTok max t
    let ns ← parseToks max rest
    pure (n :: ns)

def parseSignedToks : List NumTok → Res (List Int)
  | [] => .ok []
  | t :: rest => do
    let n ← parseSignedTok t
    let ns ← parseSignedToks rest
    pure (n :: ns)

/-- `parse_number_list::<T>` -/
def parseNumberList (max : Nat) : Value → Res (List Nat)
  | .list ts => parseToks max ts
  | .num t => do let n ← parseTok max t; pure [n]
  | _ => .err .list

def parseBool (v : Value) : Res Bool := do
  let n ← parseNumber u32Max v
  pure (n != 0)

def parseBoolTok (t : NumTok) : Res Bool := do
  let n ← parseTok u32Max t
  pure (n != 0)

/-- `str::replace(pat, "")`: leftmost non-overlapping occurrences removed (`fuel` ≥ length). -/
def removeAllAux (pat : Str) : Nat → Str → Str
  | 0, s => s
  | fuel + 1, s =>
    match s with
    | [] => []
    | c :: rest =>
      if pat ≠ [] ∧ pat.isPrefixOf s then removeAllAux pat fuel (s.drop pat.length)
      else c :: removeAllAux pat fuel rest

def removeAll (pat s : Str) : Str := removeAllAux pat s.length s

/-- `parse_string_literal` on a string-literal pair: drop the first and the last character, then
remove `\` CR LF, then remove `\` LF. -/
def unquote (raw : Str) : Str :=
  let inner := (raw.drop 1).dropLast
  removeAll ['\\', '\n'] (removeAll ['\\', '\r', '\n'] inner)

def parseStr : Value → Res Str
  | .str raw => .ok (unquote raw)
  | _ => .err .str

/-! ### Maps (`BTreeMap`) as association lists -/

def assocInsert {κ α : Type} [DecidableEq κ] (k : κ) (v : α) : List (κ × α) → List (κ × α)
  | [] => [(k, v)]
  | (k', v') :: rest => if k' = k then (k, v) :: rest else (k', v') :: assocInsert k v rest

def assocGet {κ α : Type} [DecidableEq κ] (k : κ) : List (κ × α) → Option α
  | [] => none
  | (k', v) :: rest => if k' = k then some v else assocGet k rest

/-- `map.entry(k).or_default()` followed by an update of the entry. -/
def assocUpdate {κ α : Type} [DecidableEq κ] (k : κ) (dflt : α) (f : α → α) (m : List (κ × α)) :
    List (κ × α) :=
  assocInsert k (f ((assocGet k m).getD dflt)) m

/-! ### Interpreter state -/

structure St where
  gsd : Desc := {}
  prmTexts : List (Nat × TextMap) := []
  defs : List (Nat × PrmDef) := []
  legacy : Option UserPrmData := some {}
  maxModulesSeen : Bool := false     -- `max_modules_span.is_some()`
  modularSeen : Bool := false        -- `modular_station_span.is_some()`
  warnings : List Warn := []
  deriving Repr, Inhabited

/-- `value_pair = pairs.next().unwrap()`: the pair behind the key — the `(n)` if there is one. -/
def Setting.first (s : Setting) : Value :=
  match s.index with
  | some n => .num n
  | none => s.value

/-- `pairs.next().ok_or_else(..)?` a second time: the value if there was a `(n)`, otherwise the
error "missing value after the index in parentheses". -/
def Setting.second (s : Setting) : Res Value :=
  match s.index with
  | some _ => .ok s.value
  | none => .err .missing

/-! ### Statements -/

def textValues : List (NumTok × Str) → TextMap → Res TextMap
  | [], acc => .ok acc
  | (n, raw) :: rest, acc => do
    let number ← parseSignedTok n
    textValues rest (assocInsert (unquote raw) number acc)

def doPrmText (st : St) (p : PrmTextStmt) : Res St := do
  let id ← parseTok u16Max p.id
  let values ← textValues p.values []
  pure { st with prmTexts := assocInsert id values st.prmTexts }

def dataTypeOfName (name : Str) : Option DataType :=
  let n := lower name
  if n = "unsigned8".toList then some .u8
  else if n = "unsigned16".toList then some .u16
  else if n = "unsigned32".toList then some .u32
  else if n = "signed8".toList then some .i8
  else if n = "signed16".toList then some .i16
  else if n = "signed32".toList then some .i32
  else none

def parseDataType : TypeName → Res DataType
  | .ident name =>
    match dataTypeOfName name with
    | some t => .ok t
    | none => .err .dtype
  | .bit n => do let b ← parseTok u8Max n; pure (.bit b)
  | .bitArea f l => do
    let first ← parseTok u8Max f
    let last ← parseTok u8Max l
    pure (.bitArea first last)

def parseConstraint : Option PrmConstraintAst → Res Constraint
  | none => .ok .unconstrained
  | some (.range a b) => do
    let min ← parseSignedTok a
    let max ← parseSignedTok b
    pure (.minMax min max)
  | some (.set vs) => do
    let values ← parseSignedToks vs
    pure (.enum values)

def parseTextRef (st : St) : Option NumTok → Res (Option TextMap)
  | none => .ok none
  | some t => do
    let id ← parseTok u16Max t
    match assocGet id st.prmTexts with
    | some m => pure (some m)
    | none => .err .textref

def parseOptBool : Option NumTok → Res Bool
  | none => .ok true
  | some t => parseBoolTok t

def doExtPrm (st : St) (e : ExtPrmStmt) : Res St := do
  let id ← parseTok u32Max e.id
  let name := unquote e.name
  let dataType ← parseDataType e.typ
  let defaultValue ← parseSignedTok e.default
  let constraint ← parseConstraint e.constraint
  let textRef ← parseTextRef st e.textRef
  let changeable ← parseOptBool e.changeable
  let visible ← parseOptBool e.visible
  let d : PrmDef := { name, dataType, defaultValue, constraint, textRef, changeable, visible }
  pure { st with defs := assocInsert id d st.defs }

def areaValues : List (NumTok × Str) → List (Nat × Str) → Res (List (Nat × Str))
  | [], acc => .ok acc
  | (n, raw) :: rest, acc => do
    let number ← parseTok u16Max n
    areaValues rest (assocInsert number (unquote raw) acc)

def doArea (st : St) (a : AreaStmt) : Res St := do
  let first ← parseTok u16Max a.first
  let last ← parseTok u16Max a.last
  let values ← areaValues a.values []
  pure { st with gsd := { st.gsd with diagAreas := st.gsd.diagAreas ++ [{ first, last, values }] } }

/-- `Ext_User_Prm_Data_Ref(offset)=id` (module and top level). -/
def prmDataRef (st : St) (s : Setting) (prm : UserPrmData) : Res UserPrmData := do
  let offset ← parseNumber usizeMax s.first
  let v ← s.second
  let dataId ← parseNumber u32Max v
  match assocGet dataId st.defs with
  | some d => pure { prm with dataRef := prm.dataRef ++ [(offset, d)] }
  | none => .err .dataref

/-- `Ext_User_Prm_Data_Const(offset)=bytes` (module and top level). -/
def prmDataConst (s : Setting) (prm : UserPrmData) : Res UserPrmData := do
  let offset ← parseNumber usizeMax s.first
  let v ← s.second
  let values ← parseNumberList u8Max v
  pure { prm with dataConst := prm.dataConst ++ [(offset, values)] }

structure ModAcc where
  infoText : Option Str := none
  reference : Option Nat := none
  prm : UserPrmData := {}

def moduleSetting (st : St) (acc : ModAcc) (s : Setting) : Res ModAcc :=
  let k := lower s.key
  if k = "ext_module_prm_data_len".toList then do
    let n ← parseNumber u8Max s.first
    pure { acc with prm := { acc.prm with length := n } }
  else if k = "ext_user_prm_data_ref".toList then do
    let prm ← prmDataRef st s acc.prm
    pure { acc with prm := prm }
  else if k = "ext_user_prm_data_const".toList then do
    let prm ← prmDataConst s acc.prm
    pure { acc with prm := prm }
  else if k = "info_text".toList then do
    let t ← parseStr s.first
    pure { acc with infoText := some t }
  else .ok acc

def moduleItems (st : St) : List ModItem → ModAcc → Res ModAcc
  | [], acc => .ok acc
  | .reference n :: rest, acc => do
    let r ← parseTok u32Max n
    moduleItems st rest { acc with reference := some r }
  | .setting s :: rest, acc => do
    let acc' ← moduleSetting st acc s
    moduleItems st rest acc'
  | .dataArea :: rest, acc => moduleItems st rest acc

def doModule (st : St) (m : ModuleStmt) : Res St := do
  let name := unquote m.name
  let config ← parseToks u8Max m.config
  let acc ← moduleItems st m.items {}
  let module : Module :=
    { name, infoText := acc.infoText, config, reference := acc.reference, prm := acc.prm }
  pure { st with gsd := { st.gsd with availableModules := st.gsd.availableModules ++ [module] } }

/-- `find_module`: index of the first module with that reference. -/
def findModuleFrom (reference : Nat) : List Module → Nat → Option Nat
  | [], _ => none
  | m :: rest, i => if m.reference = some reference then some i else findModuleFrom reference rest (i + 1)

def findModule (mods : List Module) (reference : Nat) : Option Nat := findModuleFrom reference mods 0

/-- `filter_map(find_module)` over a list of references; one warning per missing module. -/
def findAllowed (mods : List Module) : List Nat → List Nat × List Warn
  | [] => ([], [])
  | r :: rest =>
    let (found, ws) := findAllowed mods rest
    match findModule mods r with
    | some i => (i :: found, ws)
    | none => (found, Warn.allowedMissing :: ws)

/-- `first..=last` -/
def rangeIncl (first last : Nat) : List Nat := List.range' first (last + 1 - first)

/-- The value-set variant parses and resolves reference by reference (an unparsable later entry
still leaves the warnings of the earlier ones behind — irrelevant for an `Err` result). -/
def slotSet (mods : List Module) : List NumTok → Res (List Nat × List Warn)
  | [] => .ok ([], [])
  | t :: rest => do
    let r ← parseTok u16Max t
    let (found, ws) ← slotSet mods rest
    match findModule mods r with
    | some i => pure (i :: found, ws)
    | none => pure (found, Warn.allowedMissing :: ws)

def doSlot (st : St) (s : SlotStmt) : Res St := do
  let number ← parseTok u8Max s.number
  let name := unquote s.name
  let defaultRef ← parseTok u16Max s.default
  let mods := st.gsd.availableModules
  let (allowed, ws) ← (match s.allowed with
    | .range a b => do
      let first ← parseTok u16Max a
      let last ← parseTok u16Max b
      pure (findAllowed mods (rangeIncl first last))
    | .set vs => slotSet mods vs : Res (List Nat × List Warn))
  match findModule mods defaultRef with
  | none => .err .slotdefault
  | some dflt =>
    -- `allowed_modules.contains(&default)` compares the modules by value
    let listed := allowed.any fun i => decide (mods[i]? = mods[dflt]?)
    let ws' := if listed then ws else ws ++ [Warn.defaultNotListed]
    pure { st with
      gsd := { st.gsd with slots := st.gsd.slots ++ [{ name, number, default := dflt, allowed }] }
      warnings := st.warnings ++ ws' }

def doSlots (st : St) : List SlotStmt → Res St
  | [] => .ok st
  | s :: rest => do
    let st' ← doSlot st s
    doSlots st' rest

/-! ### Top-level settings: plain fields as tables, the rest spelled out -/

def strSetter (k : Str) : Option (Desc → Str → Desc) :=
  if k = "vendor_name".toList then some fun g v => { g with vendor := v }
  else if k = "model_name".toList then some fun g v => { g with model := v }
  else if k = "revision".toList then some fun g v => { g with revision := v }
  else if k = "hardware_release".toList then some fun g v => { g with hardwareRelease := v }
  else if k = "software_release".toList then some fun g v => { g with softwareRelease := v }
  else if k = "implementation_type".toList then some fun g v => { g with implementationType := v }
  else none

/-- key ↦ (largest value of the field's integer type, setter) -/
def numSetter (k : Str) : Option (Nat × (Desc → Nat → Desc)) :=
  if k = "gsd_revision".toList then some (u8Max, fun g v => { g with gsdRevision := v })
  else if k = "revision_number".toList then some (u8Max, fun g v => { g with revisionNumber := v })
  else if k = "ident_number".toList then some (u16Max, fun g v => { g with identNumber := v })
  else if k = "maxtsdr_9.6".toList then some (u16Max, fun g v => { g with maxTsdr := { g.maxTsdr with b9600 := v } })
  else if k = "maxtsdr_19.2".toList then some (u16Max, fun g v => { g with maxTsdr := { g.maxTsdr with b19200 := v } })
  else if k = "maxtsdr_31.25".toList then some (u16Max, fun g v => { g with maxTsdr := { g.maxTsdr with b31250 := v } })
  else if k = "maxtsdr_45.45".toList then some (u16Max, fun g v => { g with maxTsdr := { g.maxTsdr with b45450 := v } })
  else if k = "maxtsdr_93.75".toList then some (u16Max, fun g v => { g with maxTsdr := { g.maxTsdr with b93750 := v } })
  else if k = "maxtsdr_187.5".toList then some (u16Max, fun g v => { g with maxTsdr := { g.maxTsdr with b187500 := v } })
  else if k = "maxtsdr_500".toList then some (u16Max, fun g v => { g with maxTsdr := { g.maxTsdr with b500000 := v } })
  else if k = "maxtsdr_1.5m".toList then some (u16Max, fun g v => { g with maxTsdr := { g.maxTsdr with b1500000 := v } })
  else if k = "maxtsdr_3m".toList then some (u16Max, fun g v => { g with maxTsdr := { g.maxTsdr with b3000000 := v } })
  else if k = "maxtsdr_6m".toList then some (u16Max, fun g v => { g with maxTsdr := { g.maxTsdr with b6000000 := v } })
  else if k = "maxtsdr_12m".toList then some (u16Max, fun g v => { g with maxTsdr := { g.maxTsdr with b12000000 := v } })
  else if k = "max_input_len".toList then some (u8Max, fun g v => { g with maxInputLength := v })
  else if k = "max_output_len".toList then some (u8Max, fun g v => { g with maxOutputLength := v })
  else if k = "max_data_len".toList then some (u16Max, fun g v => { g with maxDataLength := v })
  else if k = "max_diag_data_len".toList then some (u8Max, fun g v => { g with maxDiagDataLength := v })
  else none

/-- `x = parse_bool(..)?` fields and the `if parse_bool(..)? { speeds |= … }` flags (the flag becomes
`old || v`). -/
def boolSetter (k : Str) : Option (Desc → Bool → Desc) :=
  if k = "fail_safe".toList then some fun g v => { g with failSafe := v }
  else if k = "9.6_supp".toList then some fun g v => { g with speeds := { g.speeds with b9600 := g.speeds.b9600 || v } }
  else if k = "19.2_supp".toList then some fun g v => { g with speeds := { g.speeds with b19200 := g.speeds.b19200 || v } }
  else if k = "31.25_supp".toList then some fun g v => { g with speeds := { g.speeds with b31250 := g.speeds.b31250 || v } }
  else if k = "45.45_supp".toList then some fun g v => { g with speeds := { g.speeds with b45450 := g.speeds.b45450 || v } }
  else if k = "93.75_supp".toList then some fun g v => { g with speeds := { g.speeds with b93750 := g.speeds.b93750 || v } }
  else if k = "187.5_supp".toList then some fun g v => { g with speeds := { g.speeds with b187500 := g.speeds.b187500 || v } }
  else if k = "500_supp".toList then some fun g v => { g with speeds := { g.speeds with b500000 := g.speeds.b500000 || v } }
  else if k = "1.5m_supp".toList then some fun g v => { g with speeds := { g.speeds with b1500000 := g.speeds.b1500000 || v } }
  else if k = "3m_supp".toList then some fun g v => { g with speeds := { g.speeds with b3000000 := g.speeds.b3000000 || v } }
  else if k = "6m_supp".toList then some fun g v => { g with speeds := { g.speeds with b6000000 := g.speeds.b6000000 || v } }
  else if k = "12m_supp".toList then some fun g v => { g with speeds := { g.speeds with b12000000 := g.speeds.b12000000 || v } }
  else if k = "freeze_mode_supp".toList then some fun g v => { g with freezeModeSupported := v }
  else if k = "sync_mode_supp".toList then some fun g v => { g with syncModeSupported := v }
  else if k = "auto_baud_supp".toList then some fun g v => { g with autoBaudSupported := v }
  else if k = "set_slave_add_supp".toList then some fun g v => { g with setSlaveAddrSupported := v }
  else none

/-- `max` of `offset + values.len()` over the constants (0 if none). -/
def constMaxLen : List (Nat × List Nat) → Nat
  | [] => 0
  | (o, vs) :: rest => Nat.max (o + vs.length) (constMaxLen rest)

/-- `Unit_Diag_Bit(n)="…"` and friends: `which` selects the map, `help` the field. -/
def diagBit (st : St) (s : Setting) (notBits help : Bool) : Res St := do
  let bit ← parseNumber u32Max s.first
  let v ← s.second
  let text ← parseStr v
  let upd : BitInfo → BitInfo := fun b => if help then { b with help := some text } else { b with text := text }
  if notBits then
    pure { st with gsd := { st.gsd with diagNotBits := assocUpdate bit {} upd st.gsd.diagNotBits } }
  else
    pure { st with gsd := { st.gsd with diagBits := assocUpdate bit {} upd st.gsd.diagBits } }

/-- The keys of the `setting` arm that are not plain field assignments. -/
def specialSetting (st : St) (k : Str) (s : Setting) : Res St :=
  if k = "modular_station".toList then do
    let st := { st with modularSeen := true }
    let v ← parseBool s.first
    pure { st with gsd := { st.gsd with modularStation := v } }
  else if k = "max_module".toList then do
    let st := { st with maxModulesSeen := true }
    let v ← parseNumber u8Max s.first
    pure { st with gsd := { st.gsd with maxModules := v } }
  else if k = "ext_user_prm_data_ref".toList then do
    let prm ← prmDataRef st s st.gsd.userPrmData
    pure { st with gsd := { st.gsd with userPrmData := prm }, legacy := none }
  else if k = "ext_user_prm_data_const".toList then do
    let prm ← prmDataConst s st.gsd.userPrmData
    pure { st with gsd := { st.gsd with userPrmData := prm }, legacy := none }
  else if k = "max_user_prm_data_len".toList then
    .ok { st with legacy := none }
  else if k = "user_prm_data_len".toList then
    match st.legacy with
    | none => .ok st
    | some prm => do
      let n ← parseNumber u8Max s.first
      if n < constMaxLen prm.dataConst then .err .prmlen
      else pure { st with legacy := some { prm with length := n } }
  else if k = "user_prm_data".toList then
    match st.legacy with
    | none => .ok st
    | some prm => do
      let values ← parseNumberList u8Max s.first
      if prm.length ≠ 0 ∧ prm.length < values.length then .err .prmlen
      else pure { st with legacy := some { prm with dataConst := prm.dataConst ++ [(0, values)] } }
  else if k = "unit_diag_bit".toList then diagBit st s false false
  else if k = "unit_diag_bit_help".toList then diagBit st s false true
  else if k = "unit_diag_not_bit".toList then diagBit st s true false
  else if k = "unit_diag_not_bit_help".toList then diagBit st s true true
  else .ok st

def doSetting (st : St) (s : Setting) : Res St :=
  let k := lower s.key
  match strSetter k with
  | some f => do
    let v ← parseStr s.first
    pure { st with gsd := f st.gsd v }
  | none =>
  match numSetter k with
  | some (max, f) => do
    let v ← parseNumber max s.first
    pure { st with gsd := f st.gsd v }
  | none =>
  match boolSetter k with
  | some f => do
    let v ← parseBool s.first
    pure { st with gsd := f st.gsd v }
  | none => specialSetting st k s

def doStmt (st : St) : Stmt → Res St
  | .prmText p => doPrmText st p
  | .extPrm e => doExtPrm st e
  | .module m => doModule st m
  | .slots ss => doSlots st ss
  | .area a => doArea st a
  | .setting s => doSetting st s
  | .ignored => .ok st

def run (st : St) : Ast → Res St
  | [] => .ok st
  | s :: rest => do
    let st' ← doStmt st s
    run st' rest

/-- "If no `Ext_User_Prm` was present, commit the legacy Prm data into the gsd struct." -/
def commitLegacy (st : St) : Desc :=
  match st.legacy with
  | some prm => { st.gsd with userPrmData := prm }
  | none => st.gsd

/-- "When no Max_Module was set, default to 1" -/
def defaultMaxModules (seen : Bool) (g : Desc) : Desc :=
  if seen then g else { g with maxModules := 1 }

/-- "If this is a compact station, only allow one module" -/
def compactStation (g : Desc) (maxSeen modularSeen : Bool) (ws : List Warn) : Res (Desc × List Warn) :=
  -- `max_modules_span.or(modular_station_span).unwrap()`
  if g.maxModules ≠ 1 ∧ maxSeen = false ∧ modularSeen = false then .panic
  else
    let w1 := if g.maxModules ≠ 1 then [Warn.compactMax] else []
    let w2 := if g.availableModules.length ≠ 1 then [Warn.compactModules] else []
    .ok ({ g with maxModules := 1 }, ws ++ w1 ++ w2)

/-- Post-processing after the statement loop. -/
def finish (st : St) : Res (Desc × List Warn) :=
  let g := defaultMaxModules st.maxModulesSeen (commitLegacy st)
  if g.modularStation then .ok (g, st.warnings)
  else compactStation g st.maxModulesSeen st.modularSeen st.warnings

/-- The interpretation of a whole file. -/
def interp (ast : Ast) : Res (Desc × List Warn) := do
  let st ← run {} ast
  finish st

end PV.Gsd
