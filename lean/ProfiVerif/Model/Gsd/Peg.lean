/-
Grammar layer: an executable interpreter for the subset of pest used by `gsd-parser/src/gsd.pest`
and the conversion of the resulting pair tree into the typed AST.  The grammar itself (`Rule`,
`RuleTy`, `Expr`, `ruleDef`) is GENERATED from gsd.pest by `tools/pest2lean.py` into
`Model/Gsd/Grammar.lean` on every run of `./check C19`.  Import-free.

pest semantics reproduced (pest 2.x generator):
* ordered choice, greedy repetition, `?`, `&`/`!` predicates (no tokens, position restored);
* in a non-atomic context `a ~ b` is `a skip b`, `e*` is `(e (skip e)*)?`, `e+` is `e skip e*`
  where `skip = WHITESPACE* (COMMENT WHITESPACE*)*`; WHITESPACE and COMMENT run atomically;
* `@{…}` runs its body atomically (no skip; rules called inside produce no pairs) and yields one
  pair unless it is itself called inside an atomic context; `_{…}` yields no pair; `{…}` yields a
  pair unless called in an atomic context; lookahead yields no pairs;
* `^"…"` compares ASCII-case-insensitively; `SOI`, `EOI` (a pair), `ANY`, `NEWLINE`
  (`"\n" | "\r\n" | "\r"`), `ASCII_DIGIT`, `ASCII_HEX_DIGIT`, `ASCII_ALPHANUMERIC`.
-/
import ProfiVerif.Model.Gsd.Interp
import ProfiVerif.Model.Gsd.Grammar

namespace PV.Gsd.Peg
open PV.Gsd

/-- A pest `Pair`: rule, matched text, inner pairs. -/
inductive Pair where
  | node (rule : Rule) (text : Str) (children : List Pair)
  deriving Repr, Inhabited

def Pair.rule : Pair → Rule | .node r _ _ => r
def Pair.text : Pair → Str | .node _ t _ => t
def Pair.children : Pair → List Pair | .node _ _ c => c

/-- Parser state: remaining input, position (in characters), pairs produced so far at this level
(most recent first). -/
structure PS where
  rest : Str
  pos : Nat
  out : List Pair

inductive R where
  | ok (s : PS)
  | fail
  | fuel          -- the fuel bound was too small (never happens for fuel = 3·len + 1000)

def s (t : String) : Expr := .str t.toList
def i (t : String) : Expr := .insens (t.toList.map Char.toLower)
def c (r : Rule) : Expr := .call r

def matchStr : Str → Str → Option Str
  | [], rest => some rest
  | _ :: _, [] => none
  | a :: as, b :: bs => if a = b then matchStr as bs else none

def matchInsens : Str → Str → Option Str
  | [], rest => some rest
  | _ :: _, [] => none
  | a :: as, b :: bs => if a = b.toLower then matchInsens as bs else none

mutual
/-- `atomic = true`: no implicit skipping, called rules produce no pairs. -/
def eval : Nat → Bool → Expr → PS → R
  | 0, _, _, _ => .fuel
  | fuel + 1, atomic, e, st =>
    match e with
    | .str lit =>
      match matchStr lit st.rest with
      | some rest => .ok { st with rest, pos := st.pos + lit.length }
      | none => .fail
    | .insens lit =>
      match matchInsens lit st.rest with
      | some rest => .ok { st with rest, pos := st.pos + lit.length }
      | none => .fail
    | .range lo hi =>
      match st.rest with
      | ch :: rest => if lo.val ≤ ch.val ∧ ch.val ≤ hi.val then .ok { st with rest, pos := st.pos + 1 } else .fail
      | [] => .fail
    | .any =>
      match st.rest with
      | _ :: rest => .ok { st with rest, pos := st.pos + 1 }
      | [] => .fail
    | .soi => if st.pos = 0 then .ok st else .fail
    | .newline =>
      match st.rest with
      | '\n' :: rest => .ok { st with rest, pos := st.pos + 1 }
      | '\r' :: '\n' :: rest => .ok { st with rest, pos := st.pos + 2 }
      | '\r' :: rest => .ok { st with rest, pos := st.pos + 1 }
      | _ => .fail
    | .call r =>
      let (ty, body) := ruleDef r
      match ty with
      | .silent => eval fuel atomic body st
      | .normal | .atomic =>
        match eval fuel (atomic || ty == .atomic) body { st with out := [] } with
        | .ok st' =>
          if atomic then .ok { st' with out := st.out }
          else .ok { st' with out := .node r (st.rest.take (st'.pos - st.pos)) st'.out.reverse :: st.out }
        | .fail => .fail
        | .fuel => .fuel
    | .seq a b =>
      match eval fuel atomic a st with
      | .ok st1 =>
        match skip fuel atomic st1 with
        | .ok st2 => eval fuel atomic b st2
        | r => r
      | r => r
    | .choice a b =>
      match eval fuel atomic a st with
      | .fail => eval fuel atomic b st
      | r => r
    | .opt e =>
      match eval fuel atomic e st with
      | .fail => .ok st
      | r => r
    | .star e =>
      match eval fuel atomic e st with
      | .ok st1 => loop fuel atomic e st1
      | .fail => .ok st
      | .fuel => .fuel
    | .plus e =>
      match eval fuel atomic e st with
      | .ok st1 =>
        match skip fuel atomic st1 with
        | .ok st2 =>
          -- `e+` is `e ~ e*`: when the trailing `e*` matches nothing the skip is *kept*
          -- (the sequence as a whole succeeded)
          match eval fuel atomic e st2 with
          | .ok st3 => loop fuel atomic e st3
          | .fail => .ok st2
          | .fuel => .fuel
        | r => r
      | r => r
    | .npred e =>
      match eval fuel atomic e st with
      | .ok _ => .fail
      | .fail => .ok st
      | .fuel => .fuel
    | .ppred e =>
      match eval fuel atomic e st with
      | .ok _ => .ok st
      | r => r

/-- `(skip e)*` after a first successful `e`. -/
def loop : Nat → Bool → Expr → PS → R
  | 0, _, _, _ => .fuel
  | fuel + 1, atomic, e, st =>
    match skip fuel atomic st with
    | .ok st1 =>
      match eval fuel atomic e st1 with
      | .ok st2 => loop fuel atomic e st2
      | .fail => .ok st
      | .fuel => .fuel
    | .fail => .ok st
    | .fuel => .fuel

/-- Implicit skipping between the parts of a non-atomic sequence / repetition. -/
def skip : Nat → Bool → PS → R
  | 0, _, _ => .fuel
  | fuel + 1, atomic, st =>
    if atomic then .ok st else eval fuel true skipExpr st
end

/-- `GsdParser::parse(Rule::gsd, text)`: the `gsd` pair, or `none` for a syntax error;
`fuel` exhaustion is reported separately. -/
def parseGsd (text : Str) : Option (Option Pair) :=
  let fuel := 3 * text.length + 1000
  match eval fuel false (c .gsd) { rest := text, pos := 0, out := [] } with
  | .ok st =>
    match st.out with
    | [p] => some (some p)
    | _ => some none
  | .fail => some none
  | .fuel => none

/-! ### Pair tree → typed AST (`none` = a tree shape parser.rs would panic on) -/

def numTok? (p : Pair) : Option NumTok :=
  match p.rule with
  | .dec_number => some (.dec p.text)
  | .hex_number => some (.hex p.text)
  | _ => none

def numToks? : List Pair → Option (List NumTok)
  | [] => some []
  | p :: rest => do
    let n ← numTok? p
    let ns ← numToks? rest
    pure (n :: ns)

def strLit? (p : Pair) : Option Str :=
  if p.rule = .string_literal then some p.text else none

def value? (p : Pair) : Option Value :=
  match p.rule with
  | .string_literal => some (.str p.text)
  | .number_list => (numToks? p.children).map .list
  | .family_ident => some (.family p.text)
  | .dec_number => some (.num (.dec p.text))
  | .hex_number => some (.num (.hex p.text))
  | _ => none

def setting? (p : Pair) : Option Setting :=
  match p.children with
  | [k, v] => if k.rule = .identifier then (value? v).map fun v => { key := k.text, index := none, value := v } else none
  | [k, ix, v] =>
    if k.rule = .identifier then do
      let n ← numTok? ix
      let v ← value? v
      pure { key := k.text, index := some n, value := v }
    else none
  | _ => none

/-- `Text(n)="…"` / `Value(n)="…"` lines -/
def valueLines? (rule : Rule) : List Pair → Option (List (NumTok × Str))
  | [] => some []
  | p :: rest =>
    if p.rule = rule then
      match p.children with
      | [n, t] => do
        let n ← numTok? n
        let t ← strLit? t
        let more ← valueLines? rule rest
        pure ((n, t) :: more)
      | _ => none
    else none

def typeName? (p : Pair) : Option TypeName :=
  if p.rule ≠ .prm_data_type_name then none else
  match p.children with
  | [t] =>
    match t.rule, t.children with
    | .identifier, _ => some (.ident t.text)
    | .bit, [n] => (numTok? n).map .bit
    | .bit_area, [a, b] => do
      let a ← numTok? a
      let b ← numTok? b
      pure (.bitArea a b)
    | _, _ => none
  | _ => none

/-- Peels an optional leading pair of rule `r` with exactly one number child. -/
def optNumChild (r : Rule) : List Pair → Option (Option NumTok × List Pair)
  | p :: rest =>
    if p.rule = r then
      match p.children with
      | [n] => (numTok? n).map fun n => (some n, rest)
      | _ => none
    else some (none, p :: rest)
  | [] => some (none, [])

def extPrm? (p : Pair) : Option ExtPrmStmt :=
  match p.children with
  | id :: name :: ty :: dflt :: rest => do
    let id ← numTok? id
    let name ← strLit? name
    let typ ← typeName? ty
    let default ← numTok? dflt
    let (constraint, rest) ← (match rest with
      | q :: rest' =>
        if q.rule = .prm_data_value_range then
          match q.children with
          | [a, b] => do
            let a ← numTok? a
            let b ← numTok? b
            pure (some (PrmConstraintAst.range a b), rest')
          | _ => none
        else if q.rule = .prm_data_value_set then do
          let vs ← numToks? q.children
          pure (some (PrmConstraintAst.set vs), rest')
        else some (none, rest)
      | [] => some (none, []) : Option (Option PrmConstraintAst × List Pair))
    let (textRef, rest) ← optNumChild .prm_text_ref rest
    let (changeable, rest) ← optNumChild .prm_data_changeable rest
    let (visible, rest) ← optNumChild .prm_data_visible rest
    if rest.isEmpty then pure { id, name, typ, default, constraint, textRef, changeable, visible } else none
  | _ => none

def modItems? : List Pair → Option (List ModItem)
  | [] => some []
  | p :: rest => do
    let item ← (match p.rule with
      | .module_reference =>
        match p.children with
        | [n] => (numTok? n).map ModItem.reference
        | _ => none
      | .setting => (setting? p).map ModItem.setting
      | .data_area => some ModItem.dataArea
      | _ => none : Option ModItem)
    let more ← modItems? rest
    pure (item :: more)

def module? (p : Pair) : Option ModuleStmt :=
  match p.children with
  | name :: cfg :: rest => do
    let name ← strLit? name
    let config ← if cfg.rule = .number_list then numToks? cfg.children else none
    let items ← modItems? rest
    pure { name, config, items }
  | _ => none

def slots? : List Pair → Option (List SlotStmt)
  | [] => some []
  | p :: rest =>
    if p.rule ≠ .slot then none else
    match p.children with
    | [n, name, d, a] => do
      let number ← numTok? n
      let name ← strLit? name
      let default ← numTok? d
      let allowed ← (match a.rule, a.children with
        | .slot_value_range, [x, y] => do
          let x ← numTok? x
          let y ← numTok? y
          pure (AllowedAst.range x y)
        | .slot_value_set, vs => (numToks? vs).map AllowedAst.set
        | _, _ => none : Option AllowedAst)
      let more ← slots? rest
      pure ({ number, name, default, allowed } :: more)
    | _ => none

def stmt? (p : Pair) : Option (Option Stmt) :=
  match p.rule with
  | .prm_text =>
    match p.children with
    | id :: lines => do
      let id ← numTok? id
      let values ← valueLines? .prm_text_value lines
      pure (some (.prmText { id, values }))
    | [] => none
  | .ext_user_prm_data => (extPrm? p).map fun e => some (.extPrm e)
  | .module => (module? p).map fun m => some (.module m)
  | .slot_definition => (slots? p.children).map fun ss => some (.slots ss)
  | .unit_diag_area =>
    match p.children with
    | a :: b :: lines => do
      let first ← numTok? a
      let last ← numTok? b
      let values ← valueLines? .unit_diag_area_value lines
      pure (some (.area { first, last, values }))
    | _ => none
  | .setting => (setting? p).map fun s => some (.setting s)
  | .unit_diag_type | .version_dl_definition | .physical_interface | .jokerblock_type => some (some .ignored)
  | .any_text | .start | .EOI => some none     -- `_ => ()` arm, not statements
  | _ => none

def stmts? : List Pair → Option Ast
  | [] => some []
  | p :: rest => do
    let s ← stmt? p
    let more ← stmts? rest
    pure (match s with | some s => s :: more | none => more)

def toAst (p : Pair) : Option Ast :=
  if p.rule = .gsd then stmts? p.children else none

end PV.Gsd.Peg

namespace PV.Gsd

/-- End-to-end model of `gsd_parser::parser::parse_with_warnings` = PEG ∘ interp.
`none` only if the PEG fuel bound was too small. -/
def parse (text : Str) : Option (Res (Desc × List Warn)) :=
  match Peg.parseGsd text with
  | none => none
  | some none => some (.err .syntax)
  | some (some tree) =>
    match Peg.toAst tree with
    | none => some .panic
    | some ast => some (interp ast)

end PV.Gsd
