/-
Model of the generic receive helpers of `ProfibusPhy` (`src/phy/mod.rs:124-202`):
`receive_telegram`, `receive_all_telegrams`, `poll_pending_received_bytes`, over a PHY whose
`receive_data(f)` hands `f` the pending bytes and then drops as many bytes as `f` says.
Import-free (linked into the driver).
-/
import ProfiVerif.Model.Telegram

namespace PV

/-- Outcome of one call of a receive helper. `buf` = what stays in the PHY buffer,
`calls` = the callback invocations `(telegram, is_last)` in order, `ret` = whether the helper
returned `Some(..)` (for `receive_all_telegrams`: the last callback had `is_last = true`). -/
inductive RxResult
  | done (buf : Bytes) (calls : List (Telegram × Bool)) (ret : Bool)
  | panic      -- decoder panic, or `drop > pending.len()` (PHY assertion / slice out of range)
  | hang       -- the `loop` of `receive_all_telegrams` would not terminate
  deriving DecidableEq, Repr

/-- `receive_telegram`: at most one telegram; `is_last` is not passed by the Rust code, the model
records `length == buffer.len()` (what the trace log reports) for uniformity. -/
def receiveTelegram (buf : Bytes) : RxResult :=
  match deserialize buf with
  | .panic => .panic
  | .reject => .done [] [] false
  | .needMore => .done buf [] false
  | .accept t n =>
    if n > buf.length then .panic else .done (buf.drop n) [(t, n == buf.length)] true

/-- The `loop` of `receive_all_telegrams` with explicit fuel (`hang` when it runs out). -/
def receiveAllFuel : Nat → Bytes → List (Telegram × Bool) → RxResult
  | 0, _, _ => .hang
  | fuel + 1, buf, acc =>
    match deserialize buf with
    | .panic => .panic
    | .reject => .done [] acc false
    | .needMore => .done buf acc false
    | .accept t n =>
      if n > buf.length then .panic
      else if n == buf.length then .done [] (acc ++ [(t, true)]) true
      else receiveAllFuel fuel (buf.drop n) (acc ++ [(t, false)])

/-- `receive_all_telegrams` (fuel = one iteration per buffered byte, plus one). -/
def receiveAll (buf : Bytes) : RxResult := receiveAllFuel (buf.length + 1) buf []

/-- A telegram the stack can build (C09's domain). -/
def Telegram.Valid : Telegram → Prop
  | .data h pdu => h.da < 128 ∧ h.sa < 128 ∧ h.lengthByte pdu.length ≤ 249
  | .token _ _ => True
  | .sc => True

instance : DecidablePred Telegram.Valid := fun t => by
  cases t <;> unfold Telegram.Valid <;> infer_instance

/-- Wire bytes of a valid telegram. -/
def Telegram.wire : Telegram → Bytes
  | .data h pdu => frameSpec h pdu
  | .token da sa => sendToken da sa
  | .sc => sendSc

def streamOf (ts : List Telegram) : Bytes := (ts.map Telegram.wire).flatten

/-- Operations on a PHY receive buffer. -/
inductive RxOp
  | arrive (chunk : Bytes)
  | recvAll
  | recvOne
  deriving Repr

/-- Buffer after the op and the telegrams it delivered (`none` = panic/hang). -/
def stepRx (buf : Bytes) : RxOp → Option (Bytes × List (Telegram × Bool))
  | .arrive c => some (buf ++ c, [])
  | .recvAll => match receiveAll buf with
    | .done b calls _ => some (b, calls)
    | _ => none
  | .recvOne => match receiveTelegram buf with
    | .done b calls _ => some (b, calls)
    | _ => none

def runRx (buf : Bytes) : List RxOp → Option (Bytes × List (Telegram × Bool))
  | [] => some (buf, [])
  | op :: ops =>
    match stepRx buf op with
    | none => none
    | some (b, d) =>
      match runRx b ops with
      | none => none
      | some (b', d') => some (b', d ++ d')

def arrivals : List RxOp → Bytes
  | [] => []
  | .arrive c :: ops => c ++ arrivals ops
  | _ :: ops => arrivals ops

end PV
