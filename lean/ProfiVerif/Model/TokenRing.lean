/-
Model of `src/fdl/token_ring.rs`: the LAS (list of active stations) as a 128-bit set, its
discovery/verification state machine, NS/PS computation.  Import-free.
-/
namespace PV

inductive LasState
  | uninitialized | discovery | verification | valid
  deriving DecidableEq, Repr, Inhabited

structure TokenRing where
  active : Vector Bool 128
  las : LasState
  ts : Nat
  ns : Nat
  ps : Nat

namespace TokenRing

/-- Bit `a` of the LAS (`false` outside 0..127 — the Rust code would panic there; the callers below
guard every index explicitly). -/
def isActive (r : TokenRing) (a : Nat) : Bool := if h : a < 128 then r.active[a] else false

/-- `TokenRing::new`: only TS itself is entered. Precondition (asserted by `ParametersBuilder`): TS ≤ 125. -/
def new (ts : Nat) : TokenRing :=
  { active := Vector.ofFn fun i => decide (i.val = ts), las := .uninitialized, ts := ts, ns := ts, ps := ts }

def activeList (r : TokenRing) : List Nat := (List.range 128).filter r.isActive

/-- The address range a witnessed pass SA→DA declares empty: `[SA, DA)` going upwards, cyclically
(everything when DA = SA). -/
def inPassGap (sa da a : Nat) : Bool :=
  if da > sa then decide (sa ≤ a ∧ a < da) else decide (sa ≤ a ∨ a < da)

/-- `update_next_previous`. -/
def updateNextPrev (r : TokenRing) : TokenRing :=
  let l := r.activeList
  let ns := match l.find? (fun a => a > r.ts) with
    | some a => a
    | none => match l.head? with
      | some a => a
      | none => r.ts
  let ps := match l.reverse.find? (fun a => a < r.ts) with
    | some a => a
    | none => match l.getLast? with
      | some a => a
      | none => r.ts
  { r with ns := ns, ps := ps }

/-- `update_las_from_token_pass` (callers guarantee SA, DA ≤ 127). -/
def updateLas (r : TokenRing) (sa da : Nat) : TokenRing :=
  updateNextPrev { r with active := Vector.ofFn fun i =>
    if i.val = sa then true else if inPassGap sa da i.val then false else r.active[i] }

/-- `verify_las_from_token_pass`. -/
def verifyLas (r : TokenRing) (sa da : Nat) : Bool :=
  r.isActive sa && r.isActive da &&
    (if da > sa then (List.range 128).all fun a => !(decide (sa + 1 ≤ a ∧ a < da) && r.isActive a)
     else (List.range 128).all fun a => !(decide (sa + 1 ≤ a ∨ a < da) && r.isActive a))

/-- `witness_token_pass`. -/
def witness (r : TokenRing) (sa da : Nat) : TokenRing :=
  if sa > 125 then r else
  if da > 125 then r else
  match r.las with
  | .uninitialized => if da ≤ sa then { r with las := .discovery } else r
  | .discovery =>
    let r' := r.updateLas sa da
    if da ≤ sa then { r' with las := .verification } else r'
  | .verification =>
    if !r.verifyLas sa da then { (r.updateLas sa da) with las := .discovery }
    else if da ≤ sa then { r with las := .valid } else r
  | .valid => r.updateLas sa da

/-- `claim_token`. -/
def claimToken (r : TokenRing) : TokenRing := { r with las := .valid }

/-- `set_next_station(address)`; `none` = the bit index is out of range (Rust panics). -/
def setNextStation (r : TokenRing) (a : Nat) : Option TokenRing :=
  if a ≥ 128 then none else
  some (updateLas { r with active := Vector.ofFn fun i => if i.val = a then true else r.active[i] } r.ts a)

/-- `remove_station(address)`. -/
def removeStation (r : TokenRing) (a : Nat) : Option TokenRing :=
  if a ≥ 128 then none else
  some (updateNextPrev { r with active := Vector.ofFn fun i => if i.val = a then false else r.active[i] })

def readyForRing (r : TokenRing) : Bool := r.las = .valid

end TokenRing
end PV
