/-
Model of `src/dp/diagnostics.rs`, of `Peripheral::handle_diagnostics_response`
(`src/dp/peripheral.rs`) and of `DpScanner::parse_diag_response` (`src/dp/scan.rs`).

Import-free (core only; `Model/Telegram` is import-free itself): linked into the compiled driver.
Every Rust index / slice / `unwrap` / `unreachable!` reachable from the modelled entry points is an
explicit `.panic` outcome, the iterator loop has an explicit `.hang` outcome (fuel exhausted), so
that "never panics" and "terminates" are theorems (Props/C17) and not artefacts of the modelling.

The second half of the file (`namespace Spec`) is the *independent specification* the theorems
compare the model with and the oracle evaluates on the implementation's observations: it is written
with `Nat` arithmetic (`/`, `%`) over the block bytes instead of the shifts, masks and the cursor of
the code.
-/
import ProfiVerif.Model.Telegram

namespace PV.Diag
open PV

/-! ## The six header bytes -/

/-- `DiagnosticFlags::PERMANENT_BIT` / `DiagnosticFlags::EXT_DIAG`. -/
def PERMANENT_BIT : UInt16 := 0x0400
def EXT_DIAG : UInt16 := 0x0008

/-- `DiagnosticsInfo` (`flags` = the `bits()` of the bitflags value). -/
structure DiagInfo where
  flags : UInt16
  ident : UInt16
  master : Option UInt8
  deriving DecidableEq, Repr, Inhabited

/-- `u16::from_le_bytes([b0, b1])`, `u16::from_be_bytes([b0, b1])`. -/
def le16 (b0 b1 : UInt8) : UInt16 := b0.toUInt16 ||| (b1.toUInt16 <<< 8)
def be16 (b0 b1 : UInt8) : UInt16 := (b0.toUInt16 <<< 8) ||| b1.toUInt16

inductive Parsed
  | reject
  | accept (d : DiagInfo)
  | panic
  deriving DecidableEq, Repr

/-- The PDU part of `handle_diagnostics_response` / `parse_diag_response`, after the
`t.pdu.len() < 6` rejection.  The three `.panic` lines are the bounds checks of `t.pdu[3]`,
`t.pdu[0..2]` and `t.pdu[4..6]`. -/
def decodeInfo (pdu : Bytes) : Parsed :=
  if pdu.length < 6 then .reject else
  if pdu.length ≤ 3 then .panic else
  let master := if pdu.getD 3 0 = 255 then none else some (pdu.getD 3 0)
  if pdu.length < 2 then .panic else
  let flags := le16 (pdu.getD 0 0) (pdu.getD 1 0)
  if pdu.length < 6 then .panic else
  let ident := be16 (pdu.getD 4 0) (pdu.getD 5 0)
  -- `diag.flags.remove(DiagnosticFlags::PERMANENT_BIT)`
  .accept { flags := flags &&& ~~~PERMANENT_BIT, ident := ident, master := master }

/-- Acceptance conditions + header decoding (identical code in peripheral.rs and scan.rs). -/
def parseReply (t : Telegram) : Parsed :=
  match t with
  | .data h pdu =>
    if h.dsap ≠ SAP_MASTER_MS0 then .reject
    else if h.ssap ≠ SAP_SLAVE_DIAGNOSIS then .reject
    else decodeInfo pdu
  | .token _ _ => .reject
  | .sc => .reject

/-! ## `ExtendedDiagnostics` -/

/-- `buffer` (the whole user buffer, `buf.length` = its capacity) and `length`. -/
structure ExtDiag where
  buf : Bytes
  length : Nat
  deriving DecidableEq, Repr, Inhabited

/-- `from_buffer` on a zeroed buffer of `n` bytes; `n = 0` is also `Default` (no buffer attached). -/
def ExtDiag.ofSize (n : Nat) : ExtDiag := { buf := List.replicate n 0, length := 0 }

def ExtDiag.isAvailable (e : ExtDiag) : Bool := e.buf.length > 0

/-- `Option<&[u8]>` plus the panic of `&self.buffer[..self.length]`. -/
inductive Raw
  | none
  | some (bs : Bytes)
  | panic
  deriving DecidableEq, Repr

def ExtDiag.raw (e : ExtDiag) : Raw :=
  if !e.isAvailable then .none
  else if e.length > e.buf.length then .panic
  else .some (e.buf.take e.length)

/-- `fill`: the new value and the returned `bool`.  When the data does not fit (or no buffer
exists) *nothing* changes: buffer content and `length` of the previous reply are kept.
(`self.buffer[..buf.len()].copy_from_slice(buf)` cannot panic behind the length guard.) -/
def ExtDiag.fill (e : ExtDiag) (src : Bytes) : ExtDiag × Bool :=
  if e.buf.length = 0 then (e, false)
  else if e.buf.length < src.length then (e, false)
  else ({ buf := src ++ e.buf.drop src.length, length := src.length }, true)

/-- `take_buffer`: length reset, buffer moved out (used by `reset_address`, which re-attaches it). -/
def ExtDiag.takeBuffer (e : ExtDiag) : ExtDiag × Bytes := ({ buf := [], length := 0 }, e.buf)

/-! ## Blocks -/

inductive DataType
  | bit | bit2 | bit4 | byte | word | dword | invalid
  deriving DecidableEq, Repr, Inhabited

inductive ChanError
  | shortCircuit | underVoltage | overVoltage | overLoad | overTemperature | lineBreak
  | upperLimitOvershoot | lowerLimitUndershoot | error
  | reserved (r : UInt8)
  | vendor (v : UInt8)
  deriving DecidableEq, Repr, Inhabited

structure ChannelDiag where
  module : UInt8
  channel : UInt8
  input : Bool
  output : Bool
  dtype : DataType
  error : ChanError
  deriving DecidableEq, Repr, Inhabited

/-- `ExtDiagBlock`; the identifier bit-slice is represented by the bytes it views. -/
inductive Block
  | identifier (bits : Bytes)
  | channel (c : ChannelDiag)
  | device (data : Bytes)
  deriving DecidableEq, Repr, Inhabited

/-- `ChannelDataType::from_diag_byte2`. -/
def DataType.fromByte2 (b : UInt8) : DataType :=
  let t := b >>> 5
  if t = 1 then .bit else if t = 2 then .bit2 else if t = 3 then .bit4 else if t = 4 then .byte
  else if t = 5 then .word else if t = 6 then .dword else .invalid

/-- `ChannelError::from_diag_byte2`. -/
def ChanError.fromByte2 (b : UInt8) : ChanError :=
  let e := b &&& 0x1f
  if e = 1 then .shortCircuit else if e = 2 then .underVoltage else if e = 3 then .overVoltage
  else if e = 4 then .overLoad else if e = 5 then .overTemperature else if e = 6 then .lineBreak
  else if e = 7 then .upperLimitOvershoot else if e = 8 then .lowerLimitUndershoot
  else if e = 9 then .error
  else if 16 ≤ e ∧ e ≤ 31 then .vendor e
  else .reserved e

/-- Result of one `ExtDiagBlockIter::next` call: `None` / `Some(block)` with the new cursor. -/
inductive Next
  | done (cursor : Nat)
  | yield (b : Block) (cursor : Nat)
  | panic
  deriving DecidableEq, Repr

/-- `ExtDiagBlockIter::next` at cursor `cursor` over `raw_diag_buffer()`.
No buffer attached (`raw_diag_buffer()` is `None`): `None`, cursor untouched (since /repo b0f2752;
before that the `unwrap()` panicked — finding C17-N1).
Panic sites: `remainder[0]`, `&remainder[1..length]` (twice), `remainder[1]`/`remainder[2]`,
`unreachable!()`, and the slice inside `raw_diag_buffer()` itself (`Raw.panic`). -/
def next (raw : Raw) (cursor : Nat) : Next :=
  match raw with
  | .none => .done cursor
  | .panic => .panic
  | .some rb =>
    if cursor ≥ rb.length then .done cursor else
    -- `&raw_buffer[self.cursor..]` : cursor < len here
    let rem := rb.drop cursor
    -- `remainder[0]`
    if rem.length = 0 then .panic else
    let header := rem.getD 0 0
    let ty := header >>> 6
    if ty = 1 then
      let length := (header &&& 0x3f).toNat
      if length = 0 ∨ rem.length < length then .done rb.length
      -- `&remainder[1..length]`
      else if length < 1 ∨ rem.length < length then .panic
      else .yield (.identifier ((rem.take length).drop 1)) (cursor + length)
    else if ty = 2 then
      if rem.length < 3 then .done rb.length
      -- `remainder[1]`, `remainder[2]`
      else if rem.length ≤ 2 then .panic
      else
        let b0 := rem.getD 0 0
        let b1 := rem.getD 1 0
        let b2 := rem.getD 2 0
        .yield (.channel {
          module := b0 &&& 0x3f, channel := b1 &&& 0x3f,
          input := b1 &&& 0x40 ≠ 0, output := b1 &&& 0x80 ≠ 0,
          dtype := DataType.fromByte2 b2, error := ChanError.fromByte2 b2 }) (cursor + 3)
    else if ty = 0 then
      let length := (header &&& 0x3f).toNat
      if length = 0 ∨ rem.length < length then .done rb.length
      else if length < 1 ∨ rem.length < length then .panic
      else .yield (.device ((rem.take length).drop 1)) (cursor + length)
    else if ty = 3 then .done rb.length
    else .panic -- `unreachable!()`

/-- Outcome of running the iterator to exhaustion (`for block in ext.iter_diag_blocks()`). -/
inductive Iter
  | ok (bs : List Block)
  | panic
  | hang
  deriving DecidableEq, Repr

/-- Call `next` until it returns `None`, at most `fuel` times (`.hang` = fuel exhausted). -/
def collect : Nat → Raw → Nat → Iter
  | 0, _, _ => .hang
  | fuel + 1, raw, cursor =>
    match next raw cursor with
    | .panic => .panic
    | .done _ => .ok []
    | .yield b c =>
      match collect fuel raw c with
      | .ok bs => .ok (b :: bs)
      | .panic => .panic
      | .hang => .hang

def rawLen : Raw → Nat
  | .some bs => bs.length
  | _ => 0

/-- `iter_diag_blocks()` run to exhaustion.  Fuel `length + 1` suffices (theorem `blocks_total`),
any larger fuel gives the same result (`collect_fuel`). -/
def iterBlocks (raw : Raw) : Iter := collect (rawLen raw + 1) raw 0

def ExtDiag.blocks (e : ExtDiag) : Iter := iterBlocks e.raw

/-- `impl Debug for ExtendedDiagnostics`: iterates only when a buffer exists (it keeps its own
`is_available()` guard). `true` = it panics
or does not return. -/
def ExtDiag.debugFails (e : ExtDiag) : Bool :=
  if e.isAvailable then (match e.blocks with | .ok _ => false | _ => true) else false

/-! ## Bits of an identifier block (`BitSlice<u8, Lsb0>::iter_ones`) -/

def byteOnes (b : UInt8) (base : Nat) : List Nat :=
  ((List.range 8).filter fun k => (b >>> UInt8.ofNat k) &&& 1 = 1).map (base + ·)

def onesFrom : Bytes → Nat → List Nat
  | [], _ => []
  | b :: bs, base => byteOnes b base ++ onesFrom bs (base + 8)

/-- Indices of the set bits, ascending; bit `k` of byte `j` has index `8 j + k`. -/
def ones (bs : Bytes) : List Nat := onesFrom bs 0

/-! ## `Peripheral`: diagnostics part of the state and `handle_diagnostics_response` -/

/-- `Peripheral::{diag, ext_diag}`. -/
structure PState where
  info : Option DiagInfo
  ext : ExtDiag
  deriving DecidableEq, Repr, Inhabited

def PState.init (bufsize : Nat) : PState := { info := none, ext := ExtDiag.ofSize bufsize }

inductive Handled
  | rejected
  | accepted (s : PState)
  | panic
  deriving DecidableEq, Repr

/-- `handle_diagnostics_response` (`None` = `.rejected`, nothing is written before that).
Panic sites besides those of `decodeInfo`: `&t.pdu[6..]`, and the
`log::debug!("… {:?}", self.ext_diag)` after a successful `fill` (the logger may format it). -/
def handle (s : PState) (t : Telegram) : Handled :=
  match t with
  | .data h pdu =>
    if h.dsap ≠ SAP_MASTER_MS0 then .rejected
    else if h.ssap ≠ SAP_SLAVE_DIAGNOSIS then .rejected
    else
      match decodeInfo pdu with
      | .reject => .rejected
      | .panic => .panic
      | .accept d =>
        if d.flags &&& EXT_DIAG ≠ 0 then
          if pdu.length < 6 then .panic else
          let r := s.ext.fill (pdu.drop 6)
          if r.2 ∧ r.1.debugFails then .panic
          else .accepted { info := some d, ext := r.1 }
        else .accepted { info := some d, ext := s.ext }
  | .token _ _ => .rejected
  | .sc => .rejected

/-- `Peripheral::last_diagnostics()` as the user sees it. -/
structure LastDiag where
  info : DiagInfo
  raw : Raw
  deriving DecidableEq, Repr

def PState.last (s : PState) : Option LastDiag :=
  s.info.map fun d => { info := d, raw := s.ext.raw }

/-- The clean diagnostics reply the harness uses to bring a peripheral into data exchange (mode `dx`). -/
def bringupPdu : Bytes := [0x00, 0x04, 0x00, 0xff, 0x00, 0x00]
def goodHeader : Header :=
  { da := 2, sa := 7, dsap := some 62, ssap := some 60, fc := .response .slave .dataLow }

/-- State of a fresh peripheral; in mode `dx` after the two bring-up replies. -/
def PState.start (bufsize : Nat) (dx : Bool) : Option PState :=
  let s0 := PState.init bufsize
  if dx then
    match handle s0 (.data goodHeader bringupPdu) with
    | .accepted s1 =>
      match handle s1 (.data goodHeader bringupPdu) with
      | .accepted s2 => some s2
      | _ => none
    | _ => none
  else some s0

/-! ## `DpScanner` -/

inductive ScanEvent
  | found (addr : UInt8) (ident : UInt16) (master : Option UInt8)
  | requery (addr : UInt8) (ident : UInt16) (master : Option UInt8)
  deriving DecidableEq, Repr

inductive ScanOutcome
  | event (e : Option ScanEvent) (known' : Bool)
  | panic
  deriving DecidableEq, Repr

/-- `DpScanner::receive_reply` for a station address `< 128` that is (`known`) or is not yet in the
scanner's station set. -/
def scanReply (known : Bool) (addr : UInt8) (t : Telegram) : ScanOutcome :=
  match parseReply t with
  | .panic => .panic
  | .reject => .event none known
  | .accept d =>
    if known then .event (some (.requery addr d.ident d.master)) true
    else .event (some (.found addr d.ident d.master)) true

/-! ## Independent specification -/

namespace Spec

/-- Length of the well-formed block at the head of `bs`; `none` = the head is malformed
(reserved type, zero length, or cut off). -/
def blockLen (bs : Bytes) : Option Nat :=
  match bs with
  | [] => none
  | h :: _ =>
    let ty := h.toNat / 64
    let n := h.toNat % 64
    if ty = 3 then none
    else if ty = 2 then (if 3 ≤ bs.length then some 3 else none)
    else if n = 0 then none
    else if n ≤ bs.length then some n else none

def dataTypeTable : List DataType :=
  [.invalid, .bit, .bit2, .bit4, .byte, .word, .dword, .invalid]

def errorOf (e : Nat) : ChanError :=
  match e with
  | 1 => .shortCircuit | 2 => .underVoltage | 3 => .overVoltage | 4 => .overLoad
  | 5 => .overTemperature | 6 => .lineBreak | 7 => .upperLimitOvershoot
  | 8 => .lowerLimitUndershoot | 9 => .error
  | e => if 16 ≤ e then .vendor (UInt8.ofNat e) else .reserved (UInt8.ofNat e)

/-- Meaning of one complete block (its bytes exactly). -/
def decode (blk : Bytes) : Block :=
  let h := (blk.getD 0 0).toNat
  if h / 64 = 1 then .identifier (blk.drop 1)
  else if h / 64 = 2 then
    let b1 := (blk.getD 1 0).toNat
    let b2 := (blk.getD 2 0).toNat
    .channel {
      module := UInt8.ofNat (h % 64), channel := UInt8.ofNat (b1 % 64),
      input := b1 / 64 % 2 = 1, output := b1 / 128 = 1,
      dtype := dataTypeTable.getD (b2 / 32) .invalid, error := errorOf (b2 % 32) }
  else .device (blk.drop 1)

def parseAux : Nat → Bytes → List Block
  | 0, _ => []
  | fuel + 1, bs =>
    match blockLen bs with
    | none => []
    | some n => decode (bs.take n) :: parseAux fuel (bs.drop n)

/-- The blocks of a byte string: split off well-formed blocks from the front until the string is
exhausted or its head is malformed (`parse_unfold` is the fuel-free recursion equation). -/
def parse (bs : Bytes) : List Block := parseAux bs.length bs

/-- Set bits of an identifier block, ascending (bit `i % 8` of byte `i / 8`). -/
def ones (bs : Bytes) : List Nat :=
  (List.range (8 * bs.length)).filter fun i => (bs.getD (i / 8) 0).toNat / 2 ^ (i % 8) % 2 = 1

/-- Header fields as numbers. -/
def flagsNat (pdu : Bytes) : Nat :=
  let raw := (pdu.getD 0 0).toNat + 256 * (pdu.getD 1 0).toNat
  if raw / 1024 % 2 = 1 then raw - 1024 else raw
def identNat (pdu : Bytes) : Nat := 256 * (pdu.getD 4 0).toNat + (pdu.getD 5 0).toNat
def masterOf (pdu : Bytes) : Option UInt8 := if pdu.getD 3 0 = 255 then none else some (pdu.getD 3 0)
def extFlag (pdu : Bytes) : Bool := (pdu.getD 0 0).toNat / 8 % 2 = 1

/-- A reply is a diagnostics reply iff it is a data telegram DSAP 62 ← SSAP 60 with ≥ 6 bytes. -/
def accepts (t : Telegram) : Bool :=
  match t with
  | .data h pdu => h.dsap = some 62 ∧ h.ssap = some 60 ∧ 6 ≤ pdu.length
  | _ => false

/-- Ext. data are stored iff the flag is set, a buffer exists, and they fit. -/
def stores (cap : Nat) (pdu : Bytes) : Bool := extFlag pdu ∧ 0 < cap ∧ pdu.length - 6 ≤ cap

end Spec

end PV.Diag
