/-
Model of the harness bus of DESIGN 5.1 with N station models on it (`net` engine).
Identical, operation for operation, to `harness/src/net.rs`.  Import-free.
-/
import ProfiVerif.Model.Station

namespace PV

structure Transmission where
  start : Int
  sender : Nat
  bytes : Bytes
  dropped : Bool

structure Bus where
  rate : Nat
  txs : List Transmission := []          -- oldest first
  seen : List Int := []
  corrupt : List (Int × Int) := []
  drops : List Nat := []

namespace Bus

/-- End of byte `k` relative to the start of its transmission: ⌈11·(k+1)·10⁶ / rate⌉ µs. -/
def byteEnd (b : Bus) (k : Nat) : Int := ((11 * (k + 1) * 1000000 + b.rate - 1) / b.rate : Nat)

def txEnd (b : Bus) (t : Transmission) : Int := t.start + b.byteEnd (t.bytes.length - 1)

/-- Does byte `k` of transmission number `ti` overlap in time with any other transmission? -/
def collides (b : Bus) (ti : Nat) (t : Transmission) (k : Nat) : Bool :=
  let b0 := t.start + (if k = 0 then 0 else b.byteEnd (k - 1))
  let b1 := t.start + b.byteEnd k
  (b.txs.zipIdx).any fun (o, j) => j != ti && !o.dropped && decide (o.start < b1) && decide (b.txEnd o > b0)

/-- Insertion sort key order (arrival time, transmission index, byte index). -/
def keyLe (x y : Int × Nat × Nat × UInt8) : Bool :=
  x.1 < y.1 || (x.1 == y.1 && (x.2.1 < y.2.1 || (x.2.1 == y.2.1 && x.2.2.1 ≤ y.2.2.1)))

def insertSorted (x : Int × Nat × Nat × UInt8) : List (Int × Nat × Nat × UInt8) → List (Int × Nat × Nat × UInt8)
  | [] => [x]
  | y :: ys => if keyLe x y then x :: y :: ys else y :: insertSorted x ys

/-- Bytes that become visible to station `i` in the interval `(seen[i], now]`, in arrival order. -/
def deliver (b : Bus) (i : Nat) (now : Int) : Bus × Bytes :=
  let frm := b.seen.getD i 0
  let items := (b.txs.zipIdx).foldl (fun acc (t, ti) =>
      if t.sender = i ∨ t.dropped ∨ b.txEnd t ≤ frm ∨ t.start ≥ now then acc else
      (List.range t.bytes.length).foldl (fun acc k =>
        let at' := t.start + b.byteEnd k
        if at' > frm ∧ at' ≤ now then
          let raw := t.bytes.getD k 0
          let byte := if b.collides ti t k || b.corrupt.any (fun w => decide (at' > w.1) && decide (at' ≤ w.2)) then 0 else raw
          insertSorted (at', ti, k, byte) acc
        else acc) acc) []
  ({ b with seen := b.seen.set i now }, items.map (·.2.2.2))

def transmitting (b : Bus) (i : Nat) (now : Int) : Bool :=
  match b.txs.reverse.find? (·.sender = i) with
  | some t => decide (now < b.txEnd t)
  | none => false

def send (b : Bus) (i : Nat) (now : Int) (bytes : Bytes) : Bus :=
  let dropped := b.drops.contains 0
  let drops := (if dropped then b.drops.erase 0 else b.drops).map (· - 1)
  let txs := b.txs ++ [{ start := now, sender := i, bytes := bytes, dropped := dropped }]
  -- transmissions that ended more than 100 ms ago are forgotten (as in harness/src/net.rs)
  { b with drops := drops, txs := txs.filter fun t => decide (b.txEnd t + 100000 > now) }

end Bus

structure NetStation where
  s : Station
  apps : Apps
  rx : Bytes := []
  online : Bool := false
  dead : Bool := false

structure Net where
  bus : Bus
  stations : List NetStation

/-- One `net.poll i now`: deliver, poll, transmit.  Returns the delivered bytes and the poll result. -/
def Net.poll (n : Net) (i : Nat) (now : Int) : Net × Bytes × Option Res :=
  let (bus, incoming) := n.bus.deliver i now
  match n.stations[i]? with
  | none => ({ n with bus := bus }, incoming, none)
  | some st =>
    if st.dead then ({ n with bus := bus }, incoming, none) else
    let rx := if st.online then st.rx ++ incoming else st.rx
    let r := st.s.poll st.apps now (bus.transmitting i now) rx
    match r with
    | .panic _ => ({ bus := bus, stations := n.stations.set i { st with dead := true, rx := rx } }, incoming, some r)
    | .ok c =>
      let bus := match c.tx with
        | some b => bus.send i now b
        | none => bus
      ({ bus := bus, stations := n.stations.set i { st with s := c.s, apps := c.apps, rx := c.rx } }, incoming, some r)

end PV
