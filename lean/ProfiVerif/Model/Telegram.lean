/-
Model of `src/fdl/telegram.rs` (and the constants of `src/consts.rs`).

Import-free on purpose: this file is also linked into the compiled driver.
Bytes are `UInt8`, buffers are `List UInt8`.  Every Rust index / slice that could
panic is an explicit `.panic` outcome here (never a totalised default), so that
"the decoder never panics" is a theorem and not an artefact of the modelling.
-/

namespace PV

abbrev Bytes := List UInt8

/-! ## Constants (`src/consts.rs`) — cross-checked against the source by `tools/extract_consts.py` -/
def SD1 : UInt8 := 0x10
def SD2 : UInt8 := 0x68
def SD3 : UInt8 := 0xA2
def SD4 : UInt8 := 0xDC
def ED  : UInt8 := 0x16
def SC  : UInt8 := 0xE5

def SAP_MASTER_MS0 : Option UInt8 := some 62
def SAP_SLAVE_GLOBAL_CONTROL : Option UInt8 := some 58
def SAP_SLAVE_DIAGNOSIS : Option UInt8 := some 60
def SAP_SLAVE_SET_PRM : Option UInt8 := some 61
def SAP_SLAVE_CHK_CFG : Option UInt8 := some 62

/-! ## Function code -/

inductive RequestType
  | clockValue | timeEvent | sdaLow | sdnLow | sdaHigh | sdnHigh
  | multicastSrd | fdlStatus | srdLow | srdHigh | ident | lsapStatus
  deriving DecidableEq, Repr, Inhabited

def RequestType.toU8 : RequestType → UInt8
  | .clockValue => 0x80 | .timeEvent => 0 | .sdaLow => 3 | .sdnLow => 4
  | .sdaHigh => 5 | .sdnHigh => 6 | .multicastSrd => 7 | .fdlStatus => 9
  | .srdLow => 12 | .srdHigh => 13 | .ident => 14 | .lsapStatus => 15

def RequestType.fromU8 (b : UInt8) : Option RequestType :=
  if b = 0x80 then some .clockValue else
  if b = 0 then some .timeEvent else
  if b = 3 then some .sdaLow else
  if b = 4 then some .sdnLow else
  if b = 5 then some .sdaHigh else
  if b = 6 then some .sdnHigh else
  if b = 7 then some .multicastSrd else
  if b = 9 then some .fdlStatus else
  if b = 12 then some .srdLow else
  if b = 13 then some .srdHigh else
  if b = 14 then some .ident else
  if b = 15 then some .lsapStatus else none

def RequestType.expectsReply : RequestType → Bool
  | .clockValue | .timeEvent | .sdnLow | .sdnHigh => false
  | _ => true

inductive ResponseState
  | slave | masterNotReady | masterWithoutToken | masterInRing
  deriving DecidableEq, Repr, Inhabited

def ResponseState.toU8 : ResponseState → UInt8
  | .slave => 0 | .masterNotReady => 1 | .masterWithoutToken => 2 | .masterInRing => 3

def ResponseState.fromU8 (b : UInt8) : Option ResponseState :=
  if b = 0 then some .slave else
  if b = 1 then some .masterNotReady else
  if b = 2 then some .masterWithoutToken else
  if b = 3 then some .masterInRing else none

inductive ResponseStatus
  | ok | userError | noResources | sapNotEnabled | dataLow | noDataReady | dataHigh
  | notReceivedDataLow | notReceivedDataHigh
  deriving DecidableEq, Repr, Inhabited

def ResponseStatus.toU8 : ResponseStatus → UInt8
  | .ok => 0 | .userError => 1 | .noResources => 2 | .sapNotEnabled => 3 | .dataLow => 8
  | .noDataReady => 9 | .dataHigh => 10 | .notReceivedDataLow => 12 | .notReceivedDataHigh => 13

def ResponseStatus.fromU8 (b : UInt8) : Option ResponseStatus :=
  if b = 0 then some .ok else
  if b = 1 then some .userError else
  if b = 2 then some .noResources else
  if b = 3 then some .sapNotEnabled else
  if b = 8 then some .dataLow else
  if b = 9 then some .noDataReady else
  if b = 10 then some .dataHigh else
  if b = 12 then some .notReceivedDataLow else
  if b = 13 then some .notReceivedDataHigh else none

inductive FrameCountBit
  | first | high | low | inactive
  deriving DecidableEq, Repr, Inhabited

namespace FrameCountBit
/-- `cycle()`; `none` = the `panic!("FCB must not be inactive to be cycled!")`. -/
def cycle : FrameCountBit → Option FrameCountBit
  | .first => some .low | .high => some .low | .low => some .high | .inactive => none
def fcb : FrameCountBit → Bool
  | .first => true | .high => true | .low => false | .inactive => false
def fcv : FrameCountBit → Bool
  | .first => false | .high => true | .low => true | .inactive => false
def fromFcvFcb : Bool → Bool → FrameCountBit
  | false, false => .inactive | false, true => .first | true, true => .high | true, false => .low
end FrameCountBit

inductive FunctionCode
  | request (fcb : FrameCountBit) (req : RequestType)
  | response (state : ResponseState) (status : ResponseStatus)
  deriving DecidableEq, Repr, Inhabited

inductive FcParseError
  | invalidRequestType | invalidResponseState | invalidResponseStatus
  deriving DecidableEq, Repr

def b2u8 (b : Bool) : UInt8 := if b then 1 else 0

def FunctionCode.toByte : FunctionCode → UInt8
  | .request fcb req =>
      (0x40 : UInt8) ||| req.toU8 ||| ((b2u8 fcb.fcv) <<< 4) ||| ((b2u8 fcb.fcb) <<< 5)
  | .response state status => (state.toU8 <<< 4) ||| status.toU8

def FunctionCode.fromByte (b : UInt8) : Except FcParseError FunctionCode :=
  if b &&& 0x40 ≠ 0 then
    let fcv : Bool := b &&& 0x10 ≠ 0
    let fcb : Bool := b &&& 0x20 ≠ 0
    match RequestType.fromU8 (b &&& 0x8F) with
    | none => .error .invalidRequestType
    | some req => .ok (.request (FrameCountBit.fromFcvFcb fcv fcb) req)
  else
    match ResponseState.fromU8 ((b &&& 0x30) >>> 4) with
    | none => .error .invalidResponseState
    | some state =>
      match ResponseStatus.fromU8 (b &&& 0x0F) with
      | none => .error .invalidResponseStatus
      | some status => .ok (.response state status)

/-! ## Data telegram header and encoder -/

structure Header where
  da : UInt8
  sa : UInt8
  dsap : Option UInt8
  ssap : Option UInt8
  fc : FunctionCode
  deriving DecidableEq, Repr, Inhabited

def Header.saps (h : Header) : Nat :=
  (if h.dsap.isSome then 1 else 0) + (if h.ssap.isSome then 1 else 0)

/-- `length_byte` of `serialize` / `telegram_len`. -/
def Header.lengthByte (h : Header) (pduLen : Nat) : Nat := pduLen + h.saps + 3

/-- `DataTelegramHeader::telegram_len`. -/
def Header.telegramLen (h : Header) (pduLen : Nat) : Nat :=
  let le := h.lengthByte pduLen
  if le = 3 ∨ le = 11 then le + 3 else le + 6

def checksum (bs : Bytes) : UInt8 := bs.foldl (· + ·) 0

def optByte : Option UInt8 → Bytes
  | none => []
  | some b => [b]

/-- The bytes the checksum runs over: DA SA FC [DSAP] [SSAP] PDU. -/
def Header.body (h : Header) (pdu : Bytes) : Bytes :=
  [h.da ||| (if h.dsap.isSome then 0x80 else 0x00),
   h.sa ||| (if h.ssap.isSome then 0x80 else 0x00),
   h.fc.toByte] ++ optByte h.dsap ++ optByte h.ssap ++ pdu

/-- Outcome of an encoder: bytes written, or the Rust code panicked. -/
inductive TxOutcome
  | ok (bytes : Bytes)
  | panic
  deriving DecidableEq, Repr

/-- `DataTelegramHeader::serialize` into a buffer of `cap` bytes (the `TelegramTx` buffer).
The closure `write_pdu` is modelled by the PDU it writes.  Panics: the `assert!(length_byte <= 249)`
of the SD2 branch and every out-of-bounds index into the buffer. -/
def Header.serialize (h : Header) (pdu : Bytes) (cap : Nat := 256) : TxOutcome :=
  let le := h.lengthByte pdu.length
  let body := h.body pdu
  if cap = 0 then .panic else
  if le = 3 then
    if cap < 6 then .panic else .ok ([SD1] ++ body ++ [checksum body, ED])
  else if le = 11 then
    if cap < 14 then .panic else .ok ([SD3] ++ body ++ [checksum body, ED])
  else
    if le > 249 then .panic
    else if cap < le + 6 then .panic
    else .ok ([SD2, UInt8.ofNat le, UInt8.ofNat le, SD2] ++ body ++ [checksum body, ED])

/-- Specification of the PROFIBUS frame layout, stated independently of `serialize` (SD1 iff LE = 3, SD3 iff LE = 11, else SD2 LE LEr SD2). -/
def frameSpec (h : Header) (pdu : Bytes) : Bytes :=
  let le := h.lengthByte pdu.length
  let body := h.body pdu
  (if le = 3 then [SD1] else if le = 11 then [SD3] else [SD2, UInt8.ofNat le, UInt8.ofNat le, SD2])
    ++ body ++ [checksum body, ED]


/-! ## Telegrams and decoder -/

inductive Telegram
  | data (h : Header) (pdu : Bytes)
  | token (da sa : UInt8)
  | sc
  deriving DecidableEq, Repr, Inhabited

def Telegram.sourceAddress : Telegram → Option UInt8
  | .data h _ => some h.sa | .token _ sa => some sa | .sc => none
def Telegram.destinationAddress : Telegram → Option UInt8
  | .data h _ => some h.da | .token da _ => some da | .sc => none

/-- `Option<Result<(T, usize), ()>>` plus an explicit panic outcome. -/
inductive Decoded
  | needMore
  | reject
  | accept (t : Telegram) (n : Nat)
  | panic
  deriving DecidableEq, Repr

/-- One optional SAP byte of `DataTelegram::deserialize`: `buffer[0]` is read *before* the length
check (`.error .panic` = that index is out of range), then `length -= 1; buffer = &buffer[1..]`. -/
def takeSap (has : Bool) (b : Bytes) (len : Nat) : Except Decoded (Option UInt8 × Bytes × Nat) :=
  if has then
    if b.length = 0 then .error .panic
    else if len < 1 then .error .reject
    else .ok (some (b.getD 0 0), b.drop 1, len - 1)
  else .ok (none, b, len)

/-- Tail of `DataTelegram::deserialize`: PDU slice, checksum, end delimiter.
`b` = buffer from the (repeated) start delimiter, `b6` = buffer behind the SAP bytes. -/
def finishData (b b6 : Bytes) (len len2 total : Nat) (mk : Bytes → Telegram) : Decoded :=
  -- `&buffer[..length]`, `buffer[length]`, `buffer[length + 1]`, `buffer_checksum[..checksum_length]`
  if b6.length ≤ len2 + 1 then .panic else
  if b.length - 1 < len + 3 then .panic else
  let pdu := b6.take len2
  let fcsRx := b6.getD len2 0
  let fcsCalc := checksum ((b.drop 1).take (len + 3))
  if fcsRx ≠ fcsCalc then .reject else
  if b6.getD (len2 + 1) 0 ≠ ED then .reject else
  .accept (mk pdu) total

/-- Second half of `DataTelegram::deserialize`, after the start delimiter has been dealt with.
`b` is the buffer as the Rust code sees it at that point (for SD2 the first three bytes have been
stripped by `buffer = &buffer[3..]`, so `b[0]` is the (repeated) start delimiter in every case),
`len` = announced payload length (incl. SAP bytes), `total` = announced frame length.
Every `.panic` is the bounds check Rust performs for the index/slice expression named in the comment. -/
def deserializeBody (b : Bytes) (len total : Nat) : Decoded :=
  if b.length < len + 6 then .needMore else
  -- `&buffer[1..]`, `buffer[1]`, `buffer[2]`, `buffer[3]`
  if b.length ≤ 3 then .panic else
  let da0 := b.getD 1 0
  let sa0 := b.getD 2 0
  let hasDsap : Bool := da0 &&& 0x80 ≠ 0
  let hasSsap : Bool := sa0 &&& 0x80 ≠ 0
  let da := if hasDsap then da0 &&& ~~~0x80 else da0
  let sa := if hasSsap then sa0 &&& ~~~0x80 else sa0
  match FunctionCode.fromByte (b.getD 3 0) with
  | .error _ => .reject
  | .ok fc =>
    -- `let mut buffer = &buffer[4..]`
    if b.length < 4 then .panic else
    match takeSap hasDsap (b.drop 4) len with
    | .error e => e
    | .ok (dsap, b5, len1) =>
    match takeSap hasSsap b5 len1 with
    | .error e => e
    | .ok (ssap, b6, len2) =>
    finishData b b6 len len2 total
      (fun pdu => .data { da := da, sa := sa, dsap := dsap, ssap := ssap, fc := fc } pdu)

/-- `DataTelegram::deserialize`. -/
def deserializeData (bs : Bytes) : Decoded :=
  if bs.length < 6 then .needMore else
  let sd := bs.getD 0 0
  if sd = SD1 then deserializeBody bs 0 6
  else if sd = SD2 then
    let l1 := bs.getD 1 0
    let l2 := bs.getD 2 0
    -- `buffer = &buffer[3..]` cannot panic: len ≥ 6
    let b := bs.drop 3
    if l1 ≠ l2 then .reject
    else if l1 < 3 then .reject
    else if b.getD 0 0 ≠ SD2 then .reject
    else deserializeBody b (l1.toNat - 3) (l1.toNat + 6)
  else if sd = SD3 then deserializeBody bs 8 14
  else .reject

/-- `TokenTelegram::deserialize` (the `debug_assert!(buffer[0] == SD4)` is a panic outcome). -/
def deserializeToken (bs : Bytes) : Decoded :=
  if bs.length < 3 then .needMore else
  if bs.getD 0 0 ≠ SD4 then .panic else
  .accept (.token (bs.getD 1 0) (bs.getD 2 0)) 3

/-- `Telegram::deserialize`. -/
def deserialize (bs : Bytes) : Decoded :=
  if bs.length = 0 then .needMore else
  let sd := bs.getD 0 0
  if sd = SC then .accept .sc 1
  else if sd = SD4 then deserializeToken bs
  else if sd = SD1 ∨ sd = SD2 ∨ sd = SD3 then deserializeData bs
  else .reject

/-! ## `TelegramTx` -/

structure TxResponse where
  bytes : Bytes
  expectsReply : Option UInt8
  deriving DecidableEq, Repr

def expectsReplyOf (h : Header) : Option UInt8 :=
  match h.fc with
  | .request _ req => if req.expectsReply then some h.da else none
  | .response _ _ => none

def sendToken (da sa : UInt8) : Bytes := [SD4, da, sa]
def sendSc : Bytes := [SC]

def fdlStatusRequestHeader (da sa : UInt8) : Header :=
  { da := da, sa := sa, dsap := none, ssap := none, fc := .request .inactive .fdlStatus }
def fdlStatusResponseHeader (da sa : UInt8) (state : ResponseState) (status : ResponseStatus) : Header :=
  { da := da, sa := sa, dsap := none, ssap := none, fc := .response state status }

/-- Encoding of any telegram (what `TelegramTx::send_*` writes). -/
def Telegram.encode : Telegram → TxOutcome
  | .data h pdu => h.serialize pdu
  | .token da sa => .ok (sendToken da sa)
  | .sc => .ok sendSc

end PV
