/-
C15 — Applications get matched replies, one at a time, in fair round-robin (station level).
Function-level theorems about `Model/Station.lean`, for every input and every application script.
-/
import ProfiVerif.Model.Station

namespace PV.C15
open PV

/-- Which telegrams the FDL layer admits as the reply to a request sent to `addr`:
a short confirmation, or a *response* data telegram from `addr` to this station. -/
def ValidReply (ts addr : Nat) : Telegram → Bool
  | .token .. => false
  | .sc => true
  | .data h _ => decide (h.sa.toNat = addr) && decide (h.da.toNat = ts) &&
      (match h.fc with | .response .. => true | _ => false)

/-- `reply_wellformed` / `reply_xor_timeout` (reply branch): when a telegram is received while a reply
from `addr` is awaited, it is delivered — to the application that sent the request, for that
address, exactly once — iff it is a valid reply; the station then continues its token visit.
Anything else (token, request, foreign source/destination) is delivered to nobody and sends the
station to `ActiveIdle`. -/
theorem reply_delivery (c : Ctx) (now : Int) (addr : Nat) (d : UseData) (hst : c.s.st = .awaitData addr d)
    (happ : c.s.nextApp < c.apps.length)
    (rx' : Bytes) (t : Telegram) (flag : Bool) (rest : List (Telegram × Bool)) (ret : Bool)
    (hrx : receiveTelegram c.rx = .done rx' ((t, flag) :: rest) ret) :
    doAwaitDataResponse c now =
      if ValidReply c.s.p.address addr t then
        .ok { c with rx := rx', s := { (markRx c.s now) with st := .useToken d true },
                     calls := c.calls ++ [.reply c.s.nextApp addr t] }
      else
        .ok { c with rx := rx', s := { (markRx c.s now) with st := .activeIdle none none 0 } } := by
  have hst2 : (markRx c.s now).st = .awaitData addr d := by simp [markRx, markBusActivity, hst]
  have hp : (markRx c.s now).p = c.s.p := by simp [markRx, markBusActivity]
  unfold doAwaitDataResponse
  rw [hst]
  simp only
  rw [if_neg (by omega), hrx]
  simp only
  cases t with
  | sc => simp [ValidReply, tr, toUseToken, upd, hst2, Res.bind, hp]
  | token da sa => simp [ValidReply, tr, toActiveIdle, hst2, hp]
  | data h pdu =>
    simp only [ValidReply, hp]
    obtain ⟨da, sa, dsap, ssap, fc⟩ := h
    cases fc with
    | request fcb req => simp [tr, toActiveIdle, hst2, hp]
    | response st stt =>
      by_cases h1 : sa.toNat = addr <;> by_cases h2 : da.toNat = c.s.p.address <;>
        simp [h1, h2, tr, toUseToken, toActiveIdle, upd, hst2, Res.bind, hp]

/-- `reply_xor_timeout` (time-out branch): with nothing received and the slot time expired, exactly
one `handle_timeout` goes to the requesting application, and the token visit continues. -/
theorem timeout_delivery (c : Ctx) (now : Int) (addr : Nat) (d : UseData) (hst : c.s.st = .awaitData addr d)
    (happ : c.s.nextApp < c.apps.length) (rx' : Bytes) (ret : Bool)
    (hrx : receiveTelegram c.rx = .done rx' [] ret) (hex : (checkSlotExpired c.s now).2 = true) :
    doAwaitDataResponse c now =
      doUseToken { c with rx := rx', s := { (checkSlotExpired c.s now).1 with st := .useToken d true },
                          calls := c.calls ++ [.timeout c.s.nextApp addr] } now := by
  have hst2 : (checkSlotExpired c.s now).1.st = .awaitData addr d := by
    unfold checkSlotExpired getOrInsertLast
    cases c.s.lastBusActivity <;> simp [hst]
  unfold doAwaitDataResponse
  rw [hst]
  simp only
  rw [if_neg (by omega), hrx]
  simp only [hex, if_true]
  simp [tr, toUseToken, upd, hst2, Res.bind]

/-- … and while neither a telegram nor the time-out has arrived, nothing is delivered at all. -/
theorem still_waiting (c : Ctx) (now : Int) (addr : Nat) (d : UseData) (hst : c.s.st = .awaitData addr d)
    (happ : c.s.nextApp < c.apps.length) (rx' : Bytes) (ret : Bool)
    (hrx : receiveTelegram c.rx = .done rx' [] ret) (hex : (checkSlotExpired c.s now).2 = false) :
    doAwaitDataResponse c now = .ok { c with rx := rx', s := (checkSlotExpired c.s now).1 } := by
  unfold doAwaitDataResponse
  rw [hst]
  simp only
  rw [if_neg (by omega), hrx]
  simp [hex]

/-- `ask_only_with_token`: asking an application that answers with a request expecting a reply puts the
station into `AwaitDataResponse` for exactly the addressed station (so it is not asked again before
the reply or the time-out), and hands the telegram to the PHY. -/
theorem ask_then_await (c : Ctx) (now : Int) (hp : Bool) (d : UseData) (fcd : Bool) (hst : c.s.st = .useToken d fcd)
    (script : List AppAnswer) (hs : c.apps[c.s.nextApp]? = some script)
    (h : Header) (pdu : Bytes) (hans : script.headD .decline = .send h pdu) (bytes : Bytes)
    (hser : h.serialize pdu = .ok bytes) (addr : UInt8) (hexp : expectsReplyOf h = some addr) (htx : c.tx = none) :
    appTransmit c now hp =
      (.ok { c with apps := c.apps.set c.s.nextApp script.tail,
                    calls := c.calls ++ [.transmit c.s.nextApp hp (.send h pdu)],
                    tx := some bytes,
                    s := markTx { c.s with st := .awaitData addr.toNat d } now bytes.length }, true) := by
  unfold appTransmit
  simp only [hs, hans, hser, hexp, hst, toAwaitData, transmit, htx]

/-- An application that declines ends its turn: nothing is transmitted. -/
theorem decline_ends_turn (c : Ctx) (now : Int) (hp : Bool) (script : List AppAnswer)
    (hs : c.apps[c.s.nextApp]? = some script) (hans : script.headD .decline = .decline) :
    appTransmit c now hp =
      (.ok { c with apps := c.apps.set c.s.nextApp script.tail,
                    calls := c.calls ++ [.transmit c.s.nextApp hp .decline] }, false) := by
  unfold appTransmit
  simp only [hs, hans]

/-- `no_app_no_call`: without applications nobody is asked. -/
theorem no_app_no_call (c : Ctx) (now : Int) (hp : Bool) (h0 : c.apps.length = 0) :
    appsTransmit now hp c.apps.length c = (.ok c, false) := by
  rw [h0]; rfl

/-- `round_robin`: after an application declined, the next one asked is its cyclic successor; the loop
stops when it comes back to the first application asked in this token visit. -/
theorem round_robin_step (c : Ctx) (now : Int) (hp : Bool) (k : Nat) (c1 : Ctx)
    (hd : appTransmit c now hp = (.ok c1, false)) (d : UseData) (fcd : Bool) (hst : c1.s.st = .useToken d fcd) :
    appsTransmit now hp (k + 1) c =
      let first := d.firstApp.getD c1.s.nextApp
      let next := (c1.s.nextApp + 1) % c1.apps.length
      let c2 := upd c1 fun s => { s with st := .useToken { d with firstApp := some first } fcd, nextApp := next }
      if next = first then (.ok c2, false) else appsTransmit now hp k c2 := by
  simp only [appsTransmit, hd, hst]

end PV.C15
