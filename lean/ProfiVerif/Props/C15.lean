/-
C15 — Applications get matched replies, one at a time, in fair round-robin (station level).
Function-level theorems about `Model/Station.lean`, for every input and every application script.
-/
import ProfiVerif.Model.Station
import ProfiVerif.Lemmas.StationTrace
import ProfiVerif.Lemmas.AppOrder
import ProfiVerif.Lemmas.AppVisit
import ProfiVerif.Lemmas.AppFrame

namespace PV.C15
open PV

/-- Which telegrams the FDL layer admits as the reply to a request sent to `addr`:
a short confirmation, or a *response* data telegram from `addr` to this station. -/
def ValidReply (ts addr : Nat) : Telegram → Bool
  | .token .. => false
  | .sc => true
  | .data h _ => decide (h.sa.toNat = addr) && decide (h.da.toNat = ts) &&
      (match h.fc with | .response .. => true | _ => false)

/-- `reply_wellformed` / `reply_xor_timeout` (reply branch): when a telegram is received while a reply
from `addr` is awaited, it is delivered — to the application that sent the request, for that
address, exactly once — iff it is a valid reply; the station then continues its token visit.
Anything else (token, request, foreign source/destination) is delivered to nobody and sends the
station to `ActiveIdle`. -/
theorem reply_delivery (c : Ctx) (now : Int) (addr : Nat) (d : UseData) (hst : c.s.st = .awaitData addr d)
    (happ : c.s.nextApp < c.apps.length)
    (rx' : Bytes) (t : Telegram) (flag : Bool) (rest : List (Telegram × Bool)) (ret : Bool)
    (hrx : receiveTelegram c.rx = .done rx' ((t, flag) :: rest) ret) :
    doAwaitDataResponse c now =
      if ValidReply c.s.p.address addr t then
        .ok { c with rx := rx', s := { (markRx c.s now) with st := .useToken d true },
                     calls := c.calls ++ [.reply c.s.nextApp addr t] }
      else
        .ok { c with rx := rx', s := { (markRx c.s now) with st := .activeIdle none none 0 } } := by
  have hst2 : (markRx c.s now).st = .awaitData addr d := by simp [markRx, markBusActivity, hst]
  have hp : (markRx c.s now).p = c.s.p := by simp [markRx, markBusActivity]
  unfold doAwaitDataResponse
  rw [hst]
  simp only
  rw [if_neg (by omega), hrx]
  simp only
  cases t with
  | sc => simp [ValidReply, tr, toUseToken, upd, hst2, Res.bind, hp]
  | token da sa => simp [ValidReply, tr, toActiveIdle, hst2, hp]
  | data h pdu =>
    simp only [ValidReply, hp]
    obtain ⟨da, sa, dsap, ssap, fc⟩ := h
    cases fc with
    | request fcb req => simp [tr, toActiveIdle, hst2, hp]
    | response st stt =>
      by_cases h1 : sa.toNat = addr <;> by_cases h2 : da.toNat = c.s.p.address <;>
        simp [h1, h2, tr, toUseToken, toActiveIdle, upd, hst2, Res.bind, hp]

/-- `reply_xor_timeout` (time-out branch): with nothing received and the slot time expired, exactly
one `handle_timeout` goes to the requesting application, and the token visit continues. -/
theorem timeout_delivery (c : Ctx) (now : Int) (addr : Nat) (d : UseData) (hst : c.s.st = .awaitData addr d)
    (happ : c.s.nextApp < c.apps.length) (rx' : Bytes) (ret : Bool)
    (hrx : receiveTelegram c.rx = .done rx' [] ret) (hex : (checkSlotExpired c.s now).2 = true) :
    doAwaitDataResponse c now =
      doUseToken { c with rx := rx', s := { (checkSlotExpired c.s now).1 with st := .useToken d true },
                          calls := c.calls ++ [.timeout c.s.nextApp addr] } now := by
  have hst2 : (checkSlotExpired c.s now).1.st = .awaitData addr d := by
    unfold checkSlotExpired getOrInsertLast
    cases c.s.lastBusActivity <;> simp [hst]
  unfold doAwaitDataResponse
  rw [hst]
  simp only
  rw [if_neg (by omega), hrx]
  simp only [hex, if_true]
  simp [tr, toUseToken, upd, hst2, Res.bind]

/-- … and while neither a telegram nor the time-out has arrived, nothing is delivered at all. -/
theorem still_waiting (c : Ctx) (now : Int) (addr : Nat) (d : UseData) (hst : c.s.st = .awaitData addr d)
    (happ : c.s.nextApp < c.apps.length) (rx' : Bytes) (ret : Bool)
    (hrx : receiveTelegram c.rx = .done rx' [] ret) (hex : (checkSlotExpired c.s now).2 = false) :
    doAwaitDataResponse c now = .ok { c with rx := rx', s := (checkSlotExpired c.s now).1 } := by
  unfold doAwaitDataResponse
  rw [hst]
  simp only
  rw [if_neg (by omega), hrx]
  simp [hex]

/-- `ask_only_with_token`: asking an application that answers with a request expecting a reply puts the
station into `AwaitDataResponse` for exactly the addressed station (so it is not asked again before
the reply or the time-out), and hands the telegram to the PHY. -/
theorem ask_then_await (c : Ctx) (now : Int) (hp : Bool) (d : UseData) (fcd : Bool) (hst : c.s.st = .useToken d fcd)
    (script : List AppAnswer) (hs : c.apps[c.s.nextApp]? = some script)
    (h : Header) (pdu : Bytes) (hans : script.headD .decline = .send h pdu) (bytes : Bytes)
    (hser : h.serialize pdu = .ok bytes) (addr : UInt8) (hexp : expectsReplyOf h = some addr) (htx : c.tx = none) :
    appTransmit c now hp =
      (.ok { c with apps := c.apps.set c.s.nextApp script.tail,
                    calls := c.calls ++ [.transmit c.s.nextApp hp (.send h pdu)],
                    tx := some bytes,
                    s := markTx { c.s with st := .awaitData addr.toNat d } now bytes.length }, true) := by
  unfold appTransmit
  simp only [hs, hans, hser, hexp, hst, toAwaitData, transmit, htx]

/-- An application that declines ends its turn: nothing is transmitted. -/
theorem decline_ends_turn (c : Ctx) (now : Int) (hp : Bool) (script : List AppAnswer)
    (hs : c.apps[c.s.nextApp]? = some script) (hans : script.headD .decline = .decline) :
    appTransmit c now hp =
      (.ok { c with apps := c.apps.set c.s.nextApp script.tail,
                    calls := c.calls ++ [.transmit c.s.nextApp hp .decline] }, false) := by
  unfold appTransmit
  simp only [hs, hans]

/-- `no_app_no_call`: without applications nobody is asked. -/
theorem no_app_no_call (c : Ctx) (now : Int) (hp : Bool) (h0 : c.apps.length = 0) :
    appsTransmit now hp c.apps.length c = (.ok c, false) := by
  rw [h0]; rfl

/-- `round_robin`: after an application declined, the next one asked is its cyclic successor; the loop
stops when it comes back to the first application asked in this token visit. -/
theorem round_robin_step (c : Ctx) (now : Int) (hp : Bool) (k : Nat) (c1 : Ctx)
    (hd : appTransmit c now hp = (.ok c1, false)) (d : UseData) (fcd : Bool) (hst : c1.s.st = .useToken d fcd) :
    appsTransmit now hp (k + 1) c =
      let first := d.firstApp.getD c1.s.nextApp
      let next := (c1.s.nextApp + 1) % c1.apps.length
      let c2 := upd c1 fun s => { s with st := .useToken { d with firstApp := some first } fcd, nextApp := next }
      if next = first then (.ok c2, false) else appsTransmit now hp k c2 := by
  simp only [appsTransmit, hd, hst]


/-! ## Lift to whole polls (`Station.poll`, any start state, any arriving bytes, any time, any
application scripts) and to arbitrary API-call sequences

Helper lemmas: `Lemmas/StationTrace.lean` (`poll_calls`: the callbacks of one poll by start state).
The theorems about one poll are conditional on the poll returning regularly (`.ok c'`) and need no
hypothesis on the start state at all; that the poll does return regularly from every state satisfying
the station invariant is C05 (`pollInner_good`, `poll_never_panics`).  The `_trace` forms combine
both: they speak about every step of every API-call sequence from a fresh station. -/

open C05

theorem validReply_eq (ts a : Nat) (t : Telegram) : ValidReply ts a t = validReplyB ts a t := by
  cases t <;> rfl

/-- **`ask_only_with_token`** (one whole poll).  If a poll makes a `transmit_telegram` callback, then
the station was online and, at the start of that poll, either in `UseToken`, or in
`AwaitDataResponse` — and in the latter case the first callback of the poll is the time-out of the
outstanding request (the token visit continues in the same poll).  These two are the only start states:
a poll starting in Offline, ListenToken, ActiveIdle (even if it accepts the token in this poll),
ClaimToken, PassToken, CheckTokenPass or AwaitStatusResponse never asks an application. -/
theorem ask_only_with_token (s : Station) (apps : Apps) (now : Int) (phy : Bool) (rx : Bytes) (c' : Ctx)
    (h : s.poll apps now phy rx = .ok c') (i : Nat) (hp : Bool) (ans : AppAnswer)
    (hr : AppCall.transmit i hp ans ∈ c'.calls) :
    s.online = true ∧ ((∃ d fcd, s.st = .useToken d fcd) ∨
      (∃ a d, s.st = .awaitData a d ∧ c'.calls.head? = some (.timeout s.nextApp a))) := by
  rcases poll_calls s apps now phy rx c' h with ⟨hc, -⟩ | ⟨hon, hu, -, -⟩ | ⟨hon, a, d, hst, hcase⟩
  · rw [hc] at hr; cases hr
  · exact ⟨hon, .inl hu⟩
  · refine ⟨hon, .inr ⟨a, d, hst, ?_⟩⟩
    rcases hcase with ⟨t, -, hc, -⟩ | ⟨new, hc, -, -⟩
    · rw [hc] at hr; simp at hr
    · rw [hc]; rfl

/-- **`one_outstanding`** (one whole poll).  A poll that starts in `AwaitDataResponse` makes no callback
at all, or delivers exactly the admitted reply (to the requesting application, for the awaited
address) and nothing else, or delivers the time-out first and only then asks applications again.  So
no application is asked while the reply is still outstanding. -/
theorem one_outstanding (s : Station) (apps : Apps) (now : Int) (phy : Bool) (rx : Bytes) (c' : Ctx)
    (h : s.poll apps now phy rx = .ok c') (a : Nat) (d : UseData) (hst : s.st = .awaitData a d) :
    c'.calls = [] ∨
    (∃ t, ValidReply s.p.address a t = true ∧ c'.calls = [.reply s.nextApp a t] ∧ c'.s.st = .useToken d true) ∨
    (∃ new, c'.calls = .timeout s.nextApp a :: new ∧ ∀ r ∈ new, ∃ i hp ans, r = AppCall.transmit i hp ans) := by
  rcases poll_calls s apps now phy rx c' h with ⟨hc, -⟩ | ⟨-, ⟨d', fcd, hu⟩, -, -⟩ | ⟨-, a', d', hst', hcase⟩
  · exact .inl hc
  · rw [hst] at hu; cases hu
  · rw [hst] at hst'; cases hst'
    rcases hcase with ⟨t, hv, hc, hs⟩ | ⟨new, hc, har, -⟩
    · exact .inr (.inl ⟨t, by rw [validReply_eq]; exact hv, hc, hs⟩)
    · exact .inr (.inr ⟨new, hc, har⟩)

/-- … in particular: as long as neither the reply nor the time-out is delivered, nobody is asked. -/
theorem no_ask_while_waiting (s : Station) (apps : Apps) (now : Int) (phy : Bool) (rx : Bytes) (c' : Ctx)
    (h : s.poll apps now phy rx = .ok c') (a : Nat) (d : UseData) (hst : s.st = .awaitData a d)
    (hno : ∀ r ∈ c'.calls, ∃ i hp ans, r = AppCall.transmit i hp ans) : c'.calls = [] := by
  rcases one_outstanding s apps now phy rx c' h a d hst with hc | ⟨t, -, hc, -⟩ | ⟨new, hc, -⟩
  · exact hc
  · obtain ⟨i, hp, ans, he⟩ := hno (.reply s.nextApp a t) (by rw [hc]; simp); cases he
  · obtain ⟨i, hp, ans, he⟩ := hno (.timeout s.nextApp a) (by rw [hc]; simp); cases he

/-- **`reply_or_timeout_once`, per poll** (`answer_only_when_awaited`).  A `handle_reply` /
`handle_timeout` callback occurs only in a poll that starts in `AwaitDataResponse`, goes to the
application whose request is outstanding, names the awaited address, is the first callback of that
poll, is the only reply/time-out of that poll, and a delivered reply passed the admission filter.
Unsolicited replies are never delivered. -/
theorem answer_only_when_awaited (s : Station) (apps : Apps) (now : Int) (phy : Bool) (rx : Bytes) (c' : Ctx)
    (h : s.poll apps now phy rx = .ok c') (r : AppCall) (hr : r ∈ c'.calls) (i a : Nat)
    (hk : (∃ t, r = .reply i a t) ∨ r = .timeout i a) :
    s.online = true ∧ (∃ d, s.st = .awaitData a d) ∧ i = s.nextApp ∧ c'.calls.head? = some r ∧
    (∀ r' ∈ c'.calls.tail, ∃ i' hp ans, r' = AppCall.transmit i' hp ans) ∧
    (∀ t, r = .reply i a t → ValidReply s.p.address a t = true) := by
  rcases poll_calls s apps now phy rx c' h with ⟨hc, -⟩ | ⟨-, -, har, -⟩ | ⟨hon, a', d', hst', hcase⟩
  · rw [hc] at hr; cases hr
  · obtain ⟨i', hp, ans, he⟩ := har r hr
    rcases hk with ⟨t, hk⟩ | hk <;> rw [hk] at he <;> cases he
  · rcases hcase with ⟨t, hv, hc, hs⟩ | ⟨new, hc, har, -⟩
    · rw [hc] at hr
      simp only [List.mem_singleton] at hr
      rcases hk with ⟨t', hk⟩ | hk
      · rw [hk] at hr; cases hr
        refine ⟨hon, ⟨d', hst'⟩, rfl, by rw [hc, hk]; rfl, by rw [hc]; simp, ?_⟩
        intro t'' he; rw [hk] at he; cases he; rw [validReply_eq]; exact hv
      · rw [hk] at hr; cases hr
    · rw [hc] at hr
      rcases List.mem_cons.mp hr with hr | hr
      · rcases hk with ⟨t', hk⟩ | hk
        · rw [hk] at hr; cases hr
        · rw [hk] at hr; cases hr
          refine ⟨hon, ⟨d', hst'⟩, rfl, by rw [hc, hk]; rfl, by rw [hc]; exact har, ?_⟩
          intro t he; rw [hk] at he; cases he
      · obtain ⟨i', hp, ans, he⟩ := har r hr
        rcases hk with ⟨t, hk⟩ | hk <;> rw [hk] at he <;> cases he

/-! ### Whole histories -/

/-- What may follow `prev` (the previous callback of the whole history, if any) in the call log:
`transmit_telegram` callbacks are unrestricted here (see `ask_only_with_token`); a reply or a time-out
must answer the IMMEDIATELY preceding callback, which must be a request of the same application that
expects a reply from exactly that address — and a reply must be admissible. -/
def Answers (ts : Nat) (prev : Option AppCall) : AppCall → Prop
  | .transmit .. => True
  | .reply i a t => ValidReply ts a t = true ∧ ∃ hp hd pdu a8,
      prev = some (.transmit i hp (.send hd pdu)) ∧ expectsReplyOf hd = some a8 ∧ a8.toNat = a
  | .timeout i a => ∃ hp hd pdu a8,
      prev = some (.transmit i hp (.send hd pdu)) ∧ expectsReplyOf hd = some a8 ∧ a8.toNat = a

/-- Every callback of the log is admissible after its predecessor. -/
def Matched (ts : Nat) (log : List AppCall) : Prop :=
  ∀ pre r post, log = pre ++ r :: post → Answers ts pre.getLast? r

theorem matched_nil (ts : Nat) : Matched ts [] := by
  intro pre r post h; simp at h

theorem matched_snoc {ts : Nat} {log : List AppCall} {r : AppCall} (hm : Matched ts log)
    (hr : Answers ts log.getLast? r) : Matched ts (log ++ [r]) := by
  intro pre x post he
  rcases List.append_eq_append_iff.mp he with ⟨as, h1, h2⟩ | ⟨bs, h1, h2⟩
  · cases as with
    | nil => simp at h1 h2; obtain ⟨hx, -⟩ := h2; subst h1; subst hx; exact hr
    | cons y ys =>
      exfalso
      have := congrArg List.length h2
      simp at this
  · cases bs with
    | nil =>
      simp at h1 h2
      obtain ⟨hx, -⟩ := h2
      subst h1; subst hx; exact hr
    | cons y ys =>
      simp at h2
      obtain ⟨hx, hp⟩ := h2
      subst hx
      exact hm pre x ys h1

theorem matched_append_asks {ts : Nat} : ∀ (new log : List AppCall), Matched ts log → AskRun new → Matched ts (log ++ new) := by
  intro new
  induction new with
  | nil => intro log hm _; simpa using hm
  | cons x rest ih =>
    intro log hm har
    have : log ++ x :: rest = (log ++ [x]) ++ rest := by simp
    rw [this]
    refine ih _ (matched_snoc hm ?_) (fun r hr => har r (List.mem_cons_of_mem _ hr))
    obtain ⟨i, hp, ans, he⟩ := har x (List.mem_cons_self ..)
    rw [he]; trivial

theorem awaitLink_append {log new : List AppCall} {s : Station} (h : AwaitLink new s) : AwaitLink (log ++ new) s := by
  intro a d hs
  obtain ⟨pre, hp, hd, pdu, a8, e1, e2, e3⟩ := h a d hs
  exact ⟨log ++ pre, hp, hd, pdu, a8, by rw [e1]; simp, e2, e3⟩

/-- The history invariant behind `reply_or_timeout_once`: the log so far is matched, and while the
station awaits a reply the last callback of the whole history is the awaited request. -/
def LogInv (ts : Nat) (w : World) (log : List AppCall) : Prop :=
  w.s.p.address = ts ∧ Matched ts log ∧ AwaitLink log w.s

theorem logInv_step {ts : Nat} {w w' : World} {log l : List AppCall} (a : ApiCall) (hi : LogInv ts w log)
    (hs : w.stepLog a = some (w', l)) : LogInv ts w' (log ++ l) := by
  obtain ⟨hts, hm, hl⟩ := hi
  cases a with
  | setOnline =>
    cases hs
    exact ⟨hts, by simpa using hm, by simpa [AwaitLink, Station.setOnline] using hl⟩
  | setOffline =>
    cases hs
    refine ⟨?_, by simpa using hm, ?_⟩
    · have h3 := (setOffline_fields w.s).1
      show w.s.setOffline.p.address = ts
      rw [h3]; exact hts
    · intro a d hst
      have h3 := (setOffline_fields w.s).2.2.1
      have h4 : w.s.setOffline.st = .awaitData a d := hst
      rw [h3] at h4; cases h4
  | poll now phy arrived =>
    simp only [World.stepLog] at hs
    split at hs
    · rename_i c hc
      cases hs
      have hp := (poll_frame _ _ _ _ _ _ hc).1
      refine ⟨by rw [← hts]; exact congrArg Params.address hp, ?_⟩
      rcases poll_calls _ _ _ _ _ _ hc with ⟨h0, hkeep⟩ | ⟨-, -, har, hlink⟩ | ⟨-, a, d, hst, hcase⟩
      · rw [h0]
        refine ⟨by simpa using hm, ?_⟩
        intro a d hst'
        obtain ⟨hst0, hn⟩ := hkeep a d hst'
        obtain ⟨pre, hp', hd, pdu, a8, e1, e2, e3⟩ := hl a d hst0
        exact ⟨pre, hp', hd, pdu, a8, by simpa [hn] using e1, e2, e3⟩
      · exact ⟨matched_append_asks _ _ hm har, awaitLink_append hlink⟩
      · obtain ⟨pre, hp', hd, pdu, a8, e1, e2, e3⟩ := hl a d hst
        have hlast : log.getLast? = some (.transmit w.s.nextApp hp' (.send hd pdu)) := by rw [e1]; simp
        rcases hcase with ⟨t, hv, hcc, hs'⟩ | ⟨new, hcc, har, hlink⟩
        · rw [hcc]
          refine ⟨matched_snoc hm ?_, ?_⟩
          · exact ⟨by rw [validReply_eq, ← hts]; exact hv, hp', hd, pdu, a8, hlast, e2, e3⟩
          · intro a' d' hst'; rw [hs'] at hst'; cases hst'
        · rw [hcc]
          have : log ++ .timeout w.s.nextApp a :: new = (log ++ [.timeout w.s.nextApp a]) ++ new := by simp
          rw [this]
          refine ⟨matched_append_asks _ _ (matched_snoc hm ⟨hp', hd, pdu, a8, hlast, e2, e3⟩) har, awaitLink_append hlink⟩
    · cases hs

theorem logInv_run {ts : Nat} : ∀ (calls : List ApiCall) (w w' : World) (log l : List AppCall), LogInv ts w log →
    w.runLog calls = some (w', l) → LogInv ts w' (log ++ l) := by
  intro calls
  induction calls with
  | nil => intro w w' log l hi h; cases h; simpa using hi
  | cons a rest ih =>
    intro w w' log l hi h
    simp only [World.runLog] at h
    split at h
    · rename_i w1 l1 hs1
      split at h
      · rename_i w2 l2 hr2
        cases h
        have := ih w1 w' (log ++ l1) l2 (logInv_step a hi hs1) hr2
        simpa using this
      · cases h
    · cases h

/-- **`reply_or_timeout_once`** (whole histories).  For every parameter set, every set of applications
and EVERY sequence of `poll` / `set_online` / `set_offline` calls (any bytes, times, PHY flags) from a
fresh station: the run does not panic, and in its complete application call log every reply and every
time-out is immediately preceded by a `transmit_telegram` callback of the same application whose
telegram expects a reply from exactly that address (and a reply is admissible).  Hence each request
gets at most one of reply / time-out (`at_most_one_answer`), never both, never twice, and nothing is
delivered to an application that has no request outstanding. -/
theorem reply_or_timeout_once (p : Params) (apps : Apps) (h1 : p.address < p.hsa) (h2 : p.hsa ≤ 126)
    (hs : ScriptsOk apps) (calls : List ApiCall) :
    ∃ w log, World.runLog { s := Station.new p, apps := apps, rx := [] } calls = some (w, log) ∧
      Matched p.address log := by
  obtain ⟨w, log, hr, -⟩ := runLog_total calls { s := Station.new p, apps := apps, rx := [] } (inv_init p apps h1 h2 hs)
  refine ⟨w, log, hr, ?_⟩
  have h0 : LogInv p.address { s := Station.new p, apps := apps, rx := [] } [] :=
    ⟨rfl, matched_nil _, by intro a d hst; simp [Station.new] at hst⟩
  have := logInv_run calls _ w [] log h0 hr
  simpa using this.2.1

/-- The same without any assumption on parameters or scripts, conditional on the run being regular. -/
theorem reply_or_timeout_once' (p : Params) (apps : Apps) (calls : List ApiCall) (w : World) (log : List AppCall)
    (hr : World.runLog { s := Station.new p, apps := apps, rx := [] } calls = some (w, log)) :
    Matched p.address log := by
  have h0 : LogInv p.address { s := Station.new p, apps := apps, rx := [] } [] :=
    ⟨rfl, matched_nil _, by intro a d hst; simp [Station.new] at hst⟩
  have := logInv_run calls _ w [] log h0 hr
  simpa using this.2.1

/-- Is `r` a reply or time-out for application `i`? -/
def IsAnswerFor (i : Nat) : AppCall → Prop
  | .reply j _ _ => j = i
  | .timeout j _ => j = i
  | .transmit .. => False

/-- **At most one of reply / time-out per request**: in a matched log, between a `transmit_telegram`
callback of application `i` and the next `transmit_telegram` callback of the same application, only
the record directly after the request can be a reply or time-out for `i` — so there is at most one. -/
theorem at_most_one_answer (ts : Nat) (log : List AppCall) (hm : Matched ts log)
    (pre mid post : List AppCall) (i : Nat) (hp : Bool) (ans : AppAnswer)
    (hlog : log = pre ++ .transmit i hp ans :: (mid ++ post))
    (hno : ∀ hp' ans', AppCall.transmit i hp' ans' ∉ mid) :
    ∀ (m1 m2 : List AppCall) (r : AppCall), mid = m1 ++ r :: m2 → IsAnswerFor i r → m1 = [] := by
  intro m1 m2 r hmid hr
  have := hm (pre ++ .transmit i hp ans :: m1) r (m2 ++ post) (by rw [hlog, hmid]; simp)
  rcases List.eq_nil_or_concat m1 with h0 | ⟨m1', b, h0⟩
  · exact h0
  · exfalso
    rw [h0] at this
    have hl : (pre ++ AppCall.transmit i hp ans :: m1'.concat b).getLast? = some b := by
      have e : pre ++ AppCall.transmit i hp ans :: m1'.concat b = (pre ++ AppCall.transmit i hp ans :: m1') ++ [b] := by simp
      rw [e, List.getLast?_concat]
    rw [hl] at this
    have hb : b ∈ mid := by rw [hmid, h0]; simp
    cases r with
    | transmit => exact hr
    | reply j a t =>
      obtain ⟨-, hp', hd, pdu, a8, e, -, -⟩ := this
      cases e
      cases hr
      exact hno _ _ hb
    | timeout j a =>
      obtain ⟨hp', hd, pdu, a8, e, -, -⟩ := this
      cases e
      cases hr
      exact hno _ _ hb

/-- `ask_only_with_token` and `answer_only_when_awaited` at every step of every history: whatever call
sequence `pre` was made before, the next call `a` does not panic and its callbacks obey both rules with
respect to the state `w` the station is in at that moment. -/
theorem callbacks_trace (p : Params) (apps : Apps) (h1 : p.address < p.hsa) (h2 : p.hsa ≤ 126)
    (hs : ScriptsOk apps) (pre : List ApiCall) (a : ApiCall) :
    ∃ w w' l, World.run { s := Station.new p, apps := apps, rx := [] } pre = some w ∧ w.stepLog a = some (w', l) ∧
      (∀ i hp ans, AppCall.transmit i hp ans ∈ l →
        w.s.online = true ∧ ((∃ d fcd, w.s.st = .useToken d fcd) ∨
          (∃ x d, w.s.st = .awaitData x d ∧ l.head? = some (.timeout w.s.nextApp x)))) ∧
      (∀ r ∈ l, ∀ i x, ((∃ t, r = .reply i x t) ∨ r = .timeout i x) →
        w.s.online = true ∧ (∃ d, w.s.st = .awaitData x d) ∧ i = w.s.nextApp ∧ l.head? = some r) := by
  obtain ⟨w, w', l, hw, -, hl⟩ := reach_step p apps h1 h2 hs pre a
  refine ⟨w, w', l, hw, hl, ?_, ?_⟩
  · intro i hp ans hmem
    cases a with
    | poll now phy arrived =>
      simp only [World.stepLog] at hl
      split at hl
      · rename_i c hc; cases hl
        exact ask_only_with_token _ _ _ _ _ _ hc i hp ans hmem
      · cases hl
    | setOnline => cases hl; cases hmem
    | setOffline => cases hl; cases hmem
  · intro r hmem i x hk
    cases a with
    | poll now phy arrived =>
      simp only [World.stepLog] at hl
      split at hl
      · rename_i c hc; cases hl
        obtain ⟨e1, e2, e3, e4, -, -⟩ := answer_only_when_awaited _ _ _ _ _ _ hc r hmem i x hk
        exact ⟨e1, e2, e3, e4⟩
      · cases hl
    | setOnline => cases hl; cases hmem
    | setOffline => cases hl; cases hmem


/-! ### Witnesses and non-vacuity -/

/-- A station (TS 7) awaiting a reply from station 9 to a request of application 0, whose script
continues with another request. -/
def awaitingStation : Station :=
  { (Station.new demoParams) with online := true, st := .awaitData 9 ⟨0, none⟩, lastBusActivity := some 0, endTokenHoldTime := 100000 }
def awaitingApps : Apps := [[.send (fdlStatusRequestHeader 9 7) []]]

theorem awaiting_inv : Inv awaitingStation awaitingApps := by
  refine ⟨by decide, by decide, TokenRing.new_ok 7 (by decide), (fun h => by cases h), ?_, ?_, ?_, ?_, ?_, ?_, (by simp [awaitingStation])⟩
  · intro cur hc; simp [awaitingStation, Station.new, demoParams] at hc ⊢; omega
  · intro a ha; simp [awaitingStation] at ha
  · intro a ha; simp [awaitingStation] at ha
  · intro _; decide
  · intro a d _; decide
  · intro sc hsc ans hans hd pdu he
    simp [awaitingApps] at hsc; subst hsc
    simp at hans; subst hans
    cases he
    decide

set_option maxRecDepth 100000 in
theorem awaiting_eval : (match awaitingStation.poll awaitingApps 1000 false [] with
    | .ok c => (c.s.st, c.calls)
    | .panic _ => (.offline, [])) =
    (.awaitData 9 ⟨0, none⟩, [.timeout 0 9, .transmit 0 false (.send (fdlStatusRequestHeader 9 7) [])]) := by decide

/-- **Witness against the over-strong reading of `one_outstanding`**: "a poll that starts and ends in
`AwaitDataResponse` asks nobody" is FALSE of the model (and of `do_await_data_response`, which calls
`do_use_token` right after `handle_timeout`): from a state satisfying the invariant, one poll delivers
the time-out of the outstanding request, asks the application again in the same poll, transmits its new
request and ends in `AwaitDataResponse` again.  What does hold is `one_outstanding`: the time-out is
delivered BEFORE anybody is asked. -/
theorem ask_after_timeout_same_poll :
    ∃ (s : Station) (apps : Apps) (c' : Ctx), Inv s apps ∧ s.st = .awaitData 9 ⟨0, none⟩ ∧
      s.poll apps 1000 false [] = .ok c' ∧ c'.s.st = .awaitData 9 ⟨0, none⟩ ∧
      c'.calls = [.timeout 0 9, .transmit 0 false (.send (fdlStatusRequestHeader 9 7) [])] := by
  have he := awaiting_eval
  cases hp : awaitingStation.poll awaitingApps 1000 false [] with
  | panic site => rw [hp] at he; simp at he
  | ok c =>
    rw [hp] at he
    simp only [Prod.mk.injEq] at he
    exact ⟨awaitingStation, awaitingApps, c, awaiting_inv, rfl, hp, he.1, he.2⟩

/-- Non-vacuity of the per-poll theorems: the witness poll satisfies their hypotheses (a
`transmit_telegram` callback and a time-out occur), and their conclusions can be read off. -/
example : ∃ (s : Station) (apps : Apps) (c' : Ctx), s.poll apps 1000 false [] = .ok c' ∧
    AppCall.transmit 0 false (.send (fdlStatusRequestHeader 9 7) []) ∈ c'.calls ∧ AppCall.timeout 0 9 ∈ c'.calls := by
  obtain ⟨s, apps, c', -, -, hp, -, hc⟩ := ask_after_timeout_same_poll
  exact ⟨s, apps, c', hp, by rw [hc]; simp, by rw [hc]; simp⟩

/-- Non-vacuity of the history theorem: a concrete call sequence. -/
example : ∃ w log, World.runLog { s := Station.new demoParams, apps := [[.decline]], rx := [] }
    [.setOnline, .poll 100 false [0xDC, 7, 3], .poll 100000 false [], .setOffline] = some (w, log) ∧ Matched 7 log :=
  reply_or_timeout_once _ _ (by decide) (by decide)
    (by intro s hs a ha h pdu he; simp at hs; subst hs; simp at ha; subst ha; cases he) _


/-! ## Scheduling order over whole token visits (`ask_order`)

Helper lemmas: `Lemmas/AppOrder.lean` (`walk`, `nextIdx`, `poll_walk`).  The TRUE rule of
`apps_transmit_telegram` / `schedule_next_application` (src/fdl/active.rs) is:

* after application `i` DECLINED, the next callback of the token visit is `transmit_telegram` of
  `(i+1) % n`;
* after application `i` SENT a telegram, `next_application` STAYS at `i`: the next callback is its
  reply / time-out (if the telegram expected a reply), and the next `transmit_telegram` goes to `i`
  AGAIN (not to `(i+1) % n`) — an application keeps the turn until it declines;
* `set_offline` resets the turn to application 0 (`*self = Self::new(..)`), so the rule is stated per
  token visit (and per poll at every step of every history). -/

/-- A call sequence that stays within one token hold: at the start of every call the station is in
`UseToken` or `AwaitDataResponse`, and nobody calls `set_offline`. -/
def VisitRun : World → List ApiCall → Prop
  | _, [] => True
  | w, a :: rest => AppHolding w.s ∧ a ≠ .setOffline ∧ ∀ w1 l, w.stepLog a = some (w1, l) → VisitRun w1 rest

/-- `ask_order`, one API call: from a state holding the token, the callbacks of the call follow the
turn from `next_application` before to `next_application` after. -/
theorem ask_order_step (w w' : World) (a : ApiCall) (l : List AppCall) (hh : AppHolding w.s) (ha : a ≠ .setOffline)
    (hs : w.stepLog a = some (w', l)) :
    walk w.apps.length w.s.nextApp l = some w'.s.nextApp ∧ w'.apps.length = w.apps.length := by
  cases a with
  | setOnline => cases hs; exact ⟨rfl, rfl⟩
  | setOffline => exact absurd rfl ha
  | poll now phy arrived =>
    simp only [World.stepLog] at hs
    split at hs
    · rename_i c hc
      cases hs
      exact poll_walk _ _ _ _ _ _ hh hc
    · cases hs

/-- **`ask_order`** (whole token visit, any start state holding the token, any polls / bytes / times /
scripts): the complete callback log of the visit follows the turn. -/
theorem ask_order_walk : ∀ (calls : List ApiCall) (w w' : World) (log : List AppCall), VisitRun w calls →
    w.runLog calls = some (w', log) →
    walk w.apps.length w.s.nextApp log = some w'.s.nextApp ∧ w'.apps.length = w.apps.length := by
  intro calls
  induction calls with
  | nil => intro w w' log _ h; cases h; exact ⟨rfl, rfl⟩
  | cons a rest ih =>
    intro w w' log hv h
    obtain ⟨hh, ha, hrest⟩ := hv
    simp only [World.runLog] at h
    split at h
    · rename_i w1 l1 hs1
      split at h
      · rename_i w2 l2 hr2
        cases h
        obtain ⟨hw1, hl1⟩ := ask_order_step w w1 a l1 hh ha hs1
        obtain ⟨hw2, hl2⟩ := ih w1 w' l2 (hrest w1 l1 hs1) hr2
        rw [hl1] at hw2
        exact ⟨by rw [walk_append _ _ _ _ _ hw1]; exact hw2, hl2.trans hl1⟩
      · cases h
    · cases h

/-- Reading of `walk`: any two ADJACENT callbacks `r1, r2` of a log that follows the turn satisfy
`r2.app = nextIdx n r1`, and the first callback goes to the application whose turn it is. -/
theorem walk_adjacent (n : Nat) : ∀ (log : List AppCall) (j k : Nat), walk n j log = some k →
    (∀ r post, log = r :: post → r.app = j) ∧
    (∀ pre r1 r2 post, log = pre ++ r1 :: r2 :: post → r2.app = nextIdx n r1) := by
  intro log
  induction log with
  | nil =>
    intro j k _
    exact ⟨(by intro r post h; cases h), (by intro pre r1 r2 post h; simp at h)⟩
  | cons x rest ih =>
    intro j k h
    simp only [walk] at h
    by_cases hx : x.app = j
    · rw [if_pos hx] at h
      obtain ⟨ih1, ih2⟩ := ih _ k h
      refine ⟨(by intro r post he; cases he; exact hx), ?_⟩
      intro pre r1 r2 post he
      cases pre with
      | nil =>
        simp only [List.nil_append, List.cons.injEq] at he
        obtain ⟨e1, e2⟩ := he
        subst e1
        exact ih1 r2 post e2
      | cons y ys =>
        simp only [List.cons_append, List.cons.injEq] at he
        exact ih2 ys r1 r2 post he.2
    · rw [if_neg hx] at h; cases h

/-- **`ask_order`** in callback-log form.  Within one token visit (`VisitRun`), for every two adjacent
callbacks of the visit's complete log:
(a) after `transmit_telegram` of application `i` that DECLINED, the next callback is for `(i+1) % n`;
(b) after `transmit_telegram` of application `i` that SENT, the next callback (its reply, its time-out,
    or the next ask) is for `i` itself;
(c) after a reply / time-out delivered to `i`, the next callback is for `i` (it is asked again);
and the first callback of the visit goes to `next_application`. -/
theorem ask_order (calls : List ApiCall) (w w' : World) (log : List AppCall) (hv : VisitRun w calls)
    (hr : w.runLog calls = some (w', log)) :
    (∀ r post, log = r :: post → r.app = w.s.nextApp) ∧
    (∀ pre i hp r post, log = pre ++ .transmit i hp .decline :: r :: post → r.app = (i + 1) % w.apps.length) ∧
    (∀ pre i hp hd pdu r post, log = pre ++ .transmit i hp (.send hd pdu) :: r :: post → r.app = i) ∧
    (∀ pre i x t r post, log = pre ++ .reply i x t :: r :: post → r.app = i) ∧
    (∀ pre i x r post, log = pre ++ .timeout i x :: r :: post → r.app = i) := by
  obtain ⟨h1, h2⟩ := walk_adjacent _ log _ _ (ask_order_walk calls w w' log hv hr).1
  exact ⟨h1, fun pre i hp r post he => h2 pre _ r post he, fun pre i hp hd pdu r post he => h2 pre _ r post he,
    fun pre i x t r post he => h2 pre _ r post he, fun pre i x r post he => h2 pre _ r post he⟩

/-- `ask_order` at every step of every history from a fresh station (lifted with the C05 invariant as in
`callbacks_trace`): whatever call sequence `pre` was made before, the next call does not panic; if the
station holds the token its callbacks follow the turn, and otherwise (the call not being a poll in
`UseToken` / `AwaitDataResponse`) it makes no callback at all. -/
theorem ask_order_trace (p : Params) (apps : Apps) (h1 : p.address < p.hsa) (h2 : p.hsa ≤ 126)
    (hs : ScriptsOk apps) (pre : List ApiCall) (a : ApiCall) :
    ∃ w w' l, World.run { s := Station.new p, apps := apps, rx := [] } pre = some w ∧ w.stepLog a = some (w', l) ∧
      (AppHolding w.s → a ≠ .setOffline → walk w.apps.length w.s.nextApp l = some w'.s.nextApp) ∧
      (¬ AppHolding w.s → l = []) := by
  obtain ⟨w, w', l, hw, -, hl⟩ := reach_step p apps h1 h2 hs pre a
  refine ⟨w, w', l, hw, hl, fun hh ha => (ask_order_step w w' a l hh ha hl).1, ?_⟩
  intro hn
  cases a with
  | setOnline => cases hl; rfl
  | setOffline => cases hl; rfl
  | poll now phy arrived =>
    simp only [World.stepLog] at hl
    split at hl
    · rename_i c hc; cases hl
      rcases poll_calls _ _ _ _ _ _ hc with ⟨h0, -⟩ | ⟨-, hu, -, -⟩ | ⟨-, x, d, hst, -⟩
      · exact h0
      · exact absurd (.inl hu) hn
      · exact absurd (.inr ⟨x, d, hst⟩) hn
    · cases hl

/-- The over-strong reading "after a SENT telegram the next ask goes to `(i+1) % n`" is FALSE of the
model and of the source: `nextIdx` of a sent telegram is the sender itself.  Concrete witness: the poll of
`ask_after_timeout_same_poll` (one application would not show it, so see `order_eval` below for three). -/
theorem sender_keeps_turn (n i : Nat) (hp : Bool) (hd : Header) (pdu : Bytes) :
    nextIdx n (.transmit i hp (.send hd pdu)) = i := rfl


/-! ### Witness: three scripted applications, one token visit -/

def holdingB (s : Station) : Bool :=
  match s.st with
  | .useToken .. | .awaitData .. => true
  | _ => false

theorem holding_of_b {s : Station} (h : holdingB s = true) : AppHolding s := by
  unfold holdingB at h
  cases hst : s.st <;> rw [hst] at h <;> simp at h
  · exact .inl ⟨_, _, hst⟩
  · exact .inr ⟨_, _, hst⟩

/-- A station (TS 7) that has just received the token, turn at application 0 of three: application 0 has
nothing to send, application 1 has one request for station 9 (and then nothing), application 2 nothing. -/
def orderStation : Station :=
  { (Station.new demoParams) with online := true, st := .useToken ⟨0, none⟩ false, lastBusActivity := some 0, endTokenHoldTime := 1000000 }
def orderApps : Apps := [[], [.send (fdlStatusRequestHeader 9 7) []], []]
def orderWorld : World := ⟨orderStation, orderApps, []⟩
def orderCalls : List ApiCall := [.poll 1000 false [], .poll 100000 false []]
def orderLog : List AppCall :=
  [.transmit 0 false .decline, .transmit 1 false (.send (fdlStatusRequestHeader 9 7) []), .timeout 1 9,
   .transmit 1 false .decline, .transmit 2 false .decline]

theorem order_inv : Inv orderStation orderApps := by
  refine ⟨by decide, by decide, TokenRing.new_ok 7 (by decide), (fun h => by cases h), ?_, ?_, ?_, ?_, ?_, ?_, (by simp [orderStation])⟩
  · intro cur hc; simp [orderStation, Station.new, demoParams] at hc ⊢; omega
  · intro a ha; simp [orderStation] at ha
  · intro a ha; simp [orderStation] at ha
  · intro _; decide
  · intro a d h; simp [orderStation] at h
  · intro sc hsc ans hans hd pdu he
    simp [orderApps] at hsc
    rcases hsc with rfl | rfl | rfl
    · simp at hans
    · simp at hans; subst hans; cases he; decide
    · simp at hans

set_option maxRecDepth 100000 in
/-- The whole visit, evaluated: application 0 declines, application 1 sends, its time-out is delivered,
application 1 is asked AGAIN (the sender keeps the turn) and declines, application 2 declines, and the
turn is back at application 0 = `first_app`: the cycle is complete and the station passes on (here: sends
the pending GAP poll first) — although application 0 was NOT asked again after the last sent telegram. -/
theorem order_eval : (match orderWorld.runLog orderCalls with
    | some (w, log) => (log, w.s.nextApp, w.s.st)
    | none => ([], 99, .offline)) = (orderLog, 0, .awaitStatus 8) := by decide

set_option maxRecDepth 100000 in
theorem order_mid : (match orderWorld.stepLog (.poll 1000 false []) with
    | some (w, _) => holdingB w.s
    | none => false) = true := by decide

theorem order_visit : VisitRun orderWorld orderCalls := by
  refine ⟨.inl ⟨_, _, rfl⟩, (by intro h; cases h), ?_⟩
  intro w1 l h
  have hm := order_mid
  rw [h] at hm
  exact ⟨holding_of_b hm, (by intro h; cases h), fun _ _ _ => trivial⟩

/-- Non-vacuity of `ask_order`: its hypotheses hold for the witness visit (a state satisfying the
station invariant `order_inv`), the log is the five callbacks above, and the conclusions can be read
off: e.g. the callback after the decline of application 0 goes to application 1, the callbacks after the
request of application 1 (time-out, next ask) go to application 1. -/
theorem order_witness : ∃ w' , orderWorld.runLog orderCalls = some (w', orderLog) ∧ VisitRun orderWorld orderCalls ∧
    Inv orderWorld.s orderWorld.apps ∧ walk 3 0 orderLog = some 0 := by
  have he := order_eval
  cases hr : orderWorld.runLog orderCalls with
  | none => rw [hr] at he; simp at he
  | some x =>
    obtain ⟨w', log⟩ := x
    rw [hr] at he
    simp only [Prod.mk.injEq] at he
    refine ⟨w', by rw [he.1], order_visit, order_inv, by decide⟩

example : ∀ r post pre, orderLog = pre ++ .transmit 0 false .decline :: r :: post → r.app = 1 := by
  obtain ⟨w', hr, hv, -, -⟩ := order_witness
  intro r post pre he
  exact (ask_order orderCalls orderWorld w' orderLog hv hr).2.1 pre 0 false r post he

/-- Against the phrasing "the visit ends only if every application was asked once SINCE THE LAST SENT
TELEGRAM and all declined": in the witness visit the token hold ends (the station leaves `UseToken` for
the GAP poll / token pass, the hold time being far from over) although application 0 was not asked
after the telegram sent by application 1.  The true rule is per VISIT: `first_app` is remembered across
sent telegrams, and the hold ends when the turn comes back to it (`cycle_ends_fair` below). -/
theorem visit_end_not_since_last_send :
    ∃ w' pre post hd pdu, orderWorld.runLog orderCalls = some (w', pre ++ .transmit 1 false (.send hd pdu) :: post) ∧
      ¬ AppHolding w'.s ∧ (∀ hp ans, AppCall.transmit 0 hp ans ∉ post) ∧ (100000 : Int) < orderStation.endTokenHoldTime := by
  have he := order_eval
  cases hr : orderWorld.runLog orderCalls with
  | none => rw [hr] at he; simp at he
  | some x =>
    obtain ⟨w', log⟩ := x
    rw [hr] at he
    simp only [Prod.mk.injEq] at he
    refine ⟨w', [.transmit 0 false .decline], [.timeout 1 9, .transmit 1 false .decline, .transmit 2 false .decline],
      _, _, by rw [he.1]; rfl, ?_, (by intro hp ans h; simp at h), by decide⟩
    rintro (⟨d, fcd, h⟩ | ⟨a, d, h⟩) <;> rw [he.2.2] at h <;> cases h


/-! ## Fairness within one token visit (`no_double_decline`, `visit_ends_fair`)

Helper lemmas: `Lemmas/AppVisit.lean` (`VTurn`, `askFresh`, `cyc`, `poll_turn`).  The TRUE rules of
`apps_transmit_telegram` / `schedule_next_application` / `do_use_token` are per token VISIT, because
`first_app` lives in the visit's `UseTokenData` and survives sent telegrams:

* an application that declined is not asked again in the same visit AT ALL — not even after another
  application sent in between (stronger than the expected rule);
* the token hold is ended by `do_use_token` only if the hold time is over, or there are no applications,
  or EVERY application has declined exactly once in this visit (not "since the last sent telegram":
  refuted by `visit_end_not_since_last_send`). -/

/-! `VInv`, `Continues`, `EndReason`, `HoldRun` and the step / run lemmas `visit_step`, `visit_run` are in
`Lemmas/AppVisit.lean` (namespace `PV.C15`). -/

/-- **`no_double_decline`** (one whole token visit, any polls / bytes / times / scripts).  From the start
of a visit (`first_app = None`, as after every token receipt / claim) and as long as the token hold
continues: an application that declined is not asked again in this visit — whether or not another
application sent a telegram in between — and in particular nobody declines twice. -/
theorem no_double_decline (calls : List ApiCall) (w w' : World) (log : List AppCall) (d : UseData)
    (hd : visitData w.s = some d) (hfirst : d.firstApp = none) (hrun : HoldRun w calls)
    (hr : w.runLog calls = some (w', log)) :
    (∀ pre i hp post, log = pre ++ .transmit i hp .decline :: post → ∀ hp' ans, AppCall.transmit i hp' ans ∉ post) ∧
    (declinesOf log).Nodup := by
  have hi : VInv w.apps.length w.s [] := ⟨d, hd, by rw [hfirst]; rfl⟩
  obtain ⟨hf, -, d', -, hv⟩ := visit_run calls w w' log [] hi hrun hr
  refine ⟨fun pre i hp post he => askFresh_decline pre [] log post i hp hf he, ?_⟩
  simpa using vturn_nodup hv

/-- **`visit_ends_fair`** (one whole token visit).  From the start of a visit, after any polls during
which the hold continued, a poll that does NOT continue the hold either backs off to `ActiveIdle` (an
inadmissible telegram arrived instead of the awaited reply — the token is not passed), or the hold time
is over (`now ≥ end_token_hold_time` as `do_use_token` computes it), or there are no applications, or
every application has declined in this visit — each exactly once. -/
theorem visit_ends_fair (calls : List ApiCall) (w w1 w2 : World) (log l : List AppCall) (d : UseData)
    (now : Int) (phy : Bool) (arr : Bytes)
    (hd : visitData w.s = some d) (hfirst : d.firstApp = none) (hrun : HoldRun w calls)
    (hr : w.runLog calls = some (w1, log)) (hs : w1.stepLog (.poll now phy arr) = some (w2, l))
    (hend : ¬ Continues w1 w2 l) :
    w2.s.st = .activeIdle none none 0 ∨
    (∃ d1, visitData w1.s = some d1 ∧ ¬ now < (holdUpdate w1.s d1).endTokenHoldTime) ∨
    w.apps.length = 0 ∨
    ((∀ i, i < w.apps.length → i ∈ declinesOf (log ++ l)) ∧ (declinesOf (log ++ l)).Nodup) := by
  have hi : VInv w.apps.length w.s [] := ⟨d, hd, by rw [hfirst]; rfl⟩
  obtain ⟨-, hlen, hinv⟩ := visit_run calls w w1 log [] hi hrun hr
  obtain ⟨-, -, -, hfin⟩ := visit_step w1 w2 now phy arr l _ hinv hs
  rcases hfin hend with h | h | h | ⟨f, hf, he⟩
  · exact .inl h
  · exact .inr (.inl h)
  · exact .inr (.inr (.inl (by rw [← hlen]; exact h)))
  · right; right; right
    rw [hlen] at hf he
    simp only [List.nil_append] at he
    rw [declinesOf_append, he]
    exact ⟨fun i hi => cyc_full _ f i hf hi, cyc_nodup _ f hf _ (Nat.le_refl _)⟩

/-- `no_double_decline` / `visit_ends_fair` for every history from a fresh station (lifted with the C05
invariant): after ANY call sequence `pre`, any further calls `calls` and one more call `a` do not panic;
and if `pre` ended at the start of a token visit and the hold continued during `calls` (polls), the
visit's log `log` obeys `no_double_decline`, and if `a` is a poll that ends the hold, it does so for one
of the four reasons of `visit_ends_fair`. -/
theorem visit_trace (p : Params) (apps : Apps) (h1 : p.address < p.hsa) (h2 : p.hsa ≤ 126)
    (hs : ScriptsOk apps) (pre calls : List ApiCall) (a : ApiCall) :
    ∃ w w1 log w2 l, World.run { s := Station.new p, apps := apps, rx := [] } pre = some w ∧
      w.runLog calls = some (w1, log) ∧ w1.stepLog a = some (w2, l) ∧
      (∀ d, visitData w.s = some d → d.firstApp = none → HoldRun w calls →
        ((∀ pre' i hp post, log = pre' ++ .transmit i hp .decline :: post → ∀ hp' ans, AppCall.transmit i hp' ans ∉ post) ∧
         (declinesOf log).Nodup) ∧
        (∀ now phy arr, a = .poll now phy arr → ¬ Continues w1 w2 l →
          w2.s.st = .activeIdle none none 0 ∨
          (∃ d1, visitData w1.s = some d1 ∧ ¬ now < (holdUpdate w1.s d1).endTokenHoldTime) ∨
          w.apps.length = 0 ∨
          ((∀ i, i < w.apps.length → i ∈ declinesOf (log ++ l)) ∧ (declinesOf (log ++ l)).Nodup))) := by
  obtain ⟨w, hw, hi⟩ := poll_never_panics p apps h1 h2 hs pre
  obtain ⟨w1, log, hr, hi1⟩ := runLog_total calls w hi
  obtain ⟨w2, hw2, -, -⟩ := inv_step w1 a hi1
  obtain ⟨l, hl⟩ := stepLog_of_step hw2
  refine ⟨w, w1, log, w2, l, hw, hr, hl, ?_⟩
  intro d hd hfirst hrun
  refine ⟨no_double_decline calls w w1 log d hd hfirst hrun hr, ?_⟩
  intro now phy arr ha hend
  subst ha
  exact visit_ends_fair calls w w1 w2 log l d now phy arr hd hfirst hrun hr hl hend


/-! ### Non-vacuity of `no_double_decline` / `visit_ends_fair`: the witness visit of `order_eval` -/

def continuesB (w : World) : Bool :=
  match w.s.st with
  | .useToken _ true | .awaitData .. => true
  | _ => false

theorem continues_of_b {w w' : World} {l : List AppCall} (h : continuesB w' = true) : Continues w w' l := by
  unfold continuesB at h
  cases hst : w'.s.st with
  | useToken d fcd =>
    cases fcd with
    | true => exact .inl ⟨d, hst⟩
    | false => rw [hst] at h; cases h
  | awaitData a d => exact .inr (.inl ⟨a, d, hst⟩)
  | offline => rw [hst] at h; cases h
  | passiveIdle => rw [hst] at h; cases h
  | listenToken a b => rw [hst] at h; cases h
  | activeIdle a b c => rw [hst] at h; cases h
  | claimToken a => rw [hst] at h; cases h
  | passToken a b => rw [hst] at h; cases h
  | checkTokenPass a => rw [hst] at h; cases h
  | awaitStatus a => rw [hst] at h; cases h

/-- First poll: hold continues (application 1 sent); second poll: ends in `AwaitStatusResponse` with
callbacks, all three applications having declined once. -/
def orderCheck : Bool :=
  match orderWorld.stepLog (.poll 1000 false []) with
  | some (w1, log) =>
    (match w1.stepLog (.poll 100000 false []) with
     | some (w2, l) => decide (w2.s.st = .awaitStatus 8) && decide (declinesOf (log ++ l) = [0, 1, 2]) &&
         continuesB w1 && decide (l ≠ [])
     | none => false)
  | none => false

set_option maxRecDepth 100000 in
theorem orderCheck_true : orderCheck = true := by decide

/-- The hypotheses of `visit_ends_fair` are satisfiable from a state satisfying the station invariant at
the start of a visit: the hold continues over the first poll and is ended by the second one — far before
the hold time is over, with three applications, without back-off — so the last disjunct applies: all
three applications declined, each once (`declinesOf = [0, 1, 2]`). -/
theorem visit_witness : ∃ w1 log w2 l, Inv orderWorld.s orderWorld.apps ∧
    visitData orderWorld.s = some ⟨0, none⟩ ∧ HoldRun orderWorld [.poll 1000 false []] ∧
    orderWorld.runLog [.poll 1000 false []] = some (w1, log) ∧ w1.stepLog (.poll 100000 false []) = some (w2, l) ∧
    ¬ Continues w1 w2 l ∧ w2.s.st = .awaitStatus 8 ∧ declinesOf (log ++ l) = [0, 1, 2] := by
  have hc := orderCheck_true
  unfold orderCheck at hc
  cases h1 : orderWorld.stepLog (.poll 1000 false []) with
  | none => rw [h1] at hc; simp at hc
  | some x =>
    obtain ⟨w1, log⟩ := x
    rw [h1] at hc
    simp only at hc
    cases h2 : w1.stepLog (.poll 100000 false []) with
    | none => rw [h2] at hc; simp at hc
    | some y =>
      obtain ⟨w2, l⟩ := y
      rw [h2] at hc
      simp only [Bool.and_eq_true, decide_eq_true_eq] at hc
      obtain ⟨⟨⟨hst, hdl⟩, hcb⟩, hne⟩ := hc
      refine ⟨w1, log, w2, l, order_inv, rfl, ?_, ?_, h2, ?_, hst, hdl⟩
      · refine ⟨⟨_, _, _, rfl⟩, ?_⟩
        intro w1' l' h'
        rw [h1] at h'; cases h'
        exact ⟨continues_of_b hcb, trivial⟩
      · simp only [World.runLog, h1, List.append_nil]
      · rintro (⟨d, h⟩ | ⟨a, d, h⟩ | ⟨-, h⟩)
        · rw [hst] at h; cases h
        · rw [hst] at h; cases h
        · exact hne h

example : ∃ (w1 w2 : World) (log l : List AppCall),
    (∀ i, i < 3 → i ∈ declinesOf (log ++ l)) ∧ (declinesOf (log ++ l)).Nodup := by
  obtain ⟨w1, log, w2, l, -, hd, hrun, hr, hs, hend, hst, hdl⟩ := visit_witness
  refine ⟨w1, w2, log, l, ?_⟩
  rcases visit_ends_fair _ orderWorld w1 w2 log l ⟨0, none⟩ 100000 false [] hd rfl hrun hr hs hend with h | h | h | h
  · rw [hst] at h; cases h
  · rw [hdl]; decide
  · cases h
  · exact h


/-! ## Scheduling order over whole histories (`ask_order_history`)

Helper lemmas: `Lemmas/AppFrame.lean` (`poll_keep`: no handler but the application loop moves
`next_application` — except the station reset; `walkR`, `turn_run`).  The station reset
(`*self = Self::new(..)`) happens in `set_offline` AND inside a poll, in the duplicate-address detection
of `do_listen_token`; it puts the turn back to application 0.  Hence the rule for the complete callback
log of ANY history carries the alternative "or application 0". -/

/-- **`ask_order`** (whole histories).  For every parameter set, every set of applications and EVERY
sequence of `poll` / `set_online` / `set_offline` calls from a fresh station: the run does not panic, the
first callback goes to application 0, and for any two adjacent callbacks `r1, r2` of the complete log —
however many polls, token visits, lost tokens, ring re-entries lie between them — `r2` goes to the
application whose turn it is after `r1` (`(i+1) % n` after a decline of `i`; `i` itself after a telegram
sent by / a reply or time-out delivered to `i`), or to application 0 (station reset in between). -/
theorem ask_order_history (p : Params) (apps : Apps) (h1 : p.address < p.hsa) (h2 : p.hsa ≤ 126)
    (hs : ScriptsOk apps) (calls : List ApiCall) :
    ∃ w log, World.runLog { s := Station.new p, apps := apps, rx := [] } calls = some (w, log) ∧
      (∀ r post, log = r :: post → r.app = 0) ∧
      (∀ pre r1 r2 post, log = pre ++ r1 :: r2 :: post → r2.app = nextIdx apps.length r1 ∨ r2.app = 0) := by
  obtain ⟨w, log, hr, -⟩ := runLog_total calls { s := Station.new p, apps := apps, rx := [] } (inv_init p apps h1 h2 hs)
  obtain ⟨ha1, ha2⟩ := walkR_adjacent _ log _ _ (turn_run calls _ w log hr).1
  refine ⟨w, log, hr, ?_, ha2⟩
  intro r post he
  rcases ha1 r post he with h | h <;> exact h

/-- The same for an arbitrary start state, conditional on the run being regular; with the turn at the end. -/
theorem ask_order_history' (calls : List ApiCall) (w w' : World) (log : List AppCall)
    (hr : w.runLog calls = some (w', log)) :
    walkR w.apps.length w.s.nextApp log w'.s.nextApp ∧
    (∀ pre r1 r2 post, log = pre ++ r1 :: r2 :: post → r2.app = nextIdx w.apps.length r1 ∨ r2.app = 0) :=
  ⟨(turn_run calls w w' log hr).1, (walkR_adjacent _ log _ _ (turn_run calls w w' log hr).1).2⟩

/-- Non-vacuity of `ask_order_history`: the witness visit continued by `set_offline`, going online again
and a poll; five callbacks, adjacent ones obey the rule. -/
example : ∃ w, World.runLog orderWorld (orderCalls ++ [.setOffline, .setOnline, .poll 200000 false []]) = some (w, orderLog) ∧
    w.s.nextApp = 0 := by
  have : (match World.runLog orderWorld (orderCalls ++ [.setOffline, .setOnline, .poll 200000 false []]) with
      | some (w, log) => (log, w.s.nextApp)
      | none => ([], 99)) = (orderLog, 0) := by
    set_option maxRecDepth 100000 in decide
  cases hr : World.runLog orderWorld (orderCalls ++ [.setOffline, .setOnline, .poll 200000 false []]) with
  | none => rw [hr] at this; simp at this
  | some x =>
    obtain ⟨w, log⟩ := x
    rw [hr] at this
    simp only [Prod.mk.injEq] at this
    exact ⟨w, by rw [this.1], this.2⟩

end PV.C15
