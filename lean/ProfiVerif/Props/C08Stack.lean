/-
C08 for the composed system FDL ∘ DP (`Model/Stack.lean`).

The theorems of `Props/C08.lean` are stated for steps from states reached by contract histories
(`Lemmas/Dp.lean`).  In the composed system — the station model with the DP master model as its only
application — the contract is a theorem (`Stack.station_log_is_contract_history`,
`Lemmas/Stack.lean`): every callback the station makes and every user call in between is such a step.
`stack_reachable` transfers all step theorems of `Props/C08.lean`; the headline clause is restated.
(A separate file because importing the station lemmas into `Props/C08.lean` would make the name
`Inv` ambiguous there.)
-/
import ProfiVerif.Props.C08
import ProfiVerif.Lemmas.StackEx

namespace PV.C08
open PV PV.Dp

theorem stack_reachable {fp : FdlParams} (hfp : FpOk fp) (p : Params)
    (haddr : fp.address.toNat = p.address) {slots : List (Option Peripheral)} (hinit : InitOk fp slots) (gr : Bool)
    (calls : List Stack.Call) {t0 : Int} (ht0 : -(2:Int)^62 < t0) (ht : Stack.TimesOk t0 calls)
    {k' : Stack.State} {l : List Stack.MCall} (h : Stack.run fp (Stack.init p slots gr) calls = .ok (k', l))
    {pre post : List Stack.MCall} {x : Stack.MCall} (hl : l = pre ++ x :: post) :
    ∃ g g', grun fp (G.init slots gr) (pre.map Stack.toOp) = .ok g ∧ gstep fp g (Stack.toOp x) = .ok g' ∧
      Dp.Inv fp g ∧ (g.tainted = false → Inv8 g) := by
  obtain ⟨g, g', e1, e2⟩ := Stack.stack_step hfp p haddr hinit gr calls ht0 ht h hl
  obtain ⟨hI, hr⟩ := reachable hfp hinit gr _ e1
  exact ⟨g, g', e1, e2, hI, hr⟩

/-- **`first_is_first` for the composed stack**: in any run of station ∘ master from the initial
state, the first request the master hands to the station for a peripheral after start-up, after it was
declared offline, or after `reset_address()`, carries FCV = 0 / FCB = 1. -/
theorem stack_first_is_first {fp : FdlParams} (hfp : FpOk fp) (p : Params)
    (haddr : fp.address.toNat = p.address) {slots : List (Option Peripheral)} (hinit : InitOk fp slots) (gr : Bool)
    (calls : List Stack.Call) {t0 : Int} (ht0 : -(2:Int)^62 < t0) (ht : Stack.TimesOk t0 calls)
    {k' : Stack.State} {l : List Stack.MCall} (h : Stack.run fp (Stack.init p slots gr) calls = .ok (k', l))
    {pre post : List Stack.MCall} {now : Int} {hp : Bool} (hl : l = pre ++ .tx now hp :: post) :
    ∃ g g', grun fp (G.init slots gr) (pre.map Stack.toOp) = .ok g ∧ gstep fp g (.tx now hp) = .ok g' ∧
      ∀ i hd pdu, g'.o = .sent i hd pdu → (g.sg i).expectFirst = true → g.tainted = false →
        fcbOf hd = .first ∧ (fcbOf hd).fcv = false ∧ (fcbOf hd).fcb = true := by
  obtain ⟨g, g', e1, e2, hI, hr⟩ := stack_reachable hfp p haddr hinit gr calls ht0 ht h hl
  exact ⟨g, g', e1, e2, fun i hd pdu ho hf hu => first_is_first hfp hI (hr hu) e2 ho hf⟩


/-! ### Non-vacuity -/

/-- In the concrete composed run `Stack.Ex.calls` the first request for the peripheral goes out with
`expectFirst` set, in an untainted history (and carries FCB First). -/
example : Stack.Ex.runHas (fun g _ g' =>
    match g'.o with
    | .sent i hd _ => (g.sg i).expectFirst && !g.tainted && fcbOf hd == .first
    | _ => false) = true := by decide +kernel

end PV.C08
