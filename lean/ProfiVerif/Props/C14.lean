/-
C14 — DP cycles visit every peripheral once and events are accounted exactly.

Property theorems only; definitions are in `Lemmas/Dp.lean` (histories under the FDL contract C15
with ghost observations) and `Lemmas/Dp14.lean` (ghost invariant `Inv14`).  All statements are about
`Model/Dp/{Peripheral,Master}.lean`, tied to `src/dp/{master,peripheral,peripheral_set}.rs` by the
`dp` correspondence.  Slots are an arbitrary `List (Option Peripheral)` (sparse fixed arrays and
vectors alike), 0..256 slots, any number of them occupied.

Ghost observations used here: `produced` (peripheral events the callbacks produced, oldest first),
`taken` (events handed out by `take_last_events`), `collected` (sticky: `take_last_events` was called
between any two callbacks that report events — "the application collects events after every poll"),
`lc` per slot (life-cycle automaton `lcStep` run over the events taken for the slot:
0 off, 1 online, 2 configured).
-/
import ProfiVerif.Lemmas.Dp14Turns

namespace PV.C14
open PV PV.Dp

/-- Every state a contract history reaches — with `reset_address()` at any point — satisfies the
invariants the step theorems assume. -/
theorem reachable {fp : FdlParams} (hfp : FpOk fp) {slots : List (Option Peripheral)}
    (hinit : InitOk fp slots) (gr : Bool) (ops : List Op) :
    ∀ {g : G}, grun fp (G.init slots gr) ops = .ok g → Inv fp g ∧ Inv14 g := by
  suffices H : ∀ (ops : List Op) (g0 : G), Inv fp g0 → Inv14 g0 →
      ∀ g, grun fp g0 ops = .ok g → Inv fp g ∧ Inv14 g by
    intro g h; exact H ops _ (inv_init hinit gr) (inv14_init hinit gr) g h
  intro ops
  induction ops with
  | nil => intro g0 h1 h2 g h; simp only [grun, Res3.ok.injEq] at h; subst h; exact ⟨h1, h2⟩
  | cons op ops ih =>
    intro g0 h1 h2 g h
    simp only [grun] at h
    cases hs : gstep fp g0 op with
    | ok g1 =>
      rw [hs] at h
      exact ih g1 (inv_step hfp h1 op hs) (inv14_step hfp h1 h2 op hs) g h
    | panic => rw [hs] at h; cases h
    | hang => rw [hs] at h; cases h
    | refused => rw [hs] at h; cases h

/-- `turn_ends`: on every history the contract allows, for any number of peripherals *including
zero*, every `transmit_telegram` returns (the loop needs at most `slots.length + 1` iterations) and
nothing panics. -/
theorem turn_ends {fp : FdlParams} (hfp : FpOk fp) {slots : List (Option Peripheral)}
    (hinit : InitOk fp slots) (gr : Bool) (ops : List Op) :
    grun fp (G.init slots gr) ops ≠ .hang ∧ grun fp (G.init slots gr) ops ≠ .panic :=
  ⟨(inv_run hfp ops _ (inv_init hinit gr)).2.1, (inv_run hfp ops _ (inv_init hinit gr)).1⟩

/-- Step form of `turn_ends`: in every state satisfying the invariant a poll neither spins nor panics. -/
theorem turn_ends_step {fp : FdlParams} (hfp : FpOk fp) {g : G} (hI : Inv fp g) (now : Int) (hp : Bool) :
    gstep fp g (.tx now hp) ≠ .hang ∧ gstep fp g (.tx now hp) ≠ .panic :=
  ⟨(gstep_ok hfp hI _).2, (gstep_ok hfp hI _).1⟩

/-- F4: a master without any peripheral ends its turn at once: no telegram, `cycle_completed` set. -/
theorem empty_master_turn {fp : FdlParams} (hfp : FpOk fp) {g g' : G} (hI : Inv fp g)
    (hnone : ∀ (i : Nat) (p : Peripheral), g.m.slots[i]? ≠ some (some p))
    {now : Int} {hp : Bool} (h : gstep fp g (.tx now hp) = .ok g') :
    (∃ pdu, g'.o = .gc (gcHeader fp) pdu) ∨
      (g'.o = .idle ∧ g'.out = none ∧ (g.m.cycle ≠ .completed → g'.m.lastEvents.cycleCompleted = true)) := by
  cases tx_form hfp hI h with
  | gc => left; exact ⟨_, rfl⟩
  | send m1 i p p' hd pdu hD hM1 hc hts =>
    exfalso
    have hi := cur_slot hc
    obtain ⟨p0, hp0, _⟩ := decSlot_back (hD.slot i) hi
    exact hnone i p0 hp0
  | off m1 index i p hD hM1 hcy hc =>
    exfalso
    have hi := (curSlot_spec hc).2.2.1
    obtain ⟨p0, hp0, _⟩ := decSlot_back (hD.slot i) hi
    exact hnone i p0 hp0
  | idle m' hD hM' hn hh =>
    right
    refine ⟨rfl, rfl, ?_⟩
    intro hcy
    -- the loop ends in its first iteration: no slot is occupied
    have hloop : Master.transmit fp now hp g.m = Master.txLoop fp (g.m.slots.length + 1) g.m := by
      unfold Master.transmit
      simp only [hI.m.op, reduceCtorEq, if_false]
      rcases hh with hh | hh
      · simp [hh]
      · cases hp with
        | true => simp
        | false => simp [hh]
    have hcs : ∀ index, curSlot g.m.slots index = none := by
      intro index
      cases hc : curSlot g.m.slots index with
      | none => rfl
      | some ip => exact absurd (curSlot_spec hc).2.2.1 (hnone ip.1 ip.2)
    cases hcyc : g.m.cycle with
    | completed => exact absurd hcyc hcy
    | dx index =>
      have hr : Master.txLoop fp (g.m.slots.length + 1) g.m =
          .none { g.m with cycle := .dx 0, lastEvents := { cycleCompleted := true } } := by
        unfold Master.txLoop
        simp only [hcyc, visit_eq hI.m, hcs]
      have hg := h
      simp only [gstep] at hg
      cases hto : timeOk g now with
      | false => simp [hto] at hg
      | true =>
        simp only [hto, Bool.not_true, Bool.false_eq_true, if_false, hloop, hr] at hg
        simp only [Res3.ok.injEq] at hg
        rw [← hg]

/-- `global_control`: a poll sends the global-control broadcast exactly when `high_prio_only` is No
and at least `50·Tsl` elapsed since the last one (or none was sent since `enter_operate`).  It is the
SDN broadcast to 127, DSAP 58 / SSAP 62, PDU `00 00` (Operate), expects no reply, and never advances
the cycle: slots and cycle index are untouched. -/
theorem global_control {fp : FdlParams} (hfp : FpOk fp) {g g' : G} (hI : Inv fp g)
    {now : Int} {hp : Bool} (h : gstep fp g (.tx now hp) = .ok g') :
    ((∃ hd pdu, g'.o = .gc hd pdu) ↔
      (hp = false ∧ (match g.m.lastGc with
        | none => True
        | some t => (now - t).natAbs ≥ 50 * fp.slotUs))) ∧
    (∀ hd pdu, g'.o = .gc hd pdu →
      hd = { da := 127, sa := fp.address, dsap := some 58, ssap := some 62, fc := .request .inactive .sdnLow } ∧
      pdu = [0x00, 0x00] ∧ g'.out = none ∧ g'.m.slots = g.m.slots ∧ g'.m.cycle = g.m.cycle ∧
      g'.m.lastGc = some now ∧ hd.serialize pdu = .ok (frameSpec hd pdu)) := by
  have hto : timeOk g now = true := by
    cases hto : timeOk g now with
    | true => rfl
    | false => simp [gstep, hto] at h
  have hdue' : gcDue fp now g.m.lastGc = some true ↔
      (match g.m.lastGc with | none => True | some t => (now - t).natAbs ≥ 50 * fp.slotUs) := by
    have hgc := hI.gcT
    cases hl : g.m.lastGc with
    | none => simp [gcDue]
    | some t =>
      have ht := hgc t hl
      have hn := timeOk_bound hto
      unfold timeB at hn ht
      have h1 : i64Ok (now - t) = true := by
        unfold i64Ok; simp only [decide_eq_true_eq]; omega
      have h2 : ¬ (fp.slotUs * 50 ≥ 2 ^ 64) := by have := hfp.slot; omega
      simp [gcDue, h1, h2, Nat.mul_comm]
  cases tx_form hfp hI h with
  | gc hp0 hg1 =>
    refine ⟨⟨fun _ => ⟨hp0, hdue'.mp hg1⟩, fun _ => ⟨_, _, rfl⟩⟩, ?_⟩
    intro hd pdu ho
    simp only [Out.gc.injEq] at ho
    obtain ⟨rfl, rfl⟩ := ho
    exact ⟨rfl, rfl, rfl, rfl, rfl, rfl, gcHeader_serialize fp _ rfl⟩
  | idle m' _ _ _ hh =>
    refine ⟨⟨fun ⟨_, _, ho⟩ => (by cases ho), fun ⟨h1, h2⟩ => ?_⟩, fun _ _ ho => (by cases ho)⟩
    rcases hh with hh | hh
    · rw [hh] at h1; cases h1
    · rw [hdue'.mpr h2] at hh; cases hh
  | send m1 i p p' hd pdu _ _ _ _ hh =>
    refine ⟨⟨fun ⟨_, _, ho⟩ => (by cases ho), fun ⟨h1, h2⟩ => ?_⟩, fun _ _ ho => (by cases ho)⟩
    rcases hh with hh | hh
    · rw [hh] at h1; cases h1
    · rw [hdue'.mpr h2] at hh; cases hh
  | off m1 index i p _ _ _ _ _ hh =>
    refine ⟨⟨fun ⟨_, _, ho⟩ => (by cases ho), fun ⟨h1, h2⟩ => ?_⟩, fun _ _ ho => (by cases ho)⟩
    rcases hh with hh | hh
    · rw [hh] at h1; cases h1
    · rw [hdue'.mpr h2] at hh; cases hh

/-- `events_exact`: if the application collects the events after every poll, the events handed out
by `take_last_events` plus the one still waiting are exactly the peripheral events the callbacks
produced, in order — none lost, none duplicated. -/
theorem events_exact {g : G} (h4 : Inv14 g) (hc : g.collected = true) :
    g.produced = g.taken ++ g.m.lastEvents.peripheral.toList := h4.exact hc

/-- `take_last_events` hands the event set out once: afterwards it is empty. -/
theorem take_clears {fp : FdlParams} {g g' : G} (h : gstep fp g .take = .ok g') :
    g'.o = .taken g.m.lastEvents ∧ g'.m.lastEvents = {} ∧
      g'.taken = g.taken ++ g.m.lastEvents.peripheral.toList := by
  simp only [gstep, Master.takeLastEvents, Res3.ok.injEq] at h
  subst h; exact ⟨rfl, rfl, rfl⟩

/-- At most one peripheral event per callback: every callback *sets* the event set (it never merges
into an uncollected one), so with collection after every poll nothing is overwritten. -/
theorem one_event_per_callback {fp : FdlParams} (hfp : FpOk fp) {g g' : G} (hI : Inv fp g) (op : Op)
    (h : gstep fp g op = .ok g') :
    g'.produced = g.produced ∨ ∃ he, g'.produced = g.produced ++ [he] ∧ g'.m.lastEvents.peripheral = some he := by
  cases op with
  | tx now hp =>
    cases tx_form hfp hI h with
    | gc => left; rfl
    | idle => left; rfl
    | send => left; rfl
    | off m1 index i p =>
      right
      refine ⟨_, rfl, ?_⟩
      simp only [G.polled, afterDecline]; cases nextSlot m1.slots index <;> rfl
  | reply a t =>
    rcases reply_cases hI h with ⟨index, i, p, p', ev, _, _, _, _, _, _, rfl⟩ | ⟨_, _, _, _, _, _, _, rfl⟩
    · cases ev with
      | none => left; simp
      | some e => right; exact ⟨_, rfl, rfl⟩
    · left; rfl
  | resetAddr slot a =>
    simp only [gstep] at h
    split at h
    · cases h
    · cases hw : g.m.resetAddress slot a with
      | none => rw [hw] at h; cases h
      | some m' => rw [hw] at h; simp only [Res3.ok.injEq] at h; subst h; left; rfl
  | timeout a =>
    simp only [gstep] at h
    split at h
    · cases h
    · simp only [Res3.ok.injEq] at h; subst h; left; rfl
  | take => simp only [gstep, Master.takeLastEvents, Res3.ok.injEq] at h; subst h; left; rfl
  | writeQ slot bs =>
    simp only [gstep] at h
    cases hw : g.m.writePiQ slot bs with
    | none => rw [hw] at h; cases h
    | some m' => rw [hw] at h; simp only [Res3.ok.injEq] at h; subst h; left; rfl
  | diagReq slot =>
    simp only [gstep] at h
    cases hw : g.m.requestDiagnostics slot with
    | none => rw [hw] at h; cases h
    | some m' => rw [hw] at h; simp only [Res3.ok.injEq] at h; subst h; left; rfl

/-- `lifecycle`: with collection after every poll, every event `take_last_events` hands out is
accepted by the life-cycle automaton of its peripheral (Online only while off; Configured,
DataExchanged, Diagnostics only after Online / Configured; Offline, ParameterError, ConfigError only
while live), and it names an occupied slot — unless it is a stale event: one that was produced for an
incarnation of the peripheral which `reset_address()` has replaced since (`staleEv`; such an event is
handed out once, by the next `take_last_events`, and is not counted). -/
theorem lifecycle_event {g : G} (h4 : Inv14 g) (hc : g.collected = true) (hs : g.staleEv = false)
    {he : HEvent} (hev : g.m.lastEvents.peripheral = some he)
    {p : Peripheral} (hp : g.m.slots[he.index]? = some (some p)) :
    ∃ v, lcStep (g.sg he.index).lc he.ev = some v := by
  obtain ⟨v, hv, _⟩ := h4.lc hc he.index p hp
  rw [lcNow_fresh hs] at hv
  simp only [lcEff, hev, if_true] at hv
  exact ⟨v, hv⟩

/-- `lifecycle`, the accessors: once the events are collected (nothing waiting), `is_live()` and
`is_running()` agree with the life-cycle state reached by the events taken so far. -/
theorem lifecycle_accessors {g : G} (h4 : Inv14 g) (hc : g.collected = true) (hd : g.dirty = false)
    {i : Nat} {p : Peripheral} (hp : g.m.slots[i]? = some (some p)) :
    (p.isLive = true ↔ (g.sg i).lc ≠ 0) ∧ (p.isRunning = true → (g.sg i).lc = 2) ∧ (g.sg i).lc ≤ 2 := by
  obtain ⟨v, hv, hok⟩ := h4.lc hc i p hp
  rw [lcNow_none (h4.clean hd)] at hv
  simp only [Option.some.injEq] at hv
  subst hv
  refine ⟨?_, ?_, hok.le⟩
  · simp only [Peripheral.isLive, bne_iff_ne, ne_eq]
    exact not_congr hok.off
  · intro hr
    simp only [Peripheral.isRunning, beq_iff_eq] at hr
    exact hok.dx (Or.inr hr)

/-! ### Turn order

The cycle index (`cycle_state`) designates the peripheral whose turn it is.  `transmit_telegram` is
only ever invoked on the peripheral the index designates (`visit_eq`); the three theorems below say
how the index moves: within one poll through consecutive occupied slots (`turn_order_poll`), at the
end of a poll / on a reply to the *next* occupied slot or — exactly when none follows — back to the
start together with the `cycle_completed` report (`cycle_completed_poll`, `cycle_completed_reply`,
`next_is_next_occupied`).  So between two `cycle_completed` reports the index passes every occupied
slot once, in slot order: `turn_order` / `cycle_completed_once` below state that for whole histories
(bookkeeping `Turns` / `trun` of `Lemmas/Dp14Turns.lean`). -/

/-- `turn_order` within one poll: starting with the cycle index at the occupied slot `o`, the loop
invokes `Peripheral::transmit_telegram` on exactly the occupied slots from `o` up to the slot `e`
that ends the loop — ascending, none skipped, none twice (`vs` are those that declined and were
passed, `e` the last); the peripheral in `e` decides the outcome: a telegram (index stays at `e`: its
turn continues with the reply / retransmissions), or no telegram with the index moving on. -/
theorem turn_order_poll {fp : FdlParams} (hfp : FpOk fp) {m : Master} (hM : MInv fp m) {index o : Nat} {p : Peripheral}
    (hcy : m.cycle = .dx index) (hc : curSlot m.slots index = some (o, p)) :
    ∃ m1 vs index1 e pe, ReachV fp m m1 vs ∧ m1.cycle = .dx index1 ∧ curSlot m1.slots index1 = some (e, pe) ∧
      vs ++ [e] = occIn m.slots o (e + 1) ∧ (∀ j, occupied m1.slots j = occupied m.slots j) ∧
      (match pe.transmit fp m1.op with
       | .send p' h pdu =>
         Master.txLoop fp (m.slots.length + 1) m =
           .send { m1 with slots := m1.slots.set e (some p'), lastEvents := {} } h pdu
       | .decline p' ev =>
         Master.txLoop fp (m.slots.length + 1) m = .none (afterDecline m1 index1 e pe p' ev) ∧
         (ev = none → nextSlot m1.slots index1 = none)
       | .panic => False) :=
  poll_turns hfp hM hcy hc

/-- `cycle_completed_once`, poll side: when a poll ends without telegram, `cycle_completed` is reported
exactly when no occupied slot follows the last peripheral visited (the index then wraps to 0);
otherwise the index moves to the next occupied slot and nothing is reported. -/
theorem cycle_completed_poll (m1 : Master) (index1 e : Nat) (pe p' : Peripheral) (ev : Option PEvent)
    (hend : ev = none → nextSlot m1.slots index1 = none) :
    ((afterDecline m1 index1 e pe p' ev).lastEvents.cycleCompleted = true ↔ nextSlot m1.slots index1 = none) ∧
    (nextSlot m1.slots index1 = none → (afterDecline m1 index1 e pe p' ev).cycle = .dx 0) ∧
    (∀ n, nextSlot m1.slots index1 = some n → (afterDecline m1 index1 e pe p' ev).cycle = .dx n) :=
  afterDecline_cycle m1 index1 e pe p' ev hend

/-- `cycle_completed_once`, reply side: a reply ends the turn of the addressed peripheral; the index
moves to the next occupied slot, or — exactly when none follows — the cycle is completed and reported. -/
theorem cycle_completed_reply {fp : FdlParams} {g g' : G} (hI : Inv fp g)
    {a : UInt8} {t : Telegram} (h : gstep fp g (.reply a t) = .ok g') :
    -- a stale reply (`reset_address()` while the request was in flight) moves nothing
    (g'.m = g.m ∧ g'.o = .ignored) ∨
    ∃ index i p, g.m.cycle = .dx index ∧ curSlot g.m.slots index = some (i, p) ∧ p.address = a ∧
      (g'.m.lastEvents.cycleCompleted = true ↔ nextSlot g.m.slots index = none) ∧
      (nextSlot g.m.slots index = none → g'.m.cycle = .completed) ∧
      (∀ n, nextSlot g.m.slots index = some n → g'.m.cycle = .dx n) := by
  rcases reply_cases hI h with ⟨index, i, p, p', ev, _, hcy, hc, hpa, _, _, rfl⟩ | ⟨_, _, _, _, _, _, _, rfl⟩
  · exact .inr ⟨index, i, p, hcy, hc, hpa, afterReply_cycle g.m index i p p' ev⟩
  · exact .inl ⟨rfl, rfl⟩

/-- The slot the index moves to is the *next* occupied one (nothing occupied in between), and
"none follows" means no later slot is occupied. -/
theorem next_is_next_occupied {slots : List (Option Peripheral)} {index i : Nat} {p : Peripheral}
    (hc : curSlot slots index = some (i, p)) :
    (∀ n, nextSlot slots index = some n →
      i < n ∧ occupied slots n = true ∧ ∀ k, i < k → k < n → occupied slots k = false) ∧
    (nextSlot slots index = none → ∀ k, i < k → occupied slots k = false) :=
  ⟨fun _ hn => nextSlot_is_next hc hn, fun hn => nextSlot_none_last hc hn⟩


/-! ### Turn order over whole histories

`Lemmas/Dp14Turns.lean`: a *visit* is one invocation of `Peripheral::transmit_telegram` by the loop of
the master's `transmit_telegram` (`visits` lists the slots of one call, mirroring the loop); a *turn*
is a maximal run of consecutive visits of the same slot within a pass (a request and its
retransmissions); a *pass* ends with a callback that reports `cycle_completed` (`reported`).  `trun`
runs a history like `grun` and keeps the turns of the current pass and the completed passes. -/

/-- The bookkeeping run exists for every contract history (it only adds observations). -/
theorem turns_total (fp : FdlParams) (slots : List (Option Peripheral)) (gr : Bool) (ops : List Op) {g : G}
    (h : grun fp (G.init slots gr) ops = .ok g) : ∃ t, trun fp (G.init slots gr) {} ops = .ok (g, t) :=
  trun_of_grun fp ops _ _ g h

/-- **`turn_order`** (whole histories).  After every history the FDL contract allows — any replies and
time-outs, polls at any time (also while a request is outstanding), user calls incl.
`reset_address()` at any point, any number of peripherals in arbitrary sparse storage:

* every completed pass (the turns between two consecutive `cycle_completed` reports, and before the
  first) consists of exactly the occupied slots, each once, in ascending slot order;
* the occupied slots never change;
* the current pass is the ascending list of the occupied slots before the slot `o` under the cycle
  index, followed by `o` itself once its turn has begun (certainly while its request is outstanding);
  it is empty right after a report. -/
theorem turn_order {fp : FdlParams} (hfp : FpOk fp) {slots : List (Option Peripheral)} (hinit : InitOk fp slots)
    (gr : Bool) (ops : List Op) {g : G} {t : Turns} (h : trun fp (G.init slots gr) {} ops = .ok (g, t)) :
    (∀ P ∈ t.done, P.reverse = occAll slots) ∧ occAll g.m.slots = occAll slots ∧
    (g.m.cycle = .completed → t.pass = []) ∧
    (∀ index, g.m.cycle = .dx index → curSlot g.m.slots index = none → t.pass = []) ∧
    (∀ index o p, g.m.cycle = .dx index → curSlot g.m.slots index = some (o, p) →
      (t.pass.reverse = occIn g.m.slots 0 o ∨ t.pass.reverse = occIn g.m.slots 0 (o + 1)) ∧
      (g.out.isSome = true → t.pass.reverse = occIn g.m.slots 0 (o + 1))) := by
  have hT := tinv_run hfp ops _ _ g t (inv_init hinit gr) (tinv_init slots gr) h
  refine ⟨?_, hT.occ, hT.open_.compl, hT.open_.none_, ?_⟩
  · intro P hP
    rw [hT.done P hP, List.reverse_reverse, hT.occ]
  · intro index o p hcy hc
    obtain ⟨h1, h2⟩ := hT.open_.some_ index o p hcy hc
    refine ⟨?_, fun ho => by rw [h2 ho, List.reverse_reverse]⟩
    rcases h1 with h1 | h1
    · left; rw [h1, List.reverse_reverse]
    · right; rw [h1, List.reverse_reverse]

/-- **`cycle_completed_once`** (whole histories).  There are exactly as many completed passes as
`cycle_completed` reports (a pass is closed by a report and by nothing else), and in every completed
pass every occupied slot has exactly one turn and no other slot has any: between two consecutive
reports each configured peripheral gets its turn once. -/
theorem cycle_completed_once {fp : FdlParams} (hfp : FpOk fp) {slots : List (Option Peripheral)} (hinit : InitOk fp slots)
    (gr : Bool) (ops : List Op) {g : G} {t : Turns} (h : trun fp (G.init slots gr) {} ops = .ok (g, t)) :
    t.done.length = reports fp (G.init slots gr) ops ∧
    ∀ P ∈ t.done, ∀ j, P.count j = if occupied slots j = true then 1 else 0 := by
  refine ⟨by simpa using done_length fp ops _ _ g t h, ?_⟩
  intro P hP j
  have := (turn_order hfp hinit gr ops h).1 P hP
  rw [← List.count_reverse, this, count_occAll]

/-! ### Non-vacuity -/

/-- The example bring-up collects after every poll: `collected` holds, the taken events are
Online, Configured, the life-cycle state is 2; an empty master reports a completed cycle at once. -/
def exCheck : Bool :=
  (match grun Ex.fp (G.init Ex.slots false) Ex.bringUp with
   | .ok g => g.collected && !g.dirty && (g.sg 1).lc == 2 && g.produced == g.taken &&
       g.taken == [{ index := 1, address := 7, ev := .online }, { index := 1, address := 7, ev := .configured }]
   | _ => false) &&
  (match grun Ex.fp (G.init [none, none, none] false) [.tx 1000 false, .tx 2000 false] with
   | .ok g => g.m.lastEvents.cycleCompleted && g.o == .idle
   | _ => false) &&
  (match grun Ex.fp (G.init [] true) [.tx 1000 true] with
   | .ok g => g.m.lastEvents.cycleCompleted && g.o == .idle
   | _ => false)

example : exCheck = true := by decide +kernel

/-- Turn bookkeeping on concrete histories: one peripheral in slot 1 of `[none, some _]` — the bring-up
history completes several passes, each consisting of slot 1 alone; three peripherals in sparse storage,
none answering: every pass is `[0, 2, 3]` ascending (stored newest first). -/
def turnsCheck : Bool :=
  (match trun Ex.fp (G.init Ex.slots false) {} Ex.bringUp with
   | .ok (_, t) => t.done.length ≥ 4 && t.done.all (· == [1]) && t.done.length == reports Ex.fp (G.init Ex.slots false) Ex.bringUp
   | _ => false) &&
  (match trun Ex.fp (G.init [some Ex.p7, none, some Ex.p7, some Ex.p7] false) {}
      [.tx 1000 false, .tx 2000 false, .timeout 7, .tx 3000 false, .timeout 7, .tx 4000 false, .timeout 7,
       .tx 5000 false, .tx 6000 false, .tx 7000 false] with
   | .ok (_, t) => t.done.length ≥ 1 && t.done.all (· == [3, 2, 0])
   | _ => false)

example : turnsCheck = true := by decide +kernel

/-- `reset_address()` while the peripheral's event is still uncollected: the stale Online event of the
old incarnation is handed out by the next `take_last_events` but not counted (`staleEv`); the fresh
peripheral at the new address then comes Online as usual and the life-cycle automaton accepts its
events — `Inv14` (from `reachable`) holds throughout. -/
def staleCheck : Bool :=
  let diag9 : Telegram := .data ⟨2, 9, some 62, some 60, .response .slave .dataLow⟩ [0x02, 0x05, 0, 2, 0x80, 0xb1]
  let pre : List Op := [.tx 1000 false, .take, .tx 2000 false, .take, .reply 7 (Ex.diagReply 0x02 0x05), .resetAddr 1 9]
  (match grun Ex.fp (G.init Ex.slots false) pre with
   | .ok g => g.staleEv && g.collected && g.m.lastEvents.peripheral.isSome && (g.sg 1).lc == 0
   | _ => false) &&
  (match grun Ex.fp (G.init Ex.slots false) (pre ++ [.take]) with
   | .ok g => !g.staleEv && g.collected && (g.sg 1).lc == 0 &&
       g.taken == [{ index := 1, address := 7, ev := .online }]
   | _ => false) &&
  (match grun Ex.fp (G.init Ex.slots false) (pre ++ [.take, .tx 3000 false, .take, .tx 4000 false, .take, .reply 9 diag9, .take]) with
   | .ok g => !g.staleEv && g.collected && (g.sg 1).lc == 1 && g.produced == g.taken &&
       g.taken == [{ index := 1, address := 7, ev := .online }, { index := 1, address := 9, ev := .online }]
   | _ => false)

example : staleCheck = true := by decide +kernel

end PV.C14
