/-
C02 — Token ring forms and all stations agree on the list of active stations.
Core: the LAS data structure (`Model/TokenRing.lean`) under witnessed token passes, for every ring
`S` (any size ≥ 1, any addresses 0..125), every own address and every stale starting content.
The timed N-station composition is not proved (DESIGN 5.5).
-/
import ProfiVerif.Lemmas.TokenRing
import ProfiVerif.Lemmas.Neighbours
import ProfiVerif.Lemmas.AbstractRing
import ProfiVerif.Props.C12

namespace PV.C02
open PV PV.TokenRing

/-- A ring: non-empty, strictly ascending list of valid addresses. -/
structure Ring (S : List Nat) : Prop where
  ne : S ≠ []
  asc : Asc S
  bound : ∀ z ∈ S, z ≤ 125

theorem ring_head (S : List Nat) (h : Ring S) : ∃ s0 t, S = s0 :: t ∧ (∀ z ∈ S, s0 ≤ z) := by
  cases S with
  | nil => exact absurd rfl h.ne
  | cons s0 t =>
    refine ⟨s0, t, rfl, fun z hz => ?_⟩
    simp at hz
    rcases hz with rfl | hz
    · omega
    · have := asc_lt s0 t h.asc z hz; omega

/-- Guards: token passes from/to addresses above 125 are ignored. -/
theorem witness_ignores_invalid (r : TokenRing) (sa da : Nat) (h : sa > 125 ∨ da > 125) : r.witness sa da = r :=
  TokenRing.witness_ignores_invalid r sa da h

/-- A fresh listener waits for the wrap-around of the rotation before it starts recording. -/
theorem fresh_waits_for_wrap (ts sa da : Nat) (hsa : sa ≤ 125) (hda : da ≤ 125) :
    ((TokenRing.new ts).witness sa da).las = (if da ≤ sa then .discovery else .uninitialized) ∧
    ∀ a, ((TokenRing.new ts).witness sa da).isActive a = (TokenRing.new ts).isActive a := by
  unfold witness
  rw [if_neg (by omega), if_neg (by omega)]
  simp only [TokenRing.new]
  split <;> simp [isActive]

/-- **Discovery**: one full rotation of `S` witnessed in `Discovery` makes the LAS exactly `S`, from
*any* previous content (stale entries, the own address, …), and starts verification. -/
theorem discovery_learns (r : TokenRing) (S : List Nat) (hS : Ring S) (hd : r.las = .discovery) :
    LasIs (witnessAll r (rotation S)) S ∧ (witnessAll r (rotation S)).las = .verification :=
  TokenRing.discovery_learns r S hS.ne hS.asc hS.bound hd

/-- **Verification**: a second, identical rotation is found consistent and makes the LAS `Valid`
without changing it. -/
theorem verification_confirms (r : TokenRing) (S : List Nat) (hS : Ring S) (hl : LasIs r S)
    (hv : r.las = .verification) : witnessAll r (rotation S) = { r with las := .valid } := by
  obtain ⟨s0, t, rfl, hmin⟩ := ring_head S hS
  simp only [rotation]
  exact rotGo_verification (s0 :: t) s0 (by simp) hmin hS.bound t s0 r hS.asc (fun z hz => hz)
    (fun z hz => Or.inr hz) hl hv

/-- **`las_learns`**: a fresh station (any own address) that sees the wrap-around pass and then two
identical rotations of the ring `S` has a valid LAS equal to `S`. -/
theorem las_learns (ts : Nat) (S : List Nat) (hS : Ring S) (sa da : Nat) (hsa : sa ≤ 125) (hda : da ≤ 125)
    (hwrap : da ≤ sa) :
    let r1 := (TokenRing.new ts).witness sa da
    let r3 := witnessAll (witnessAll r1 (rotation S)) (rotation S)
    r3.las = .valid ∧ LasIs r3 S := by
  intro r1 r3
  have h1 : r1.las = .discovery := by
    have := (fresh_waits_for_wrap ts sa da hsa hda).1
    simpa [hwrap] using this
  have h2 := discovery_learns r1 S hS h1
  have h3 := verification_confirms (witnessAll r1 (rotation S)) S hS h2.1 h2.2
  have e : r3 = { (witnessAll r1 (rotation S)) with las := .valid } := h3
  refine ⟨by rw [e], fun a ha => ?_⟩
  rw [e]
  exact h2.1 a ha

/-- **`las_stable`**: once `Valid` with LAS = `S`, further rotations of `S` leave it valid and equal to `S`. -/
theorem las_stable (r : TokenRing) (S : List Nat) (hS : Ring S) (hl : LasIs r S) (hv : r.las = .valid) :
    LasIs (witnessAll r (rotation S)) S ∧ (witnessAll r (rotation S)).las = .valid := by
  obtain ⟨s0, t, rfl, hmin⟩ := ring_head S hS
  simp only [rotation]
  exact rotGo_valid (s0 :: t) s0 (by simp) hmin hS.bound t s0 r hS.asc (fun z hz => hz)
    (fun z hz => Or.inr hz) hl hv

/-- **`las_tracks`**: in `Valid`, one full rotation of a *changed* ring `S'` makes the LAS equal `S'`
(a leaver is cleared by the pass that skips it, a joiner is entered when it first passes the token). -/
theorem las_tracks (r : TokenRing) (S' : List Nat) (hS : Ring S') (hv : r.las = .valid) :
    LasIs (witnessAll r (rotation S')) S' ∧ (witnessAll r (rotation S')).las = .valid := by
  -- in Valid every witnessed pass is applied exactly as in Discovery (pointwise `passBit`)
  have key : ∀ (ps : List (Nat × Nat)) (r : TokenRing), r.las = .valid → (∀ p ∈ ps, p.1 ≤ 125 ∧ p.2 ≤ 125) →
      (∀ a, a < 128 → (witnessAll r ps).isActive a = bitAfter ps a (r.isActive a)) ∧ (witnessAll r ps).las = .valid := by
    intro ps
    induction ps with
    | nil => intro r hv _; exact ⟨fun a _ => rfl, hv⟩
    | cons p ps ih =>
      intro r hv hb
      have hp := hb p (by simp)
      have hw := witness_valid r p.1 p.2 hv hp.1 hp.2
      have hv' : (r.witness p.1 p.2).las = .valid := by rw [hw, (updateLas_las r p.1 p.2).1, hv]
      have := ih (r.witness p.1 p.2) hv' (fun q hq => hb q (by simp [hq]))
      simp only [witnessAll, List.foldl, bitAfter] at this ⊢
      refine ⟨fun a ha => ?_, this.2⟩
      rw [this.1 a ha, hw, updateLas_active r p.1 p.2 a ha]
  obtain ⟨s0, t, rfl, -⟩ := ring_head S' hS
  have hb := rotGo_bounds s0 (s0 :: t) (hS.bound s0 (by simp)) hS.bound
  have := key (rotation (s0 :: t)) r hv (by simpa [rotation] using hb)
  refine ⟨fun a ha => ?_, this.2⟩
  rw [this.1 a ha]
  exact bitAfter_rotation (s0 :: t) (by simp) hS.asc a (r.isActive a)

/-- **`verification_restarts`**: a pass inconsistent with the discovered list sends the listener back to
`Discovery` — never to `Valid`. -/
theorem verification_restarts (r : TokenRing) (sa da : Nat) (hsa : sa ≤ 125) (hda : da ≤ 125)
    (hv : r.las = .verification) (hbad : r.verifyLas sa da = false) :
    (r.witness sa da).las = .discovery := by
  unfold witness
  rw [if_neg (by omega), if_neg (by omega), hv]
  simp [hbad]

/-- `claim_token` makes the LAS valid without touching it. -/
theorem claim_valid (r : TokenRing) : r.claimToken.las = .valid ∧ ∀ a, r.claimToken.isActive a = r.isActive a := by
  simp [claimToken, isActive]


/-! ## `neighbours`: NS / PS are the cyclic neighbours of TS in the LAS

Specification (`Lemmas/Neighbours.lean`, independent of the model): `cycSucc ts L` = the smallest
element of `L` above `ts`, else the smallest element of `L`, else `ts`; `cycPred` symmetrically —
defined by `filter`/`min?`/`max?` on an arbitrary list, shown to depend on the *set* only
(`cycSucc_congr`), to be insensitive to whether TS itself is listed (`cycSucc_cons_self`: neighbours in
`S` = neighbours in `S ∪ {TS}`), and to be `S[(i±1) mod |S|]` for `ts = S[i]` in an ascending list.

When are NS/PS recomputed in `token_ring.rs`?  `update_next_previous` runs at the end of
`update_las_from_token_pass` (hence in `witness_token_pass` in Discovery, in Valid and on a failed
verification, and in `set_next_station`) and of `remove_station`.  These are exactly the places where
a LAS bit is written; the remaining paths (`new`, ignored passes, the phase changes of
Uninitialized/Verification, `claim_token`) write neither the LAS nor NS/PS.  So NS/PS are **never
stale relative to the LAS**: `Nbr` below is an invariant of every reachable state, not only of the
states right after a recomputation.  What NS/PS can be is "stale relative to the bus": the LAS
itself lags (a destination is entered only when it passes the token on, TS's own bit is cleared by
a pass that skips TS), and the theorems say exactly "neighbours in the *current LAS*". -/

/-- `update_next_previous` establishes the neighbour relation from **any** state (whatever NS/PS
were), and so do the three operations that end in it. -/
theorem neighbours_recomputed (r : TokenRing) :
    Nbr (updateNextPrev r) ∧ (∀ sa da, Nbr (r.updateLas sa da)) ∧
    (∀ a r', r.setNextStation a = some r' → Nbr r') ∧ (∀ a r', r.removeStation a = some r' → Nbr r') :=
  ⟨updateNextPrev_nbr r, updateLas_nbr r, fun a r' => setNextStation_nbr r r' a,
   fun a r' => removeStation_nbr r r' a⟩

/-- Every public operation preserves it (in every LAS phase, including the passes that are ignored
or only change the phase), and `new` establishes it. -/
theorem neighbours_preserved (r : TokenRing) (h : Nbr r) :
    (∀ sa da, Nbr (r.witness sa da)) ∧ Nbr r.claimToken ∧ (∀ ts, Nbr (TokenRing.new ts)) :=
  ⟨fun sa da => witness_nbr r sa da h, claimToken_nbr r h, new_nbr⟩

/-- **`neighbours`**: after *any* sequence of `witness_token_pass` / `claim_token` /
`set_next_station` / `remove_station` calls on a fresh `TokenRing` of any own address (that did not
panic), `next_station` is the cyclic successor and `previous_station` the cyclic predecessor of TS
among the addresses currently in the LAS. -/
theorem neighbours (ts : Nat) (ops : List Op) (r : TokenRing) (h : runOps (TokenRing.new ts) ops = some r) :
    r.ts = ts ∧ r.ns = cycSucc ts r.activeList ∧ r.ps = cycPred ts r.activeList := by
  have := runOps_nbr ops (TokenRing.new ts) r (new_nbr ts) h
  have e : r.ts = ts := this.2
  exact ⟨e, e ▸ this.1.1, e ▸ this.1.2⟩

/-- The same, spelled out against LAS membership only (no list, no `min?`): if some active address
lies above TS, NS is the least such; otherwise NS is the least active address; NS = TS if the LAS is
empty.  Symmetrically for PS. -/
theorem neighbours_char (r : TokenRing) (h : Nbr r) :
    ((∃ a, r.isActive a = true ∧ r.ts < a) →
        r.isActive r.ns = true ∧ r.ts < r.ns ∧ ∀ a, r.isActive a = true → r.ts < a → r.ns ≤ a) ∧
    ((∀ a, r.isActive a = true → a ≤ r.ts) → (∃ a, r.isActive a = true) →
        r.isActive r.ns = true ∧ ∀ a, r.isActive a = true → r.ns ≤ a) ∧
    ((∀ a, r.isActive a = false) → r.ns = r.ts ∧ r.ps = r.ts) ∧
    ((∃ a, r.isActive a = true ∧ a < r.ts) →
        r.isActive r.ps = true ∧ r.ps < r.ts ∧ ∀ a, r.isActive a = true → a < r.ts → a ≤ r.ps) ∧
    ((∀ a, r.isActive a = true → r.ts ≤ a) → (∃ a, r.isActive a = true) →
        r.isActive r.ps = true ∧ ∀ a, r.isActive a = true → a ≤ r.ps) := by
  have hs : IsCycSucc r.ts r.activeList r.ns := (isCycSucc_iff _ _ _).mpr h.1
  have hp : IsCycPred r.ts r.activeList r.ps := (isCycPred_iff _ _ _).mpr h.2
  have m := mem_activeList r
  refine ⟨fun ⟨a, ha, hlt⟩ => ?_, fun hall ⟨a, ha⟩ => ?_, fun hno => ?_, fun ⟨a, ha, hlt⟩ => ?_, fun hall ⟨a, ha⟩ => ?_⟩
  · have := hs.above ⟨a, (m a).mpr ha, hlt⟩
    exact ⟨(m _).mp this.1, this.2.1, fun b hb => this.2.2 b ((m b).mpr hb)⟩
  · have := hs.wrap (fun b hb => hall b ((m b).mp hb)) ⟨a, (m a).mpr ha⟩
    exact ⟨(m _).mp this.1, fun b hb => this.2 b ((m b).mpr hb)⟩
  · have hno' : ∀ a, a ∉ r.activeList := fun a ha => by
      have := (m a).mp ha; rw [hno a] at this; cases this
    exact ⟨hs.alone hno', hp.alone hno'⟩
  · have := hp.below ⟨a, (m a).mpr ha, hlt⟩
    exact ⟨(m _).mp this.1, this.2.1, fun b hb => this.2.2 b ((m b).mpr hb)⟩
  · have := hp.wrap (fun b hb => hall b ((m b).mp hb)) ⟨a, (m a).mpr ha⟩
    exact ⟨(m _).mp this.1, fun b hb => this.2 b ((m b).mpr hb)⟩

/-- With LAS = ring `S`: NS/PS are the cyclic neighbours of TS in `S` (equivalently in `S ∪ {TS}`,
`cycSucc_cons_self`); if TS is the `i`-th member of `S` they are the members `i+1` and `i-1` (mod |S|). -/
theorem neighbours_ring (r : TokenRing) (S : List Nat) (hS : Ring S) (h : Nbr r) (hl : LasIs r S) :
    r.ns = cycSucc r.ts S ∧ r.ps = cycPred r.ts S ∧
    r.ns = cycSucc r.ts (r.ts :: S) ∧ r.ps = cycPred r.ts (r.ts :: S) ∧
    ∀ i (hi : i < S.length), S[i] = r.ts →
      r.ns = S[(i + 1) % S.length]'(Nat.mod_lt _ (by omega)) ∧
      r.ps = S[(i + S.length - 1) % S.length]'(Nat.mod_lt _ (by omega)) := by
  have hn := nbr_lasIs r S h hl hS.bound
  refine ⟨hn.1, hn.2, by rw [cycSucc_cons_self]; exact hn.1, by rw [cycPred_cons_self]; exact hn.2, ?_⟩
  intro i hi e
  rw [hn.1, hn.2, ← e]
  exact ⟨cycSucc_index S hS.asc i hi, cycPred_index S hS.asc i hi⟩

/-- **`neighbours` after learning** (corollary of `las_learns`): a fresh station of *any* own address
that has seen the wrap-around and two rotations of *any* ring `S` has NS/PS = its cyclic
successor/predecessor in `S`; for a member `ts = S[i]` these are `S[i+1 mod |S|]` / `S[i-1 mod |S|]`. -/
theorem neighbours_learned (ts : Nat) (S : List Nat) (hS : Ring S) (sa da : Nat) (hsa : sa ≤ 125) (hda : da ≤ 125)
    (hwrap : da ≤ sa) :
    let r3 := witnessAll (witnessAll ((TokenRing.new ts).witness sa da) (rotation S)) (rotation S)
    r3.ns = cycSucc ts S ∧ r3.ps = cycPred ts S ∧
    ∀ i (hi : i < S.length), S[i] = ts →
      r3.ns = S[(i + 1) % S.length]'(Nat.mod_lt _ (by omega)) ∧
      r3.ps = S[(i + S.length - 1) % S.length]'(Nat.mod_lt _ (by omega)) := by
  intro r3
  have hl := (las_learns ts S hS sa da hsa hda hwrap).2
  have hnb : Nbr r3 := witnessAll_nbr _ _ (witnessAll_nbr _ _ (witness_nbr _ sa da (new_nbr ts)))
  have hts : r3.ts = ts := by
    show (witnessAll _ _).ts = ts
    rw [witnessAll_ts, witnessAll_ts, witness_ts]; rfl
  have := neighbours_ring r3 S hS hnb hl
  rw [hts] at this
  exact ⟨this.1, this.2.1, this.2.2.2.2⟩

/-- **`neighbours` after a change** (corollary of `las_tracks` / `las_stable`): a station with a valid
LAS (in any reachable state) that witnesses one full rotation of the — possibly changed — ring `S'`
has NS/PS = its cyclic neighbours in `S'`. -/
theorem neighbours_tracked (r : TokenRing) (S' : List Nat) (hS : Ring S') (hn : Nbr r) (hv : r.las = .valid) :
    let r' := witnessAll r (rotation S')
    r'.ns = cycSucc r'.ts S' ∧ r'.ps = cycPred r'.ts S' ∧
    ∀ i (hi : i < S'.length), S'[i] = r'.ts →
      r'.ns = S'[(i + 1) % S'.length]'(Nat.mod_lt _ (by omega)) ∧
      r'.ps = S'[(i + S'.length - 1) % S'.length]'(Nat.mod_lt _ (by omega)) := by
  intro r'
  have hl := (las_tracks r S' hS hv).1
  have := neighbours_ring r' S' hS (witnessAll_nbr _ _ hn) hl
  exact ⟨this.1, this.2.1, this.2.2.2.2⟩


/-! ## Abstract ring (DESIGN 5.5)

`Model/AbstractRing.lean`: N stations, untimed, one atomic step per telegram.  **This part is an
idealisation, not a model of existing code, and it is not tied to the implementation by a
correspondence run** (the N-station behaviour of the code is tied by the `net` engine).  It
documents why the mechanism works.  What it shares with the code-level models: every station's ring
view is a real `TokenRing` changed only through `witness` / `setNextStation` / `removeStation` /
`claimToken` / `new`, and the GAP cursor moves by the real `nextGapPoll`; the proofs below rest on
`neighbours`, the LAS pass lemmas and the C12 sweep theorems. -/

open PV.AbstractRing

theorem Ring.isRing {S : List Nat} (h : Ring S) : IsRing S := ⟨h.ne, h.asc, h.bound⟩

/-- **`token_unique`**: in every state reachable (by token passes incl. retries, GAP polls, dropping a
dead successor, stations joining/leaving, a claim when nobody holds a token) from a state with at
most one token holder, at most one station holds the token. -/
theorem token_unique (s0 s : Net) (h0 : Unique s0) (hr : Reach s0 s) : Unique s :=
  unique_reach s0 s h0 hr

/-- **`agreement_invariant`**: once the members are exactly `M`, each with a valid LAS equal to `M`
(and NS/PS derived from it), a token pass by the holder keeps all of that — for every station: the
sender (witnesses its own pass), the receiver (takes the token from its PS without witnessing), every
other member — and the new holder is the cyclic successor. -/
theorem agreement_invariant (s : Net) (M : List Nat) (h : Nat) (ag : Agreed s M h) :
    Step s (pass s h) ∧ Agreed (pass s h) M (cycSucc h M) := by
  obtain ⟨nh, e, hm, _⟩ := agreed_holder_node s M h ag
  exact ⟨Step.pass s h nh e hm, agreed_pass s M h ag⟩

/-- **`ascending_rotation`**: in an agreeing ring the token visits the members in ascending cyclic
address order: starting at the `i`-th member, after `k` passes it is at the `(i+k) mod |M|`-th member,
agreement still holds, and the token telegrams on the bus were `M[i+j] → M[i+j+1]`, `j < k`. -/
theorem ascending_rotation (s : Net) (M : List Nat) (i k : Nat) (ag : Agreed s M (nth M i)) :
    Agreed (rotate s (nth M i) k).1 M (nth M (i + k)) ∧ (rotate s (nth M i) k).2.1 = nth M (i + k) ∧
    (rotate s (nth M i) k).2.2 = (List.range k).map (fun j => (nth M (i + j), nth M (i + j + 1))) :=
  agreed_rotate M k s i ag

/-- … in particular one full rotation from the lowest address puts exactly `rotation M` on the bus —
the pass sequence the LAS theorems (`las_learns`, `las_stable`, `las_tracks`) are about — and returns
the token to the lowest address. -/
theorem ascending_rotation_full (s : Net) (M : List Nat) (ag : Agreed s M (nth M 0)) :
    (rotate s (nth M 0) M.length).2.2 = rotation M ∧ (rotate s (nth M 0) M.length).2.1 = nth M 0 ∧
    Agreed (rotate s (nth M 0) M.length).1 M (nth M 0) := by
  have := agreed_rotate M M.length s 0 ag
  rw [Nat.zero_add, show nth M M.length = nth M 0 by simpa using nth_add_length M 0] at this
  refine ⟨?_, this.2.1, this.1⟩
  rw [this.2.2, rotation_eq_map M ag.ring.ne]
  apply List.map_congr_left
  intro j _
  simp

/-- The addresses a sweep polls before `a` come before `a` in the cyclic order behind TS. -/
theorem sweep_prefix_before (ts ns hsa a : Nat) (hts : ts < hsa) (hh2 : hsa ≤ 126) (post : List Nat) :
    ∀ (pre : List Nat) (fuel cur : Nat), cur < hsa → sweepFrom ts ns hsa fuel cur = pre ++ a :: post →
      ∀ b ∈ pre, off ts hsa b < off ts hsa a := by
  intro pre
  induction pre with
  | nil => intro _ _ _ _ b hb; cases hb
  | cons c pre' ih =>
    intro fuel cur hc hsw b hb
    cases fuel with
    | zero => simp [sweepFrom] at hsw
    | succ f =>
      unfold sweepFrom at hsw
      cases hn : nextGapPoll ts ns hsa cur with
      | poll x =>
        rw [hn] at hsw
        simp only [List.cons_append, List.cons.injEq] at hsw
        have hx := C12.next_gap_in_gap ts ns hsa cur x (by omega) hh2 hc hn
        rw [hsw.1] at hx
        rw [hsw.1] at hsw
        simp only [List.mem_cons] at hb
        rcases hb with rfl | hb
        · exact C12.sweep_ascending ts ns hsa hts hh2 f b hx.1 a (by rw [hsw.2]; simp)
        · exact ih f c hx.1 hsw.2 b hb
      | waiting => rw [hn] at hsw; simp at hsw
      | panic => rw [hn] at hsw; simp at hsw

/-- **`listener_admitted`** (general cursor).  Agreeing ring `M`, token at `h`; `a` is a ready listener
that learned `M`.  If the rest of `h`'s current GAP sweep (iterated real `next_gap_poll` from its
cursor) reaches `a` after the addresses `pre` and no station is present at those, then after `|pre|`
further token visits at `h` (one GAP poll per visit, a full rotation in between — during which
agreement, the listener's readiness and `h`'s NS are preserved) the next poll finds `a`: `h` makes it
its NS by `set_next_station`, and `h`'s token pass gives `a` the token (it accepts: `h` is its PS). -/
theorem listener_admitted_sweep (s : Net) (M : List Nat) (h a H : Nat) (pre post : List Nat) (g : Option Nat)
    (fuel : Nat) (hH : H ≤ 126) (hh : h < H) (inv : SweepInv s M h h a pre g H) (hcur : g.getD h < H)
    (hsw : sweepFrom h (cycSucc h M) H fuel (g.getD h) = pre ++ a :: post) :
    let s1 := gapPoll (visits s h M.length pre.length) h
    (∃ nh, s1.node h = some nh ∧ nh.mode = .hold ∧ nh.ring.ns = a) ∧
    (∃ nh, (pass s1 h).node h = some nh ∧ nh.mode = .idle ∧ nh.ring.ns = a) ∧
    (∃ na, (pass s1 h).node a = some na ∧ na.mode = .hold ∧ ViewOk M a na.ring) := by
  have := listener_admitted_aux M h a H hH hh post pre fuel s g inv hcur hsw
  exact ⟨this.2.2, this.1, this.2.1⟩

/-- **`listener_admitted`**: a ready listener `a` that lies in the GAP of the member `h` (which then is
its PS) and is the first station present in that GAP (in sweep order) is admitted within one sweep:
starting from the beginning of `h`'s sweep, after `k` token visits at `h` with `k + 1 ≤ HSA - 1` polls
in total, `h` has adopted `a` as NS and passed it the token. -/
theorem listener_admitted (s : Net) (M : List Nat) (h a H : Nat) (g : Option Nat) (hH : H ≤ 126) (hh : h < H)
    (ag : Agreed s M h) (hl : ReadyListener s M a) (hhsa : s.hsa = H)
    (hgap : ∀ nh, s.node h = some nh → nh.gap = g) (hstart : g.getD h = h)
    (hin : InGap h (cycSucc h M) H a)
    (hfirst : ∀ b, InGap h (cycSucc h M) H b → off h H b < off h H a → s.node b = none) :
    ∃ k, k + 1 ≤ H - 1 ∧
      let s1 := gapPoll (visits s h M.length k) h
      (∃ nh, s1.node h = some nh ∧ nh.mode = .hold ∧ nh.ring.ns = a) ∧
      (∃ nh, (pass s1 h).node h = some nh ∧ nh.mode = .idle ∧ nh.ring.ns = a) ∧
      (∃ na, (pass s1 h).node a = some na ∧ na.mode = .hold ∧ ViewOk M a na.ring) := by
  have hmem : a ∈ sweepFrom h (cycSucc h M) H H h := (C12.sweep_exact h _ H hh hH a).mpr hin
  obtain ⟨pre, post, hsw⟩ := List.append_of_mem hmem
  have hlen := C12.sweep_length h (cycSucc h M) H hh hH H h hh
  have hoff : off h H h = 0 := (off_zero_iff h H h hh hh).mpr rfl
  have hbefore := sweep_prefix_before h (cycSucc h M) H a hh hH post pre H h hh hsw
  have hsound := C12.sweep_sound h (cycSucc h M) H hh hH H h hh
  have inv : SweepInv s M h h a pre g H :=
    ⟨ag, hl, fun b hb => hfirst b (hsound b (by rw [hsw]; simp [hb])) (hbefore b hb), hgap, hhsa⟩
  refine ⟨pre.length, ?_, ?_⟩
  · rw [hsw] at hlen; simp at hlen; omega
  · have hsw' : sweepFrom h (cycSucc h M) H H (g.getD h) = pre ++ a :: post := by rw [hstart]; exact hsw
    exact listener_admitted_sweep s M h a H pre post g H hH hh inv (by omega) hsw'


/-- **`admitted_agreement`** ("… and known to everybody one pass later"): in the situation of
`listener_admitted_sweep`, once `a` has the token, its own pass to its NS — repeated once, because
that NS does not yet know `a` as its PS, unless the NS is `h` itself (two-station ring), which adopted
`a` already — leaves the enlarged ring `M' = M ∪ {a}` in full agreement: every member, the old ones
and `a`, has a valid LAS equal to `M'` with NS/PS derived from it, and the NS of `a` holds the token.
So `agreement_invariant` / `ascending_rotation` apply again with `M'`. -/
theorem admitted_agreement (s : Net) (M M' : List Nat) (h a H : Nat) (pre post : List Nat) (g : Option Nat)
    (fuel : Nat) (hH : H ≤ 126) (hh : h < H) (inv : SweepInv s M h h a pre g H) (hcur : g.getD h < H)
    (hsw : sweepFrom h (cycSucc h M) H fuel (g.getD h) = pre ++ a :: post)
    (hM' : Ring M') (hmem' : ∀ x, x ∈ M' ↔ x = a ∨ x ∈ M) :
    let s2 := pass (gapPoll (visits s h M.length pre.length) h) h
    (cycSucc h M = h → Agreed (pass s2 a) M' h) ∧
    (cycSucc h M ≠ h → Agreed (pass (pass s2 a) a) M' (cycSucc h M)) := by
  obtain ⟨g', inv', hp, hbt, _⟩ := sweep_reaches M h a H hH hh post pre fuel s g inv hcur hsw
  exact admitted_agrees _ M M' h a (admitted_state _ M M' h a [] g' H inv' hbt hp hM'.isRing hmem')

/-- **`listener_ready`** (link from the LAS theorems to the abstract ring): a fresh listener of any
address that witnesses a wrap-around pass and then two full rotations of `M` — which is what an
agreeing ring puts on the bus (`ascending_rotation_full`) — has exactly the knowledge
`listener_admitted` asks of a ready listener (valid LAS = `M`, NS/PS derived from it). -/
theorem listener_ready (a : Nat) (M : List Nat) (hM : Ring M) (sa da : Nat) (hsa : sa ≤ 125) (hda : da ≤ 125)
    (hwrap : da ≤ sa) :
    ViewOk M a (witnessAll (witnessAll ((TokenRing.new a).witness sa da) (rotation M)) (rotation M)) := by
  have h := las_learns a M hM sa da hsa hda hwrap
  refine ⟨?_, h.1, h.2, witnessAll_nbr _ _ (witnessAll_nbr _ _ (witness_nbr _ sa da (new_nbr a)))⟩
  rw [witnessAll_ts, witnessAll_ts, witness_ts]; rfl

/-! Non-vacuity: the two-station ring {3, 9} seen by station 7, and a one-station ring. -/
example : Ring [3, 9] := ⟨by simp, by simp [Asc], by simp⟩
example : Ring [0] := ⟨by simp, by simp [Asc], by simp⟩
example : rotation [3, 9, 20] = [(3, 9), (9, 20), (20, 3)] := rfl
example : (witnessAll (witnessAll ((TokenRing.new 7).witness 9 3) (rotation [3, 9])) (rotation [3, 9])).activeList = [3, 9] := by
  decide +kernel

/-! Non-vacuity of `neighbours`: station 7 between 3 and 9; station 9 (last member) wraps to 3;
a lone station; an address that is not a member. -/
example : cycSucc 7 [3, 9, 20] = 9 ∧ cycPred 7 [3, 9, 20] = 3 := by decide
example : cycSucc 20 [3, 9, 20] = 3 ∧ cycPred 3 [3, 9, 20] = 20 := by decide
example : cycSucc 5 [5] = 5 ∧ cycPred 5 [] = 5 := by decide
example : cycSucc 7 [20, 3, 9, 3] = 9 := by decide     -- order and repetitions are irrelevant
example : runOps (TokenRing.new 7) [.witness 9 3, .witness 3 9, .witness 9 3, .claim, .remove 3] ≠ none := by
  decide +kernel

/-! Non-vacuity of the abstract-ring theorems: ring {3, 9} with the token at 3, a ready listener at 5,
nothing at 4; HSA = 126.  The sweep of 3's GAP is 4, 5, …, 8: one absent address, then the listener. -/
section AbstractExample

private def learnedView (ts : Nat) : TokenRing :=
  witnessAll (witnessAll ((TokenRing.new ts).witness 9 3) (rotation [3, 9])) (rotation [3, 9])

private theorem ring39 : Ring [3, 9] := ⟨by simp, by simp [Asc], by simp⟩

private theorem learnedView_ok (ts : Nat) : ViewOk [3, 9] ts (learnedView ts) :=
  listener_ready ts [3, 9] ring39 9 3 (by omega) (by omega) (by omega)

private def exNet : Net where
  hsa := 126
  node := fun x =>
    if x = 3 then some { mode := .hold, ring := learnedView 3, gap := none, pend := none }
    else if x = 9 then some { mode := .idle, ring := learnedView 9, gap := none, pend := none }
    else if x = 5 then some { mode := .listen, ring := learnedView 5, gap := none, pend := none }
    else none

private theorem exNet_agreed : Agreed exNet [3, 9] 3 := by
  refine ⟨ring39.isRing, by simp, fun x => ?_, fun x nx ex hm => ?_, fun x nx ex => ?_⟩
  · by_cases h3 : x = 3
    · subst h3; simp [exNet]
    · by_cases h9 : x = 9
      · subst h9; simp [exNet]
      · by_cases h5 : x = 5
        · subst h5; simp [exNet]
        · simp [exNet, h3, h9, h5]
  · by_cases h3 : x = 3
    · subst h3
      simp only [exNet, if_true, Option.some.injEq] at ex
      subst ex
      exact ⟨learnedView_ok 3, rfl⟩
    · by_cases h9 : x = 9
      · subst h9
        simp only [exNet, if_neg h3, if_true, Option.some.injEq] at ex
        subst ex
        exact ⟨learnedView_ok 9, rfl⟩
      · by_cases h5 : x = 5
        · subst h5
          simp only [exNet, if_neg h3, if_neg h9, if_true, Option.some.injEq] at ex
          subst ex
          exact absurd rfl hm
        · simp [exNet, h3, h9, h5] at ex
  · by_cases h3 : x = 3
    · subst h3
      simp only [exNet, if_true, Option.some.injEq] at ex
      subst ex; simp
    · by_cases h9 : x = 9
      · subst h9
        simp only [exNet, if_neg h3, if_true, Option.some.injEq] at ex
        subst ex; simp
      · by_cases h5 : x = 5
        · subst h5
          simp only [exNet, if_neg h3, if_neg h9, if_true, Option.some.injEq] at ex
          subst ex; simp
        · simp [exNet, h3, h9, h5] at ex

example : Unique exNet := by
  intro x y nx ny ex ey hx hy
  rw [(exNet_agreed.holder x nx ex).mp hx, (exNet_agreed.holder y ny ey).mp hy]

example : Agreed exNet [3, 9] (nth [3, 9] 0) := exNet_agreed

private theorem exNet_listener : ReadyListener exNet [3, 9] 5 :=
  ⟨by simp, ⟨{ mode := .listen, ring := learnedView 5, gap := none, pend := none }, by simp [exNet], rfl,
    learnedView_ok 5⟩⟩

example : cycSucc 3 [3, 9] = 9 ∧ InGap 3 9 126 5 ∧ sweepFrom 3 9 126 126 3 = [4] ++ 5 :: [6, 7, 8] := by decide

example : SweepInv exNet [3, 9] 3 3 5 [4] none 126 :=
  ⟨exNet_agreed, exNet_listener,
   fun b hb => by simp at hb; subst hb; simp [exNet],
   fun nh e => by simp only [exNet, if_true, Option.some.injEq] at e; subst e; rfl, rfl⟩

example : Ring [3, 5, 9] ∧ ∀ x, x ∈ [3, 5, 9] ↔ x = 5 ∨ x ∈ [3, 9] :=
  ⟨⟨by simp, by simp [Asc], by simp⟩, fun x => by simp; omega⟩

end AbstractExample

end PV.C02
