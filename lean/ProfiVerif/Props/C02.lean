/-
C02 — Token ring forms and all stations agree on the list of active stations.
Core: the LAS data structure (`Model/TokenRing.lean`) under witnessed token passes, for every ring
`S` (any size ≥ 1, any addresses 0..125), every own address and every stale starting content.
The timed N-station composition is not proved (DESIGN 5.5).
-/
import ProfiVerif.Lemmas.TokenRing

namespace PV.C02
open PV PV.TokenRing

/-- A ring: non-empty, strictly ascending list of valid addresses. -/
structure Ring (S : List Nat) : Prop where
  ne : S ≠ []
  asc : Asc S
  bound : ∀ z ∈ S, z ≤ 125

theorem ring_head (S : List Nat) (h : Ring S) : ∃ s0 t, S = s0 :: t ∧ (∀ z ∈ S, s0 ≤ z) := by
  cases S with
  | nil => exact absurd rfl h.ne
  | cons s0 t =>
    refine ⟨s0, t, rfl, fun z hz => ?_⟩
    simp at hz
    rcases hz with rfl | hz
    · omega
    · have := asc_lt s0 t h.asc z hz; omega

/-- Guards: token passes from/to addresses above 125 are ignored. -/
theorem witness_ignores_invalid (r : TokenRing) (sa da : Nat) (h : sa > 125 ∨ da > 125) : r.witness sa da = r :=
  TokenRing.witness_ignores_invalid r sa da h

/-- A fresh listener waits for the wrap-around of the rotation before it starts recording. -/
theorem fresh_waits_for_wrap (ts sa da : Nat) (hsa : sa ≤ 125) (hda : da ≤ 125) :
    ((TokenRing.new ts).witness sa da).las = (if da ≤ sa then .discovery else .uninitialized) ∧
    ∀ a, ((TokenRing.new ts).witness sa da).isActive a = (TokenRing.new ts).isActive a := by
  unfold witness
  rw [if_neg (by omega), if_neg (by omega)]
  simp only [TokenRing.new]
  split <;> simp [isActive]

/-- **Discovery**: one full rotation of `S` witnessed in `Discovery` makes the LAS exactly `S`, from
*any* previous content (stale entries, the own address, …), and starts verification. -/
theorem discovery_learns (r : TokenRing) (S : List Nat) (hS : Ring S) (hd : r.las = .discovery) :
    LasIs (witnessAll r (rotation S)) S ∧ (witnessAll r (rotation S)).las = .verification :=
  TokenRing.discovery_learns r S hS.ne hS.asc hS.bound hd

/-- **Verification**: a second, identical rotation is found consistent and makes the LAS `Valid`
without changing it. -/
theorem verification_confirms (r : TokenRing) (S : List Nat) (hS : Ring S) (hl : LasIs r S)
    (hv : r.las = .verification) : witnessAll r (rotation S) = { r with las := .valid } := by
  obtain ⟨s0, t, rfl, hmin⟩ := ring_head S hS
  simp only [rotation]
  exact rotGo_verification (s0 :: t) s0 (by simp) hmin hS.bound t s0 r hS.asc (fun z hz => hz)
    (fun z hz => Or.inr hz) hl hv

/-- **`las_learns`**: a fresh station (any own address) that sees the wrap-around pass and then two
identical rotations of the ring `S` has a valid LAS equal to `S`. -/
theorem las_learns (ts : Nat) (S : List Nat) (hS : Ring S) (sa da : Nat) (hsa : sa ≤ 125) (hda : da ≤ 125)
    (hwrap : da ≤ sa) :
    let r1 := (TokenRing.new ts).witness sa da
    let r3 := witnessAll (witnessAll r1 (rotation S)) (rotation S)
    r3.las = .valid ∧ LasIs r3 S := by
  intro r1 r3
  have h1 : r1.las = .discovery := by
    have := (fresh_waits_for_wrap ts sa da hsa hda).1
    simpa [hwrap] using this
  have h2 := discovery_learns r1 S hS h1
  have h3 := verification_confirms (witnessAll r1 (rotation S)) S hS h2.1 h2.2
  have e : r3 = { (witnessAll r1 (rotation S)) with las := .valid } := h3
  refine ⟨by rw [e], fun a ha => ?_⟩
  rw [e]
  exact h2.1 a ha

/-- **`las_stable`**: once `Valid` with LAS = `S`, further rotations of `S` leave it valid and equal to `S`. -/
theorem las_stable (r : TokenRing) (S : List Nat) (hS : Ring S) (hl : LasIs r S) (hv : r.las = .valid) :
    LasIs (witnessAll r (rotation S)) S ∧ (witnessAll r (rotation S)).las = .valid := by
  obtain ⟨s0, t, rfl, hmin⟩ := ring_head S hS
  simp only [rotation]
  exact rotGo_valid (s0 :: t) s0 (by simp) hmin hS.bound t s0 r hS.asc (fun z hz => hz)
    (fun z hz => Or.inr hz) hl hv

/-- **`las_tracks`**: in `Valid`, one full rotation of a *changed* ring `S'` makes the LAS equal `S'`
(a leaver is cleared by the pass that skips it, a joiner is entered when it first passes the token). -/
theorem las_tracks (r : TokenRing) (S' : List Nat) (hS : Ring S') (hv : r.las = .valid) :
    LasIs (witnessAll r (rotation S')) S' ∧ (witnessAll r (rotation S')).las = .valid := by
  -- in Valid every witnessed pass is applied exactly as in Discovery (pointwise `passBit`)
  have key : ∀ (ps : List (Nat × Nat)) (r : TokenRing), r.las = .valid → (∀ p ∈ ps, p.1 ≤ 125 ∧ p.2 ≤ 125) →
      (∀ a, a < 128 → (witnessAll r ps).isActive a = bitAfter ps a (r.isActive a)) ∧ (witnessAll r ps).las = .valid := by
    intro ps
    induction ps with
    | nil => intro r hv _; exact ⟨fun a _ => rfl, hv⟩
    | cons p ps ih =>
      intro r hv hb
      have hp := hb p (by simp)
      have hw := witness_valid r p.1 p.2 hv hp.1 hp.2
      have hv' : (r.witness p.1 p.2).las = .valid := by rw [hw, (updateLas_las r p.1 p.2).1, hv]
      have := ih (r.witness p.1 p.2) hv' (fun q hq => hb q (by simp [hq]))
      simp only [witnessAll, List.foldl, bitAfter] at this ⊢
      refine ⟨fun a ha => ?_, this.2⟩
      rw [this.1 a ha, hw, updateLas_active r p.1 p.2 a ha]
  obtain ⟨s0, t, rfl, -⟩ := ring_head S' hS
  have hb := rotGo_bounds s0 (s0 :: t) (hS.bound s0 (by simp)) hS.bound
  have := key (rotation (s0 :: t)) r hv (by simpa [rotation] using hb)
  refine ⟨fun a ha => ?_, this.2⟩
  rw [this.1 a ha]
  exact bitAfter_rotation (s0 :: t) (by simp) hS.asc a (r.isActive a)

/-- **`verification_restarts`**: a pass inconsistent with the discovered list sends the listener back to
`Discovery` — never to `Valid`. -/
theorem verification_restarts (r : TokenRing) (sa da : Nat) (hsa : sa ≤ 125) (hda : da ≤ 125)
    (hv : r.las = .verification) (hbad : r.verifyLas sa da = false) :
    (r.witness sa da).las = .discovery := by
  unfold witness
  rw [if_neg (by omega), if_neg (by omega), hv]
  simp [hbad]

/-- `claim_token` makes the LAS valid without touching it. -/
theorem claim_valid (r : TokenRing) : r.claimToken.las = .valid ∧ ∀ a, r.claimToken.isActive a = r.isActive a := by
  simp [claimToken, isActive]

/-! Non-vacuity: the two-station ring {3, 9} seen by station 7, and a one-station ring. -/
example : Ring [3, 9] := ⟨by simp, by simp [Asc], by simp⟩
example : Ring [0] := ⟨by simp, by simp [Asc], by simp⟩
example : rotation [3, 9, 20] = [(3, 9), (9, 20), (20, 3)] := rfl
example : (witnessAll (witnessAll ((TokenRing.new 7).witness 9 3) (rotation [3, 9])) (rotation [3, 9])).activeList = [3, 9] := by
  decide +kernel

end PV.C02
