/-
C17 — Diagnostics are decoded correctly and block iteration is total.

Property theorems only; helper lemmas are in `Lemmas/Diag.lean`.  All statements are about
`Model/Diag.lean`, which the `diag` correspondence ties to `src/dp/diagnostics.rs`,
`Peripheral::handle_diagnostics_response` and `DpScanner::parse_diag_response`.

The right-hand sides (`Spec.*`, `WellFormed`, `Malformed`) are written in `Nat` arithmetic over the
bytes and never mention the cursor, the shifts or the masks of the code.
-/
import ProfiVerif.Lemmas.Diag

namespace PV.C17
open PV PV.Diag

/-! ### The six header bytes -/

/-- For every PDU of at least six bytes the decoded fields equal the bytes of the reply:
`flags` = LE16(pdu[0..2]) with exactly bit 10 (the permanent bit) cleared, `ident` = BE16(pdu[4..6]),
`master_address` = `pdu[3]` unless that is 255.  No index panics. -/
theorem diag_header (pdu : Bytes) (h6 : 6 ≤ pdu.length) :
    ∃ d, decodeInfo pdu = .accept d ∧
      d.flags.toNat = Spec.flagsNat pdu ∧
      d.ident.toNat = Spec.identNat pdu ∧
      d.master = Spec.masterOf pdu := by
  refine ⟨infoOf pdu, ?_, ?_, ?_, rfl⟩
  · rw [decodeInfo_spec]
    have : ¬ pdu.length < 6 := by omega
    simp [this, infoOf]
  · exact flags_toNat _ _
  · simp only [infoOf, be16_toNat, Spec.identNat]

/-- Bit-wise form of the flags equation: bit `i` of the reported flags is bit `i` of the
little-endian word of the first two bytes, except bit 10 which is always clear. -/
theorem diag_flags_bits (pdu : Bytes) (i : Nat) :
    (infoOf pdu).flags.toNat.testBit i =
      (decide (i ≠ 10) && ((pdu.getD 0 0).toNat + 256 * (pdu.getD 1 0).toNat).testBit i) := by
  have hlt : (pdu.getD 0 0).toNat + 256 * (pdu.getD 1 0).toNat < 2 ^ 16 := by
    have h0 := (pdu.getD 0 0).toNat_lt
    have h1 := (pdu.getD 1 0).toNat_lt
    omega
  simp only [infoOf, UInt16.toNat_and, le16_toNat, Nat.testBit_and]
  have hm : (~~~PERMANENT_BIT).toNat = 64511 := by decide
  rw [hm, Bool.and_comm]
  by_cases hi : i < 16
  · have : ∀ j < 16, Nat.testBit 64511 j = decide (j ≠ 10) := by decide
    rw [this i hi]
  · have hp : 2 ^ 16 ≤ 2 ^ i := Nat.pow_le_pow_right (by decide) (by omega)
    rw [Nat.testBit_lt_two_pow (Nat.lt_of_lt_of_le hlt hp)]
    simp

/-- Which replies are diagnostics replies: exactly the data telegrams DSAP 62 ← SSAP 60 with at
least six bytes.  Everything else (short PDU, wrong SAP, token, short confirmation) is rejected;
`.rejected` carries no state, i.e. `diag`, `ext_diag` are left as they were.  No reply makes the
handler panic (including the `{:?}` formatting of the stored blocks in its debug log line). -/
theorem diag_rejects (s : PState) (hv : s.ext.Valid) (t : Telegram) :
    (Spec.accepts t = false → handle s t = .rejected) ∧
    (Spec.accepts t = true → ∃ s', handle s t = .accepted s') ∧
    handle s t ≠ .panic := by
  rw [handle_spec s hv t]
  cases t with
  | token da sa => simp [Spec.accepts]
  | sc => simp [Spec.accepts]
  | data h pdu =>
    by_cases ha : Spec.accepts (.data h pdu) = true
    · simp [ha]
    · simp [ha]

/-- The same acceptance condition and header decoding for the scanner (`DpScanEvent`): a found /
re-queried peripheral is reported with exactly the ident number and master address of the bytes. -/
theorem scan_event (known : Bool) (addr : UInt8) (t : Telegram) :
    scanReply known addr t =
      if Spec.accepts t then
        match t with
        | .data _ pdu =>
          .event (some (if known then .requery addr (infoOf pdu).ident (Spec.masterOf pdu)
                        else .found addr (infoOf pdu).ident (Spec.masterOf pdu))) true
        | _ => .event none known
      else .event none known := by
  cases t with
  | token da sa => simp [scanReply, parseReply, Spec.accepts]
  | sc => simp [scanReply, parseReply, Spec.accepts]
  | data h pdu =>
    unfold scanReply parseReply
    simp only [Spec.accepts, SAP_MASTER_MS0, SAP_SLAVE_DIAGNOSIS, decodeInfo_spec]
    by_cases hd : h.dsap = some 62 <;> by_cases hs : h.ssap = some 60 <;>
      by_cases hl : pdu.length < 6 <;> cases known <;>
      simp [hd, hs, hl, infoOf, Spec.masterOf, Nat.not_le.mpr, Nat.le_of_not_lt] <;> omega

/-! ### Storing the extended diagnostics -/

/-- `fill` stores iff a buffer exists and the data fit; then the raw buffer is exactly the data.
Otherwise *nothing* changes (content and length of the previous reply are kept). The capacity never
changes and the invariant `length ≤ capacity` is preserved. -/
theorem fill_iff (e : ExtDiag) (hv : e.Valid) (src : Bytes) :
    ((e.fill src).2 = true ↔ 0 < e.buf.length ∧ src.length ≤ e.buf.length) ∧
    ((e.fill src).2 = true → (e.fill src).1.raw = .some src) ∧
    ((e.fill src).2 = false → (e.fill src).1 = e) ∧
    (e.fill src).1.Valid ∧ (e.fill src).1.buf.length = e.buf.length := by
  refine ⟨?_, fill_raw src, ?_, fill_valid hv src⟩
  · rw [fill_spec]; split <;> simp_all
  · rw [fill_spec]; split <;> simp_all

/-- What an accepted reply leaves in the peripheral: the decoded header, and as extended
diagnostics `pdu[6..]` iff EXT_DIAG (bit 3 of byte 0) is set, a buffer exists and the data fit it —
otherwise the previously stored extended diagnostics, unchanged. -/
theorem handle_stores (s : PState) (hv : s.ext.Valid) (h : Header) (pdu : Bytes)
    (ha : Spec.accepts (.data h pdu) = true) :
    ∃ s', handle s (.data h pdu) = .accepted s' ∧
      s'.info = some (infoOf pdu) ∧
      s'.ext.Valid ∧ s'.ext.buf.length = s.ext.buf.length ∧
      s'.ext.raw =
        (if s.ext.buf.length = 0 then .none
         else if Spec.stores s.ext.buf.length pdu then .some (pdu.drop 6) else s.ext.raw) := by
  rw [handle_spec s hv, ha]
  refine ⟨_, rfl, rfl, ?_⟩
  have hf := fill_iff s.ext hv (pdu.drop 6)
  have h6 : 6 ≤ pdu.length := by
    simp only [Spec.accepts, decide_eq_true_eq] at ha; exact ha.2.2
  by_cases he : Spec.extFlag pdu = true
  · simp only [he, if_true]
    refine ⟨hf.2.2.2.1, hf.2.2.2.2, ?_⟩
    by_cases h0 : s.ext.buf.length = 0
    · have : (s.ext.fill (pdu.drop 6)).2 = false := by
        cases hb : (s.ext.fill (pdu.drop 6)).2 with
        | false => rfl
        | true => have := hf.1.mp hb; omega
      rw [hf.2.2.1 this, raw_of_valid hv]; simp [h0]
    · by_cases hfit : pdu.length - 6 ≤ s.ext.buf.length
      · have hb : (s.ext.fill (pdu.drop 6)).2 = true :=
          hf.1.mpr ⟨by omega, by rw [List.length_drop]; exact hfit⟩
        have hst : Spec.stores s.ext.buf.length pdu = true := by
          simp only [Spec.stores, he, decide_eq_true_eq, true_and]
          exact ⟨by omega, hfit⟩
        rw [hf.2.1 hb]; simp [h0, hst]
      · have hb : (s.ext.fill (pdu.drop 6)).2 = false := by
          cases hb : (s.ext.fill (pdu.drop 6)).2 with
          | false => rfl
          | true => have := (hf.1.mp hb).2; rw [List.length_drop] at this; omega
        have hst : Spec.stores s.ext.buf.length pdu = false := by
          simp [Spec.stores, hfit]
        rw [hf.2.2.1 hb]; simp [h0, hst]
  · have he' : Spec.extFlag pdu = false := by simpa using he
    simp only [he', Bool.false_eq_true, if_false]
    refine ⟨hv, trivial, ?_⟩
    have hst : Spec.stores s.ext.buf.length pdu = false := by simp [Spec.stores, he']
    rw [raw_of_valid hv]; simp [hst]

/-! ### Block iteration -/

/-- Iterating the blocks of *any* byte string terminates (`length + 1` calls of `next` suffice — no
`.hang`) without panicking, and yields at most `length` blocks. -/
theorem blocks_total (rb : Bytes) :
    ∃ bs, iterBlocks (.some rb) = .ok bs ∧ bs.length ≤ rb.length :=
  ⟨Spec.parse rb, iterBlocks_spec rb, parse_length_le rb.length rb (Nat.le_refl _)⟩

/-- Any larger step bound (the harness uses 1000) observes the same result. -/
theorem blocks_fuel (fuel : Nat) (rb : Bytes) (h : rb.length < fuel) :
    collect fuel (.some rb) 0 = iterBlocks (.some rb) := collect_fuel fuel rb h

/-- A single `next` call never panics, with or without an attached buffer and whatever the cursor,
and once it has returned `None` it keeps returning `None` (the iterator is fused). -/
theorem next_total (raw : Raw) (hr : raw ≠ .panic) (c : Nat) :
    next raw c ≠ .panic ∧
    (∀ c', next raw c = .done c' → next raw c' = .done c') := by
  cases raw with
  | panic => exact absurd rfl hr
  | none =>
    refine ⟨by simp [next], ?_⟩
    intro c' h
    simp only [next] at h ⊢
  | some rb =>
    by_cases hc : c < rb.length
    · rw [next_spec rb c hc]
      cases Spec.blockLen (rb.drop c) with
      | none =>
        refine ⟨by simp, ?_⟩
        intro c' h
        cases h
        exact next_done rb _ (Nat.le_refl _)
      | some n => exact ⟨by simp, by intro c' h; cases h⟩
    · rw [next_done rb c (by omega)]
      refine ⟨by simp, ?_⟩
      intro c' h
      cases h
      exact next_done rb c (by omega)

/-- Without a diagnostics buffer (the default) there is nothing to iterate: `next` returns `None`
at once (repaired finding C17-N1; the `unwrap()` used to panic here). -/
theorem blocks_nobuf : iterBlocks .none = .ok [] ∧ ∀ c, next .none c = .done c :=
  ⟨by decide, fun _ => rfl⟩

/-- For *every* state of `ExtendedDiagnostics` a peripheral can be in (invariant `Valid`), with or
without a buffer: iteration terminates without panic and yields the specification's blocks of the
stored bytes (none without a buffer), and `{:?}` formatting is total. -/
theorem blocks_total_full (e : ExtDiag) (hv : e.Valid) :
    e.blocks = .ok (if e.isAvailable then Spec.parse (e.buf.take e.length) else []) ∧
    e.debugFails = false := by
  refine ⟨?_, debugFails_of_valid hv⟩
  unfold ExtDiag.blocks
  rw [raw_of_valid hv]
  by_cases h0 : e.buf.length = 0
  · have ha : e.isAvailable = false := by simp [ExtDiag.isAvailable, h0]
    simp only [h0, if_true, ha, Bool.false_eq_true, if_false]
    exact blocks_nobuf.1
  · have ha : e.isAvailable = true := by simp [ExtDiag.isAvailable]; omega
    simp [h0, ha, iterBlocks_spec]

/-- The yielded blocks are exactly those of the independent recursive specification … -/
theorem blocks_spec (rb : Bytes) : iterBlocks (.some rb) = .ok (Spec.parse rb) := iterBlocks_spec rb

/-- … whose recursion (free of fuel) is: split off the well-formed block at the head, stop at the end
of the string or at a malformed head. -/
theorem parse_unfold (bs : Bytes) :
    Spec.parse bs =
      match Spec.blockLen bs with
      | none => []
      | some n => Spec.decode (bs.take n) :: Spec.parse (bs.drop n) := PV.Diag.parse_unfold bs

/-- Tiling: the raw spans of the yielded blocks are consecutive, non-overlapping slices of the buffer
starting at offset 0 (their concatenation is a prefix of it), each span is one well-formed block and
is decoded on its own bytes only, and iteration stops exactly where the string ends or where the
next block is malformed (reserved type, zero length, or cut off). -/
theorem blocks_tiling (rb : Bytes) :
    ∃ (spans : List Bytes) (rest : Bytes),
      rb = spans.flatten ++ rest ∧
      (∀ s ∈ spans, WellFormed s) ∧
      (rest = [] ∨ Malformed rest) ∧
      iterBlocks (.some rb) = .ok (spans.map Spec.decode) := by
  obtain ⟨spans, rest, e, hw, hr, hp⟩ := parse_tiling rb.length rb (Nat.le_refl _)
  exact ⟨spans, rest, e, hw, hr, by rw [iterBlocks_spec, hp]⟩

/-- The tiling is unique: *every* decomposition of the buffer into well-formed blocks followed by
nothing or a malformed block gives the yielded blocks; and "malformed" really means that no prefix
of the remainder is a well-formed block ("first malformed block"). -/
theorem blocks_tiling_unique (spans : List Bytes) (rest : Bytes)
    (hw : ∀ s ∈ spans, WellFormed s) (hr : rest = [] ∨ Malformed rest) :
    iterBlocks (.some (spans.flatten ++ rest)) = .ok (spans.map Spec.decode) ∧
    (∀ s tl, rest = s ++ tl → ¬ WellFormed s) := by
  refine ⟨by rw [iterBlocks_spec, tiling_unique spans rest hw hr], ?_⟩
  intro s tl e hs
  rcases hr with rfl | hm
  · obtain ⟨h, t, rfl, _⟩ := hs
    simp at e
  · exact malformed_no_prefix hm e hs

/-! ### Decoding per block type (at an absolute cursor position inside the buffer) -/

/-- Identifier block: header `01nnnnnn`, `n = hdr & 0x3f ≥ 1`, payload = bytes `1..n` of the block
(absolute `c+1 .. c+n`), cursor advances by `n`. -/
theorem decode_identifier (rb : Bytes) (c : Nat) (hc : c < rb.length)
    (hty : (rb.getD c 0).toNat / 64 = 1) (hn : 0 < (rb.getD c 0).toNat % 64)
    (hfit : c + (rb.getD c 0).toNat % 64 ≤ rb.length) :
    next (.some rb) c =
      .yield (.identifier ((rb.drop (c + 1)).take ((rb.getD c 0).toNat % 64 - 1)))
        (c + (rb.getD c 0).toNat % 64) := by
  rw [next_spec rb c hc]
  obtain ⟨h, tl, hd⟩ : ∃ h tl, rb.drop c = h :: tl := by
    cases hx : rb.drop c with
    | nil => have := congrArg List.length hx; simp at this; omega
    | cons h tl => exact ⟨h, tl, rfl⟩
  have hh : rb.getD c 0 = h := by
    have := congrArg (fun l => l.getD 0 0) hd
    simpa using this
  have hl : tl.length + 1 = rb.length - c := by
    have := congrArg List.length hd; simp at this; omega
  have htl : rb.drop (c + 1) = tl := by
    have := congrArg (List.drop 1) hd
    simpa [List.drop_drop, Nat.add_comm] using this
  rw [hh] at hty hn hfit ⊢
  obtain ⟨k, hk⟩ : ∃ k, h.toNat % 64 = k + 1 := ⟨h.toNat % 64 - 1, by omega⟩
  have hle : k + 1 ≤ tl.length + 1 := by omega
  rw [hd, htl]
  simp [Spec.blockLen, hty, hk, hle, Diag.decode_identifier _ _ hty]

/-- Device block: header `00nnnnnn`, same layout, payload = the raw bytes. -/
theorem decode_device (rb : Bytes) (c : Nat) (hc : c < rb.length)
    (hty : (rb.getD c 0).toNat / 64 = 0) (hn : 0 < (rb.getD c 0).toNat % 64)
    (hfit : c + (rb.getD c 0).toNat % 64 ≤ rb.length) :
    next (.some rb) c =
      .yield (.device ((rb.drop (c + 1)).take ((rb.getD c 0).toNat % 64 - 1)))
        (c + (rb.getD c 0).toNat % 64) := by
  rw [next_spec rb c hc]
  obtain ⟨h, tl, hd⟩ : ∃ h tl, rb.drop c = h :: tl := by
    cases hx : rb.drop c with
    | nil => have := congrArg List.length hx; simp at this; omega
    | cons h tl => exact ⟨h, tl, rfl⟩
  have hh : rb.getD c 0 = h := by
    have := congrArg (fun l => l.getD 0 0) hd
    simpa using this
  have hl : tl.length + 1 = rb.length - c := by
    have := congrArg List.length hd; simp at this; omega
  have htl : rb.drop (c + 1) = tl := by
    have := congrArg (List.drop 1) hd
    simpa [List.drop_drop, Nat.add_comm] using this
  rw [hh] at hty hn hfit ⊢
  obtain ⟨k, hk⟩ : ∃ k, h.toNat % 64 = k + 1 := ⟨h.toNat % 64 - 1, by omega⟩
  have hle : k + 1 ≤ tl.length + 1 := by omega
  rw [hd, htl]
  simp [Spec.blockLen, hty, hk, hle, Diag.decode_device _ _ hty]

/-- Channel block: header `10mmmmmm`, always three bytes: module = low six bits of byte 0, channel
= low six bits of byte 1, input / output = bits 6 / 7 of byte 1, data type = bits 5..7 of byte 2
(0 and 7 → invalid), error = bits 0..4 of byte 2 (1..9 named, 16..31 vendor, rest reserved). -/
theorem decode_channel (rb : Bytes) (c : Nat) (hty : (rb.getD c 0).toNat / 64 = 2)
    (hfit : c + 3 ≤ rb.length) :
    next (.some rb) c =
      .yield (.channel {
        module := UInt8.ofNat ((rb.getD c 0).toNat % 64),
        channel := UInt8.ofNat ((rb.getD (c + 1) 0).toNat % 64),
        input := (rb.getD (c + 1) 0).toNat / 64 % 2 = 1,
        output := (rb.getD (c + 1) 0).toNat / 128 = 1,
        dtype := Spec.dataTypeTable.getD ((rb.getD (c + 2) 0).toNat / 32) .invalid,
        error := Spec.errorOf ((rb.getD (c + 2) 0).toNat % 32) }) (c + 3) := by
  rw [next_spec rb c (by omega)]
  obtain ⟨h, b1, b2, tl, hd⟩ : ∃ h b1 b2 tl, rb.drop c = h :: b1 :: b2 :: tl := by
    have hlen : (rb.drop c).length = rb.length - c := List.length_drop
    match hx : rb.drop c with
    | [] => rw [hx] at hlen; simp at hlen; omega
    | [_] => rw [hx] at hlen; simp at hlen; omega
    | [_, _] => rw [hx] at hlen; simp at hlen; omega
    | h :: b1 :: b2 :: tl => exact ⟨h, b1, b2, tl, rfl⟩
  have g : ∀ i, rb.getD (c + i) 0 = (rb.drop c).getD i 0 := by
    intro i; simp [List.getD_eq_getElem?_getD]
  have g0 := g 0
  have g1 := g 1
  have g2 := g 2
  rw [hd] at g0 g1 g2
  simp only [Nat.add_zero, List.getD_cons_zero, List.getD_cons_succ] at g0 g1 g2
  rw [g0] at hty ⊢
  rw [g1, g2, hd]
  simp [Spec.blockLen, hty, Spec.decode]

/-- The set bits of an identifier block as rendered (`iter_ones`): ascending, and `i` is listed iff
bit `i % 8` of payload byte `i / 8` is set. -/
theorem identifier_bits (bits : Bytes) :
    (ones bits).Pairwise (· < ·) ∧
    ∀ i, i ∈ ones bits ↔ i < 8 * bits.length ∧ (bits.getD (i / 8) 0).toNat / 2 ^ (i % 8) % 2 = 1 := by
  rw [ones_spec]
  unfold Spec.ones
  refine ⟨List.Pairwise.filter _ List.pairwise_lt_range, ?_⟩
  intro i
  simp [List.mem_filter, List.mem_range]

/-! ### Non-vacuity -/

-- the repository's own test vector: identifier, channel and device block
example : iterBlocks (.some [0x44, 0x00, 0x01, 0x00, 0x88, 0x41, 0x21, 0x04, 0x10, 0x20, 0x30]) =
    .ok [.identifier [0x00, 0x01, 0x00],
         .channel ⟨8, 1, true, false, .bit, .shortCircuit⟩,
         .device [0x10, 0x20, 0x30]] := by decide
example : ones [0x00, 0x01, 0x00] = [8] := by decide
-- F5 witnesses: zero-length headers stop the iteration (directly and behind a valid block)
example : iterBlocks (.some [0x00]) = .ok [] ∧ iterBlocks (.some [0x40]) = .ok [] ∧
    iterBlocks (.some [0x02, 0xaa, 0x00, 0x02, 0xbb]) = .ok [.device [0xaa]] := by decide
-- hypotheses of the tiling theorems are met by a string with two blocks and a cut-off remainder
example : WellFormed [0x42, 0x81] ∧ WellFormed [0x81, 0x42, 0x21] ∧ Malformed [0x05, 0x01] :=
  ⟨⟨0x42, [0x81], rfl, Or.inr (by decide)⟩, ⟨0x81, [0x42, 0x21], rfl, Or.inl (by decide)⟩,
   ⟨0x05, [0x01], rfl, Or.inr (Or.inr (Or.inr (by decide)))⟩⟩
-- header: permanent bit removed, ident big-endian, master 255 = none; ext. data stored / not stored
example : decodeInfo [0x08, 0x0c, 0x00, 0xff, 0x12, 0x34] = .accept ⟨0x0808, 0x1234, none⟩ := by decide
example : Spec.flagsNat [0x08, 0x0c, 0x00, 0xff, 0x12, 0x34] = 0x0808 ∧
    Spec.identNat [0x08, 0x0c, 0x00, 0xff, 0x12, 0x34] = 0x1234 := by decide
example : (PState.init 4).ext.Valid ∧
    Spec.accepts (.data goodHeader [0x08, 0x0c, 0x00, 0x03, 0x12, 0x34, 0x02, 0x55]) = true ∧
    Spec.stores 4 [0x08, 0x0c, 0x00, 0x03, 0x12, 0x34, 0x02, 0x55] = true ∧
    Spec.stores 1 [0x08, 0x0c, 0x00, 0x03, 0x12, 0x34, 0x02, 0x55] = false := by
  refine ⟨valid_ofSize 4, by decide, by decide, by decide⟩
example : handle (PState.init 4) (.data goodHeader [0x08, 0x0c, 0x00, 0x03, 0x12, 0x34, 0x02, 0x55]) =
    .accepted ⟨some ⟨0x0808, 0x1234, some 3⟩, ⟨[0x02, 0x55, 0, 0], 2⟩⟩ := by decide
example : (ExtDiag.ofSize 0).Valid ∧ (ExtDiag.ofSize 0).isAvailable = false ∧
    (ExtDiag.ofSize 0).blocks = .ok [] := ⟨valid_ofSize 0, by decide, by decide⟩
example : handle (PState.init 4) .sc = .rejected ∧
    handle (PState.init 4) (.data goodHeader [0x08, 0x0c, 0x00, 0x03, 0x12]) = .rejected := by decide
example : decide (3 < [0x00, 0x43, 0x01, 0x02].length) = true ∧
    ([0x00, 0x43, 0x01, 0x02].getD 1 (0 : UInt8)).toNat / 64 = 1 := by decide

end PV.C17
